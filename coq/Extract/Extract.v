(* Extraction of the executable models: ExtrOcamlBasic only (bool, option, list, prod, unit,
   sumbool mapped to OCaml's); numbers stay Coq's positive/N/Z; no Extract Constant. *)
From Coq Require Import Extraction ExtrOcamlBasic.
From AV Require Import Model.Dispatch.
Extraction Language OCaml.
Extraction "model.ml" dispatch.
