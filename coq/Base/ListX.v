(* List lemmas missing from Coq 8.16's standard library. *)
From Coq Require Import List Arith Lia.
Import ListNotations.

Lemma nth_skipn' {A} (l : list A) n i d : nth i (skipn n l) d = nth (n + i) l d.
Proof. revert l; induction n as [|n IH]; intros l; [reflexivity|]. destruct l; [destruct i; reflexivity|]. cbn. apply IH. Qed.
Lemma nth_firstn' {A} (l : list A) n i d : (i < n)%nat -> nth i (firstn n l) d = nth i l d.
Proof. revert l i; induction n as [|n IH]; intros l i Hi; [lia|]. destruct l; [reflexivity|]. destruct i; [reflexivity|]. cbn. apply IH; lia. Qed.
Lemma Forall_firstn' {A} (P : A -> Prop) n l : Forall P l -> Forall P (firstn n l).
Proof. revert l; induction n; intros l H; [constructor|]. destruct H; constructor; auto. Qed.
Lemma Forall_skipn' {A} (P : A -> Prop) n l : Forall P l -> Forall P (skipn n l).
Proof. revert l; induction n; intros l H; [exact H|]. destruct H; [constructor|]. cbn. auto. Qed.

Lemma nth_ext_len {A} (l1 l2 : list A) d :
  length l1 = length l2 -> (forall i, i < length l1 -> nth i l1 d = nth i l2 d) -> l1 = l2.
Proof.
  revert l2; induction l1 as [|a l1 IH]; intros [|b l2] Hl H; try discriminate; [reflexivity|].
  f_equal; [exact (H 0 (Nat.lt_0_succ _))|].
  apply IH; [now injection Hl|]. intros i Hi. apply (H (S i)). cbn; lia.
Qed.

Lemma nth_map_seq {A} (f : nat -> A) s n i d : i < n -> nth i (map f (seq s n)) d = f (s + i).
Proof.
  intros Hi. rewrite (nth_indep _ d (f 0)) by (rewrite map_length, seq_length; exact Hi).
  rewrite map_nth with (d := 0), seq_nth by exact Hi. reflexivity.
Qed.
