(* Strict RFC 3629 UTF-8 (shared by C07, C09, C17, C20). *)
From Coq Require Import List NArith ZArith Arith Lia Bool ZifyN ZifyNat ZifyBool.
Import ListNotations.
Local Open Scope N_scope.
Ltac Zify.zify_post_hook ::= Z.div_mod_to_equations.

(* RFC 3629 UTF-8: bytes and code points as N *)
Definition scalar (c : N) : bool := (c <? 55296) || ((57343 <? c) && (c <=? 1114111)).   (* not D800..DFFF, <= 10FFFF *)
Definition cont (b : N) : bool := (128 <=? b) && (b <=? 191).
Definition in_rng (lo hi b : N) : bool := (lo <=? b) && (b <=? hi).

Definition encode (c : N) : list N :=
  if c <? 128 then [c]
  else if c <? 2048 then [192 + c / 64; 128 + c mod 64]
  else if c <? 65536 then [224 + c / 4096; 128 + (c / 64) mod 64; 128 + c mod 64]
  else [240 + c / 262144; 128 + (c / 4096) mod 64; 128 + (c / 64) mod 64; 128 + c mod 64].

(* strict decoder of one scalar value (Table 3-7 of the Unicode standard) *)
Definition decode1 (bs : list N) : option (N * list N) :=
  match bs with
  | [] => None
  | b0 :: r =>
    if b0 <? 128 then Some (b0, r)
    else if in_rng 194 223 b0 then
      match r with b1 :: r' => if cont b1 then Some ((b0 - 192) * 64 + (b1 - 128), r') else None | _ => None end
    else if in_rng 224 239 b0 then
      match r with
      | b1 :: b2 :: r' =>
        let lo := if b0 =? 224 then 160 else 128 in
        let hi := if b0 =? 237 then 159 else 191 in
        if in_rng lo hi b1 && cont b2
        then Some ((b0 - 224) * 4096 + (b1 - 128) * 64 + (b2 - 128), r') else None
      | _ => None end
    else if in_rng 240 244 b0 then
      match r with
      | b1 :: b2 :: b3 :: r' =>
        let lo := if b0 =? 240 then 144 else 128 in
        let hi := if b0 =? 244 then 143 else 191 in
        if in_rng lo hi b1 && cont b2 && cont b3
        then Some ((b0 - 240) * 262144 + (b1 - 128) * 4096 + (b2 - 128) * 64 + (b3 - 128), r') else None
      | _ => None end
    else None
  end.

Lemma ltb_false a b : b <= a -> (a <? b) = false. Proof. intros; now apply N.ltb_ge. Qed.
Lemma in_rng_true lo hi b : lo <= b <= hi -> in_rng lo hi b = true.
Proof. intros [? ?]. unfold in_rng. now rewrite (proj2 (N.leb_le lo b)), (proj2 (N.leb_le b hi)). Qed.
Lemma in_rng_false_lo lo hi b : b < lo -> in_rng lo hi b = false.
Proof. intros. unfold in_rng. now rewrite (proj2 (N.leb_gt lo b)). Qed.
Lemma in_rng_false_hi lo hi b : hi < b -> in_rng lo hi b = false.
Proof. intros. unfold in_rng. rewrite (proj2 (N.leb_gt b hi)) by assumption. apply andb_false_r. Qed.
Lemma cont_true b : 128 <= b <= 191 -> cont b = true.
Proof. intros. now apply (in_rng_true 128 191). Qed.

Theorem decode1_encode c rest : scalar c = true -> decode1 (encode c ++ rest) = Some (c, rest).
Proof.
  intros Hs. unfold scalar in Hs. unfold encode.
  destruct (N.ltb_spec c 128) as [H1|H1]; [cbn [app decode1]; destruct (N.ltb_spec c 128); [reflexivity|lia]|].
  destruct (N.ltb_spec c 2048) as [H2|H2].
  { (* two bytes *)
    cbn [app decode1].
    assert (B0 : 194 <= 192 + c / 64 <= 223) by lia.
    assert (B1 : 128 <= 128 + c mod 64 <= 191) by lia.
    rewrite ltb_false by lia. rewrite in_rng_true by exact B0. rewrite cont_true by exact B1.
    f_equal. f_equal. lia. }
  destruct (N.ltb_spec c 65536) as [H3|H3].
  { (* three bytes *)
    cbn [app decode1].
    assert (B0 : 224 <= 224 + c / 4096 <= 239) by lia.
    assert (B2 : 128 <= 128 + c mod 64 <= 191) by lia.
    rewrite ltb_false by lia. rewrite in_rng_false_hi by lia. rewrite in_rng_true by exact B0.
    rewrite (cont_true _ B2), andb_true_r.
    assert (V : (224 + c / 4096 - 224) * 4096 + (128 + (c / 64) mod 64 - 128) * 64 + (128 + c mod 64 - 128) = c) by lia.
    destruct (N.eqb_spec (224 + c / 4096) 224) as [E0|N0].
    - destruct (N.eqb_spec (224 + c / 4096) 237) as [E|_]; [lia|].
      rewrite in_rng_true by lia. now rewrite V.
    - destruct (N.eqb_spec (224 + c / 4096) 237) as [E|_].
      + assert (c < 55296).
        { destruct (N.ltb_spec c 55296); [assumption|]. cbn [orb] in Hs.
          destruct (N.ltb_spec 57343 c); [lia|discriminate]. }
        rewrite in_rng_true by lia. now rewrite V.
      + rewrite in_rng_true by lia. now rewrite V. }
  (* four bytes *)
  assert (Hmax : c <= 1114111).
  { destruct (N.ltb_spec c 55296); [lia|]. cbn [orb] in Hs. destruct (N.ltb_spec 57343 c); [|discriminate].
    cbn [andb] in Hs. now apply N.leb_le. }
  cbn [app decode1].
  assert (B0 : 240 <= 240 + c / 262144 <= 244) by lia.
  assert (B2 : 128 <= 128 + (c / 64) mod 64 <= 191) by lia.
  assert (B3 : 128 <= 128 + c mod 64 <= 191) by lia.
  rewrite ltb_false by lia. rewrite in_rng_false_hi by lia. rewrite in_rng_false_hi by lia.
  rewrite in_rng_true by exact B0. rewrite (cont_true _ B2), (cont_true _ B3), !andb_true_r.
  assert (V : (240 + c / 262144 - 240) * 262144 + (128 + (c / 4096) mod 64 - 128) * 4096
              + (128 + (c / 64) mod 64 - 128) * 64 + (128 + c mod 64 - 128) = c) by lia.
  destruct (N.eqb_spec (240 + c / 262144) 240) as [E0|N0].
  - destruct (N.eqb_spec (240 + c / 262144) 244) as [E|_]; [lia|].
    rewrite in_rng_true by lia. now rewrite V.
  - destruct (N.eqb_spec (240 + c / 262144) 244) as [E|_].
    + rewrite in_rng_true by lia. now rewrite V.
    + rewrite in_rng_true by lia. now rewrite V.
Qed.

(* whole-string validity: repeatedly decode; fuel = length *)
Fixpoint decode_all (fuel : nat) (bs : list N) : option (list N) :=
  match bs with
  | [] => Some []
  | _ => match fuel with
         | O => None
         | S fuel => match decode1 bs with
                     | Some (c, r) => option_map (cons c) (decode_all fuel r)
                     | None => None end
         end
  end.
Definition valid_utf8 (bs : list N) : bool := match decode_all (length bs) bs with Some _ => true | None => false end.

Lemma encode_len c : (1 <= length (encode c) <= 4)%nat.
Proof. unfold encode. repeat match goal with |- context [?a <? ?b] => destruct (a <? b) end; cbn; lia. Qed.

Theorem decode_all_encode cs : Forall (fun c => scalar c = true) cs ->
  forall fuel, (length (flat_map encode cs) <= fuel)%nat -> decode_all fuel (flat_map encode cs) = Some cs.
Proof.
  induction 1 as [|c cs Hc _ IH]; intros fuel Hf; [destruct fuel; reflexivity|].
  cbn [flat_map] in *. rewrite app_length in Hf. pose proof (encode_len c).
  destruct fuel as [|fuel]; [lia|].
  destruct (encode c) as [|e0 er] eqn:Ee; [cbn in H; lia|].
  cbn [app decode_all].
  change (e0 :: er ++ flat_map encode cs) with ((e0 :: er) ++ flat_map encode cs).
  rewrite <- Ee. rewrite decode1_encode by exact Hc.
  rewrite IH; [reflexivity|]. cbn [length] in Hf. lia.
Qed.
Print Assumptions decode_all_encode.
