(* Word-level bit lemmas shared by every bit-mask model (C19, C03, C12, C07). *)
From Coq Require Import List NArith ZArith Lia Bool.
Import ListNotations.
Local Open Scope N_scope.

Lemma testbit_add_shift a b k i :
  a < 2^k ->
  N.testbit (a + 2^k * b) i = if i <? k then N.testbit a i else N.testbit b (i - k).
Proof.
  intros Ha. destruct (N.ltb_spec i k) as [Hlt|Hge].
  - rewrite <- (N.mod_pow2_bits_low (a + 2^k*b) k i Hlt).
    replace (a + 2^k*b) with (a + b * 2^k) by lia.
    rewrite N.mod_add by (apply N.pow_nonzero; lia).
    rewrite N.mod_small by assumption. reflexivity.
  - replace i with ((i - k) + k) at 1 by lia.
    rewrite <- N.div_pow2_bits.
    replace (a + 2^k*b) with (a + b * 2^k) by lia.
    rewrite N.div_add by (apply N.pow_nonzero; lia).
    rewrite N.div_small by assumption. reflexivity.
Qed.

Lemma testbit_high a k i : a < 2^k -> k <= i -> N.testbit a i = false.
Proof.
  intros Ha Hk. replace i with ((i - k) + k) by lia.
  rewrite <- N.div_pow2_bits, N.div_small by assumption. apply N.bits_0.
Qed.

Lemma ones_pred k : 2^k - 1 = N.ones k.
Proof. rewrite N.ones_equiv. lia. Qed.

Lemma land_ones_lt a k : N.land a (N.ones k) < 2^k.
Proof. rewrite N.land_ones. apply N.mod_lt, N.pow_nonzero. discriminate. Qed.
