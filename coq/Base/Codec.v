(* Uniform case interface between the Rust harness, the extracted OCaml driver and
   in-Coq evaluation: every operation is  list (list Z) -> list (list Z). *)
From Coq Require Import List ZArith NArith String Bool.
Import ListNotations.

Notation args := (list (list Z)).
Notation opfun := (list (list Z) -> list (list Z)).

Definition arg (n : nat) (a : args) : list Z := nth n a [].
Definition argz (n : nat) (a : args) : Z := hd 0%Z (arg n a).
Definition argn (n : nat) (a : args) : nat := Z.to_nat (argz n a).
Definition argN (n : nat) (a : args) : N := Z.to_N (argz n a).
Definition argb (n : nat) (a : args) : bool := negb (Z.eqb (argz n a) 0).
Definition bytes_of (l : list Z) : list N := map Z.to_N l.
Definition zs_of_bytes (l : list N) : list Z := map Z.of_N l.
Definition bools_of (l : list Z) : list bool := map (fun z => negb (Z.eqb z 0)) l.
Definition zs_of_bools (l : list bool) : list Z := map (fun b : bool => if b then 1%Z else 0%Z) l.
Definition zs_of_nats (l : list nat) : list Z := map Z.of_nat l.
Definition zopt (o : option Z) : list Z := match o with Some z => [z] | None => [] end.
Definition zb (b : bool) : Z := if b then 1%Z else 0%Z.

(* error results: a single group [-1; kind] *)
Definition err_out (kind : Z) : list (list Z) := [[(-1)%Z; kind]].

Fixpoint lookup (tbl : list (string * opfun)) (name : string) : option opfun :=
  match tbl with
  | [] => None
  | (n, f) :: r => if String.eqb n name then Some f else lookup r name
  end.
