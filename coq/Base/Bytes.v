(* Byte buffers as [list N], little-endian values, Arrow (LSB-first) bit addressing. *)
From Coq Require Import List Arith NArith Lia Bool.
From AV Require Import Base.ListX Base.Bits.
Import ListNotations.
Local Open Scope N_scope.

Fixpoint le_val (bs : list N) : N :=
  match bs with [] => 0 | b :: r => b + 2^8 * le_val r end.

Definition wf_bytes (bs : list N) := Forall (fun b => b < 2^8) bs.

(* bit i (LSB-first, Arrow order) of a byte buffer; out-of-range reads give false *)
Definition bit_at (bs : list N) (i : nat) : bool :=
  N.testbit (nth (i / 8)%nat bs 0) (N.of_nat (i mod 8)%nat).

(* the bit range (off,len) of a buffer as a list of booleans: the spec-side object *)
Definition bits_range (bs : list N) (off len : nat) : list bool :=
  map (fun i => bit_at bs (off + i)) (seq 0 len).

Definition read_u64 (bs : list N) (byte_off : nat) : N := le_val (firstn 8 (skipn byte_off bs)).

Lemma le_val_bound bs : wf_bytes bs -> le_val bs < 2^(8 * N.of_nat (length bs)).
Proof.
  induction 1 as [|b r Hb Hr IH]; [reflexivity|].
  cbn [le_val length]. rewrite Nat2N.inj_succ, N.mul_succ_r, N.add_comm, N.pow_add_r.
  nia.
Qed.

Lemma le_val_testbit bs i : wf_bytes bs ->
  N.testbit (le_val bs) (N.of_nat i) = bit_at bs i.
Proof.
  intros Hwf. revert i. induction Hwf as [|b r Hb Hr IH]; intros i.
  - unfold bit_at. cbn [le_val]. rewrite N.bits_0. destruct (i / 8)%nat; cbn [nth]; now rewrite N.bits_0.
  - cbn [le_val]. rewrite testbit_add_shift by exact Hb.
    destruct (N.ltb_spec (N.of_nat i) 8) as [Hlt|Hge].
    + unfold bit_at. assert (Hi : (i < 8)%nat) by lia.
      rewrite Nat.div_small, Nat.mod_small by exact Hi. reflexivity.
    + assert (Hi : (8 <= i)%nat) by lia.
      remember (i - 8)%nat as k eqn:Ek.
      assert (Ei : i = (k + 1 * 8)%nat) by lia. clear Ek. subst i.
      replace (N.of_nat (k + 1 * 8) - 8) with (N.of_nat k) by lia.
      rewrite IH. unfold bit_at.
      rewrite Nat.div_add, Nat.mod_add by lia.
      replace (k / 8 + 1)%nat with (S (k / 8)) by lia. reflexivity.
Qed.

Lemma wf_firstn_skipn bs a b : wf_bytes bs -> wf_bytes (firstn a (skipn b bs)).
Proof. intros H. apply Forall_firstn', Forall_skipn', H. Qed.

Lemma nth_bound bs k : wf_bytes bs -> nth k bs 0 < 2^8.
Proof.
  intros H. destruct (Nat.lt_ge_cases k (length bs)) as [Hl|Hl].
  - unfold wf_bytes in H. rewrite Forall_forall in H. apply H, nth_In, Hl.
  - rewrite nth_overflow by exact Hl. reflexivity.
Qed.

Lemma read_u64_bound bs o : wf_bytes bs -> read_u64 bs o < 2^64.
Proof.
  intros Hwf. unfold read_u64. eapply N.lt_le_trans; [apply le_val_bound, wf_firstn_skipn, Hwf|].
  apply N.pow_le_mono_r; [lia|]. rewrite firstn_length. lia.
Qed.

Lemma bit_at_firstn_skipn bs off j : (j < 64)%nat -> (off + 8 <= length bs)%nat ->
  bit_at (firstn 8 (skipn off bs)) j = bit_at bs (8 * off + j).
Proof.
  intros Hj Hl. unfold bit_at.
  assert (Hd : (j / 8 < 8)%nat) by (apply Nat.div_lt_upper_bound; lia).
  rewrite nth_firstn' by exact Hd.
  rewrite nth_skipn'.
  replace (8 * off + j)%nat with (j + off * 8)%nat by lia.
  rewrite Nat.div_add, Nat.mod_add by lia. f_equal. f_equal. lia.
Qed.

Lemma bits_range_length bs off len : length (bits_range bs off len) = len.
Proof. unfold bits_range. now rewrite map_length, seq_length. Qed.

Lemma bits_range_nth bs off len i : (i < len)%nat -> nth i (bits_range bs off len) false = bit_at bs (off + i).
Proof. intros Hi. unfold bits_range. now rewrite nth_map_seq. Qed.
