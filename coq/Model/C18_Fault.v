(* C18 - fault model of a byte sink and of a writer driving it.

   A sink is a SCRIPT: one response per write/flush call it receives.  A writer is the sequence of
   sink-level calls it performs (Write bytes | Flush) with `?` propagation: the first failing call
   ends the run with an error and nothing more is written.

   write_all follows the documented semantics of std::io::Write::write_all:
     loop { match write(buf) { Ok(0) => Err(WriteZero), Ok(n) => buf = &buf[n..],
                               Err(Interrupted) => continue, Err(e) => return Err(e) } }
   and performs no call at all on an empty buffer.  flush is NOT retried by std.

   Definitions only; the theorems are in Proofs/C18_Fault.v. *)
From Coq Require Import List Arith ZArith Bool.
Import ListNotations.

Inductive resp :=
| Accept (n : nat)      (* Ok(m) with m = clamp n to 1..len : a (possibly short) write *)
| AcceptAll             (* Ok(len) *)
| Interrupted           (* Err(ErrorKind::Interrupted) *)
| Zero                  (* Ok(0) on a non-empty buffer *)
| Fail.                 (* Err(other) *)

Inductive outcome := Done | Failed.
Inductive call := Write (buf : list Z) | Flush.

(* [sticky]: what the sink answers once the script is exhausted: true = every further call fails
   (a dead device), false = every further call is accepted in full. *)
Fixpoint write_all (script : list resp) (sticky : bool) (buf : list Z) : outcome * list Z * list resp :=
  match buf with
  | [] => (Done, [], script)
  | _ :: _ =>
    match script with
    | [] => if sticky then (Failed, [], []) else (Done, buf, [])
    | Fail :: s' => (Failed, [], s')
    | Zero :: s' => (Failed, [], s')
    | Interrupted :: s' => write_all s' sticky buf
    | AcceptAll :: s' => (Done, buf, s')
    | Accept n :: s' =>
        let k := Nat.min (Nat.max n 1) (length buf) in
        let '(o, out, s'') := write_all s' sticky (skipn k buf) in
        (o, firstn k buf ++ out, s'')
    end
  end.

(* one flush call: an error of any kind (Interrupted included) is returned to the caller *)
Definition flush1 (script : list resp) (sticky : bool) : outcome * list resp :=
  match script with
  | [] => (if sticky then Failed else Done, [])
  | Fail :: s' => (Failed, s')
  | Interrupted :: s' => (Failed, s')
  | _ :: s' => (Done, s')
  end.

Fixpoint run (script : list resp) (sticky : bool) (calls : list call) : outcome * list Z :=
  match calls with
  | [] => (Done, [])
  | Write b :: cs =>
      let '(o, out, s') := write_all script sticky b in
      match o with
      | Done => let '(o2, out2) := run s' sticky cs in (o2, out ++ out2)
      | Failed => (Failed, out)
      end
  | Flush :: cs =>
      let '(o, s') := flush1 script sticky in
      match o with
      | Done => run s' sticky cs
      | Failed => (Failed, [])
      end
  end.

Definition call_bytes (c : call) : list Z := match c with Write b => b | Flush => [] end.
Definition bytes_of_calls (calls : list call) : list Z := concat (map call_bytes calls).
Definition nonempty_call (c : call) : bool := match c with Write [] => false | _ => true end.
Definition is_write (c : call) : bool := match c with Write _ => true | Flush => false end.
Definition soft (r : resp) : bool := match r with Fail | Zero => false | _ => true end.

Definition is_prefix (a b : list Z) : Prop := exists r, b = a ++ r.

(* ---------------------------------------------------------------- executable helpers used by the
   correspondence predicate (Model/D_C18.v) *)
Fixpoint list_eqb (a b : list Z) : bool :=
  match a, b with
  | [], [] => true
  | x :: a', y :: b' => if Z.eqb x y then list_eqb a' b' else false
  | _, _ => false
  end.
Fixpoint prefixb (a b : list Z) : bool :=
  match a, b with
  | [], _ => true
  | x :: a', y :: b' => if Z.eqb x y then prefixb a' b' else false
  | _ :: _, [] => false
  end.

(* the fault-free call trace as recorded by the instrumented sink: one entry per call, the number of
   bytes of a write call or -1 for a flush; the calls are recovered by cutting the fault-free bytes *)
Fixpoint calls_of (trace : list Z) (ff : list Z) : list call :=
  match trace with
  | [] => []
  | t :: r => if (t <? 0)%Z then Flush :: calls_of r ff
              else let n := Z.to_nat t in Write (firstn n ff) :: calls_of r (skipn n ff)
  end.

(* fault kinds injected by the harness at call index k:
   0 = Err(Other) at k and at every later call (sticky), 1 = Err(Other) once, 2 = short write of one
   byte, 3 = Err(Interrupted) once, 4 = Ok(0) once.  Kinds 2 and 4 do not apply to a flush call. *)
Definition fault_resp (kind : nat) : resp :=
  match kind with
  | 0 | 1 => Fail
  | 2 => Accept 1
  | 3 => Interrupted
  | _ => Zero
  end.
Definition script_of (kind k : nat) : list resp := repeat AcceptAll k ++ [fault_resp kind].
Definition sticky_of (kind : nat) : bool := Nat.eqb kind 0.
