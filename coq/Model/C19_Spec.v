(* C19 — list-of-bool specifications of the whole-API operations on bit-packed data. *)
From Coq Require Import List Arith NArith ZArith Bool.
From AV Require Import Base.ListX Base.Bits Base.Bytes Model.C19_Bits.
Import ListNotations.

(* word functions allowed in unary/binary/quaternary helpers are bit-wise: they are given by
   a boolean function applied to each bit position *)
Definition bfun2 (code : nat) (a b : bool) : bool :=
  match code with
  | 0 => a && b | 1 => a || b | 2 => xorb a b | 3 => a && negb b
  | 4 => negb (a && b) | 5 => negb a || b | 6 => a | _ => b
  end.
Definition bfun1 (code : nat) (a : bool) : bool :=
  match code with 0 => negb a | 1 => a | 2 => true | _ => false end.
Definition bfun4 (code : nat) (a b c d : bool) : bool :=
  match code with
  | 0 => (a && b) || (c && d)
  | 1 => xorb (xorb a b) (xorb c d)
  | 2 => (a || b) && negb (c && d)
  | _ => if a then b else (c || d)
  end.

Fixpoint map2 {A B C} (f : A -> B -> C) (l1 : list A) (l2 : list B) : list C :=
  match l1, l2 with x :: r1, y :: r2 => f x y :: map2 f r1 r2 | _, _ => [] end.
Fixpoint map4 {A} (f : A -> A -> A -> A -> A) (l1 l2 l3 l4 : list A) : list A :=
  match l1, l2, l3, l4 with
  | a :: r1, b :: r2, c :: r3, d :: r4 => f a b c d :: map4 f r1 r2 r3 r4
  | _, _, _, _ => [] end.

(* in-place operation on a destination buffer: bits outside [off, off+len) unchanged *)
Definition inplace (dst : list N) (off : nat) (newbits : list bool) : list N :=
  bytes_of_bits (length dst) (splice_bits dst off newbits).

(* position of the n-th (1-based) true at or after [start], plus one; len when there are fewer *)
Definition find_nth (l : list bool) (start n : nat) : nat :=
  if (n =? 0)%nat then start else
  match nth_error (positions (skipn start l)) (n - 1) with
  | Some idx => (start + idx + 1)%nat
  | None => length l
  end.

Definition union_spec (a b : option (list bool)) : option (list bool) :=
  let has_null (l : list bool) := existsb negb l in
  match a, b with
  | Some x, Some y => if has_null x || has_null y then Some (map2 andb x y) else None
  | Some x, None | None, Some x => if has_null x then Some x else None
  | None, None => None
  end.

Fixpoint union_many_spec (ls : list (option (list bool))) : option (list bool) :=
  match ls with
  | [] => None
  | o :: r =>
      let keep := match o with Some x => if existsb negb x then Some x else None | None => None end in
      match keep, union_many_spec r with
      | Some x, Some y => Some (map2 andb x y)
      | Some x, None => Some x
      | None, y => y
      end
  end.

(* all nulls of other are nulls of self *)
Definition contains_spec (self other : list bool) : bool :=
  forallb (fun p : bool * bool => negb (fst p) || snd p) (List.combine self other).

Definition expand_spec (l : list bool) (count : nat) : list bool :=
  flat_map (fun b => repeat b count) l.

(* BooleanBufferBuilder: the state is the list of bits *)
Inductive bop :=
| BAppend (b : bool) | BAppendN (n : nat) (b : bool) | BAppendSlice (l : list bool)
| BAppendPacked (bits : list bool)   (* append_packed_range / append_buffer: the denoted bits *)
| BSetBit (i : nat) (b : bool) | BTruncate (n : nat) | BResize (n : nat) | BAdvance (n : nat)
| BAppendWord (bits : list bool).

Fixpoint set_nth {A} (l : list A) (i : nat) (x : A) : list A :=
  match l, i with [], _ => [] | _ :: r, O => x :: r | y :: r, S k => y :: set_nth r k x end.

Definition bstep (st : list bool) (o : bop) : list bool :=
  match o with
  | BAppend b => st ++ [b]
  | BAppendN n b => st ++ repeat b n
  | BAppendSlice l => st ++ l
  | BAppendPacked l => st ++ l
  | BAppendWord l => st ++ l
  | BSetBit i b => set_nth st i b
  | BTruncate n => firstn n st
  | BResize n => if (n <=? length st)%nat then firstn n st else st ++ repeat false (n - length st)
  | BAdvance n => st ++ repeat false n
  end.
Definition builder_spec (ops : list bop) : list bool := fold_left bstep ops [].

(* BitIterator as a double-ended queue of booleans; script steps: 0 next, 1 next_back, 2 nth k, 3 nth_back k *)
Definition zob (o : option bool) : Z := match o with None => (-1)%Z | Some true => 1%Z | Some false => 0%Z end.
Definition pop_front (l : list bool) : option bool * list bool :=
  match l with [] => (None, []) | b :: r => (Some b, r) end.
Definition pop_back (l : list bool) : option bool * list bool :=
  match rev l with [] => (None, []) | b :: r => (Some b, rev r) end.
Fixpoint iter_script (l : list bool) (steps : list (Z * nat)) : list Z :=
  match steps with
  | [] => [Z.of_nat (length l); zob (fst (pop_back l)); zob (if existsb (fun b => b) l then Some true else match l with [] => None | _ => Some false end)]
  | (c, k) :: r =>
      let '(o, l') :=
        if Z.eqb c 0 then pop_front l
        else if Z.eqb c 1 then pop_back l
        else if Z.eqb c 2 then pop_front (skipn k l)
        else pop_back (firstn (length l - k) l) in
      zob o :: iter_script l' r
  end.
