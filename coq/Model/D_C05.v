(* C05 dispatch table: wraps the C05 models in the uniform case interface. *)
From Coq Require Import List ZArith NArith Arith String Bool.
From AV Require Import Base.Codec Model.C05_Enc Model.C05_Levels.
Import ListNotations.
Local Open Scope string_scope.
Local Open Scope list_scope.

Definition ns_of (l : list Z) : list N := map Z.to_N l.
Definition zs_of_ns (l : list N) : list Z := map Z.of_N l.
Definition E_INVALID : Z := 3%Z.

(* ---- BitWriter / BitReader ----
   c05.bw_put : [values] [widths] -> [bytes]        (values[i] < 2^widths[i], widths <= 64)
   c05.br_get : [bytes] [widths]  -> [values read until the first None] *)
Definition d_bw_put (a : args) : list (list Z) :=
  [ zs_of_ns (bw_run (combine (ns_of (arg 0 a)) (ns_of (arg 1 a)))) ].
Definition s_bw_put (a : args) : list (list Z) :=
  [ zs_of_ns (bw_run_spec (combine (ns_of (arg 0 a)) (ns_of (arg 1 a)))) ].
Definition d_br_get (a : args) : list (list Z) :=
  [ zs_of_ns (br_run (ns_of (arg 0 a)) br_new (ns_of (arg 1 a))) ].
Definition s_br_get (a : args) : list (list Z) :=
  [ zs_of_ns (br_run_spec (bytes_bits (ns_of (arg 0 a))) (ns_of (arg 1 a))) ].

(* ---- VLQ / zig-zag ----
   c05.vlq_enc : [u64 values] -> [bytes]      c05.vlq_dec : [bytes] -> [i64 values until None]
   c05.zz_enc  : [i64 values] -> [bytes]      c05.zz_dec  : [bytes] -> [i64 values until None] *)
Definition d_vlq_enc (a : args) : list (list Z) := [ zs_of_ns (flat_map vlq (ns_of (arg 0 a))) ].
Fixpoint vlq_dec_all (fuel : nat) (f : N -> Z) (bs : list N) : list Z :=
  match fuel with
  | O => []
  | S fuel => match bs with
              | [] => []
              | _ => match vlq_dec bs 0 0 with
                     | None => []
                     | Some (u, r) => f (u mod 2^64)%N :: vlq_dec_all fuel f r
                     end
              end
  end.
Definition d_vlq_dec (a : args) : list (list Z) :=
  let bs := ns_of (arg 0 a) in [ vlq_dec_all (List.length bs) (to_signed 64) bs ].
Definition d_zz_enc (a : args) : list (list Z) := [ zs_of_ns (flat_map zz_vlq (arg 0 a)) ].
Definition s_zz_enc (a : args) : list (list Z) := [ zs_of_ns (flat_map (fun z => vlq (Z.to_N (zz_enc z))) (arg 0 a)) ].
Definition d_zz_dec (a : args) : list (list Z) :=
  let bs := ns_of (arg 0 a) in [ vlq_dec_all (List.length bs) zz_dec_m bs ].
Definition s_zz_dec (a : args) : list (list Z) :=
  let bs := ns_of (arg 0 a) in [ vlq_dec_all (List.length bs) (fun u => zz_dec (Z.of_N u)) bs ].

(* ---- RLE / bit-packed hybrid ----
   c05.rle_enc : [w] [values]        -> [bytes]
   c05.rle_rt  : [w] [values]        -> [values]   (real encoder then real decoder; spec = identity)
   c05.rle_dec : [w; n] [bytes] [run descriptors]  -> [values] | error
      run descriptors (used by the .spec only): 0,count,value | 1,groups,v1..v(8*groups) *)
Definition d_rle_enc (a : args) : list (list Z) := [ zs_of_ns (rle_encode (argn 0 a) (ns_of (arg 1 a))) ].
Definition s_rle_rt (a : args) : list (list Z) := [ arg 1 a ].
Definition m_rle_rt (a : args) : list (list Z) :=
  let vs := ns_of (arg 1 a) in
  match rle_decode (argn 0 a) (List.length vs) (rle_encode (argn 0 a) vs) with
  | None => err_out E_INVALID
  | Some r => [ zs_of_ns r ]
  end.
Definition d_rle_dec (a : args) : list (list Z) :=
  match rle_decode (argn 0 a) (Z.to_nat (nth 1 (arg 0 a) 0%Z)) (ns_of (arg 1 a)) with
  | None => err_out E_INVALID
  | Some r => [ zs_of_ns r ]
  end.
Fixpoint parse_runs (fuel : nat) (ts : list Z) : list run :=
  match fuel with
  | O => []
  | S fuel =>
    match ts with
    | k :: c :: r =>
      if (k =? 0)%Z then match r with v :: r' => Rle (Z.to_nat c) (Z.to_N v) :: parse_runs fuel r' | [] => [] end
      else let n := (8 * Z.to_nat c)%nat in Packed (Z.to_nat c) (ns_of (firstn n r)) :: parse_runs fuel (skipn n r)
    | _ => []
    end
  end.
Definition s_rle_dec (a : args) : list (list Z) :=
  [ zs_of_ns (rle_decode_spec (Z.to_nat (nth 1 (arg 0 a) 0%Z)) (parse_runs (List.length (arg 2 a)) (arg 2 a))) ].

(* ---- value encoders / decoders (get_encoder / get_decoder) ----
   head group: [enc; ty; flba_len; n]
     enc: 0 PLAIN  1 RLE(bool)  2 DELTA_BINARY_PACKED  3 DELTA_LENGTH_BYTE_ARRAY  4 DELTA_BYTE_ARRAY  5 BYTE_STREAM_SPLIT
     ty : 0 BOOLEAN 1 INT32 2 INT64 3 FLOAT(bits) 4 DOUBLE(bits) 5 BYTE_ARRAY 6 FIXED_LEN_BYTE_ARRAY
   values: [ints] [lens] [data]  (ints for ty 0..4; lens + concatenated data for ty 5,6)
   c05.enc    : head [splits] [ints] [lens] [data] -> [bytes]
   c05.enc_rt : same                              -> [ints] [lens] [data]   (spec = identity)
   c05.dec    : head [reads] [bytes]              -> [ints] [lens] [data]   reads: k>0 get(k), k<0 skip(-k) *)
Fixpoint split_by (lens : list nat) (data : list N) : list (list N) :=
  match lens with [] => [] | n :: r => firstn n data :: split_by r (skipn n data) end.

Inductive item := IInt (z : Z) | IBytes (b : list N).
Definition tw_of (ty : Z) : N := if ((ty =? 1) || (ty =? 3))%Z%bool then 32%N else 64%N.
Definition kbytes_of (ty : Z) : nat := if ((ty =? 1) || (ty =? 3))%Z%bool then 4 else 8.

Definition int_bytes (k : nat) (z : Z) : list N := le_bytes k (to_unsigned (8 * N.of_nat k) z).

Definition encode_values (enc ty : Z) (flba : nat) (ints : list Z) (bas : list (list N)) : option (list N) :=
  let is_int := ((1 <=? ty) && (ty <=? 4))%Z%bool in
  if (enc =? 0)%Z then
    if (ty =? 0)%Z then Some (plain_bool_enc (bools_of ints))
    else if is_int then Some (plain_int_enc (kbytes_of ty) ints)
    else if (ty =? 5)%Z then Some (plain_ba_enc bas)
    else Some (List.concat bas)
  else if (enc =? 1)%Z then
    let body := rle_encode 1 (map (fun z => if (z =? 0)%Z then 0%N else 1%N) ints) in
    Some (le_bytes 4 (N.of_nat (List.length body)) ++ body)
  else if (enc =? 2)%Z then Some (delta_encode (tw_of ty) ints)
  else if (enc =? 3)%Z then Some (dlba_encode bas)
  else if (enc =? 4)%Z then Some (dba_encode bas)
  else if (enc =? 5)%Z then
    if is_int then Some (bss_encode (kbytes_of ty) (map (int_bytes (kbytes_of ty)) ints))
    else Some (bss_encode flba bas)
  else None.

Definition decode_values (enc ty : Z) (flba n : nat) (bs : list N) : option (list item) :=
  let is_int := ((1 <=? ty) && (ty <=? 4))%Z%bool in
  let k := kbytes_of ty in
  if (enc =? 0)%Z then
    if (ty =? 0)%Z then Some (map (fun b : bool => IInt (zb b)) (plain_bool_dec n bs))
    else if is_int then option_map (map IInt) (plain_int_dec k n bs)
    else if (ty =? 5)%Z then option_map (map IBytes) (plain_ba_dec n bs)
    else if (List.length bs <? n * flba)%nat then None else Some (map IBytes (chunks n flba bs))
  else if (enc =? 1)%Z then
    if (List.length bs <? 4)%nat then None else
    let len := N.to_nat (le_value (firstn 4 bs)) in
    if (List.length bs - 4 <? len)%nat then None else
    option_map (map (fun v => IInt (Z.of_N v))) (rle_decode 1 n (firstn len (skipn 4 bs)))
  else if (enc =? 2)%Z then option_map (fun p => map IInt (fst p)) (delta_decode (tw_of ty) bs)
  else if (enc =? 3)%Z then option_map (map IBytes) (dlba_decode bs)
  else if (enc =? 4)%Z then option_map (map IBytes) (dba_decode bs)
  else if (enc =? 5)%Z then
    if is_int then
      if (List.length bs <? n * k)%nat then None else
      Some (map (fun c => IInt (to_signed (8 * N.of_nat k) (le_value c))) (bss_decode k n bs))
    else if (List.length bs <? n * flba)%nat then None else Some (map IBytes (bss_decode flba n bs))
  else None.

(* apply the get/skip pattern to the decoded values *)
Fixpoint apply_reads {A} (reads : list Z) (l : list A) : list A :=
  match reads with
  | [] => []
  | r :: rs => if (0 <? r)%Z then firstn (Z.to_nat r) l ++ apply_reads rs (skipn (Z.to_nat r) l)
               else apply_reads rs (skipn (Z.to_nat (- r)) l)
  end.

Definition out_items (ty : Z) (l : list item) : list (list Z) :=
  if (ty <=? 4)%Z then [ flat_map (fun i => match i with IInt z => [z] | IBytes _ => [] end) l; []; [] ]
  else [ [];
         flat_map (fun i => match i with IBytes b => [Z.of_nat (List.length b)] | IInt _ => [] end) l;
         flat_map (fun i => match i with IBytes b => zs_of_ns b | IInt _ => [] end) l ].

Definition d_enc (a : args) : list (list Z) :=
  let h := arg 0 a in
  let bas := split_by (map Z.to_nat (arg 3 a)) (ns_of (arg 4 a)) in
  match encode_values (nth 0 h 0%Z) (nth 1 h 0%Z) (Z.to_nat (nth 2 h 0%Z)) (arg 2 a) bas with
  | None => err_out E_INVALID
  | Some bs => [ zs_of_ns bs ]
  end.
Definition s_enc_rt (a : args) : list (list Z) := [ arg 2 a; arg 3 a; arg 4 a ].
(* model encoder followed by model decoder (the composition the round-trip theorems are about) *)
Definition m_enc_rt (a : args) : list (list Z) :=
  let h := arg 0 a in
  let enc := nth 0 h 0%Z in let ty := nth 1 h 0%Z in let flba := Z.to_nat (nth 2 h 0%Z) in
  let bas := split_by (map Z.to_nat (arg 3 a)) (ns_of (arg 4 a)) in
  let n := if (ty <=? 4)%Z then List.length (arg 2 a) else List.length (arg 3 a) in
  match encode_values enc ty flba (arg 2 a) bas with
  | None => err_out E_INVALID
  | Some bs => match decode_values enc ty flba n bs with
               | None => err_out E_INVALID
               | Some l => out_items ty l
               end
  end.
Definition d_dec (a : args) : list (list Z) :=
  let h := arg 0 a in
  let ty := nth 1 h 0%Z in
  match decode_values (nth 0 h 0%Z) ty (Z.to_nat (nth 2 h 0%Z)) (Z.to_nat (nth 3 h 0%Z)) (ns_of (arg 2 a)) with
  | None => err_out E_INVALID
  | Some l => out_items ty (apply_reads (arg 1 a) l)
  end.

(* ---- Dremel levels ----
   c05.levels   : [path: 0 Req 1 Opt 2 Rep] [tokens of all rows] [layout choices, ignored] -> [defs] [reps] [values]
   c05.assemble : same -> [tokens]  (what the Arrow reader returns, re-flattened) *)
Definition path_of (l : list Z) : path :=
  map (fun z => if (z =? 0)%Z then Req else if (z =? 1)%Z then Opt else Rep) l.

Fixpoint parse_rows (fuel : nat) (p : path) (ts : list Z) : option (list (val p)) :=
  match fuel with
  | O => Some []
  | S f => match ts with
           | [] => Some []
           | _ => match parse p ts with
                  | None => None
                  | Some (v, r) => match parse_rows f p r with None => None | Some vs => Some (v :: vs) end
                  end
           end
  end.
(* a path with no Opt/Rep node and a row without tokens cannot occur: every row has >= 1 token *)

Definition s_levels (a : args) : list (list Z) :=
  let p := path_of (arg 0 a) in
  match parse_rows (List.length (arg 1 a)) p (arg 1 a) with
  | None => err_out E_INVALID
  | Some rows =>
    let es := shred_rows p rows in
    [ map (fun e => Z.of_nat (e_def e)) es; map (fun e => Z.of_nat (e_rep e)) es;
      flat_map (fun e => zopt (e_val e)) es ]
  end.
Definition s_assemble (a : args) : list (list Z) :=
  let p := path_of (arg 0 a) in
  match parse_rows (List.length (arg 1 a)) p (arg 1 a) with
  | None => err_out E_INVALID
  | Some rows =>
    let es := shred_rows p rows in
    match assemble_rows (List.length es) p es with
    | None => err_out E_INVALID
    | Some rows' => [ flat_map (unparse p) rows' ]
    end
  end.

(* ---- end to end ----
   c05.roundtrip : [config] [partition] [schema] [content] -> [schema] [content]    spec: identity *)
Definition s_roundtrip (a : args) : list (list Z) := [ arg 2 a; arg 3 a ].

Definition ops_C05 : list (string * opfun) :=
  [ ("c05.bw_put", d_bw_put); ("c05.bw_put.spec", s_bw_put);
    ("c05.br_get", d_br_get); ("c05.br_get.spec", s_br_get);
    ("c05.vlq_enc", d_vlq_enc); ("c05.vlq_dec", d_vlq_dec);
    ("c05.zz_enc", d_zz_enc); ("c05.zz_enc.spec", s_zz_enc);
    ("c05.zz_dec", d_zz_dec); ("c05.zz_dec.spec", s_zz_dec);
    ("c05.rle_enc", d_rle_enc); ("c05.rle_rt", m_rle_rt); ("c05.rle_rt.spec", s_rle_rt);
    ("c05.rle_dec", d_rle_dec); ("c05.rle_dec.spec", s_rle_dec);
    ("c05.enc", d_enc); ("c05.enc_rt", m_enc_rt); ("c05.enc_rt.spec", s_enc_rt); ("c05.dec", d_dec);
    ("c05.levels.spec", s_levels); ("c05.assemble.spec", s_assemble);
    ("c05.roundtrip.spec", s_roundtrip) ].
