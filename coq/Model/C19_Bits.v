(* C19 — executable models (M) of arrow-buffer's word-level bit algorithms and their
   specification (S) on [list bool].  Definitions only; proofs live in Proofs/C19_*.v.

   Transcribed from arrow-buffer/src/util/{bit_chunk_iterator,bit_iterator,bit_mask,bit_util}.rs.
   Buffers are [list N] (bytes), a u64 is an [N] < 2^64, indices/lengths are [nat]. *)
From Coq Require Import List Arith NArith ZArith Bool.
From AV Require Import Base.ListX Base.Bits Base.Bytes.
Import ListNotations.
Local Open Scope N_scope.

(* ------------------------------------------------------------------ u64 vocabulary *)
Definition U64 : N := 2^64.
Definition mask64 (x : N) : N := N.land x (N.ones 64).
Definition u64_not (x : N) : N := N.ldiff (N.ones 64) x.
Definition u64_shl (x k : N) : N := mask64 (N.shiftl x k).       (* x << k, k < 64 *)
Definition u64_shr (x k : N) : N := N.shiftr x k.
Definition popcount_fuel := 64%nat.
Fixpoint popcount_aux (fuel : nat) (x : N) : nat :=
  match fuel with O => O | S f => (if N.odd x then 1 else 0)%nat + popcount_aux f (N.div2 x) end.
Definition popcount (x : N) : nat := popcount_aux popcount_fuel x.
Fixpoint ctz_aux (fuel : nat) (x : N) : nat :=
  match fuel with O => O | S f => if N.odd x then O else S (ctz_aux f (N.div2 x)) end.
(* trailing_zeros of a u64 (64 for zero) *)
Definition ctz (x : N) : nat := if x =? 0 then 64%nat else ctz_aux 64 x.
(* trailing_ones *)
Definition cto (x : N) : nat := ctz (u64_not x).

(* ------------------------------------------------------------------ BitChunks *)
(* (current >> bit_offset) | (next << (64 - bit_offset)) *)
Definition combine (cur next off : N) : N :=
  if off =? 0 then cur
  else N.lor (N.shiftr cur off) (N.land (N.shiftl next (64 - off)) (2^64 - 1)).

(* BitChunkIterator: chunk [n] of the buffer that starts at byte [byte_off] *)
Definition chunk (bs : list N) (bit_off : N) (n : nat) : N :=
  let cur := read_u64 bs (8 * n) in
  let next := nth (8 * n + 8) bs 0 in
  combine cur next bit_off.

Record bitchunks := { bc_buf : list N; bc_bit_off : N; bc_chunk_len : nat; bc_rem_len : nat }.

Definition bitchunks_new (bs : list N) (off len : nat) : bitchunks :=
  {| bc_buf := skipn (off / 8) bs; bc_bit_off := N.of_nat (off mod 8);
     bc_chunk_len := (len / 64)%nat; bc_rem_len := (len mod 64)%nat |}.

Definition bitchunks_iter (c : bitchunks) : list N :=
  map (chunk (bc_buf c) (bc_bit_off c)) (seq 0 (bc_chunk_len c)).

(* remainder_bits: the byte loop  bits = b0 >> off; bits |= b_i << (8 i - off); mask *)
Definition remainder_bits (c : bitchunks) : N :=
  let bit_len := bc_rem_len c in
  if (bit_len =? 0)%nat then 0 else
  let off := bc_bit_off c in
  let byte_len := ((bit_len + N.to_nat off + 7) / 8)%nat in
  let base := (bc_chunk_len c * 8)%nat in
  let b0 := N.shiftr (nth base (bc_buf c) 0) off in
  let bits := fold_left (fun acc i =>
       N.lor acc (u64_shl (nth (base + i) (bc_buf c) 0) (N.of_nat (i * 8) - off)))
     (seq 1 (byte_len - 1)) b0 in
  N.land bits (2 ^ N.of_nat bit_len - 1).

Definition bitchunks_iter_padded (c : bitchunks) : list N := bitchunks_iter c ++ [remainder_bits c].

(* ------------------------------------------------------------------ UnalignedBitChunk *)
Definition prefix_mask (lead : N) : N := u64_not (2^lead - 1).
Definition suffix_mask (len lead : N) : N * N :=
  let tb := (len + lead) mod 64 in
  if tb =? 0 then (N.ones 64, 0) else (2^tb - 1, 64 - tb).

(* read_u64(&[u8]) : at most 8 bytes, zero-extended *)
Definition read_u64_slice (bs : list N) : N := le_val (firstn 8 bs).

Record ubc := { u_lead : N; u_trail : N; u_prefix : option N; u_chunks : list N; u_suffix : option N }.

Fixpoint words_of (n : nat) (bs : list N) : list N :=
  match n with O => [] | S k => read_u64_slice bs :: words_of k (skipn 8 bs) end.

(* [align] is the address of byte 0 of [bs] modulo 8 *)
Definition ubc_new (bs : list N) (align off len : nat) : ubc :=
  if (len =? 0)%nat then {| u_lead := 0; u_trail := 0; u_prefix := None; u_chunks := []; u_suffix := None |} else
  let byte_offset := (off / 8)%nat in
  let offset_padding := N.of_nat (off mod 8) in
  let bytes_len := ((len + off mod 8 + 7) / 8)%nat in
  let buffer := firstn bytes_len (skipn byte_offset bs) in
  let pm := prefix_mask offset_padding in
  if (bytes_len <=? 8)%nat then
    let '(sm, tp) := suffix_mask (N.of_nat len) offset_padding in
    {| u_lead := offset_padding; u_trail := tp;
       u_prefix := Some (N.land (N.land (read_u64_slice buffer) sm) pm); u_chunks := []; u_suffix := None |}
  else if (bytes_len <=? 16)%nat then
    let '(sm, tp) := suffix_mask (N.of_nat len) offset_padding in
    {| u_lead := offset_padding; u_trail := tp;
       u_prefix := Some (N.land (read_u64_slice (firstn 8 buffer)) pm); u_chunks := [];
       u_suffix := Some (N.land (read_u64_slice (skipn 8 buffer)) sm) |}
  else
    (* align_to::<u64>() *)
    let addr := ((align + byte_offset) mod 8)%nat in
    let plen := ((8 - addr) mod 8)%nat in
    let nwords := ((bytes_len - plen) / 8)%nat in
    let slen := ((bytes_len - plen) mod 8)%nat in
    let pbytes := firstn plen buffer in
    let chunks0 := words_of nwords (skipn plen buffer) in
    let sbytes := skipn (plen + 8 * nwords) buffer in
    let '(alignment_padding, prefix, chunks1) :=
      if (plen =? 0)%nat then
        if offset_padding =? 0 then (0, None, chunks0)
        else (0, Some (N.land (hd 0 chunks0) pm), tl chunks0)
      else
        let ap := N.of_nat ((8 - plen) * 8) in
        (ap, Some (u64_shl (N.land (read_u64_slice pbytes) pm) ap), chunks0) in
    let lead := offset_padding + alignment_padding in
    let '(sm, tp) := suffix_mask (N.of_nat len) lead in
    let '(suffix, chunks2) :=
      if tp =? 0 then (None, chunks1)
      else if (slen =? 0)%nat then (Some (N.land (last chunks1 0) sm), removelast chunks1)
      else (Some (N.land (read_u64_slice sbytes) sm), chunks1) in
    {| u_lead := lead; u_trail := tp; u_prefix := prefix; u_chunks := chunks2; u_suffix := suffix |}.

Definition opt_list {A} (o : option A) : list A := match o with Some x => [x] | None => [] end.
Definition ubc_iter (u : ubc) : list N := opt_list (u_prefix u) ++ u_chunks u ++ opt_list (u_suffix u).
Definition ubc_count_ones (u : ubc) : nat := fold_left (fun a w => (a + popcount w)%nat) (ubc_iter u) O.

(* ------------------------------------------------------------------ BitIndexIterator *)
(* inner loop on one word:  pos = trailing_zeros(w); w &= w - 1 *)
Fixpoint word_indices (fuel : nat) (w : N) (base : Z) : list Z :=
  match fuel with
  | O => []
  | S f => if w =? 0 then [] else
           (base + Z.of_nat (ctz w))%Z :: word_indices f (N.land w (w - 1)) base
  end.

Fixpoint index_iter_words (ws : list N) (chunk_offset : Z) : list Z :=
  match ws with
  | [] => []
  | w :: r => word_indices 64 w chunk_offset ++ index_iter_words r (chunk_offset + 64)%Z
  end.

Definition bit_index_iter (bs : list N) (align off len : nat) : list Z :=
  let u := ubc_new bs align off len in
  index_iter_words (ubc_iter u) (- Z.of_N (u_lead u))%Z.

(* ------------------------------------------------------------------ BitSliceIterator *)
(* state: remaining words, len (termination flag), current_offset, current_chunk; emits (start,end) *)
Fixpoint adv_to_set (ws : list N) (cur : N) (cofs : Z) : option (list N * N * Z) :=
  if negb (cur =? 0) then Some (ws, cur, cofs) else
  match ws with
  | [] => None
  | w :: r => adv_to_set r w (cofs + 64)%Z
  end.

Fixpoint find_end (ws : list N) (cur : N) (cofs : Z) : (list N * N * Z * option Z) :=
  if negb (cur =? N.ones 64) then
    let end_bit := cto cur in
    (ws, N.land cur (u64_not (2 ^ N.of_nat end_bit - 1)), cofs, Some (cofs + Z.of_nat end_bit)%Z)
  else match ws with
  | [] => ([], cur, cofs, None)
  | w :: r => find_end r w (cofs + 64)%Z
  end.

Fixpoint slice_iter_go (fuel : nat) (ws : list N) (cur : N) (cofs : Z) (len : nat) : list (Z * Z) :=
  match fuel with O => [] | S f =>
    if (len =? 0)%nat then [] else
    match adv_to_set ws cur cofs with
    | None => []
    | Some (ws1, cur1, cofs1) =>
        let start_bit := ctz cur1 in
        let cur2 := N.lor cur1 (2 ^ N.of_nat start_bit - 1) in
        let start := (cofs1 + Z.of_nat start_bit)%Z in
        match find_end ws1 cur2 cofs1 with
        | (ws3, cur3, cofs3, Some e) => (start, e) :: slice_iter_go f ws3 cur3 cofs3 len
        | (_, _, _, None) => [(start, Z.of_nat len)]
        end
    end
  end.

Definition bit_slice_iter (bs : list N) (align off len : nat) : list (Z * Z) :=
  let u := ubc_new bs align off len in
  match ubc_iter u with
  | [] => slice_iter_go (S len) [] 0 (- Z.of_N (u_lead u))%Z len
  | w :: r => slice_iter_go (S len) r w (- Z.of_N (u_lead u))%Z len
  end.

(* ------------------------------------------------------------------ set_bits (bit_mask.rs) *)
Definition le_bytes (n : nat) (x : N) : list N :=
  map (fun i => N.land (N.shiftr x (N.of_nat (8 * i))) 255) (seq 0 n).

Fixpoint upd_bytes (f : N -> N -> N) (at_ : nat) (src : list N) (dst : list N) : list N :=
  match at_, dst with
  | O, _ => (fix go (s d : list N) := match s, d with
                                      | x :: s', y :: d' => f y x :: go s' d'
                                      | _, _ => d end) src dst
  | S k, y :: d' => y :: upd_bytes f k src d'
  | S _, [] => []
  end.
Definition write_bytes := upd_bytes (fun _old new => new).
Definition or_bytes := upd_bytes (fun old new => N.lor old new).
(* or_write_u64_bytes: ORs the FIRST destination byte only, overwrites the other seven *)
Definition or_write_u64 (at_ : nat) (src dst : list N) : list N :=
  match src with
  | [] => dst
  | b0 :: rest => write_bytes (S at_) rest (or_bytes at_ [b0] dst)
  end.

(* one step: returns (new dest, zero count, bits set) *)
Definition set_upto_64bits (wd data : list N) (ow or_ len : nat) : list N * nat * nat :=
  let read_byte := (or_ / 8)%nat in let read_shift := N.of_nat (or_ mod 8) in
  let write_byte := (ow / 8)%nat in let write_shift := N.of_nat (ow mod 8) in
  if (64 <=? len)%nat then
    let c := read_u64 data read_byte in
    if read_shift =? 0 then
      if write_shift =? 0 then (write_bytes write_byte (le_bytes 8 c) wd, (64 - popcount c)%nat, 64%nat)
      else let l := (64 - N.to_nat write_shift)%nat in
           let c' := u64_shl c write_shift in
           (or_write_u64 write_byte (le_bytes 8 c') wd, (l - popcount c')%nat, l)
    else if write_shift =? 0 then
      let c' := N.land (N.shiftr c read_shift) (2^56 - 1) in
      (write_bytes write_byte (le_bytes 8 c') wd, (56 - popcount c')%nat, 56%nat)
    else
      let l := (64 - N.to_nat (N.max read_shift write_shift))%nat in
      let c' := u64_shl (N.shiftr c read_shift) write_shift in
      (or_write_u64 write_byte (le_bytes 8 c') wd, (l - popcount c')%nat, l)
  else if (len =? 1)%nat then
    let b := N.land (N.shiftr (nth read_byte data 0) read_shift) 1 in
    (or_bytes write_byte [N.land (N.shiftl b write_shift) 255] wd, N.to_nat (N.lxor b 1), 1%nat)
  else
    let l := Nat.min len (64 - N.to_nat (N.max read_shift write_shift)) in
    let nbytes := ((l + N.to_nat read_shift + 7) / 8)%nat in
    let c := le_val (firstn nbytes (skipn read_byte data)) in
    let m := N.shiftr (N.ones 64) (N.of_nat (64 - l)) in
    let c1 := N.land (N.shiftr c read_shift) m in
    let c2 := u64_shl c1 write_shift in
    let wbytes := ((l + N.to_nat write_shift + 7) / 8)%nat in
    (or_bytes write_byte (le_bytes wbytes c2) wd, (l - popcount c2)%nat, l).

Fixpoint set_bits_go (fuel : nat) (wd data : list N) (ow or_ len acc nulls : nat) : list N * nat :=
  match fuel with
  | O => (wd, nulls)
  | S f => if (len <=? acc)%nat then (wd, nulls) else
           let '(wd', n, k) := set_upto_64bits wd data (ow + acc) (or_ + acc) (len - acc) in
           set_bits_go f wd' data ow or_ len (acc + k) (nulls + n)
  end.

Definition set_bits (wd data : list N) (ow or_ len : nat) : list N * nat :=
  set_bits_go (S len) wd data ow or_ len 0 0.

(* ------------------------------------------------------------------ spec side (S) *)
Definition count_true (l : list bool) : nat := length (filter (fun b => b) l).

Fixpoint positions_from (i : nat) (l : list bool) : list nat :=
  match l with [] => [] | b :: r => (if b then [i] else []) ++ positions_from (S i) r end.
Definition positions (l : list bool) : list nat := positions_from 0 l.

(* maximal runs of true as half-open (start,end) *)
Fixpoint runs_from (i : nat) (open : option nat) (l : list bool) : list (nat * nat) :=
  match l with
  | [] => match open with Some s => [(s, i)] | None => [] end
  | true :: r => runs_from (S i) (match open with Some s => Some s | None => Some i end) r
  | false :: r => match open with Some s => (s, i) :: runs_from (S i) None r | None => runs_from (S i) None r end
  end.
Definition runs (l : list bool) : list (nat * nat) := runs_from 0 None l.

(* bytes of a bit list, LSB first, zero padded *)
Fixpoint byte_of_bits (l : list bool) : N :=
  match l with [] => 0 | b :: r => (if b then 1 else 0) + 2 * byte_of_bits r end.
Fixpoint bytes_of_bits (fuel : nat) (l : list bool) : list N :=
  match fuel with O => [] | S f =>
    match l with [] => [] | _ => byte_of_bits (firstn 8 l) :: bytes_of_bits f (skipn 8 l) end end.

Definition all_bits (bs : list N) : list bool := bits_range bs 0 (8 * length bs).

(* writing [src] bits at bit offset [ow] of [dst] : the spec of copying a bit range *)
Definition splice_bits (dst : list N) (ow : nat) (src : list bool) : list bool :=
  let d := all_bits dst in firstn ow d ++ src ++ skipn (ow + length src) d.
Definition set_bits_spec (wd data : list N) (ow or_ len : nat) : list bool * nat :=
  let src := bits_range data or_ len in
  (splice_bits wd ow src, (len - count_true src)%nat).
