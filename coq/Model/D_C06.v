(* C06 dispatch table: wraps the C06 models in the uniform case interface.

   Encoding of a RowSelection argument (one group):  kind :: aux :: data
     kind 0: selector backed, built with RowSelection::from(Vec<RowSelector>); data = skip,count pairs
     kind 1: mask backed, built with RowSelection::from_boolean_buffer; data = bits
     aux is harness-only (bitmap slicing offset, cache priming) and ignored by the models.
   Encoding of a RowSelection result:
     den  form: one group of bits
     repr form: [kind] [pairs | bits]
   Every operation X exists as  c06.X (M, den form), c06.X.spec (S, den form), c06.X.repr (M, exact). *)
From Coq Require Import List ZArith Arith NArith String Bool.
From AV Require Import Base.Codec Model.C06_RowSel Model.C06_Reader.
Import ListNotations.
Local Open Scope string_scope.
Local Open Scope list_scope.

Fixpoint pairs_of (l : list Z) : list sel :=
  match l with
  | s :: c :: r => (negb (Z.eqb s 0), Z.to_nat c) :: pairs_of r
  | _ => []
  end.
Definition zs_of_sels (l : list sel) : list Z :=
  flat_map (fun x : sel => [zb (fst x); Z.of_nat (snd x)]) l.

(* the raw (un-normalised) selector list / bitmap carried by an argument group *)
Definition raw_bits (g : list Z) : list bool :=
  match g with
  | k :: _ :: data => if Z.eqb k 0 then dens (pairs_of data) else bools_of data
  | _ => []
  end.
Definition dec_sel (g : list Z) : rowsel :=
  match g with
  | k :: _ :: data => if Z.eqb k 0 then Sels (from_iter (pairs_of data)) else Mask (bools_of data)
  | _ => Sels []
  end.

Definition out_den (s : rowsel) : list (list Z) := [zs_of_bools (den s)].
Definition out_repr (s : rowsel) : list (list Z) :=
  match s with Sels l => [[0%Z]; zs_of_sels l] | Mask m => [[1%Z]; zs_of_bools m] end.
Definition out_opt (f : rowsel -> list (list Z)) (o : option rowsel) : list (list Z) :=
  match o with Some s => f s | None => err_out 8 end.

(* ---- constructors *)
Definition m_from_selectors (f : rowsel -> list (list Z)) (a : args) := f (dec_sel (arg 0 a)).
Definition s_from_selectors (a : args) : list (list Z) := [zs_of_bools (raw_bits (arg 0 a))].

Fixpoint zip_ranges (ss es : list Z) : list (nat * nat) :=
  match ss, es with s :: ss', e :: es' => (Z.to_nat s, Z.to_nat e) :: zip_ranges ss' es' | _, _ => [] end.
Definition m_from_ranges (f : rowsel -> list (list Z)) (a : args) :=
  out_opt f (option_map Sels (from_consecutive_ranges (zip_ranges (arg 0 a) (arg 1 a)) (argn 2 a))).
Definition s_from_ranges (a : args) : list (list Z) :=
  [zs_of_bools (ranges_spec (zip_ranges (arg 0 a) (arg 1 a)) (argn 2 a))].

(* from_filters: [filter lengths] [all bits] *)
Fixpoint split_lens {A} (lens : list nat) (l : list A) : list (list A) :=
  match lens with [] => [] | n :: r => firstn n l :: split_lens r (skipn n l) end.
Definition m_from_filters (f : rowsel -> list (list Z)) (a : args) :=
  out_opt f (option_map Sels (from_filters (split_lens (map Z.to_nat (arg 0 a)) (bools_of (arg 1 a))))).
Definition s_from_filters (a : args) : list (list Z) :=
  [zs_of_bools (firstn (fold_right Nat.add 0%nat (map Z.to_nat (arg 0 a))) (bools_of (arg 1 a)))].

(* to_selectors: Into<Vec<RowSelector>>, iter(), MaskRunIter (mask backed; else Into again) *)
Definition m_to_selectors (a : args) : list (list Z) :=
  let b := zs_of_bools (dens (selectors_of (dec_sel (arg 0 a)))) in [b; b; b].
Definition r_to_selectors (a : args) : list (list Z) :=
  let b := zs_of_sels (selectors_of (dec_sel (arg 0 a))) in [b; b; b].
Definition s_to_selectors (a : args) : list (list Z) :=
  let b := zs_of_bools (raw_bits (arg 0 a)) in [b; b; b].

(* ---- binary algebra *)
Definition m_and_then (f : rowsel -> list (list Z)) (a : args) := out_opt f (and_then (dec_sel (arg 0 a)) (dec_sel (arg 1 a))).
Definition s_and_then (a : args) : list (list Z) :=
  [zs_of_bools (and_then_spec (raw_bits (arg 0 a)) (raw_bits (arg 1 a)))].
Definition m_intersection (f : rowsel -> list (list Z)) (a : args) := f (intersection (dec_sel (arg 0 a)) (dec_sel (arg 1 a))).
Definition s_intersection (a : args) : list (list Z) :=
  [zs_of_bools (intersection_spec (raw_bits (arg 0 a)) (raw_bits (arg 1 a)))].
Definition m_union (f : rowsel -> list (list Z)) (a : args) := f (union (dec_sel (arg 0 a)) (dec_sel (arg 1 a))).
Definition s_union (a : args) : list (list Z) :=
  [zs_of_bools (union_spec (raw_bits (arg 0 a)) (raw_bits (arg 1 a)))].

(* ---- FromIterator<RowSelection>: one group per selection *)
Definition m_concat (f : rowsel -> list (list Z)) (a : args) := f (concat_sel (map dec_sel a)).
Definition s_concat (a : args) : list (list Z) := [zs_of_bools (flat_map raw_bits a)].

(* ---- split_off: [sel] [n] -> head, tail *)
Definition m_split_off (f : rowsel -> list (list Z)) (a : args) : list (list Z) :=
  let (h, t) := split_off (dec_sel (arg 0 a)) (argn 1 a) in f h ++ f t.
Definition s_split_off (a : args) : list (list Z) :=
  let (h, t) := split_off_spec (argn 1 a) (raw_bits (arg 0 a)) in [zs_of_bools h; zs_of_bools t].

(* ---- counters: [sel] -> [selects_any] [row_count] [total_row_count] [skipped_row_count] *)
Definition m_counts (a : args) : list (list Z) :=
  let s := dec_sel (arg 0 a) in
  [[zb (selects_any s)]; [Z.of_nat (row_count s)]; [Z.of_nat (total_row_count s)]; [Z.of_nat (skipped_row_count s)]].
Definition s_counts (a : args) : list (list Z) :=
  let l := raw_bits (arg 0 a) in
  [[zb (selects_any_spec l)]; [Z.of_nat (count_true l)]; [Z.of_nat (List.length l)];
   [Z.of_nat (List.length l - count_true l)]].

(* ---- scan_ranges: [sel] [first_row_index of each page] -> [indices of the pages fetched] *)
Definition m_scan_ranges (a : args) : list (list Z) :=
  [zs_of_nats (scan_ranges (dec_sel (arg 0 a)) (map Z.to_nat (arg 1 a)))].
Definition s_scan_ranges (a : args) : list (list Z) :=
  [zs_of_nats (scan_ranges_spec (raw_bits (arg 0 a)) (map Z.to_nat (arg 1 a)))].

(* ---- PartialEq: [sel] [sel] -> [0/1] *)
Definition m_eq (a : args) : list (list Z) := [[zb (rowsel_eqb (dec_sel (arg 0 a)) (dec_sel (arg 1 a)))]].
Definition s_eq (a : args) : list (list Z) := [[zb (bits_eqb (raw_bits (arg 0 a)) (raw_bits (arg 1 a)))]].

(* ---- plan_mask: [sel] [batch size]
   den form: [initial_skip falses ++ chunk mask, concatenated over all chunks] [1 iff every chunk has selected_rows <= batch size]
   repr form: [initial_skip, chunk_rows, selected_rows, mask_start per chunk] *)
Definition m_plan_mask (a : args) : list (list Z) :=
  let cs := plan_mask (dec_sel (arg 0 a)) (argn 1 a) in
  [ zs_of_bools (flat_map (fun c => match c with (isk, _, _, _, bits) => repeat false isk ++ bits end) cs);
    [zb (forallb (fun c => match c with (_, _, selected, _, _) => Nat.leb selected (argn 1 a) end) cs)] ].
Definition r_plan_mask (a : args) : list (list Z) :=
  [ flat_map (fun c => match c with (isk, rows, selected, start, _) =>
       [Z.of_nat isk; Z.of_nat rows; Z.of_nat selected; Z.of_nat start] end)
     (plan_mask (dec_sel (arg 0 a)) (argn 1 a)) ].
Definition s_plan_mask (a : args) : list (list Z) :=
  [ zs_of_bools (trim_spec (raw_bits (arg 0 a))); [1%Z] ].

(* ---- end-to-end read
   0: file parameters  [nullmod; ...harness-only layout parameters]
   1: row count of each row group            2: chosen row groups, in order
   3: selection: empty = none, else kind :: aux :: data   4: predicates, 4 integers each (kind, p1, p2, harness-only)
   5: offset (optional)   6: limit (optional)   7: batch size   8: projection, one flag per leaf (id, val, s, lst, ll, dec)
   9: harness-only reader parameters (policy, page index, ...)
   -> [rows returned] [batches larger than the batch size] [id] [val] [s] [lst] [ll] [dec]
      val: NULL = -1000000;  s: NULL = -1;  lst, per row: -1 for a NULL list, else length then elements (NULL = -1000000);
      ll, per row: -1 for a NULL list, else length then each inner list encoded like lst;  dec: unscaled value, NULL = -1000000 *)
Fixpoint preds_of (l : list Z) : list pred :=
  match l with
  | k :: p1 :: p2 :: _ :: r => {| p_kind := k; p_1 := p1; p_2 := p2 |} :: preds_of r
  | _ => []
  end.
Definition optn (g : list Z) : option nat := match g with z :: _ => Some (Z.to_nat z) | [] => None end.
Definition enc_lst (o : option (list (option Z))) : list Z :=
  match o with
  | None => [(-1)%Z]
  | Some l => Z.of_nat (List.length l) :: map (fun e => match e with Some v => v | None => (-1000000)%Z end) l
  end.
Definition enc_ll (o : option (list (option (list (option Z))))) : list Z :=
  match o with
  | None => [(-1)%Z]
  | Some l => Z.of_nat (List.length l) :: flat_map enc_lst l
  end.
Definition out_read (nullmod : Z) (proj : list Z) (ids : list Z) : list (list Z) :=
  let on (i : nat) := negb (Z.eqb (nth i proj 0%Z) 0) in
  [ [Z.of_nat (List.length ids)]; [0%Z];
    (if on 0%nat then ids else []);
    (if on 1%nat then map (fun i => match val_of nullmod i with Some v => v | None => (-1000000)%Z end) ids else []);
    (if on 2%nat then map (fun i => match str_of i with Some v => v | None => (-1)%Z end) ids else []);
    (if on 3%nat then flat_map (fun i => enc_lst (lst_of i)) ids else []);
    (if on 4%nat then flat_map (fun i => enc_ll (ll_of i)) ids else []);
    (if on 5%nat then map (fun i => match dec_of i with Some v => v | None => (-1000000)%Z end) ids else []) ].
Definition s_read (a : args) : list (list Z) :=
  let nullmod := argz 0 a in
  let selection := match arg 3 a with [] => None | g => Some (raw_bits g) end in
  out_read nullmod (arg 8 a)
    (reference_read nullmod (arg 1 a) (map Z.to_nat (arg 2 a)) selection (preds_of (arg 4 a))
       (optn (arg 5 a)) (optn (arg 6 a))).
Definition m_read (a : args) : list (list Z) :=
  let nullmod := argz 0 a in
  let selection := match arg 3 a with [] => None | g => Some (dec_sel g) end in
  match plan_read nullmod (arg 1 a) (map Z.to_nat (arg 2 a)) selection (preds_of (arg 4 a))
          (optn (arg 5 a)) (optn (arg 6 a)) with
  | Some ids => out_read nullmod (arg 8 a) ids
  | None => err_out 8
  end.

Definition ops_C06 : list (string * opfun) :=
  [ ("c06.from_selectors", m_from_selectors out_den); ("c06.from_selectors.repr", m_from_selectors out_repr);
    ("c06.from_selectors.spec", s_from_selectors);
    ("c06.from_ranges", m_from_ranges out_den); ("c06.from_ranges.repr", m_from_ranges out_repr);
    ("c06.from_ranges.spec", s_from_ranges);
    ("c06.from_filters", m_from_filters out_den); ("c06.from_filters.repr", m_from_filters out_repr);
    ("c06.from_filters.spec", s_from_filters);
    ("c06.to_selectors", m_to_selectors); ("c06.to_selectors.repr", r_to_selectors);
    ("c06.to_selectors.spec", s_to_selectors);
    ("c06.and_then", m_and_then out_den); ("c06.and_then.repr", m_and_then out_repr);
    ("c06.and_then.spec", s_and_then);
    ("c06.intersection", m_intersection out_den); ("c06.intersection.repr", m_intersection out_repr);
    ("c06.intersection.spec", s_intersection);
    ("c06.union", m_union out_den); ("c06.union.repr", m_union out_repr); ("c06.union.spec", s_union);
    ("c06.concat", m_concat out_den); ("c06.concat.repr", m_concat out_repr); ("c06.concat.spec", s_concat);
    ("c06.split_off", m_split_off out_den); ("c06.split_off.repr", m_split_off out_repr);
    ("c06.split_off.spec", s_split_off);
    ("c06.counts", m_counts); ("c06.counts.spec", s_counts);
    ("c06.scan_ranges", m_scan_ranges); ("c06.scan_ranges.spec", s_scan_ranges);
    ("c06.eq", m_eq); ("c06.eq.spec", s_eq);
    ("c06.plan_mask", m_plan_mask); ("c06.plan_mask.repr", r_plan_mask); ("c06.plan_mask.spec", s_plan_mask);
    ("c06.read", m_read); ("c06.read.spec", s_read) ].
