(* C10 — sort_dictionary (arrow-ord/src/sort.rs): a dictionary array is sorted through the ranks of its
   dictionary values (child_rank), with only the KEY nulls partitioned away — slots whose valid key points
   at a null dictionary value stay among the "valids" and carry the rank of a null.  Definitions only. *)
From Coq Require Import List Arith Bool.
From AV Require Import Model.C10_Order Model.C10_Sort Model.C10_Rank.
Import ListNotations.

(* physical dictionary: nullable keys into nullable values; logical slot i *)
Definition dict_slot (keys : list (option nat)) (values : list oval) (i : nat) : oval :=
  match nth i keys None with None => None | Some k => nth k values None end.
Definition dict_col (keys : list (option nat)) (values : list oval) : list oval :=
  map (dict_slot keys values) (seq 0 (length keys)).

Definition key_null (keys : list (option nat)) (i : nat) : bool :=
  match nth i keys None with None => true | Some _ => false end.
Definition key_of (keys : list (option nat)) (i : nat) : nat :=
  match nth i keys None with None => 0 | Some k => k end.

Section SortDictionary.
  Variable so : (nat * nat -> nat * nat -> comparison) -> list (nat * nat) -> list (nat * nat).
  Variable se : (nat * nat -> nat * nat -> comparison) -> nat -> list (nat * nat) -> list (nat * nat).

  (* child_rank(values, options) = rank(values, {descending: false, nulls_first: nulls_first != descending});
     rank itself is rank_spec (rank_spec_holds) *)
  Definition child_rank (nf desc : bool) (values : list oval) : list nat :=
    rank_spec (vcmp (child_nf nf desc)) (child_nf nf desc) false values.

  Definition sort_dictionary (keys : list (option nat)) (values : list oval) (nf desc : bool) (limit : option nat) : list nat :=
    if (length keys =? 0) || (match limit with Some O => true | _ => false end) then []
    else
      let idx := seq 0 (length keys) in
      (* partition_validity looks at the keys' null buffer *)
      let '(v, n) := if (length (filter (key_null keys) idx) =? 0) then (idx, [])
                     else (filter (fun i => negb (key_null keys i)) idx, filter (key_null keys) idx) in
      let rank := child_rank nf desc values in
      sort_impl so se nf desc (map (fun i => (i, nth (key_of keys i) rank 0)) v) n limit Nat.compare.
End SortDictionary.

(* sort_list / sort_list_view / sort_fixed_size_list: each valid list slot carries the slice of child ranks
   (rank[start..end], i.e. the rank of each of its elements), slices are compared with Ord::cmp on &[u32] *)
Definition rank_fn (vc : val -> val -> comparison) (nf' : bool) (child : list oval) (o : oval) : nat :=
  match o with
  | None => if nf' then count_nulls child else length child
  | Some v => (if nf' then count_nulls child else 0) + count_le false vc child v
  end.
Definition list_ranks (f : oval -> nat) (o : oval) : list nat :=
  match o with Some (VList l) => map f l | _ => [] end.

Section SortList.
  Variable so : (nat * list nat -> nat * list nat -> comparison) -> list (nat * list nat) -> list (nat * list nat).
  Variable se : (nat * list nat -> nat * list nat -> comparison) -> nat -> list (nat * list nat) -> list (nat * list nat).
  (* child = the child array (every list element is one of its slots); child_rank(child, options) = map rank_fn child *)
  Definition sort_list (child : list oval) (a : list oval) (nf desc : bool) (limit : option nat) : list nat :=
    sort_to_indices so se (lex_cmp Nat.compare)
      (fun i => list_ranks (rank_fn (vcmp (child_nf nf desc)) (child_nf nf desc) child) (slot a i)) a nf desc limit.
End SortList.
