(* C14 — JSON TapeDecoder::decode (arrow-json/src/reader/tape.rs), the resumable lexer behind
   arrow_json::reader::Decoder, transcribed arm by arm including its bulk operations
   (skip_whitespace / advance_until / skip_chrs copy a whole run of bytes per loop iteration,
   the literal zip loop, the inner loop of the \uXXXX state).

   M = [jdecode] : one decode(buf) call: (decoder, unconsumed rest, ok).
   S = [jrun1]   : the same decoder fed one byte per call.                                   *)
From Coq Require Import List Arith NArith Bool.
Import ListNotations.
Local Open Scope N_scope.

Inductive telem :=
| TStartObject (n : N) | TEndObject (n : N) | TStartList (n : N) | TEndList (n : N)
| TString (n : N) | TNumber (n : N) | TTrue | TFalse | TNull.

Inductive lit := LNull | LTrue | LFalse.
Definition lit_bytes (l : lit) : list N :=
  match l with
  | LNull => [110; 117; 108; 108]
  | LTrue => [116; 114; 117; 101]
  | LFalse => [102; 97; 108; 115; 101]
  end.
Definition lit_elem (l : lit) : telem := match l with LNull => TNull | LTrue => TTrue | LFalse => TFalse end.

Inductive jst :=
| JTopList | JObject (i : nat) | JList (i : nat) | JString | JValue | JNumber | JColon | JEscape
| JUnicode (high low : N) (idx : nat)
| JLiteral (l : lit) (idx : nat).

Record tape := MkTape {
  t_elems : list telem;      (* elements *)
  t_row : nat;               (* cur_row *)
  t_bytes : list N;          (* bytes *)
  t_offsets : list nat;      (* offsets *)
  t_stack : list jst         (* stack, top first *)
}.
Definition tape0 : tape := MkTape [TNull] 0 [] [0%nat] [].

Definition json_whitespace (b : N) : bool := (b =? 32) || (b =? 10) || (b =? 13) || (b =? 9).
Definition ws_or_comma (b : N) : bool := json_whitespace b || (b =? 44).
Definition num_char (b : N) : bool :=
  ((48 <=? b) && (b <=? 57)) || (b =? 45) || (b =? 43) || (b =? 46) || (b =? 101) || (b =? 69).
Definition not_str_special (b : N) : bool := negb ((b =? 92) || (b =? 34)).

(* the longest prefix whose bytes all satisfy p, and the rest: advance_until(|b| !p(b)) *)
Fixpoint span (p : N -> bool) (l : list N) : list N * list N :=
  match l with
  | [] => ([], [])
  | b :: r => if p b then let '(a, c) := span p r in (b :: a, c) else ([], l)
  end.

Fixpoint set_nth {A} (n : nat) (x : A) (l : list A) : list A :=
  match l, n with
  | [], _ => []
  | _ :: r, O => x :: r
  | y :: r, S n' => y :: set_nth n' x r
  end.

Definition parse_hex (b : N) : option N :=
  if (48 <=? b) && (b <=? 57) then Some (b - 48)
  else if (97 <=? b) && (b <=? 102) then Some (b - 87)
  else if (65 <=? b) && (b <=? 70) then Some (b - 55)
  else None.

(* char::encode_utf8 *)
Definition utf8_enc (c : N) : list N :=
  if c <? 128 then [c]
  else if c <? 2048 then [192 + c / 64; 128 + c mod 64]
  else if c <? 65536 then [224 + c / 4096; 128 + (c / 64) mod 64; 128 + c mod 64]
  else [240 + c / 262144; 128 + (c / 4096) mod 64; 128 + (c / 64) mod 64; 128 + c mod 64].

Definition is_surrogate (c : N) : bool := (55296 <=? c) && (c <=? 57343).
(* char_from_surrogate_pair(low, high): repaired code (/repo c21c3ff) adds the parts; the pinned tree OR-ed them
   (known finding F26, fixed) *)
Definition surrogate_pair (low high : N) : option N :=
  if (56320 <=? low) && (low <=? 57343) && (55296 <=? high) && (high <=? 56319) then
    let n := (N.shiftl (high - 55296) 10 + (low - 56320 + 65536))%N in
    if (n <=? 1114111) && negb (is_surrogate n) then Some n else None
  else None.

Definition escape_char (b : N) : option N :=
  if b =? 34 then Some 34 else if b =? 92 then Some 92 else if b =? 47 then Some 47
  else if b =? 98 then Some 8 else if b =? 102 then Some 12 else if b =? 110 then Some 10
  else if b =? 114 then Some 13 else if b =? 116 then Some 9 else None.

Inductive jstatus := JOk | JErr | JOof.   (* JOof: the model ran out of fuel (excluded by the theorems) *)
Notation jres := (tape * list N * jstatus)%type.

Section Json.
Variable batch_size : nat.
Variable flatten : bool.

Definition with_stack (t : tape) (s : list jst) : tape := MkTape (t_elems t) (t_row t) (t_bytes t) (t_offsets t) s.
Definition push_elem (t : tape) (e : telem) (s : list jst) : tape :=
  MkTape (t_elems t ++ [e]) (t_row t) (t_bytes t) (t_offsets t) s.
(* close a string / number token: element referring to offsets.len() - 1, new offset = bytes.len() *)
Definition close_token (t : tape) (mk : N -> telem) (bytes : list N) (s : list jst) : tape :=
  MkTape (t_elems t ++ [mk (N.of_nat (length (t_offsets t) - 1))]) (t_row t) bytes
         (t_offsets t ++ [length bytes]) s.

(* the literal zip loop: compare the still expected bytes with the input; (new idx, rest, ok) *)
Fixpoint lit_zip (expected buf : list N) (idx : nat) : nat * list N * bool :=
  match expected, buf with
  | [], _ => (idx, buf, true)
  | _, [] => (idx, [], true)
  | e :: es, b :: r => if b =? e then lit_zip es r (S idx) else (idx, r, false)
  end.

(* the inner `loop` of the Unicode state; it runs at most 11 - idx + 1 times (idx 0..10), which is
   the fuel the decoder passes *)
Fixpoint unicode_loop (fuel : nat) (t : tape) (rest_stack : list jst) (high low : N) (idx : nat) (buf : list N) : jres :=
  match fuel with
  | O => (with_stack t (JUnicode high low idx :: rest_stack), buf, JOof)
  | S fuel =>
    let stay := (with_stack t (JUnicode high low idx :: rest_stack), [], JOk) in
    if (idx <=? 3)%nat then
      match buf with
      | [] => stay
      | b :: r => match parse_hex b with
                  | Some h => unicode_loop fuel t rest_stack ((high * 16) mod 65536 + h) low (S idx) r
                  | None => (with_stack t (JUnicode high low idx :: rest_stack), r, JErr)
                  end
      end
    else if (idx =? 4)%nat then
      if negb (is_surrogate high) then
        (MkTape (t_elems t) (t_row t) (t_bytes t ++ utf8_enc high) (t_offsets t) rest_stack, buf, JOk)
      else match buf with
           | [] => stay
           | b :: r => if b =? 92 then unicode_loop fuel t rest_stack high low (S idx) r
                       else (with_stack t (JUnicode high low idx :: rest_stack), r, JErr)
           end
    else if (idx =? 5)%nat then
      match buf with
      | [] => stay
      | b :: r => if b =? 117 then unicode_loop fuel t rest_stack high low (S idx) r
                  else (with_stack t (JUnicode high low idx :: rest_stack), r, JErr)
      end
    else if (idx <=? 9)%nat then
      match buf with
      | [] => stay
      | b :: r => match parse_hex b with
                  | Some h => unicode_loop fuel t rest_stack high ((low * 16) mod 65536 + h) (S idx) r
                  | None => (with_stack t (JUnicode high low idx :: rest_stack), r, JErr)
                  end
      end
    else
      match surrogate_pair low high with
      | Some c => (MkTape (t_elems t) (t_row t) (t_bytes t ++ utf8_enc c) (t_offsets t) rest_stack, buf, JOk)
      | None => (with_stack t (JUnicode high low idx :: rest_stack), buf, JErr)
      end
  end.

(* one iteration of `while !iter.is_empty() { match state { .. } }`: every arm either returns
   (`break` / `return Err`: [ret]) or goes round the loop again on the rest of the buffer ([rec]) *)
Definition jarm {A : Type} (ret : jres -> A) (rec : tape -> list N -> A) (t : tape) (buf : list N) : A :=
  match t_stack t with
  | [] =>
      let buf' := snd (span json_whitespace buf) in
      if (batch_size <=? t_row t)%nat then ret (t, buf', JOk)
      else match buf' with
           | [] => ret (t, [], JOk)
           | b :: r =>
               if (b =? 91) && flatten then rec (with_stack t [JTopList]) r
               else rec (MkTape (t_elems t) (S (t_row t)) (t_bytes t) (t_offsets t) [JValue]) buf'
           end
  | JTopList :: st =>
      let buf' := snd (span ws_or_comma buf) in
      if (batch_size <=? t_row t)%nat then ret (t, buf', JOk)
      else match buf' with
           | [] => ret (t, [], JOk)
           | b :: r =>
               if b =? 93 then rec (with_stack t st) r
               else rec (MkTape (t_elems t) (S (t_row t)) (t_bytes t) (t_offsets t) (JValue :: JTopList :: st)) buf'
           end
  | JObject start :: st =>
      match snd (span ws_or_comma buf) with
      | [] => ret (t, [], JOk)
      | b :: r =>
          if b =? 34 then rec (with_stack t (JString :: JColon :: JValue :: JObject start :: st)) r
          else if b =? 125 then
            let end_idx := N.of_nat (length (t_elems t)) in
            rec (MkTape (set_nth start (TStartObject end_idx) (t_elems t) ++ [TEndObject (N.of_nat start)])
                                 (t_row t) (t_bytes t) (t_offsets t) st) r
          else ret (t, r, JErr)
      end
  | JList start :: st =>
      match snd (span ws_or_comma buf) with
      | [] => ret (t, [], JOk)
      | b :: r =>
          if b =? 93 then
            let end_idx := N.of_nat (length (t_elems t)) in
            rec (MkTape (set_nth start (TStartList end_idx) (t_elems t) ++ [TEndList (N.of_nat start)])
                                 (t_row t) (t_bytes t) (t_offsets t) st) r
          else rec (with_stack t (JValue :: JList start :: st)) (b :: r)
      end
  | JString :: st =>
      let '(s, buf') := span not_str_special buf in
      let bytes := t_bytes t ++ s in
      match buf' with
      | [] => ret (MkTape (t_elems t) (t_row t) bytes (t_offsets t) (t_stack t), [], JOk)
      | b :: r =>
          if b =? 92 then rec (MkTape (t_elems t) (t_row t) bytes (t_offsets t) (JEscape :: JString :: st)) r
          else rec (close_token t TString bytes st) r
      end
  | JValue :: st =>
      match snd (span json_whitespace buf) with
      | [] => ret (t, [], JOk)
      | b :: r =>
          if b =? 34 then rec (with_stack t (JString :: st)) r
          else if (b =? 45) || ((48 <=? b) && (b <=? 57)) then
            rec (MkTape (t_elems t) (t_row t) (t_bytes t ++ [b]) (t_offsets t) (JNumber :: st)) r
          else if b =? 110 then rec (with_stack t (JLiteral LNull 1 :: st)) r
          else if b =? 102 then rec (with_stack t (JLiteral LFalse 1 :: st)) r
          else if b =? 116 then rec (with_stack t (JLiteral LTrue 1 :: st)) r
          else if b =? 91 then rec (push_elem t (TStartList 4294967295) (JList (length (t_elems t)) :: st)) r
          else if b =? 123 then rec (push_elem t (TStartObject 4294967295) (JObject (length (t_elems t)) :: st)) r
          else ret (t, r, JErr)
      end
  | JNumber :: st =>
      let '(s, buf') := span num_char buf in
      let bytes := t_bytes t ++ s in
      match buf' with
      | [] => ret (MkTape (t_elems t) (t_row t) bytes (t_offsets t) (t_stack t), [], JOk)
      | _ :: _ => rec (close_token t TNumber bytes st) buf'
      end
  | JColon :: st =>
      match snd (span json_whitespace buf) with
      | [] => ret (t, [], JOk)
      | b :: r => if b =? 58 then rec (with_stack t st) r else ret (t, r, JErr)
      end
  | JLiteral l idx :: st =>
      let '(idx', buf', ok) := lit_zip (skipn idx (lit_bytes l)) buf idx in
      if negb ok then ret (with_stack t (JLiteral l idx' :: st), buf', JErr)
      else if (idx' =? length (lit_bytes l))%nat then rec (push_elem t (lit_elem l) st) buf'
      else rec (with_stack t (JLiteral l idx' :: st)) buf'
  | JEscape :: st =>
      match buf with
      | [] => ret (t, [], JOk)
      | b :: r =>
          if b =? 117 then rec (with_stack t (JUnicode 0 0 0 :: st)) r
          else match escape_char b with
               | Some v => rec (MkTape (t_elems t) (t_row t) (t_bytes t ++ [v]) (t_offsets t) st) r
               | None => ret (t, r, JErr)
               end
      end
  | JUnicode high low idx :: st =>
      match unicode_loop (S (11 - idx)) t st high low idx buf with
      | (t', buf', JOk) => rec t' buf'
      | r => ret r
      end
  end.

(* decode(&mut self, buf) *)
Fixpoint jdecode (fuel : nat) (t : tape) (buf : list N) : jres :=
  match buf with
  | [] => (t, [], JOk)
  | _ :: _ =>
    match fuel with
    | O => (t, buf, JOof)
    | S fuel => jarm (fun r => r) (jdecode fuel) t buf
    end
  end.

Definition jfuel (buf : list N) : nat := 4 * length buf + 4.

(* has_partial_row / num_buffered_rows *)
Definition has_partial (t : tape) : bool :=
  match t_stack t with [] => false | [JTopList] => false | JTopList :: _ => false | _ => true end.

(* finish() + clear(): Some rows, or None = Err (part way through a record) *)
Definition jflush (t : tape) : option (nat * tape) :=
  if has_partial t then None
  else Some (t_row t, MkTape [TNull] 0 [] [0%nat] (t_stack t)).

(* S: one byte per call; stops where the bulk call stops (batch full or error) *)
Fixpoint jrun1 (fuel : nat) (t : tape) (bs : list N) : jres :=
  match bs with
  | [] => (t, [], JOk)
  | b :: r =>
      match jdecode fuel t [b] with
      | (t', [], JOk) => jrun1 fuel t' r
      | (t', rest, st) => (t', rest ++ r, st)
      end
  end.

End Json.
