(* C07 dispatch table: wraps the C07 models in the uniform case interface.

   Group layout of the file ops (c07.file / c07.bloom / c07.conv); groups 0-3 are the INPUT of the
   writer, the rest are OBSERVATIONS made on the written file by the harness:
     0 cfg  = [kind; flen; precision; variant; stats level (0 none,1 chunk,2 page); statistics truncate
               length | -1; column index truncate length | -1; row limit; write batch size; v2; dict;
               bo_mode; slice offset; #batches; bloom; ndv; fpp code; page header stats]
     1 validity (0/1 per row)   2 numeric kinds: logical value per row | byte kinds: length per row
     3 byte kinds: the values, concatenated
   c07.file observations:
     4 first_row_index per page (offset index)
     5 [has_stats; has_min; has_max; min_exact; max_exact; null_count|-1; nan_count|-1; num_rows; num_values]
     6 chunk min bytes   7 chunk max bytes
     8 [column index present; boundary order; has null_counts; has nan_counts]
     9 null_pages  10 null_counts  11 nan_counts  12,13 page min (lengths, bytes)  14,15 page max
     16,17,18 rows read back page by page (validity, values|lengths, bytes)
     19 page header stats: per data page [has; has_min; min_exact; max_exact; null_count|-1]
     20,21 header min (lengths, bytes)  22,23 header max
   Every file op answers [1] when its judgement holds, otherwise a failure code. *)
From Coq Require Import List ZArith NArith String Bool Arith.
From AV Require Import Base.Codec Model.C07_Trunc Model.C07_Stats Model.C07_Bloom Model.C07_File Model.C07_Spec.
Import ListNotations.
Local Open Scope string_scope.

Definition nats_of (l : list Z) : list nat := map Z.to_nat l.
Definition optnat (z : Z) : option nat := if (z <? 0)%Z then None else Some (Z.to_nat z).
Definition cfg (i : nat) (a : args) : Z := nth i (arg 0 a) 0%Z.

Fixpoint split_lens (lens : list nat) (flat : bytes) : list bytes :=
  match lens with [] => [] | n :: r => firstn n flat :: split_lens r (skipn n flat) end.
Definition blobs_at (i : nat) (a : args) : list bytes := split_lens (nats_of (arg i a)) (bytes_of (arg (S i) a)).

Definition mk_rows {A} (valid : list bool) (vals : list A) : list (option A) :=
  map2 (fun (b : bool) v => if b then Some v else None) valid vals.

(* logical rows as spec values, from groups (i, i+1, i+2) *)
(* BYTE_ARRAY decimals are written as big-endian two's complement byte strings of any length: the
   input rows are bytes, their logical value is the signed big-endian number *)
Definition be_signed (b : bytes) : Z := signed_of (List.length b) (le_unsigned (rev b)).
Definition in_rows_at (k : kind) (i : nat) (a : args) : list (option value) :=
  mk_rows (bools_of (arg i a)) (map (fun b => inl (be_signed b) : value) (blobs_at (S i) a)).

Definition rows_at (k : kind) (i : nat) (a : args) : list (option value) :=
  let valid := bools_of (arg i a) in
  if is_byte_kind k then mk_rows valid (map (fun b => inr b : value) (blobs_at (S i) a))
  else mk_rows valid (map (fun z => inl z : value) (arg (S i) a)).

Definition kind_of (a : args) : kind := kind_of_nat (Z.to_nat (cfg 0 a)).
Definition flen_of (a : args) : nat := Z.to_nat (cfg 1 a).

Fixpoint rows_eqb (x y : list (option value)) : bool :=
  match x, y with
  | [], [] => true
  | None :: x', None :: y' => rows_eqb x' y'
  | Some u :: x', Some v :: y' => veqb u v && rows_eqb x' y'
  | _, _ => false
  end.

Fixpoint mk_page_obs (nps : list bool) (ncs : list Z) (mins maxs : list bytes) : list page_obs :=
  match nps with
  | [] => []
  | np :: r =>
    {| po_null_page := np; po_min := hd [] mins; po_max := hd [] maxs;
       po_null_count := match ncs with [] => None | c :: _ => Some c end |}
    :: mk_page_obs r (tl ncs) (tl mins) (tl maxs)
  end.

(* ------------------------------------------------------------------ c07.file.spec *)
Definition s_file (a : args) : list (list Z) :=
  let k := kind_of a in let fl := flen_of a in
  let rows := match k with KDBA => in_rows_at k 1 a | _ => rows_at k 1 a end in
  let starts := nats_of (arg 4 a) in
  let f := arg 5 a in
  let fz i := nth i f 0%Z in
  let has_stats := negb (fz 0%nat =? 0)%Z in
  let co := {| co_min := if (fz 1%nat =? 0)%Z then None else Some (bytes_of (arg 6 a));
               co_max := if (fz 2%nat =? 0)%Z then None else Some (bytes_of (arg 7 a));
               co_min_exact := negb (fz 3%nat =? 0)%Z; co_max_exact := negb (fz 4%nat =? 0)%Z;
               co_null_count := if (fz 5%nat <? 0)%Z then None else Some (fz 5%nat) |} in
  let ci_present := negb (nth 0 (arg 8 a) 0 =? 0)%Z in
  let dir := Z.to_nat (nth 1 (arg 8 a) 0%Z) in
  let pobs := mk_page_obs (bools_of (arg 9 a)) (arg 10 a) (blobs_at 12 a) (blobs_at 14 a) in
  let pages := page_rows rows starts in
  let bo_mode := cfg 11 a in
  let c1 := first_fail
    [ ((fz 7%nat =? Z.of_nat (List.length rows))%Z, 10%Z);                          (* row count exact *)
      ((fz 8%nat =? Z.of_nat (List.length rows))%Z, 11%Z);                          (* flat column: one level per row *)
      (match starts with [] => true | _ => partition_ok (List.length rows) starts end, 12%Z);
      (rows_eqb (rows_at k 16 a) rows, 13%Z) ] in                              (* pages fetched via the offset index hold exactly their rows *)
  let c2 := if has_stats then chunk_ok k fl rows co else ok in
  let c3 := if ci_present then
              match starts with
              | [] => ok
              | _ => pages_ok k fl pages pobs
              end else ok in
  let c4 := if ci_present then
              if (bo_mode =? 0)%Z
              then (if order_ok k dir (true_bounds k pages) then ok else 40%Z)
              else match stored_bounds k fl pobs with
                   | Some b => if order_ok k dir b then ok else 40%Z
                   | None => 41%Z
                   end
            else ok in
  (* page header statistics (judged against the rows of the same page) *)
  let hf := arg 19 a in
  let hmins := blobs_at 20 a in let hmaxs := blobs_at 22 a in
  let c5 :=
    (fix go (pages : list (list (option value))) (hf : list Z) (mins maxs : list bytes) : Z :=
       match pages, hf with
       | p :: pr, has :: hasmin :: mne :: mxe :: nc :: hr =>
         let c := if (has =? 0)%Z then ok else
           chunk_ok k fl p {| co_min := if (hasmin =? 0)%Z then None else Some (hd [] mins);
                              co_max := if (hasmin =? 0)%Z then None else Some (hd [] maxs);
                              co_min_exact := negb (mne =? 0)%Z; co_max_exact := negb (mxe =? 0)%Z;
                              co_null_count := if (nc <? 0)%Z then None else Some nc |} in
         if (c =? ok)%Z then go pr hr (tl mins) (tl maxs) else (c + 30)%Z
       | _, _ => ok
       end) (match starts with [] => [] | _ => pages end) hf hmins hmaxs in
  [[ first_fail [ ((c1 =? ok)%Z, c1); ((c2 =? ok)%Z, c2); ((c3 =? ok)%Z, c3); ((c4 =? ok)%Z, c4); ((c5 =? ok)%Z, c5) ] ]].

(* ------------------------------------------------------------------ c07.file (M, internal) *)
Definition tl_stats_of (a : args) : option nat := optnat (cfg 5 a).
Definition tl_index_of (a : args) : option nat := optnat (cfg 6 a).

Definition can_trunc_kind (k : kind) : bool := match k with KUTF8 | KBIN | KFSB | KIVL | KDBA => true | _ => false end.

Record prediction := {
  pr_min : option (bytes * bool); pr_max : option (bytes * bool); pr_nulls : nat; pr_nans : option nat;
  pr_ci_valid : bool; pr_ci : colidx; pr_bo : nat }.

Definition predict_z (k : kind) (page_level : bool) (tls tli : option nat) (bs : nat)
           (pages : list (list (option Z))) : prediction :=
  let w := run_pages Z (gt_z k) (nan_z k) (enc_z k) (is_float_kind k) true None false false page_level tli bs pages in
  {| pr_min := chunk_min Z (enc_z k) false false tls w; pr_max := chunk_max Z (enc_z k) false false tls w;
     pr_nulls := w_nulls Z w; pr_nans := w_nans Z w; pr_ci_valid := w_valid Z w; pr_ci := w_ci Z w;
     pr_bo := boundary_order Z w |}.

Definition predict_b (k : kind) (page_level : bool) (tls tli : option nat) (bs : nat)
           (pages : list (list (option bytes))) : prediction :=
  let bap := match k with KUTF8 | KBIN => Some ba_write | _ => None end in
  let has_order := match k with KIVL => false | _ => true end in
  let ct := can_trunc_kind k in
  let u8 := match k with KUTF8 => true | _ => false end in
  let w := run_pages bytes (gt_b k) (nan_b k) (fun b => b) (is_float_kind k) has_order bap ct u8 page_level tli bs pages in
  {| pr_min := chunk_min bytes (fun b => b) ct u8 tls w; pr_max := chunk_max bytes (fun b => b) ct u8 tls w;
     pr_nulls := w_nulls bytes w; pr_nans := w_nans bytes w; pr_ci_valid := w_valid bytes w; pr_ci := w_ci bytes w;
     pr_bo := boundary_order bytes w |}.

Fixpoint bytes_eqb (x y : bytes) : bool :=
  match x, y with [] , [] => true | a :: x', b :: y' => N.eqb a b && bytes_eqb x' y' | _, _ => false end.
Fixpoint list_eqb {A} (e : A -> A -> bool) (x y : list A) : bool :=
  match x, y with [], [] => true | a :: x', b :: y' => e a b && list_eqb e x' y' | _, _ => false end.
Definition optbytes_eqb (x : option (bytes * bool)) (has : bool) (b : bytes) (exact : bool) : bool :=
  match x with
  | None => negb has
  | Some (p, e) => has && bytes_eqb p b && Bool.eqb e exact
  end.

Definition d_file (a : args) : list (list Z) :=
  let k := kind_of a in let fl := flen_of a in
  let level := cfg 4 a in
  let page_level := (level =? 2)%Z in
  let bs := Z.to_nat (cfg 8 a) in
  let starts := nats_of (arg 4 a) in
  let valid := bools_of (arg 1 a) in
  let pred :=
    if phys_bytes k then
      let vals := if is_byte_kind k || match k with KDBA => true | _ => false end then blobs_at 2 a
                  else map (bytes_of_logical k fl) (arg 2 a) in
      predict_b k page_level (tl_stats_of a) (tl_index_of a) bs (page_rows (mk_rows valid vals) starts)
    else
      predict_z k page_level (tl_stats_of a) (tl_index_of a) bs
                (page_rows (mk_rows valid (map (phys_of_logical k) (arg 2 a))) starts) in
  let f := arg 5 a in
  let fz i := nth i f 0%Z in
  let flag i := negb (fz i =? 0)%Z in
  let ci_present := negb (nth 0 (arg 8 a) 0 =? 0)%Z in
  let ci := pr_ci pred in
  let nonempty := match starts with [] => false | _ => true end in
  [[ first_fail
     [ (* statistics present iff enabled *)
       (Bool.eqb (flag 0%nat) (negb (level =? 0)%Z), 50%Z);
       (negb (flag 0%nat) || optbytes_eqb (pr_min pred) (flag 1%nat) (bytes_of (arg 6 a)) (flag 3%nat), 51%Z);
       (negb (flag 0%nat) || optbytes_eqb (pr_max pred) (flag 2%nat) (bytes_of (arg 7 a)) (flag 4%nat), 52%Z);
       (negb (flag 0%nat) || (fz 5%nat =? Z.of_nat (pr_nulls pred))%Z, 53%Z);
       (negb (flag 0%nat) || (fz 6%nat =? match pr_nans pred with Some n => Z.of_nat n | None => (-1)%Z end)%Z, 54%Z);
       (* column index present iff the builder stayed valid *)
       (negb nonempty || Bool.eqb ci_present (pr_ci_valid pred), 55%Z);
       (negb ci_present || list_eqb Bool.eqb (bools_of (arg 9 a)) (ci_null_pages ci), 56%Z);
       (negb ci_present || list_eqb Z.eqb (arg 10 a) (map Z.of_nat (ci_null_counts ci)), 57%Z);
       (negb ci_present || list_eqb bytes_eqb (blobs_at 12 a) (ci_mins ci), 58%Z);
       (negb ci_present || list_eqb bytes_eqb (blobs_at 14 a) (ci_maxs ci), 59%Z);
       (negb ci_present || (nth 1 (arg 8 a) 0 =? Z.of_nat (pr_bo pred))%Z, 60%Z);
       (negb ci_present ||
        list_eqb Z.eqb (arg 11 a)
          (if is_float_kind k then map (fun o => match o with Some n => Z.of_nat n | None => 0%Z end) (ci_nan_counts ci) else []), 61%Z)
     ] ]].

(* ------------------------------------------------------------------ bloom filter of the file
   c07.bloom observations: 4 [present; initial blocks (from ndv, fpp); stored blocks]  5 bitset
   6 XXH64 of the PLAIN bytes of every non-null row  7 Sbbf::check(value) for the same rows *)
Fixpoint log2_ratio (fuel : nat) (big small : nat) : nat :=
  match fuel with
  | O => 0
  | S f => if (big <=? small)%nat then 0%nat else S (log2_ratio f (big / 2) small)
  end.
Definition hashes_of (l : list Z) : list N := map Z.to_N l.

Definition s_bloom (a : args) : list (list Z) :=
  let k := kind_of a in
  let present := negb (nth 0 (arg 4 a) 0 =? 0)%Z in
  let nonnull := List.length (filter (fun b : bool => b) (bools_of (arg 1 a))) in
  [[ if negb present then ok else
     first_fail
      [ ((List.length (arg 6 a) =? nonnull)%nat && (List.length (arg 7 a) =? nonnull)%nat, 70%Z);
        (forallb (fun z => negb (z =? 0)%Z) (arg 7 a), 71%Z);          (* the real Sbbf::check *)
        (bloom_ok (bytes_of (arg 5 a)) (hashes_of (arg 6 a)), 72%Z) ] ]]. (* the model's check on the stored bitset *)

Definition d_bloom (a : args) : list (list Z) :=
  let present := negb (nth 0 (arg 4 a) 0 =? 0)%Z in
  let init := Z.to_nat (nth 1 (arg 4 a) 0%Z) in
  let stored := Z.to_nat (nth 2 (arg 4 a) 0%Z) in
  let hs := hashes_of (arg 6 a) in
  let f0 := fold_left insert_hash hs (sbbf_new init) in
  let kf := log2_ratio 40 init stored in
  let f1 := if (kf =? 0)%nat then f0 else fold_n kf f0 in
  [[ first_fail
      [ (Bool.eqb present (negb (cfg 14 a =? 0)%Z), 80%Z);
        (negb present || (List.length f1 =? stored)%nat, 81%Z);
        (negb present || list_eqb (list_eqb N.eqb) f1 (sbbf_of_bytes (bytes_of (arg 5 a))), 82%Z) ] ]].

(* ------------------------------------------------------------------ Sbbf driven directly
   args: 0 [num_bytes; fpp code; observed block count after fold_to_target_fpp]  1,2 inserted values
   3 their hashes  4,5 probe values  6 their hashes; the bitsets are reported as little-endian u32 words *)
Definition d_sbbf (a : args) : list (list Z) :=
  let nb0 := num_blocks_for_bytes (Z.to_N (nth 0 (arg 0 a) 0%Z)) in
  let nb1 := Z.to_nat (nth 2 (arg 0 a) 0%Z) in
  let f0 := fold_left insert_hash (hashes_of (arg 3 a)) (sbbf_new nb0) in
  let kf := log2_ratio 40 nb0 nb1 in
  let f1 := if (kf =? 0)%nat then f0 else fold_n kf f0 in
  let probes := hashes_of (arg 6 a) in
  [ [Z.of_nat nb0; Z.of_nat (List.length f1); 1%Z]; zs_of_bytes (List.concat f0); zs_of_bytes (List.concat f1);
    zs_of_bools (map (check_hash f0) probes); zs_of_bools (map (check_hash f1) probes) ].
Definition s_sbbf_check (a : args) : list (list Z) :=
  let n := List.length (arg 1 a) in [ repeat 1%Z n; repeat 1%Z n ].

(* ------------------------------------------------------------------ StatisticsConverter
   c07.conv observations: 4 starts  5 [supported; rg null_count|-1; min_exact|-1; max_exact|-1; row count|-1]
   6-8 rg min (one optional row)  9-11 rg max  12 [page level present]  13-15 page mins  16-18 page maxes
   19 page null counts (-1 unknown)  20 page row counts *)
Fixpoint conv_pages (k : kind) (pages : list (list (option value))) (mins maxs : list (option value))
         (ncs rcs : list Z) : Z :=
  match pages, mins, maxs, ncs, rcs with
  | [], [], [], [], [] => ok
  | p :: pr, mn :: mnr, mx :: mxr, nc :: ncr, rc :: rcr =>
    let c := first_fail
      [ (match mn, mx with Some x, Some y => bounds_ok k p x y | _, _ => true end, 92%Z);
        ((nc <? 0)%Z || (nc =? Z.of_nat (count_none p))%Z, 93%Z);
        ((rc =? Z.of_nat (List.length p))%Z, 94%Z) ] in
    if (c =? ok)%Z then conv_pages k pr mnr mxr ncr rcr else c
  | _, _, _, _, _ => 95%Z
  end.

Definition s_conv (a : args) : list (list Z) :=
  let k := kind_of a in
  let rows := match k with KDBA => in_rows_at k 1 a | _ => rows_at k 1 a end in
  let f := arg 5 a in
  let fz i := nth i f 0%Z in
  if (fz 0%nat =? 0)%Z then [[ok]] else
  let mn := hd None (rows_at k 6 a) in
  let mx := hd None (rows_at k 9 a) in
  let c1 := first_fail
    [ (match mn, mx with Some x, Some y => bounds_ok k rows x y | _, _ => true end, 90%Z);
      ((fz 1%nat <? 0)%Z || (fz 1%nat =? Z.of_nat (count_none rows))%Z, 91%Z);
      (negb (fz 2%nat =? 1)%Z || match mn with Some x => attained rows x | None => true end, 96%Z);
      (negb (fz 3%nat =? 1)%Z || match mx with Some x => attained rows x | None => true end, 97%Z);
      ((fz 4%nat <? 0)%Z || (fz 4%nat =? Z.of_nat (List.length rows))%Z, 98%Z) ] in
  let c2 := if (nth 0 (arg 12 a) 0 =? 0)%Z then ok else
            conv_pages k (page_rows rows (nats_of (arg 4 a))) (rows_at k 13 a) (rows_at k 16 a) (arg 19 a) (arg 20 a) in
  [[ if (c1 =? ok)%Z then c2 else c1 ]].

(* ------------------------------------------------------------------ StatisticsConverter, several row groups
   c07.convrg: 0 [row limit; batch size]  1 validity  2 Int64 values  3 rows per row group (input)
   4 row_group_indices given to the converter
   observations: 5 num_rows per row group  6 pages per row group  7 first_row_index of all pages
   8 [status]  9 data_page_row_counts  10 data_page_null_counts  11,12 page mins  13,14 page maxes
   The converter must describe, in the order of the requested indices, exactly the pages of those row
   groups: row count = size of the page, null count exact, min/max bound the page's rows. *)
Fixpoint split_sizes {A} (sizes : list nat) (l : list A) : list (list A) :=
  match sizes with [] => [] | n :: r => firstn n l :: split_sizes r (skipn n l) end.

Definition s_convrg (a : args) : list (list Z) :=
  let rows := mk_rows (bools_of (arg 1 a)) (map (fun z => inl z : value) (arg 2 a)) in
  let sizes := filter (fun n => negb (n =? 0)%nat) (nats_of (arg 3 a)) in
  let idx := nats_of (arg 4 a) in
  let rg_rows := split_sizes sizes rows in
  let rg_starts := split_sizes (nats_of (arg 6 a)) (nats_of (arg 7 a)) in
  (* pages of every row group *)
  let rg_pages := map2 (fun r st => page_rows r st) rg_rows rg_starts in
  let wanted := flat_map (fun i => nth i rg_pages []) idx in
  let mins := mk_rows (bools_of (arg 11 a)) (map (fun z => inl z : value) (arg 12 a)) in
  let maxs := mk_rows (bools_of (arg 13 a)) (map (fun z => inl z : value) (arg 14 a)) in
  [[ first_fail
     [ (list_eqb Z.eqb (arg 5 a) (map Z.of_nat sizes), 110%Z);                      (* row groups hold the flushed rows *)
       ((List.length rg_starts =? List.length rg_rows)%nat &&
        forallb (fun p => partition_ok (List.length (fst p)) (snd p)) (combine rg_rows rg_starts), 111%Z);
       ((nth 0 (arg 8 a) 0 =? 1)%Z, 112%Z);                                         (* the converter answered *)
       (let c := conv_pages KI64 wanted mins maxs (arg 10 a) (arg 9 a) in (c =? ok)%Z, 113%Z) ] ]].

Definition ops_C07 : list (string * opfun) :=
  [ ("c07.file.spec", s_file); ("c07.file", d_file);
    ("c07.bloom.spec", s_bloom); ("c07.bloom", d_bloom);
    ("c07.sbbf", d_sbbf); ("c07.sbbf_check.spec", s_sbbf_check);
    ("c07.conv.spec", s_conv); ("c07.convrg.spec", s_convrg) ].
