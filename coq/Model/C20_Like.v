(* C20 — LIKE / ILIKE / starts_with / ends_with / contains.
   S : the naive backtracking matcher on code points (like_gen), prefix/suffix/infix on code points.
   M : arrow-string/src/predicate.rs — Predicate::like / ilike classification on the UTF-8 *bytes*
       of the pattern, byte-level evaluation of the fast paths, regex_like translation to a token
       list evaluated by a reference semantics of the regex fragment it produces.
   Definitions only; proofs in Proofs/C20_*.v. *)
From Coq Require Import List NArith ZArith Bool.
From AV Require Import Base.Utf8.
Import ListNotations.
Local Open Scope N_scope.

Notation cp := N (only parsing).      (* Unicode scalar value *)
Notation byte := N (only parsing).

Definition PCT : N := 37.   (* '%' *)
Definition UND : N := 95.   (* '_' *)
Definition BSL : N := 92.   (* '\\' *)

Definition utf8 (s : list N) : list N := flat_map encode s.
(* decoding used by the models where Rust iterates `chars()` of a `&str` (always valid UTF-8) *)
Definition cps_of (b : list N) : list N :=
  match decode_all (length b) b with Some l => l | None => [] end.

(* ------------------------------------------------------------------------------------------ S *)
(* LIKE on code points, parameterised by the character equality (N.eqb for LIKE, ASCII case folding
   for the ASCII instances of ILIKE).
   '%' any sequence (including newlines), '_' exactly one character, '\\' c the literal c,
   a trailing '\\' a literal backslash. *)
Fixpoint like_gen (eqc : N -> N -> bool) (p : list N) : list N -> bool :=
  match p with
  | [] => fun s => match s with [] => true | _ => false end
  | c :: p' =>
    if c =? PCT then
      (fix star (s : list N) : bool :=
         if like_gen eqc p' s then true else match s with [] => false | _ :: s' => star s' end)
    else if c =? UND then
      fun s => match s with [] => false | _ :: s' => like_gen eqc p' s' end
    else if c =? BSL then
      match p' with
      | [] => fun s => match s with [x] => eqc x BSL | _ => false end
      | e :: p'' => fun s => match s with [] => false | x :: s' => if eqc x e then like_gen eqc p'' s' else false end
      end
    else
      fun s => match s with [] => false | x :: s' => if eqc x c then like_gen eqc p' s' else false end
  end.

Definition like_spec : list N -> list N -> bool := like_gen N.eqb.

Definition ascii_lower (c : N) : N := if (65 <=? c) && (c <=? 90) then c + 32 else c.
Definition ascii_ieq (a b : N) : bool := ascii_lower a =? ascii_lower b.      (* u8::eq_ignore_ascii_case *)
Definition is_ascii (s : list N) : bool := forallb (fun c => c <? 128) s.
(* ILIKE restricted to ASCII pattern and ASCII haystack (Unicode simple case folding restricted to
   ASCII strings is ASCII case folding). *)
Definition ilike_ascii_spec : list N -> list N -> bool := like_gen ascii_ieq.

(* generic list predicates, parameterised by element equality *)
Fixpoint eqlist_by (eqc : N -> N -> bool) (a b : list N) : bool :=
  match a, b with
  | [], [] => true
  | x :: a', y :: b' => if eqc x y then eqlist_by eqc a' b' else false
  | _, _ => false
  end.
(* prefix_by eqc lit s : lit is a prefix of s (elements of s on the left of eqc) *)
Fixpoint prefix_by (eqc : N -> N -> bool) (lit s : list N) : bool :=
  match lit, s with
  | [], _ => true
  | c :: l', x :: s' => if eqc x c then prefix_by eqc l' s' else false
  | _ :: _, [] => false
  end.
Fixpoint exists_tail (f : list N -> bool) (s : list N) : bool :=
  if f s then true else match s with [] => false | _ :: s' => exists_tail f s' end.

Definition eq_cp (a b : list N) : bool := eqlist_by N.eqb a b.
Definition starts_with_spec (h n : list N) : bool := prefix_by N.eqb n h.
Definition ends_with_spec (h n : list N) : bool := exists_tail (fun t => eqlist_by N.eqb t n) h.
Definition contains_spec (h n : list N) : bool := exists_tail (prefix_by N.eqb n) h.

(* ------------------------------------------------------------------------------------------ M *)
(* memchr3(b'%', b'_', b'\\', pattern.as_bytes()).is_some() *)
Definition is_special (b : N) : bool := (b =? PCT) || (b =? UND) || (b =? BSL).
Definition contains_like_pattern (p : list N) : bool := existsb is_special p.

(* str::ends_with('%') / starts_with('%') : '%' is one byte *)
Definition last_is (b : N) (p : list N) : bool := match rev p with x :: _ => x =? b | [] => false end.
Definition first_is (b : N) (p : list N) : bool := match p with x :: _ => x =? b | [] => false end.
(* str::ends_with("\\%") *)
Definition ends_with_bsl_pct (p : list N) : bool :=
  match rev p with y :: x :: _ => (x =? BSL) && (y =? PCT) | _ => false end.

(* regex fragment produced by regex_like *)
Inductive tok := TLit (c : N) | TDot | TDotStar.
Record rx := mkrx { rx_astart : bool; rx_toks : list tok; rx_aend : bool }.

Inductive pred :=
| PEq (v : list N) | PContains (v : list N) | PStartsWith (v : list N) | PEndsWith (v : list N)
| PIEqAscii (v : list N) | PIStartsWithAscii (v : list N) | PIEndsWithAscii (v : list N)
| PRegex (ci : bool) (r : rx).

(* regex_syntax::is_meta_character (regex-syntax 0.8):  \ . + * ? ( ) | [ ] { } ^ $ # & - ~ *)
Definition is_meta (c : N) : bool :=
  existsb (N.eqb c) [92; 46; 43; 42; 63; 40; 41; 124; 91; 93; 123; 125; 94; 36; 35; 38; 45; 126].

(* body of the `while let Some(c) = chars_iter.next()` loop *)
Fixpoint regex_toks (p : list N) : list tok :=
  match p with
  | [] => []
  | c :: r =>
    if c =? BSL then
      match r with
      | [] => [TLit BSL]                     (* trailing backslash: "\\\\" *)
      | n :: r' => TLit n :: regex_toks r'   (* escaped char: literal (meta characters re-escaped) *)
      end
    else if c =? PCT then TDotStar :: regex_toks r
    else if c =? UND then TDot :: regex_toks r
    else TLit c :: regex_toks r
  end.

(* the regex source text as built in `result` *)
Definition render_tok (t : tok) : list N :=
  match t with
  | TLit c => if is_meta c then [92; c] else [c]
  | TDot => [46]
  | TDotStar => [46; 42]
  end.
Definition render (astart : bool) (ts : list tok) : list N :=
  (if astart then [94] else []) ++ flat_map render_tok ts.
Definition text_ends_dotstar (t : list N) : bool :=
  match rev t with y :: x :: _ => (x =? 46) && (y =? 42) | _ => false end.

Definition regex_like (p : list N) : rx :=
  let astart := negb (first_is PCT p) in
  let body := if astart then p else tl p in
  let ts := regex_toks body in
  if text_ends_dotstar (render astart ts)
  then mkrx astart (removelast ts) false       (* result.pop(); result.pop() *)
  else mkrx astart ts true.                     (* result.push('$') *)

(* reference semantics of the fragment: `.` any character (dot_matches_new_line), `.*` any sequence,
   `^`/`$` text anchors, is_match = unanchored search *)
Fixpoint rx_match (eqc : N -> N -> bool) (ts : list tok) (aend : bool) : list N -> bool :=
  match ts with
  | [] => fun s => if aend then match s with [] => true | _ => false end else true
  | TLit c :: t => fun s => match s with [] => false | x :: s' => if eqc x c then rx_match eqc t aend s' else false end
  | TDot :: t => fun s => match s with [] => false | _ :: s' => rx_match eqc t aend s' end
  | TDotStar :: t =>
      fix star (s : list N) : bool :=
        if rx_match eqc t aend s then true else match s with [] => false | _ :: s' => star s' end
  end.
Definition rx_is_match (eqc : N -> N -> bool) (r : rx) (s : list N) : bool :=
  if rx_astart r then rx_match eqc (rx_toks r) (rx_aend r) s
  else exists_tail (rx_match eqc (rx_toks r) (rx_aend r)) s.

(* the same fragment under the regex flags that regexp_is_match accepts per row:
   s (dotnl: '.' also matches '\n'), m (ml: '^' / '$' also match after / before a '\n'), i (through eqc).
   rx_is_match is the instance dotnl = true, ml = false (Proofs/C20_Like.v: rx_flags_s_is_reference). *)
Definition dot_ok (dotnl : bool) (x : N) : bool := if dotnl then true else negb (x =? 10).
Fixpoint rx_match_f (eqc : N -> N -> bool) (dotnl ml : bool) (ts : list tok) (aend : bool) : list N -> bool :=
  match ts with
  | [] => fun s => if aend then match s with [] => true | x :: _ => if ml then x =? 10 else false end else true
  | TLit c :: t => fun s => match s with [] => false | x :: s' => if eqc x c then rx_match_f eqc dotnl ml t aend s' else false end
  | TDot :: t => fun s => match s with [] => false | x :: s' => if dot_ok dotnl x then rx_match_f eqc dotnl ml t aend s' else false end
  | TDotStar :: t =>
      fix star (s : list N) : bool :=
        if rx_match_f eqc dotnl ml t aend s then true
        else match s with [] => false | x :: s' => if dot_ok dotnl x then star s' else false end
  end.
(* unanchored search; `at_start`: the position is the start of the text or (ml) follows a '\n' *)
Fixpoint rx_search_f (f : list N -> bool) (astart ml at_start : bool) (s : list N) : bool :=
  if (if astart then (if at_start then f s else false) else f s) then true
  else match s with [] => false | x :: s' => rx_search_f f astart ml (if ml then x =? 10 else false) s' end.
Definition rx_is_match_f (eqc : N -> N -> bool) (dotnl ml : bool) (r : rx) (s : list N) : bool :=
  rx_search_f (rx_match_f eqc dotnl ml (rx_toks r) (rx_aend r)) (rx_astart r) ml true s.

(* Predicate::like *)
Definition classify_like (p : list N) : pred :=
  if negb (contains_like_pattern p) then PEq p
  else if last_is PCT p && negb (contains_like_pattern (removelast p)) then PStartsWith (removelast p)
  else if first_is PCT p && negb (contains_like_pattern (tl p)) then PEndsWith (tl p)
  else if first_is PCT p && last_is PCT p && negb (contains_like_pattern (removelast (tl p)))
       then PContains (removelast (tl p))
  else PRegex false (regex_like (cps_of p)).

(* Predicate::ilike(pattern, is_ascii) *)
Definition classify_ilike (p : list N) (haystacks_ascii : bool) : pred :=
  if haystacks_ascii && is_ascii p then
    if negb (contains_like_pattern p) then PIEqAscii p
    else if last_is PCT p && negb (ends_with_bsl_pct p) && negb (contains_like_pattern (removelast p))
         then PIStartsWithAscii (removelast p)
    else if first_is PCT p && negb (contains_like_pattern (tl p)) then PIEndsWithAscii (tl p)
    else PRegex true (regex_like (cps_of p))
  else PRegex true (regex_like (cps_of p)).

(* zip(lhs, rhs).all(kernel) *)
Fixpoint zip_all (k : N -> N -> bool) (a b : list N) : bool :=
  match a, b with
  | x :: a', y :: b' => if k x y then zip_all k a' b' else false
  | _, _ => true
  end.
(* fn starts_with(haystack, needle, kernel) *)
Definition bytes_starts_with (k : N -> N -> bool) (h n : list N) : bool :=
  if (length h <? length n)%nat then false else zip_all k h n.
(* fn ends_with : zip(haystack.rev(), needle.rev()) *)
Definition bytes_ends_with (k : N -> N -> bool) (h n : list N) : bool :=
  if (length h <? length n)%nat then false else zip_all k (rev h) (rev n).
(* fn equals_bytes *)
Definition equals_bytes (k : N -> N -> bool) (l r : list N) : bool :=
  if (length l =? length r)%nat then zip_all k l r else false.
(* memmem: Finder::find(haystack).is_some() — assumed to decide "needle occurs at some offset" *)
Definition bytes_contains (h n : list N) : bool := exists_tail (fun t => bytes_starts_with N.eqb t n) h.
(* slice equality  *v == haystack *)
Definition bytes_eq (a b : list N) : bool := equals_bytes N.eqb a b.

(* Predicate::evaluate (haystack given as bytes; the regex engine sees its characters).
   The (?i) flag is modelled for ASCII text only (ascii_ieq). *)
Definition evaluate (pr : pred) (h : list N) : bool :=
  match pr with
  | PEq v => bytes_eq v h
  | PIEqAscii v => equals_bytes ascii_ieq h v
  | PContains v => bytes_contains h v
  | PStartsWith v => bytes_starts_with N.eqb h v
  | PIStartsWithAscii v => bytes_starts_with ascii_ieq h v
  | PEndsWith v => bytes_ends_with N.eqb h v
  | PIEndsWithAscii v => bytes_ends_with ascii_ieq h v
  | PRegex ci r => rx_is_match (if ci then ascii_ieq else N.eqb) r (cps_of h)
  end.

(* StringViewArray::prefix_bytes_iter(n) / suffix_bytes_iter(n) of one value *)
Definition view_prefix (n : nat) (h : list N) : list N := if (length h <? n)%nat then [] else firstn n h.
Definition view_suffix (n : nat) (h : list N) : list N := if (length h <? n)%nat then [] else skipn (length h - n) h.

(* Predicate::evaluate_array on one element; `view` = the array is a StringViewArray *)
Definition evaluate_elem (view : bool) (pr : pred) (h : list N) (negate : bool) : bool :=
  let r :=
    match pr with
    | PEq v => (length h =? length v)%nat && bytes_eq h v
    | PStartsWith v => if view then equals_bytes N.eqb (view_prefix (length v) h) v else bytes_starts_with N.eqb h v
    | PIStartsWithAscii v => if view then equals_bytes ascii_ieq (view_prefix (length v) h) v else bytes_starts_with ascii_ieq h v
    | PEndsWith v => if view then equals_bytes N.eqb (view_suffix (length v) h) v else bytes_ends_with N.eqb h v
    | PIEndsWithAscii v => if view then equals_bytes ascii_ieq (view_suffix (length v) h) v else bytes_ends_with ascii_ieq h v
    | _ => evaluate pr h
    end in
  xorb r negate.

(* the kernels on one (haystack, pattern) pair of byte strings *)
Definition like_m (p h : list N) : bool := evaluate (classify_like p) h.
Definition nlike_m (p h : list N) : bool := xorb (evaluate (classify_like p) h) true.
Definition ilike_m (haystacks_ascii : bool) (p h : list N) : bool := evaluate (classify_ilike p haystacks_ascii) h.
Definition like_scalar_m (view negate : bool) (p h : list N) : bool := evaluate_elem view (classify_like p) h negate.
Definition ilike_scalar_m (view negate haystacks_ascii : bool) (p h : list N) : bool :=
  evaluate_elem view (classify_ilike p haystacks_ascii) h negate.
Definition starts_with_m (view : bool) (h n : list N) : bool := evaluate_elem view (PStartsWith n) h false.
Definition ends_with_m (view : bool) (h n : list N) : bool := evaluate_elem view (PEndsWith n) h false.
Definition contains_m (h n : list N) : bool := evaluate (PContains n) h.
