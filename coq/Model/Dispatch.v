(* The single entry point evaluated by the extracted driver and by in-Coq case files. *)
From Coq Require Import List ZArith String.
From AV Require Import Base.Codec Model.D_C19.
Import ListNotations.

Definition all_ops : list (string * opfun) := ops_C19.

Definition dispatch (name : string) : option opfun := lookup all_ops name.
Definition run_op (name : string) (a : args) : list (list Z) :=
  match dispatch name with Some f => f a | None => [[(-2)%Z]] end.
