(* C10 — rank (arrow-ord/src/rank.rs), partition (partition.rs) and the comparison kernels' null
   handling (cmp.rs compare_op).  Definitions only: M follows the Rust control flow, S is the short spec. *)
From Coq Require Import List ZArith Bool Arith.
From AV Require Import Model.C10_Order Model.C10_Sort.
Import ListNotations.

(* ================================================================== rank *)

(* S: rank of slot i = (number of nulls, when nulls come first) + number of valid slots that do not
   come after it in the requested order (ties share the highest rank); a null slot gets the number of
   nulls (nulls first) or the array length (nulls last). *)
Definition count_nulls (a : list oval) : nat :=
  length (filter (fun o : oval => match o with None => true | Some _ => false end) a).
Definition count_le (desc : bool) (vc : val -> val -> comparison) (a : list oval) (v : val) : nat :=
  length (filter (fun o : oval => match o with
                                  | Some u => not_gt (rev_if desc (vc u v))
                                  | None => false end) a).
Definition rank_spec (vc : val -> val -> comparison) (nf desc : bool) (a : list oval) : list nat :=
  map (fun o : oval => match o with
                       | None => if nf then count_nulls a else length a
                       | Some v => (if nf then count_nulls a else 0) + count_le desc vc a v
                       end) a.

Fixpoint upd (l : list nat) (i : nat) (x : nat) : list nat :=
  match l, i with
  | [], _ => []
  | _ :: r, O => x :: r
  | y :: r, S i' => y :: upd r i' x
  end.

Section RankImpl.
  Context {T : Type}.
  Variable sort_oracle : (T * nat -> T * nat -> comparison) -> list (T * nat) -> list (T * nat).
  Variable eq : T -> T -> bool.

  (* state after `for w in valid.windows(2).rev()` has processed every window inside [s]:
     (valid_rank, count, out, value of the first element of s) *)
  Fixpoint rank_back (s : list (T * nat)) (top : nat) (out : list nat) : nat * nat * list nat :=
    match s with
    | [] => (top, 1, out)
    | (v, i) :: s' =>
        match s' with
        | [] => (top, 1, upd out i top)          (* `if let Some(v) = valid.last() { out[v.1] = valid_rank }` *)
        | (nxt, _) :: _ =>
            let '(vr, cnt, out') := rank_back s' top out in
            if eq v nxt then (vr, S cnt, upd out' i vr)
            else (vr - cnt, 1, upd out' i (vr - cnt))
        end
    end.

  (* rank_impl(len, valid, options, compare, eq) *)
  Definition rank_impl (len : nat) (valid : list (T * nat)) (nf desc : bool) (compare : T -> T -> comparison) : list nat :=
    let s := sort_oracle (fun a b => compare (fst a) (fst b)) valid in
    let s := if desc then rev s else s in
    let '(valid_rank, null_rank) := if nf then (len, len - length s) else (length s, len) in
    let out := repeat null_rank len in
    let '(_, _, out') := rank_back s valid_rank out in
    out'.
End RankImpl.

(* primitive_rank / bytes_rank / byte_view_rank: the (value, index) pairs of the valid slots, in index order *)
Fixpoint valid_pairs_from (k : nat) (a : list oval) : list (val * nat) :=
  match a with
  | [] => []
  | o :: r => (match o with Some v => [(v, k)] | None => [] end) ++ valid_pairs_from (S k) r
  end.
Definition rank_valid_pairs (a : list oval) : list (val * nat) := valid_pairs_from 0 a.
Definition rank_m (sort_oracle : (val * nat -> val * nat -> comparison) -> list (val * nat) -> list (val * nat))
    (vc : val -> val -> comparison) (veq : val -> val -> bool) (nf desc : bool) (a : list oval) : list nat :=
  rank_impl sort_oracle veq (length a) (rank_valid_pairs a) nf desc vc.

(* boolean_rank: counts and the [false, true, null] table; get_boolean_rank_index(value, is_null)
   = (is_null << 1) | (value & !is_null) *)
Definition get_boolean_rank_index (value is_null : bool) : nat :=
  Z.to_nat (Z.lor (Z.shiftl (Z.b2z is_null) 1) (Z.land (Z.b2z value) (Z.b2z (negb is_null)))).
Definition boolean_rank (nf desc : bool) (a : list oval) : list nat :=
  let null_count := count_nulls a in
  let true_count := length (filter (fun o : oval => match o with Some (VInt 1) => true | _ => false end) a) in
  let false_count := length a - null_count - true_count in
  let ranks_index :=
    match desc, nf with
    | true, true => [null_count + true_count + false_count; null_count + true_count; null_count]
    | true, false => [true_count + false_count; true_count; true_count + false_count + null_count]
    | false, true => [null_count + false_count; null_count + false_count + true_count; null_count]
    | false, false => [false_count; false_count + true_count; false_count + true_count + null_count]
    end in
  map (fun o : oval =>
         let '(value, is_null) := match o with
                                  | None => (false, true)      (* the value bit under a null is masked by !is_null *)
                                  | Some (VInt 1) => (true, false)
                                  | Some _ => (false, false) end in
         nth (get_boolean_rank_index value is_null) ranks_index 0) a.

(* ================================================================== partition *)

Fixpoint set_indices_from (i : nat) (l : list bool) : list nat :=
  match l with [] => [] | b :: r => (if b then [i] else []) ++ set_indices_from (S i) r end.
Definition set_indices (l : list bool) : list nat := set_indices_from 0 l.

(* Partitions::ranges over Some(boundaries) *)
Definition ranges_some (boundaries : list bool) : list (nat * nat) :=
  let '(out, current) :=
    fold_left (fun (st : list (nat * nat) * nat) idx => let '(out, current) := st in (out ++ [(current, idx + 1)], idx + 1))
              (set_indices boundaries) ([], 0) in
  let last := length boundaries + 1 in
  if (current =? last)%nat then out else out ++ [(current, last)].

(* find_boundaries(v): bit i set iff slot i and slot i+1 are distinct (via `distinct` or the comparator) *)
Definition find_boundaries (a : list oval) : list bool :=
  map (fun i => match cmp_idx false false a a i (S i) with Eq => false | _ => true end) (seq 0 (length a - 1)).
Fixpoint orb_lists (x y : list bool) : list bool :=
  match x, y with b :: x', c :: y' => (b || c) :: orb_lists x' y' | _, _ => [] end.

(* partition(columns).ranges(); columns non-empty with equal lengths *)
Definition partition_m (cols : list (list oval)) : list (nat * nat) :=
  match cols with
  | [] => []
  | c0 :: rest =>
      match length c0 with
      | O => []                                   (* Partitions(None) *)
      | S O => ranges_some []                     (* BooleanBuffer::new_unset(0) *)
      | _ => ranges_some (fold_left (fun acc c => orb_lists acc (find_boundaries c)) rest (find_boundaries c0))
      end
  end.

(* S: a new partition starts at row 0 and at every row that differs (in some column, null = null,
   null <> value) from its predecessor; each partition ends where the next one starts *)
Definition rows_differ (cols : list (list oval)) (i j : nat) : bool :=
  existsb (fun a => match cmp_idx false false a a i j with Eq => false | _ => true end) cols.
Definition partition_spec (cols : list (list oval)) : list (nat * nat) :=
  let n := match cols with c0 :: _ => length c0 | [] => 0 end in
  let starts := filter (fun i => (i =? 0)%nat || rows_differ cols (i - 1) i) (seq 0 n) in
  combine starts (tl starts ++ [n]).

(* ================================================================== comparison kernels *)

Inductive cop := OEq | ONeq | OLt | OLe | OGt | OGe | ODistinct | ONotDistinct.

Definition is_eq_c (c : comparison) : bool := match c with Eq => true | _ => false end.
Definition is_lt_c (c : comparison) : bool := match c with Lt => true | _ => false end.

(* S: per row; comparisons are null when either side is null, DISTINCT / NOT DISTINCT never are *)
Definition kernel_spec (op : cop) (p q : oval) : option bool :=
  match op with
  | ODistinct => Some (negb (is_eq_c (cmp_opts false false p q)))
  | ONotDistinct => Some (is_eq_c (cmp_opts false false p q))
  | _ =>
      match p, q with
      | Some a, Some b =>
          let c := vcmp false a b in
          Some (match op with
                | OEq => is_eq_c c | ONeq => negb (is_eq_c c)
                | OLt => is_lt_c c | OLe => not_gt c
                | OGt => negb (not_gt c) | _ => negb (is_lt_c c) end)
      | _, _ => None
      end
  end.
Definition bcast {A} (scalar : bool) (l : list A) (i : nat) : option A := nth_error l (if scalar then 0 else i).
Definition kernel_rows (l_s r_s : bool) (l r : list oval) : nat :=
  if l_s then length r else length l.
Definition kernels_spec (op : cop) (l_s r_s : bool) (l r : list oval) : list (option bool) :=
  map (fun i => match bcast l_s l i, bcast r_s r i with
                | Some p, Some q => kernel_spec op p q
                | _, _ => None end) (seq 0 (kernel_rows l_s r_s l r)).

(* M: compare_op.  [is_eq] / [is_lt] are the element tests of the physical type (ArrayOrd). *)
Section CompareOp.
  Variable is_eq : val -> val -> bool.
  Variable is_lt : val -> val -> bool.

  (* apply(): op -> (operand order, negation, test) *)
  Definition apply_op (op : cop) (a b : val) : bool :=
    match op with
    | OEq | ONotDistinct => is_eq a b
    | ONeq | ODistinct => negb (is_eq a b)
    | OLt => is_lt a b
    | OLe => negb (is_lt b a)
    | OGt => is_lt b a
    | OGe => negb (is_lt a b)
    end.

  Definition valid_bits (a : list oval) : list bool :=
    map (fun o : oval => match o with None => false | Some _ => true end) a.
  (* logical_nulls().filter(|n| n.null_count() > 0), as validity bits *)
  Definition nulls_opt (a : list oval) : option (list bool) :=
    if existsb negb (valid_bits a) then Some (valid_bits a) else None.

  Definition values_m (op : cop) (l_s r_s : bool) (l r : list oval) (len : nat) : list bool :=
    map (fun i => apply_op op (val_of l (if l_s then 0 else i)) (val_of r (if r_s then 0 else i))) (seq 0 len).

  Definition with_nulls (v : list bool) (n : list bool) : list (option bool) :=
    map (fun p : bool * bool => if snd p then Some (fst p) else None) (combine v n).
  Definition all_some (v : list bool) : list (option bool) := map Some v.
  Fixpoint zip3 (f : bool -> bool -> bool -> bool) (a b c : list bool) : list bool :=
    match a, b, c with x :: a', y :: b', z :: c' => f x y z :: zip3 f a' b' c' | _, _, _ => [] end.
  Fixpoint zip2 (f : bool -> bool -> bool) (a b : list bool) : list bool :=
    match a, b with x :: a', y :: b' => f x y :: zip2 f a' b' | _, _ => [] end.

  Definition is_ordering (op : cop) : bool := match op with ODistinct | ONotDistinct => false | _ => true end.

  (* the match on (l_nulls, l_s, r_nulls, r_s) at the end of compare_op; None = Err (length mismatch) *)
  Definition compare_op (op : cop) (l_s r_s : bool) (l r : list oval) : option (list (option bool)) :=
    if negb (length l =? length r)%nat && negb l_s && negb r_s then None
    else
      let len := if l_s then length r else length l in
      let values := values_m op l_s r_s l r len in
      Some
      match nulls_opt l, nulls_opt r with
      | Some ln, Some rn =>
          if Bool.eqb l_s r_s then
            (* both scalar or neither *)
            match op with
            | ODistinct => all_some (zip3 (fun l r n => xorb l r || (l && r && n)) ln rn values)
            | ONotDistinct => all_some (zip3 (fun l r e => negb (l || r) || (l && r && e)) ln rn values)
            | _ => with_nulls values (zip2 andb ln rn)
            end
          else
            (* the scalar is null, the other side is a nullable array [a] *)
            let a := if l_s then rn else ln in
            match op with
            | ODistinct => all_some a
            | ONotDistinct => all_some (map negb a)
            | _ => repeat None len
            end
      | Some nulls, None | None, Some nulls =>
          let is_scalar := match nulls_opt l with Some _ => l_s | None => r_s end in
          if is_scalar then
            match op with
            | ODistinct => all_some (repeat true len)
            | ONotDistinct => all_some (repeat false len)
            | _ => repeat None len
            end
          else
            match op with
            | ODistinct => all_some (zip2 (fun l n => negb l || n) nulls values)
            | ONotDistinct => all_some (zip2 andb nulls values)
            | _ => with_nulls values nulls
            end
      | None, None => all_some values
      end.
End CompareOp.
