(* C08 — Thrift compact protocol readers of parquet/src/parquet_thrift.rs (ThriftCompactInputProtocol with the
   ThriftSliceInputProtocol primitives), following the Rust control flow, and the two footer decoders that the
   correspondence run observes them through:
     meta_probe    = parquet_metadata_from_bytes (file/metadata/thrift/mod.rs) with a schema supplied by the caller
     schema_probe  = parquet_schema_from_bytes
   Bytes are N in 0..255.  Error kinds: 5 = ThriftProtocolError::Eof (ParquetError::EOF), 3 = every other error.
   Definitions only. *)
From Coq Require Import List NArith ZArith Bool.
From AV Require Import Base.Utf8.
Import ListNotations.
Local Open Scope N_scope.

Inductive res (A : Type) : Type :=
| Ok (a : A) (rest : list N)
| Err (kind : Z).
Arguments Ok {A} a rest.
Arguments Err {A} kind.

Definition e_eof : Z := 5%Z.
Definition e_inv : Z := 3%Z.
Definition e_fuel : Z := 99%Z.   (* a loop ran out of its input-length fuel: proved unreachable (Proofs/C08_Thrift.v) *)

Definition bind {A B} (r : res A) (f : A -> list N -> res B) : res B :=
  match r with Ok a rest => f a rest | Err k => Err k end.

(* ---- primitives of ThriftSliceInputProtocol *)
Definition read_byte (bs : list N) : res N :=
  match bs with [] => Err e_eof | b :: r => Ok b r end.

(* skip_bytes / the slice part of read_bytes: buf.get(..n) *)
Definition take_bytes (n : N) (bs : list N) : res (list N) :=
  if n <=? N.of_nat (length bs) then Ok (firstn (N.to_nat n) bs) (skipn (N.to_nat n) bs) else Err e_eof.

(* ---- read_vlq: one happy-path byte, then the accumulation loop.  `wrapping_shl(shift)` on u64 masks the
   shift amount to 6 bits and drops bits shifted out; there is NO bound on the number of continuation bytes. *)
Definition wshl64 (x s : N) : N := N.shiftl x (s mod 64) mod 2^64.

Fixpoint vlq_loop (bs : list N) (acc shift : N) : res N :=
  match bs with
  | [] => Err e_eof
  | b :: r => let acc' := N.lor acc (wshl64 (N.land b 127) shift) in
              if b <? 128 then Ok acc' r else vlq_loop r acc' (shift + 7)
  end.

Definition read_vlq (bs : list N) : res N :=
  match bs with
  | [] => Err e_eof
  | b :: r => if b <? 128 then Ok b r else vlq_loop r (N.land b 127) 7
  end.

(* (val >> 1) as i64 ^ -((val & 1) as i64) *)
Definition zigzag (v : N) : Z := if N.even v then Z.of_N (v / 2) else (- Z.of_N (v / 2) - 1)%Z.
Definition read_zig_zag (bs : list N) : res Z := bind (read_vlq bs) (fun v r => Ok (zigzag v) r).

(* `as i16` / `as i32` of an i64 *)
Definition wrap_signed (bits : Z) (z : Z) : Z := ((z + 2^(bits-1)) mod 2^bits - 2^(bits-1))%Z.
Definition read_i16 bs : res Z := bind (read_zig_zag bs) (fun z r => Ok (wrap_signed 16 z) r).
Definition read_i32 bs : res Z := bind (read_zig_zag bs) (fun z r => Ok (wrap_signed 32 z) r).
Definition read_i64 bs : res Z := read_zig_zag bs.

Fixpoint skip_vlq (bs : list N) : res unit :=
  match bs with [] => Err e_eof | b :: r => if b <? 128 then Ok tt r else skip_vlq r end.

(* ---- read_list_begin: element type as FieldType number (ElementType::Bool (1|2) -> BooleanTrue = 1) *)
Definition elem_type (t : N) : option N :=
  if (t =? 1) || (t =? 2) then Some 1 else if (3 <=? t) && (t <=? 13) then Some t else None.

Definition i32_max : N := 2147483647.

Definition read_list_begin (bs : list N) : res (N * N) :=
  bind (read_byte bs) (fun h r =>
    if h =? 0 then Ok (3, 0) r else
    match elem_type (N.land h 15) with
    | None => Err e_inv
    | Some et =>
      let c := N.shiftr h 4 in
      if negb (c =? 15) then Ok (et, c) r
      else bind (read_vlq r) (fun n r' => if n <=? i32_max then Ok (et, n) r' else Err e_inv)
    end).

(* ---- read_field_begin: (field type, id); type 0 = Stop *)
Definition read_field_begin (last : Z) (bs : list N) : res (N * Z) :=
  bind (read_byte bs) (fun b r =>
    if N.land b 15 =? 0 then Ok (0, 0%Z) r else
    let delta := N.shiftr b 4 in
    let ty := N.land b 15 in
    if 13 <? ty then Err e_inv else
    if negb (delta =? 0) then
      let id := (last + Z.of_N delta)%Z in
      if (id <=? 32767)%Z then Ok (ty, id) r else Err e_inv
    else bind (read_i16 r) (fun id r' => Ok (ty, id) r')).

(* ---- skip_till_depth.  `d` is the remaining depth budget (structural).  Loops over the input carry a fuel
   of (remaining input length + 1): every iteration that does not fail consumes at least one byte
   (Proofs/C08_Thrift.v: skip_progress), except lists / maps whose elements are all booleans, which the Rust loop
   iterates `size` times without reading anything; those are computed in closed form. *)
Definition is_bool_ty (t : N) : bool := (t =? 1) || (t =? 2).

Section SkipBody.
  Variable skip_d : N -> list N -> res unit.       (* skip at depth budget d-1 *)
  Variable d_pos : bool.                            (* d-1 > 0 *)

  Fixpoint skip_struct_loop (fuel : nat) (bs : list N) : res unit :=
    match fuel with
    | O => Err e_fuel
    | S f => bind (read_field_begin 0 bs) (fun ti r =>
               if fst ti =? 0 then Ok tt r else bind (skip_d (fst ti) r) (fun _ r' => skip_struct_loop f r'))
    end.

  Fixpoint skip_rep (fuel : nat) (n : N) (et : N) (bs : list N) : res unit :=
    if n =? 0 then Ok tt bs else
    match fuel with
    | O => Err e_fuel
    | S f => bind (skip_d et bs) (fun _ r => skip_rep f (n - 1) et r)
    end.

  Fixpoint skip_rep2 (fuel : nat) (n : N) (kt vt : N) (bs : list N) : res unit :=
    if n =? 0 then Ok tt bs else
    match fuel with
    | O => Err e_fuel
    | S f => bind (skip_d kt bs) (fun _ r => bind (skip_d vt r) (fun _ r' => skip_rep2 f (n - 1) kt vt r'))
    end.

  Definition skip_body (ft : N) (bs : list N) : res unit :=
    if is_bool_ty ft then Ok tt bs
    else if ft =? 3 then bind (read_byte bs) (fun _ r => Ok tt r)
    else if (ft =? 4) || (ft =? 5) || (ft =? 6) then skip_vlq bs
    else if ft =? 7 then bind (take_bytes 8 bs) (fun _ r => Ok tt r)
    else if ft =? 8 then bind (read_vlq bs) (fun n r => bind (take_bytes n r) (fun _ r' => Ok tt r'))
    else if ft =? 12 then skip_struct_loop (S (length bs)) bs
    else if (ft =? 9) || (ft =? 10) then
      bind (read_list_begin bs) (fun en r =>
        let (et, n) := en in
        if n =? 0 then Ok tt r
        else if is_bool_ty et then (if d_pos then Ok tt r else Err e_inv)
        else skip_rep (S (length r)) n et r)
    else if ft =? 11 then
      bind (read_vlq bs) (fun n r =>
        if i32_max <? n then Err e_inv else
        if n =? 0 then Ok tt r else
        bind (read_byte r) (fun kv r' =>
          match elem_type (N.shiftr kv 4), elem_type (N.land kv 15) with
          | Some kt, Some vt =>
              if is_bool_ty kt && is_bool_ty vt then (if d_pos then Ok tt r' else Err e_inv)
              else skip_rep2 (S (length r')) n kt vt r'
          | _, _ => Err e_inv
          end))
    else if ft =? 13 then bind (take_bytes 16 bs) (fun _ r => Ok tt r)
    else Err e_inv.
End SkipBody.

Fixpoint skip (d : nat) (ft : N) (bs : list N) : res unit :=
  match d with
  | O => Err e_inv
  | S d' => skip_body (skip d') (match d' with O => false | _ => true end) ft bs
  end.

Definition skip_default (ft : N) (bs : list N) : res unit := skip 64 ft bs.

(* ---- read_bytes / read_string of the slice protocol *)
Definition read_bytes (bs : list N) : res (list N) := bind (read_vlq bs) (fun n r => take_bytes n r).
Definition read_string (bs : list N) : res (list N) :=
  bind (read_bytes bs) (fun s r => if valid_utf8 s then Ok s r else Err e_inv).

(* ---- parquet_metadata_from_bytes with options.schema = Some _ (field 2 is skipped).
   Unmodelled: row groups (a non-empty field 4), key/value metadata (5), column orders (7). *)
Record meta_st := { m_version : option Z; m_rows : option Z; m_rgs : bool; m_created : option (list N) }.
Inductive mres := MOk (version rows : Z) (created : option (list N)) | MErr (k : Z) | MUnmodelled.

Definition mbind {A} (r : res A) (f : A -> list N -> mres) : mres :=
  match r with Ok a rest => f a rest | Err k => MErr k end.

Definition meta_finish (st : meta_st) : mres :=
  match m_version st, m_rows st with
  | Some v, Some n => if m_rgs st then MOk v n (m_created st) else MErr e_inv
  | _, _ => MErr e_inv
  end.

Fixpoint meta_loop (fuel : nat) (last : Z) (st : meta_st) (bs : list N) : mres :=
  match fuel with
  | O => MErr e_fuel
  | S f =>
    mbind (read_field_begin last bs) (fun ti r =>
      let (ty, id) := ti in
      if ty =? 0 then meta_finish st else
      if (id =? 1)%Z then mbind (read_i32 r) (fun v r' => meta_loop f id {| m_version := Some v; m_rows := m_rows st; m_rgs := m_rgs st; m_created := m_created st |} r')
      else if (id =? 3)%Z then mbind (read_i64 r) (fun v r' => meta_loop f id {| m_version := m_version st; m_rows := Some v; m_rgs := m_rgs st; m_created := m_created st |} r')
      else if (id =? 4)%Z then
        mbind (read_list_begin r) (fun en r' =>
          if negb (fst en =? 12) then MErr e_inv
          else if snd en =? 0 then meta_loop f id {| m_version := m_version st; m_rows := m_rows st; m_rgs := true; m_created := m_created st |} r'
          else MUnmodelled)
      else if (id =? 5)%Z || (id =? 7)%Z then MUnmodelled
      else if (id =? 6)%Z then mbind (read_string r) (fun s r' => meta_loop f id {| m_version := m_version st; m_rows := m_rows st; m_rgs := m_rgs st; m_created := Some s |} r')
      else mbind (skip_default ty r) (fun _ r' => meta_loop f id st r'))
  end.

Definition meta_probe (bs : list N) : mres :=
  meta_loop (S (length bs)) 0%Z {| m_version := None; m_rows := None; m_rgs := false; m_created := None |} bs.

(* ---- parquet_schema_from_bytes: skip every field until id 2; returns the input at the start of the schema list *)
Fixpoint schema_loop (fuel : nat) (last : Z) (bs : list N) : res (list N) :=
  match fuel with
  | O => Err e_fuel
  | S f =>
    bind (read_field_begin last bs) (fun ti r =>
      let (ty, id) := ti in
      if ty =? 0 then Err e_inv
      else if (id =? 2)%Z then Ok r []
      else bind (skip_default ty r) (fun _ r' => schema_loop f id r'))
  end.
Definition schema_probe (bs : list N) : res (list N) := schema_loop (S (length bs)) 0%Z bs.

(* the element count that read_thrift_vec passes to Vec::with_capacity for the schema list (field 2) *)
Definition schema_alloc_request (bs : list N) : option N :=
  match schema_probe bs with
  | Ok r _ => match read_list_begin r with Ok (_, n) _ => Some n | Err _ => None end
  | Err _ => None
  end.

(* ---- read_thrift_vec over an abstract element reader: (elements read, capacity requested) *)
Section ThriftVec.
  Context {A : Type}.
  Variable rd : list N -> res A.
  Fixpoint vec_loop (fuel : nat) (n : N) (bs : list N) (acc : list A) : res (list A) :=
    if n =? 0 then Ok (rev acc) bs else
    match fuel with
    | O => Err e_fuel
    | S f => bind (rd bs) (fun a r => vec_loop f (n - 1) r (a :: acc))
    end.
  Definition read_thrift_vec (expected : N) (bs : list N) : res (list A) :=
    bind (read_list_begin bs) (fun en r =>
      if negb (fst en =? expected) then Err e_inv else vec_loop (S (length r)) (snd en) r []).
End ThriftVec.

(* ---- generic walker used to classify known-finding inputs: does a generic (type-directed) walk of the
   struct at the head of `bs` meet a list / map header whose declared count exceeds BOTH 2^14 and the number
   of bytes that follow it?  (Each element occupies at least one byte on the wire.) *)
Section Walk.
  Variable walk_d : N -> list N -> option (bool * list N).
  Fixpoint walk_struct_loop (fuel : nat) (bs : list N) : option (bool * list N) :=
    match fuel with
    | O => None
    | S f => match read_field_begin 0 bs with
             | Err _ => None
             | Ok (ty, _) r => if ty =? 0 then Some (false, r) else
                 match walk_d ty r with
                 | Some (true, r') => Some (true, r')
                 | Some (false, r') => walk_struct_loop f r'
                 | None => None
                 end
             end
    end.
  Fixpoint walk_rep (fuel : nat) (n : N) (et : N) (bs : list N) : option (bool * list N) :=
    if n =? 0 then Some (false, bs) else
    match fuel with
    | O => None
    | S f => match walk_d et bs with
             | Some (true, r) => Some (true, r)
             | Some (false, r) => walk_rep f (n - 1) et r
             | None => None
             end
    end.
  Definition oversize (n : N) (rest : list N) : bool := (16384 <? n) && (N.of_nat (length rest) <? n).
  Definition walk_body (ft : N) (bs : list N) : option (bool * list N) :=
    if (ft =? 9) || (ft =? 10) then
      match read_list_begin bs with
      | Err _ => None
      | Ok (et, n) r => if oversize n r then Some (true, r)
                        else if is_bool_ty et then Some (false, skipn (N.to_nat n) r)
                        else walk_rep (S (length r)) n et r
      end
    else if ft =? 12 then walk_struct_loop (S (length bs)) bs
    else if ft =? 11 then None
    else match skip 1 ft bs with Ok _ r => Some (false, r) | Err _ => None end.
End Walk.
Fixpoint walk (d : nat) (ft : N) (bs : list N) : option (bool * list N) :=
  match d with O => None | S d' => walk_body (walk d') ft bs end.
Definition has_oversize_list (bs : list N) : bool :=
  match walk 70 12 bs with Some (true, _) => true | _ => false end.

(* ---- second classifier: a SchemaElement of the footer's schema list (FileMetaData field 2, located by the model of
   parquet_schema_from_bytes) declares num_children (field 5, i32) beyond 2^14 and beyond the bytes that follow it:
   schema_from_array_helper reserves a Vec of that many children *)
Fixpoint se_fields (fuel : nat) (last : Z) (bs : list N) : option (bool * list N) :=
  match fuel with
  | O => None
  | S f =>
    match read_field_begin last bs with
    | Err _ => None
    | Ok (ty, id) r =>
      if ty =? 0 then Some (false, r)
      else if (id =? 5)%Z && (ty =? 5) then
        match read_i32 r with
        | Err _ => None
        | Ok v r' => if (16384 <? v)%Z && (Z.of_nat (length r') <? v)%Z then Some (true, r') else se_fields f id r'
        end
      else match skip_default ty r with Err _ => None | Ok _ r' => se_fields f id r' end
    end
  end.
Fixpoint se_list (fuel : nat) (n : N) (bs : list N) : bool :=
  if n =? 0 then false else
  match fuel with
  | O => false
  | S f => match se_fields (S (length bs)) 0%Z bs with
           | Some (true, _) => true
           | Some (false, r) => se_list f (n - 1) r
           | None => false
           end
  end.
Definition schema_children_oversize (bs : list N) : bool :=
  match schema_probe bs with
  | Ok r _ => match read_list_begin r with Ok (_, n) r' => se_list (S (length r')) n r' | Err _ => false end
  | Err _ => false
  end.
