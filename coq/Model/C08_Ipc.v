(* C08 — the guards of arrow-ipc/src/reader.rs RecordBatchDecoder between the attacker-controlled
   FieldNode / Buffer vectors of an IPC RecordBatch message and the message body:
     next_node   : the node cursor may be exhausted           -> Err(SchemaError)
     next_buffer : the buffer cursor may be exhausted         -> Err(IpcError)
                   read_buffer slices body[offset .. offset+length) with Buffer::slice_with_length,
                   whose bounds check is an assert!            -> PANIC when out of bounds
   The walk follows create_array's order (parent buffers, then children).  Array validation
   (ArrayDataBuilder::build, C09) happens after a field's buffers were fetched and is not modelled here.
   Definitions only. *)
From Coq Require Import List NArith ZArith Bool.
Import ListNotations.
Local Open Scope Z_scope.

Inductive fty :=
| FPrim            (* node, validity + values                      (Int32, Boolean, ...) *)
| FBin             (* node, validity + offsets + data              (Utf8, LargeBinary, ...) *)
| FList (c : fty)  (* node, validity + offsets, child              (List, LargeList, Map) *)
| FFsl (size : Z) (c : fty)   (* node, validity, child             (FixedSizeList of `size`) *)
| FStruct (cs : list fty)  (* node, validity, children *)
| FNull.           (* node only *)

Inductive ev := Pass | CursorErr | BoundsPanic | NullLenErr | ValidityPanic | FslOverflowPanic.

Record st := { nodes : list (Z * Z); bufs : list (Z * Z) }.

(* `x as usize` of an i64 on a 64-bit target *)
Definition as_usize (x : Z) : Z := x mod 2^64.
Definition sat_add (a b : Z) : Z := Z.min (a + b) (2^64 - 1).

(* read_buffer's slice_with_length(offset as usize, length as usize) on a body of body_len bytes *)
Definition buffer_in_bounds (body_len : Z) (b : Z * Z) : bool :=
  sat_add (as_usize (fst b)) (as_usize (snd b)) <=? body_len.

Definition next_node (s : st) : option ((Z * Z) * st) :=
  match nodes s with [] => None | n :: r => Some (n, {| nodes := r; bufs := bufs s |}) end.

Fixpoint next_buffers (k : nat) (body_len : Z) (s : st) : ev * st :=
  match k with
  | O => (Pass, s)
  | S k' => match bufs s with
            | [] => (CursorErr, s)
            | b :: r => if buffer_in_bounds body_len b then next_buffers k' body_len {| nodes := nodes s; bufs := r |}
                        else (BoundsPanic, s)
            end
  end.

(* ArrayDataBuilder::build / create_struct_array: when the node declares null_count > 0 the validity buffer is wrapped
   with BooleanBuffer::new(buffer, 0, len), which asserts len <= 8 * buffer length                -> PANIC *)
(* create_primitive_array / create_list_array test `null_count > 0` on the i64; create_struct_array casts to usize first *)
Definition validity_ok_gen (has_nulls : bool) (n : Z * Z) (vb : option (Z * Z)) : bool :=
  if has_nulls then
    match vb with
    | Some b => as_usize (fst n) <=? Z.min (8 * as_usize (snd b)) (2^64 - 1)
    | None => true
    end
  else true.
Definition validity_ok (n : Z * Z) (vb : option (Z * Z)) : bool := validity_ok_gen (0 <? snd n) n vb.
Definition validity_ok_struct (n : Z * Z) (vb : option (Z * Z)) : bool := validity_ok_gen (0 <? as_usize (snd n)) n vb.
Definition finish_gen (ok : bool) (r : ev * st) : ev * st :=
  match r with
  | (Pass, s) => if ok then (Pass, s) else (ValidityPanic, s)
  | e => e
  end.
Definition finish (n : Z * Z) (vb : option (Z * Z)) (r : ev * st) : ev * st := finish_gen (validity_ok n vb) r.
Definition first_buf (s : st) : option (Z * Z) := match bufs s with [] => None | b :: _ => Some b end.

Fixpoint walk (t : fty) (body_len : Z) (s : st) : ev * st :=
  match t with
  | FNull => match next_node s with
             | None => (CursorErr, s)
             | Some ((len, nulls), s1) => if len =? nulls then (Pass, s1) else (NullLenErr, s1)
             end
  | FPrim => match next_node s with None => (CursorErr, s) | Some (n, s1) => finish n (first_buf s1) (next_buffers 2 body_len s1) end
  | FBin => match next_node s with None => (CursorErr, s) | Some (n, s1) => finish n (first_buf s1) (next_buffers 3 body_len s1) end
  | FList c => match next_node s with None => (CursorErr, s) | Some (n, s1) =>
                 match next_buffers 2 body_len s1 with (Pass, s2) => finish n (first_buf s1) (walk c body_len s2) | r => r end end
  | FFsl size c => match next_node s with None => (CursorErr, s) | Some (n, s1) =>
                 match next_buffers 1 body_len s1 with
                 | (Pass, s2) =>
                     (* ArrayData::validate: (offset + len).checked_mul(list_size).expect(..)      -> PANIC on overflow *)
                     match finish n (first_buf s1) (walk c body_len s2) with
                     | (Pass, s3) => if as_usize (fst n) * size <? 2^64 then (Pass, s3) else (FslOverflowPanic, s3)
                     | r => r
                     end
                 | r => r end end
  | FStruct cs => match next_node s with None => (CursorErr, s) | Some (n, s1) =>
                 match next_buffers 1 body_len s1 with
                 | (Pass, s2) => finish_gen (validity_ok_struct n (first_buf s1)) ((fix go (cs : list fty) (s : st) : ev * st :=
                                    match cs with
                                    | [] => (Pass, s)
                                    | c :: r => match walk c body_len s with (Pass, s') => go r s' | e => e end
                                    end) cs s2)
                 | r => r end end
  end.

Fixpoint walk_fields (ts : list fty) (body_len : Z) (s : st) : ev * st :=
  match ts with
  | [] => (Pass, s)
  | t :: r => match walk t body_len s with (Pass, s') => walk_fields r body_len s' | e => e end
  end.

(* number of nodes / buffers a field tree consumes *)
Fixpoint n_nodes (t : fty) : nat :=
  match t with FList c | FFsl _ c => S (n_nodes c) | FStruct cs => S (fold_right (fun c a => n_nodes c + a)%nat O cs) | _ => 1%nat end.
Fixpoint n_bufs (t : fty) : nat :=
  match t with
  | FPrim => 2%nat | FBin => 3%nat | FNull => 0%nat
  | FList c => (2 + n_bufs c)%nat | FFsl _ c => (1 + n_bufs c)%nat
  | FStruct cs => S (fold_right (fun c a => n_bufs c + a)%nat O cs)
  end.
