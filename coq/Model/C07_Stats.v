(* C07 — min/max accumulation and comparison, transcribed from
   parquet/src/column/writer/encoder.rs  get_min_max (410), write_slice (189)
   parquet/src/column/writer/mod.rs      update_min / update_max / is_nan / compare_greater (1711-1830),
                                         compare_greater_unsigned_int, compare_greater_f16,
                                         compare_greater_byte_array_decimals (1855-1910)
   parquet/src/arrow/arrow_writer/byte_array.rs  compute_min_max (779), encode (638)
   std f32/f64::total_cmp and half::f16::total_cmp (the sign-mask xor trick).
   Definitions only. *)
From Coq Require Import List ZArith NArith Bool Arith.
From AV Require Import Model.C07_Trunc.
Import ListNotations.

(* ------------------------------------------------------------------ generic accumulation *)
Section MinMax.
  Variable T : Type.
  Variable gt : T -> T -> bool.    (* compare_greater(descr, a, b): a > b *)
  Variable nan : T -> bool.        (* is_nan(descr, v) *)

  (* get_min_max loop: state (min, max, min_max_nan, nan_count) *)
  Fixpoint gmm_loop (vs : list T) (mn mx : T) (mmnan : bool) (cnt : nat) : T * T * nat :=
    match vs with
    | [] => (mn, mx, cnt)
    | v :: r =>
      match mmnan, nan v with
      | false, true => gmm_loop r mn mx mmnan (S cnt)          (* skip NaN once a non-NaN was seen *)
      | true, false => gmm_loop r v v false cnt                (* first non-NaN resets both *)
      | _, vn =>
        let cnt' := if vn then S cnt else cnt in
        if gt mn v then gmm_loop r v mx mmnan cnt'
        else if gt v mx then gmm_loop r mn v mmnan cnt'
        else gmm_loop r mn mx mmnan cnt'
      end
    end.
  Definition get_min_max (vs : list T) : option (T * T * nat) :=
    match vs with
    | [] => None
    | f :: r => Some (gmm_loop r f f (nan f) (if nan f then 1 else 0)%nat)
    end.

  Definition update_min (v : T) (cur : option T) : option T :=
    match cur with
    | None => Some v
    | Some m =>
      match nan m, nan v with
      | false, true => Some m
      | true, false => Some v
      | _, _ => if gt m v then Some v else Some m
      end
    end.
  Definition update_max (v : T) (cur : option T) : option T :=
    match cur with
    | None => Some v
    | Some m =>
      match nan m, nan v with
      | false, true => Some m
      | true, false => Some v
      | _, _ => if gt v m then Some v else Some m
      end
    end.

  (* ColumnValueEncoderImpl state between page flushes: (min_value, max_value, nan_count) *)
  Definition enc_state := (option T * option T * option nat)%type.
  Definition write_slice (float : bool) (s : list T) (st : enc_state) : enc_state :=
    let '(mn0, mx0, nc0) := st in
    match get_min_max s with
    | Some (mn, mx, c) =>
      (update_min mn mn0, update_max mx mx0,
       if float then Some (c + match nc0 with Some n => n | None => 0 end)%nat else nc0)
    | None => st
    end.
End MinMax.
Arguments gmm_loop {T}. Arguments get_min_max {T}. Arguments update_min {T}. Arguments update_max {T}.
Arguments write_slice {T}.

(* arrow byte-array encoder: compute_min_max with Ord::min / Ord::max, then
   `min_value.is_none_or(|m| m > min)` / `max_value.is_none_or(|m| m < max)` *)
Definition ord_min (a b : bytes) : bytes := match lex a b with Gt => b | _ => a end.   (* a.min(b) *)
Definition ord_max (a b : bytes) : bytes := match lex a b with Gt => a | _ => b end.   (* a.max(b): b unless a > b *)
Fixpoint ba_loop (vs : list bytes) (mn mx : bytes) : bytes * bytes :=
  match vs with [] => (mn, mx) | v :: r => ba_loop r (ord_min mn v) (ord_max mx v) end.
Definition ba_compute_min_max (vs : list bytes) : option (bytes * bytes) :=
  match vs with [] => None | f :: r => Some (ba_loop r f f) end.
Definition ba_write (s : list bytes) (st : option bytes * option bytes) : option bytes * option bytes :=
  match ba_compute_min_max s with
  | Some (mn, mx) =>
    ((match fst st with None => Some mn | Some m => if lex_gtb m mn then Some mn else Some m end),
     (match snd st with None => Some mx | Some m => if lex_ltb m mx then Some mx else Some m end))
  | None => st
  end.

(* ------------------------------------------------------------------ comparisons *)
Local Open Scope Z_scope.

(* signed physical INT32/INT64, BOOLEAN as 0/1: `a > b` *)
Definition gt_signed (a b : Z) : bool := b <? a.

(* compare_greater_unsigned_int: as_u64 = (x as i64) as u64 *)
Definition as_u64 (x : Z) : Z := x mod 2^64.
Definition gt_unsigned (a b : Z) : bool := as_u64 b <? as_u64 a.

(* total_cmp of a W-bit IEEE float given by its bit pattern u (0 <= u < 2^W):
     left = u as iW;  left ^= (((left >> (W-1)) as uW) >> 1) as iW;  compare as signed.
   The arithmetic shift yields all-ones for negative left, so the mask is 2^(W-1)-1 or 0. *)
Definition to_signed (W : Z) (u : Z) : Z := if u <? 2^(W-1) then u else u - 2^W.
Definition total_cmp_key (W : Z) (u : Z) : Z :=
  let mask := if u <? 2^(W-1) then 0 else 2^(W-1) - 1 in
  to_signed W (Z.lxor u mask).
Definition gt_total (W : Z) (a b : Z) : bool := total_cmp_key W b <? total_cmp_key W a.

(* is_nan: FLOAT/DOUBLE `val != val`, Float16 `uval & 0x7FFF > 0x7C00`:
   exponent all ones and mantissa non-zero.  E = exponent mask with the sign bit cleared. *)
Definition exp_mask (W : Z) : Z :=
  if W =? 16 then 31744 else if W =? 32 then 2139095040 else 9218868437227405312.
Definition nan_bits (W : Z) (u : Z) : bool := exp_mask W <? u mod 2^(W-1).

Local Open Scope N_scope.
(* compare_greater_byte_array_decimals (mod.rs:1867), big-endian two's complement *)
Definition i8 (b : N) : Z := if b <? 128 then Z.of_N b else (Z.of_N b - 256)%Z.
Definition gt_decimal_bytes (a b : bytes) : bool :=
  match a, b with
  | [], _ => false                       (* a_length == 0 || b_length == 0 => a_length > 0 *)
  | _ :: _, [] => true
  | fa :: ta, fb :: tb =>
    let la := length a in let lb := length b in
    if negb (N.land 128 fa =? N.land 128 fb) || ((la =? lb)%nat && negb (fa =? fb))
    then (i8 fb <? i8 fa)%Z
    else
      let ext := if (i8 fa <? 0)%Z then 255 else 0 in
      let not_equal :=
        if (la =? lb)%nat then false
        else if (lb <? la)%nat then existsb (fun x => negb (x =? ext)) (firstn (la - lb) a)
        else existsb (fun x => negb (x =? ext)) (firstn (lb - la) b) in
      if not_equal then
        let negative := (i8 fa <? 0)%Z in
        let a_longer := (lb <? la)%nat in
        if negative then negb a_longer else a_longer
      else lex_gtb ta tb
  end.

(* f16 stored as FIXED_LEN_BYTE_ARRAY(2), little endian *)
Definition f16_bits (b : bytes) : Z := Z.of_N (nth 0 b 0 + 256 * nth 1 b 0).
Definition gt_f16_bytes (a b : bytes) : bool := gt_total 16 (f16_bits a) (f16_bits b).
Definition nan_f16_bytes (b : bytes) : bool := nan_bits 16 (f16_bits b).
