(* C02 — row-wise kernels on logical columns (specification level): a fallible row function applied to
   every row; row selection (take with nullable indices, slice, concat).  Definitions only. *)
From Coq Require Import List Arith NArith ZArith Bool.
From AV Require Import Model.C09_Layout Model.C02_Logical.
Import ListNotations.

(* fallible row-wise kernel: Err as soon as one row fails *)
Fixpoint try_map_rows (f : lval -> option lval) (xs : list lval) : option (list lval) :=
  match xs with
  | [] => Some []
  | x :: r => match f x, try_map_rows f r with Some y, Some ys => Some (y :: ys) | _, _ => None end
  end.
Fixpoint try_map_rows2 (f : lval -> lval -> option lval) (xs ys : list lval) : option (list lval) :=
  match xs, ys with
  | x :: r, y :: s => match f x y, try_map_rows2 f r s with Some z, Some zs => Some (z :: zs) | _, _ => None end
  | _, _ => Some []
  end.

(* take: a null index (None) yields a null row *)
Definition take_l (xs : list lval) (idx : list (option nat)) : list lval :=
  map (fun o => match o with Some i => nth i xs LNull | None => LNull end) idx.
Definition slice_l (xs : list lval) (o n : nat) : list lval := firstn n (skipn o xs).
