(* C18 dispatch table: the correspondence predicates evaluated by the extracted driver.

   All the big ops are POSTCONDITION ops (".post": input = args ++ [[-7777]] ++ implementation
   output; result [[1]] = the property predicate holds, [[0; code...]] = it does not).  The
   implementation output carries the bytes the REAL writer produced, so the models below run on the
   real artefacts. *)
From Coq Require Import List ZArith NArith String Bool Arith.
From AV Require Import Base.Codec Model.C18_Fault Model.C18_Frame Model.C18_Avro.
Import ListNotations.
Local Open Scope string_scope.

Definition ok1 : list (list Z) := [[1%Z]].
Definition no (code : list Z) : list (list Z) := [0%Z :: code].

(* ------------------------------------------------------------------ writer faults
   args : [fmt; deterministic?] [opts] [seed; schema; batches] [kind] [k]
   out  : [outcome 0=every API call Ok / 1=some API call returned Err;
           n_api = number of sink calls of the fault-free run made before the last API call returned
           (later calls are made by Drop, where no error can be reported)]
          [fault-free call trace: bytes per write call, -1 = flush]
          [fault-free bytes] [bytes accepted before call k] [bytes accepted at/after call k]
   predicate: the observed (outcome, bytes) are those of the sink model [run] on the fault-free
   call trace with the script of the injected fault:
     - hard faults (Err, Ok(0)): outcome Err and the bytes accepted before the fault are exactly
       the bytes of the first k calls;
     - short write / Interrupted on a write call: outcome Ok and the complete fault-free bytes;
     - Interrupted on a flush call (std does not retry flush): Err, or Ok with the complete bytes;
     - always: Ok only with the complete bytes; accepted-before-fault is a prefix of fault-free;
       in the fault-free run no byte is written after the last API call returned (a writer that
       reports success and leaves bytes to Drop has not had them accepted);
     - a fault at a Drop-time call (k >= n_api, flush only) cannot be reported: Ok with all bytes. *)
Definition wfault_check (det : bool) (kind k n_api : nat) (outcome : Z) (trace ff before extra : list Z) : list (list Z) :=
  let calls := calls_of trace ff in
  let total := (before ++ extra)%list in
  if negb (list_eqb (bytes_of_calls calls) ff) then no [1%Z]       (* trace inconsistent: harness bug *)
  else
    let '(o, out) := run (script_of kind k) (sticky_of kind) calls in
    let soft_flush := Nat.eqb kind 3 && (nth k trace 0 <? 0)%Z in
    let okb := if det then list_eqb total ff else Nat.eqb (List.length total) (List.length ff) in
    if negb ((outcome =? 0)%Z || (outcome =? 1)%Z) then no [2%Z]
    else if existsb (fun t => (0 <=? t)%Z) (skipn n_api trace) then no [8%Z]   (* bytes written after success was reported *)
    else if (n_api <=? k)%nat then (if (outcome =? 0)%Z && okb then ok1 else no [9%Z])
    else if (outcome =? 0)%Z && negb okb then no [3%Z]              (* Ok but not every byte accepted *)
    else if det && negb (prefixb before ff) then no [4%Z]           (* emitted before the fault is not a prefix *)
    else match o with
         | Done => if (outcome =? 0)%Z then ok1 else no [5%Z]       (* short write / Interrupted not handled *)
         | Failed =>
             if (outcome =? 0)%Z then (if soft_flush then ok1 else no [6%Z])   (* hard fault swallowed *)
             else if det && negb (list_eqb before out) then no [7%Z]
             else ok1
         end.

Definition p_wfault (a : args) : list (list Z) :=
  if negb (Nat.eqb (List.length a) 11) then no [0%Z]
  else wfault_check (negb (Z.eqb (nth 1 (arg 0 a) 0%Z) 0)) (argn 3 a) (argn 4 a) (Z.to_nat (nth 1 (arg 6 a) 0%Z)) (argz 6 a)
                    (arg 7 a) (arg 8 a) (arg 9 a) (arg 10 a).

(* ------------------------------------------------------------------ truncation
   args : [fmt; class] [opts] [seed; schema; batches] [ks: truncation lengths]
   out  : [file] [H: H_i = hash of the first i written rows, i = 0..N] [cumulative rows per batch, from 0]
          [aux: Avro OCF header length]
          then one entry per k: [outcome 0 = clean end / 1 = Err] [batches decoded] [rows decoded]
          [hash of the rows decoded]
   class: 0 parquet (footer), 1 IPC file (footer), 2 IPC stream (StreamReader), 3 Avro OCF (block framing model),
          4 JSON lines (row prefix), 6 IPC stream through the push-based StreamDecoder,
          7 parquet data (first k bytes) read with the footer metadata of the INTACT file (metadata cache):
            the decoded rows are a prefix and a clean end is allowed only with all rows *)
Definition tail_code (t : tail) : Z := match t with End => 0%Z | Err => 1%Z end.

Definition trunc_one (cls : nat) (file H cum aux : list Z) (k : nat) (outcome nb nr h : Z) : bool :=
  let N := Z.of_nat (List.length H - 1) in
  let len := List.length file in
  if negb ((0 <=? nr)%Z && (nr <=? N)%Z && ((outcome =? 0)%Z || (outcome =? 1)%Z)) then false
  else if negb (h =? nth (Z.to_nat nr) H (-1)%Z)%Z then false          (* rows decoded = first nr rows written *)
  else if (len <=? k)%nat then
    (* the complete artefact: everything comes back, cleanly *)
    (outcome =? 0)%Z && (nr =? N)%Z
  else
    let pre := firstn k file in
    match cls with
    | 0%nat => if pq_footer_ok pre then true else (outcome =? 1)%Z && (nr =? 0)%Z
    | 1%nat => if ipc_footer_ok pre then true else (outcome =? 1)%Z && (nr =? 0)%Z
    | 2%nat => match stream_read pre with
               | None => (outcome =? 1)%Z && (nb =? 0)%Z && (nr =? 0)%Z
               | Some (n, t) => (nb =? Z.of_nat n)%Z && (outcome =? tail_code t)%Z && (nr =? nth n cum (-1)%Z)%Z
               end
    | 3%nat => existsb (Z.eqb nr) cum &&
               match avro_read (Z.to_nat (hd 0%Z aux)) pre with
               | None => (outcome =? 1)%Z && (nr =? 0)%Z
               | Some (rows, t) => (nr =? rows)%Z && (outcome =? tail_code t)%Z
               end
    | 7%nat => (outcome =? 1)%Z || (nr =? N)%Z    (* data cut short under the intact file's footer: Err, never a shorter clean result *)
    | 6%nat => let '(n, t) := push_read pre in
               (nb =? Z.of_nat n)%Z && (outcome =? tail_code t)%Z && (nr =? nth n cum (-1)%Z)%Z
    | _ => true
    end.

Fixpoint trunc_all (cls : nat) (file H cum aux ks os nbs nrs hs : list Z) : list (list Z) :=
  match ks, os, nbs, nrs, hs with
  | [], [], [], [], [] => ok1
  | k :: ks', o :: os', nb :: nbs', nr :: nrs', h :: hs' =>
      if trunc_one cls file H cum aux (Z.to_nat k) o nb nr h then trunc_all cls file H cum aux ks' os' nbs' nrs' hs'
      else no [k; o; nb; nr]
  | _, _, _, _, _ => no [(-1)%Z]
  end.

Definition p_trunc (a : args) : list (list Z) :=
  if negb (Nat.eqb (List.length a) 13) then no [(-2)%Z]
  else trunc_all (Z.to_nat (nth 1 (arg 0 a) 0%Z)) (arg 5 a) (arg 6 a) (arg 7 a) (arg 8 a)
                 (arg 3 a) (arg 9 a) (arg 10 a) (arg 11 a) (arg 12 a).

(* ------------------------------------------------------------------ reader faults
   args : [fmt; class] [opts] [seed; schema; batches] [kind] [k]
   out  : [outcome] [rows decoded] [hash of rows decoded] [H] [number of source calls of the fault-free read]
   kinds: 0 = Err sticky, 1 = Err once, 2 = short read of one byte, 3 = Interrupted once.
   predicate: rows decoded are a prefix of the rows written; a hard fault at a call the reader makes
   is reported as Err; a clean end is reported only with all rows. *)
Definition p_rfault (a : args) : list (list Z) :=
  if negb (Nat.eqb (List.length a) 11) then no [0%Z]
  else
    let kind := argn 3 a in let k := argn 4 a in
    let outcome := argz 6 a in let nr := argz 7 a in let h := argz 8 a in
    let H := arg 9 a in let ncalls := argn 10 a in
    let N := Z.of_nat (List.length H - 1) in
    if negb ((0 <=? nr)%Z && (nr <=? N)%Z && ((outcome =? 0)%Z || (outcome =? 1)%Z)) then no [1%Z]
    else if negb (h =? nth (Z.to_nat nr) H (-1)%Z)%Z then no [2%Z]
    else if (kind <? 2)%nat && (k <? ncalls)%nat && (outcome =? 0)%Z then no [3%Z]   (* I/O error swallowed *)
    else if (outcome =? 0)%Z && negb (nr =? N)%Z then no [4%Z]                       (* partial result reported as complete *)
    else ok1.

(* ------------------------------------------------------------------ footer tails (model = implementation)
   pq_tail        : [8 bytes]  -> [metadata length; encrypted?] | error
   ipc_footer_len : [10 bytes] -> [footer length] | error *)
Definition d_pq_tail (a : args) : list (list Z) :=
  match pq_tail (arg 0 a) with
  | Some (n, e) => [[n; zb e]]
  | None => err_out 3
  end.
Definition d_ipc_footer_len (a : args) : list (list Z) :=
  match ipc_footer_len (arg 0 a) with
  | Some n => [[n]]
  | None => err_out 3
  end.
(* open.post: args [which][bytes], out [outcome]: an accepted input satisfies the footer condition *)
Definition p_open (a : args) : list (list Z) :=
  if negb (Nat.eqb (List.length a) 4) then no [0%Z]
  else let okm := if (argz 0 a =? 0)%Z then pq_footer_ok (arg 1 a) else ipc_footer_ok (arg 1 a) in
       if (argz 3 a =? 0)%Z && negb okm then no [1%Z] else ok1.

(* ------------------------------------------------------------------ the sink model against std
   write_all : [script] [buf] [sticky] -> [outcome 0 Done / 1 Failed] [bytes emitted] [responses left]
   run       : [script] [sticky] [trace] [bytes] -> [outcome] [bytes emitted]
   script codes: n >= 0 = Accept n, -1 = Interrupted, -2 = Ok(0), -3 = Err, -4 = accept everything.
   The implementation side is std::io::Write::write_all / flush on a sink that answers from the same
   script, so a disagreement means std does not behave as Model/C18_Fault.v assumes. *)
Definition resp_of (z : Z) : resp :=
  if (0 <=? z)%Z then Accept (Z.to_nat z)
  else if (z =? (-1))%Z then Interrupted
  else if (z =? (-2))%Z then Zero
  else if (z =? (-3))%Z then Fail
  else AcceptAll.
Definition outcome_code (o : outcome) : Z := match o with Done => 0%Z | Failed => 1%Z end.
Definition d_write_all (a : args) : list (list Z) :=
  let '(o, out, s') := write_all (map resp_of (arg 0 a)) (argb 2 a) (arg 1 a) in
  [[outcome_code o]; out; [Z.of_nat (List.length s')]].
Definition d_run (a : args) : list (list Z) :=
  let '(o, out) := run (map resp_of (arg 0 a)) (argb 1 a) (calls_of (arg 2 a) (arg 3 a)) in
  [[outcome_code o]; out].

Definition ops_C18 : list (string * opfun) :=
  [ ("c18.wfault.post", p_wfault); ("c18.trunc.post", p_trunc); ("c18.rfault.post", p_rfault);
    ("c18.pq_tail", d_pq_tail); ("c18.ipc_footer_len", d_ipc_footer_len);
    ("c18.open.post", p_open); ("c18.write_all", d_write_all); ("c18.run", d_run) ].
