(* C10 — sort_to_indices / sort_impl / partial_sort / lexsort: model M and the sortedness predicate S.
   Definitions only.  The two std slice algorithms used by arrow-ord (slice::sort_unstable_by and
   slice::select_nth_unstable_by) are ORACLES: Section variables whose contracts are hypotheses of the
   theorems in Proofs/C10_Sort.v (they are std, not arrow-rs); the executable instance used by the
   extracted model is insertion sort, for which the contracts are proved. *)
From Coq Require Import List ZArith Bool Arith.
From AV Require Import Model.C10_Order.
Import ListNotations.

(* ------------------------------------------------------------------ S: the predicate on an output *)

(* mark index i as used in the mask; None when i is out of range or already used *)
Fixpoint mark (i : nat) (m : list bool) : option (list bool) :=
  match m, i with
  | [], _ => None
  | b :: m', O => if b then None else Some (true :: m')
  | b :: m', S i' => match mark i' m' with Some r => Some (b :: r) | None => None end
  end.
Fixpoint mark_all (out : list nat) (m : list bool) : option (list bool) :=
  match out with
  | [] => Some m
  | i :: r => match mark i m with Some m' => mark_all r m' | None => None end
  end.

Definition not_gt (c : comparison) : bool := match c with Gt => false | _ => true end.

(* adjacent elements never decrease *)
Fixpoint sortedb {R} (c : R -> R -> comparison) (l : list R) : bool :=
  match l with
  | a :: ((b :: _) as r) => not_gt (c a b) && sortedb c r
  | _ => true
  end.

Fixpoint unmarked {R} (rows : list R) (m : list bool) : list R :=
  match rows, m with
  | r :: rows', b :: m' => if b then unmarked rows' m' else r :: unmarked rows' m'
  | _, _ => []
  end.

Definition pick {R} (rows : list R) (out : list nat) : list R :=
  flat_map (fun i => match nth_error rows i with Some r => [r] | None => [] end) out.

Definition out_len (n : nat) (limit : option nat) : nat :=
  match limit with Some l => Nat.min l n | None => n end.

(* S: [out] (indices into [rows]) is an acceptable result of sorting [rows] under comparator [c] with
   an optional limit:  1 = yes; otherwise the first failed clause:
   2 wrong length (must be min(limit, n));  3 an index out of range;  4 an index twice;
   5 a decrease between neighbours;  6 an omitted row smaller than the last kept row. *)
Definition sort_check {R} (c : R -> R -> comparison) (rows : list R) (limit : option nat) (out : list nat) : Z :=
  let n := length rows in
  if negb (length out =? out_len n limit)%nat then 2%Z
  else if negb (forallb (fun i => i <? n)%nat out) then 3%Z
  else match mark_all out (repeat false n) with
       | None => 4%Z
       | Some m =>
           let kept := pick rows out in
           if negb (sortedb c kept) then 5%Z
           else match rev kept with
                | [] => 1%Z
                | last :: _ => if forallb (fun r => not_gt (c last r)) (unmarked rows m) then 1%Z else 6%Z
                end
       end.

(* ------------------------------------------------------------------ M: arrow-ord/src/sort.rs *)

Fixpoint insert {T} (c : T -> T -> comparison) (x : T) (l : list T) : list T :=
  match l with
  | [] => [x]
  | y :: r => match c x y with Gt => y :: insert c x r | _ => x :: l end
  end.
Fixpoint isort {T} (c : T -> T -> comparison) (l : list T) : list T :=
  match l with [] => [] | x :: r => insert c x (isort c r) end.
(* insertion sort meets the select_nth contract as well *)
Definition iselect {T} (c : T -> T -> comparison) (n : nat) (l : list T) : list T := isort c l.

(* partition_validity: fast path when null_count = 0, else the set / unset bit positions *)
Definition partition_validity (a : list oval) : list nat * list nat :=
  let idx := seq 0 (length a) in
  if (length (filter (is_null a) idx) =? 0)%nat then (idx, [])
  else (filter (fun i => negb (is_null a i)) idx, filter (is_null a) idx).

Section SortImpl.
  Context {T : Type}.
  (* slice::sort_unstable_by(cmp) and slice::select_nth_unstable_by(n, cmp): results as new lists *)
  Variable sort_oracle : (T -> T -> comparison) -> list T -> list T.
  Variable select_oracle : (T -> T -> comparison) -> nat -> list T -> list T.

  (* partial_sort(v, limit, cmp):
       if let Some(n) = limit.checked_sub(1) { let (before,_,_) = v.select_nth_unstable_by(n, cmp); before.sort_unstable_by(cmp) } *)
  Definition partial_sort (c : T -> T -> comparison) (limit : nat) (v : list T) : list T :=
    match limit with
    | O => v
    | S n => let v' := select_oracle c n v in sort_oracle c (firstn n v') ++ skipn n v'
    end.

  (* sort_unstable_by(array, limit, cmp) *)
  Definition sort_unstable_by (c : T -> T -> comparison) (limit : nat) (v : list T) : list T :=
    if (length v =? limit)%nat then sort_oracle c v else partial_sort c limit v.
End SortImpl.

Section SortImpl2.
  Context {V : Type}.
  Variable sort_oracle : (nat * V -> nat * V -> comparison) -> list (nat * V) -> list (nat * V).
  Variable select_oracle : (nat * V -> nat * V -> comparison) -> nat -> list (nat * V) -> list (nat * V).

  (* sort_impl(options, valids: &mut [(u32, T)], nulls, limit, cmp) -> Vec<u32> *)
  Definition sort_impl (nf desc : bool) (valids : list (nat * V)) (nulls : list nat) (limit : option nat)
      (cmp : V -> V -> comparison) : list nat :=
    let v_limit := match limit, nf with
                   | Some l, true => Nat.min (l - length nulls) (length valids)
                   | _, _ => length valids
                   end in
    let sorted := sort_unstable_by sort_oracle select_oracle
                    (fun a b => rev_if desc (cmp (snd a) (snd b))) v_limit valids in
    let len := length valids + length nulls in
    let limit' := Nat.min (match limit with Some l => l | None => len end) len in
    if nf then
      let o1 := firstn (Nat.min (length nulls) limit') nulls in
      o1 ++ firstn (limit' - length o1) (map fst sorted)
    else
      let o1 := firstn limit' (map fst sorted) in
      o1 ++ firstn (limit' - length o1) nulls.

  (* sort_to_indices for the types that go through (index, value) tuples:
     empty / limit == Some(0) early return, partition_validity, value extraction, sort_impl *)
  Definition sort_to_indices (vc : V -> V -> comparison) (value : nat -> V) (a : list oval) (nf desc : bool)
      (limit : option nat) : list nat :=
    if (length a =? 0)%nat || (match limit with Some O => true | _ => false end) then []
    else
      let '(v, n) := partition_validity a in
      sort_impl nf desc (map (fun i => (i, value i)) v) n limit vc.
End SortImpl2.

(* canonical representative of an index: the first index whose row compares Equal *)
Fixpoint first_eq {R} (c : R -> R -> comparison) (rows : list R) (r : R) (k : nat) : nat :=
  match rows with
  | [] => k
  | x :: rows' => match c x r with Eq => k | _ => first_eq c rows' r (S k) end
  end.
Definition canon {R} (c : R -> R -> comparison) (rows : list R) (out : list nat) : list nat :=
  flat_map (fun i => match nth_error rows i with Some r => [first_eq c rows r 0] | None => [] end) out.

(* S for `sort` / `sort_limit` (values, not indices): the first k rows of the sorted sequence *)
Definition sorted_rows {R} (c : R -> R -> comparison) (rows : list R) (limit : option nat) : list R :=
  firstn (out_len (length rows) limit) (isort c rows).
