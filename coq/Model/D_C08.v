(* C08 dispatch.  Postcondition ops receive  args ++ [[-7777]] ++ impl output  (".post") or the impl output
   (".post1") and return [[1]] when the output is admissible.
     c08.outcome.post       [[kind];[bytes];[aux]] / [[code];[ncols];[panic class]]   1 iff code is Ok(0) or Err(1)
     c08.thrift_meta(.post) [[bytes]]     meta_probe: Ok -> [[0];[version];[rows];[has created_by];[created_by];[0]], Err k -> [[-1;k]]
     c08.schema_probe(.post)[[bytes]]     schema_probe; when the schema list is the canonical suffix: [[0];[1];"r";"a"]
     c08.avro_longs(.post)  [[bytes]]     read_blocks: [[0];vals] | [[-1;3]] | panic [[2]..] | hang [[3]..]
     c08.ipc_batch(.post)   [[type codes];[nodes];[buffers];[body len];[length]]
     c08.knownclass         args ++ [[-7777]] ++ outcome -> [[1]] iff the outcome is Abort on a Parquet input whose footer declares
                            a list count beyond 2^14 and beyond the bytes that follow it (thrift pre-allocation finding);
                            [[10+i]] iff the outcome is a panic of the i-th known class; else [[0]] *)
From Coq Require Import List ZArith NArith String Bool.
From AV Require Import Base.Codec Model.C08_Thrift Model.C08_Avro Model.C08_Ipc.
Import ListNotations.
Local Open Scope string_scope.

Fixpoint zl_eqb (a b : list Z) : bool :=
  match a, b with [], [] => true | x :: a', y :: b' => Z.eqb x y && zl_eqb a' b' | _, _ => false end.
Fixpoint zll_eqb (a b : list (list Z)) : bool :=
  match a, b with [], [] => true | x :: a', y :: b' => zl_eqb x y && zll_eqb a' b' | _, _ => false end.

(* split  args ++ [[-7777]] ++ out *)
Fixpoint split_post (l : list (list Z)) (acc : list (list Z)) : list (list Z) * list (list Z) :=
  match l with
  | [] => (rev acc, [])
  | g :: r => if zl_eqb g [(-7777)%Z] then (rev acc, r) else split_post r (g :: acc)
  end.
Definition post (f : args -> list (list Z) -> bool) (a : args) : list (list Z) :=
  let (x, out) := split_post a [] in [[zb (f x out)]].
Definition out_code (out : list (list Z)) : Z := hd (-9)%Z (hd [] out).

Definition p_outcome (x out : list (list Z)) : bool :=
  let c := out_code out in Z.eqb c 0 || Z.eqb c 1.

(* ---- thrift *)
Definition enc_mres (m : mres) : option (list (list Z)) :=
  match m with
  | MUnmodelled => None
  | MErr k => Some (err_out k)
  | MOk v n cb => Some [[0%Z]; [v]; [n]; [zb (match cb with Some _ => true | None => false end)];
                        zs_of_bytes (match cb with Some s => s | None => [] end); [0%Z]]
  end.
Definition m_thrift_meta (a : args) : list (list Z) :=
  match enc_mres (meta_probe (bytes_of (arg 0 a))) with Some o => o | None => [[(-2)%Z]] end.
Definition p_thrift_meta (x out : list (list Z)) : bool :=
  match enc_mres (meta_probe (bytes_of (arg 0 x))) with Some o => zll_eqb o out | None => true end.

Definition schema_suffix : list N := [44; 72; 1; 114; 21; 2; 0; 21; 2; 37; 0; 24; 1; 97; 0]%N.
Fixpoint starts_with (p l : list N) : bool :=
  match p, l with [], _ => true | x :: p', y :: l' => N.eqb x y && starts_with p' l' | _, _ => false end.
Definition enc_schema (bs : list N) : option (list (list Z)) :=
  match schema_probe bs with
  | Err k => Some (err_out k)
  | Ok r _ => if starts_with schema_suffix r then Some [[0%Z]; [1%Z]; [114%Z]; [97%Z]] else None
  end.
Definition m_schema_probe (a : args) : list (list Z) :=
  match enc_schema (bytes_of (arg 0 a)) with Some o => o | None => [[(-2)%Z]] end.
Definition p_schema_probe (x out : list (list Z)) : bool :=
  match enc_schema (bytes_of (arg 0 x)) with Some o => zll_eqb o out | None => true end.

(* ---- avro *)
Definition avro_sync : list N := [160; 161; 162; 163; 164; 165; 166; 167; 168; 169; 170; 171; 172; 173; 174; 175]%N.
Definition m_avro_longs (a : args) : list (list Z) :=
  let bs := bytes_of (arg 0 a) in
  match read_blocks (S (List.length bs)) avro_sync bs [] with
  | ROk vals => [[0%Z]; vals]
  | RErr => err_out 3
  | RPanic => [[2%Z]]
  | RHang => [[3%Z]]
  | RFuel => [[(-99)%Z]]
  end.
Definition p_avro_longs (x out : list (list Z)) : bool :=
  let m := m_avro_longs x in
  let c := out_code m in
  if Z.eqb c 2 || Z.eqb c 3 then Z.eqb (out_code out) c else zll_eqb m out.

(* ---- ipc *)
Definition fty_of_code (c : Z) : fty :=
  if Z.eqb c 0 then FPrim else if Z.eqb c 1 then FBin else if Z.eqb c 2 then FList FPrim
  else if Z.eqb c 3 then FStruct [FPrim] else if Z.eqb c 4 then FNull else if Z.eqb c 5 then FPrim
  else if Z.eqb c 6 then FFsl 2 FPrim else FBin.
Fixpoint pairs (l : list Z) : list (Z * Z) :=
  match l with x :: y :: r => (x, y) :: pairs r | _ => [] end.
Definition ipc_event (a : args) : ev :=
  fst (walk_fields (map fty_of_code (arg 0 a)) (argz 3 a) {| nodes := pairs (arg 1 a); bufs := pairs (arg 2 a) |}).
Definition m_ipc_batch (a : args) : list (list Z) :=
  match ipc_event a with Pass => [[0%Z]] | CursorErr => [[1%Z]] | NullLenErr => [[1%Z]] | BoundsPanic | ValidityPanic | FslOverflowPanic => [[2%Z]] end.
Definition p_ipc_batch (x out : list (list Z)) : bool :=
  let c := out_code out in
  match ipc_event x with
  | Pass => Z.eqb c 0 || Z.eqb c 1
  | CursorErr | NullLenErr => Z.eqb c 1
  | BoundsPanic | ValidityPanic | FslOverflowPanic => Z.eqb c 2 || Z.eqb c 1
  end.

(* ---- known-finding classifier *)
Definition le32 (l : list N) : N :=
  match l with a :: b :: c :: d :: _ => (a + 256 * b + 65536 * c + 16777216 * d)%N | _ => 0%N end.
Definition pq_footer (bs : list N) : list N :=
  let n := List.length bs in
  if (n <? 12)%nat then [] else
  let len := le32 (skipn (n - 8) bs) in
  if (N.of_nat n <? len + 8)%N then [] else firstn (N.to_nat len) (skipn (n - 8 - N.to_nat len) bs).
(* panic classes (source file | message prefix, as produced by the harness) of the known findings, with the reader
   kinds (0 ipc file, 1 ipc stream, 2 ipc stream decoder, 3 parquet arrow reader, 4 parquet metadata, 5 parquet footer,
   6 avro, 7 csv, 8 json, 9 variant, 10 flight, 11 parquet row iterator) they were observed through; kind = 10 + index *)
Definition ascii_bytes (s : string) : list Z := map (fun c => Z.of_nat (Ascii.nat_of_ascii c)) (list_ascii_of_string s).
Definition ipc_kinds : list Z := [0; 1; 2; 10]%Z.
Definition pq_kinds : list Z := [3; 4; 5; 11]%Z.
Definition text_kinds : list Z := [7; 8]%Z.
Definition known_panic_classes : list (string * list Z) := [
  ("arrow-buffer/src/buffer/immutable.rs|the offset of the new Buffer cannot exceed the e", ipc_kinds);
  ("arrow-buffer/src/buffer/boolean.rs|buffer not large enough (bit_offset:", ipc_kinds);
  ("arrow-ipc/src/reader.rs|called `Option::unwrap()` on a `None` value", ipc_kinds);
  ("arrow-ipc/src/reader.rs|assertion failed: variadic_counts.is_empty()", ipc_kinds);
  ("parquet/src/file/metadata/mod.rs|column start and length should not be negative", pq_kinds);
  ("arrow-buffer/src/util/bit_chunk_iterator.rs|offset + len out of bounds", pq_kinds);
  ("arrow-data/src/data.rs|integer overflow computing expected number of ex", ipc_kinds);
  ("arrow-cast/src/parse.rs|attempt to multiply with overflow", text_kinds);
  ("bytes-1.12.1/src/bytes.rs|range end out of bounds:", pq_kinds);
  ("parquet/src/record/triplet.rs|Cannot extract value, max definition level:", pq_kinds);
  ("arrow-ipc/src/reader.rs|index out of bounds: the len is", ipc_kinds);
  ("parquet/src/column/reader/decoder.rs|Decoder for dict should have been set", pq_kinds);
  ("parquet/src/file/serialized_reader.rs|attempt to subtract with overflow", pq_kinds);
  ("core/src/iter/traits/accum.rs|attempt to add with overflow", pq_kinds);
  ("parquet/src/encodings/decoding/byte_stream_split_decoder.rs|index out of bounds: the len is", pq_kinds);
  ("parquet/src/arrow/array_reader/byte_array.rs|attempt to divide by zero", pq_kinds);
  ("parquet/src/arrow/array_reader/map_array.rs|called `Result::unwrap()` on an `Err` value: Gen", pq_kinds);
  ("arrow-data/src/data.rs|called `Result::unwrap()` on an `Err` value: Try", ipc_kinds);
  ("parquet/src/encodings/decoding.rs|attempt to subtract with overflow", pq_kinds);
  ("parquet-variant/src/decoder.rs|range end index", [9%Z]);
  ("parquet/src/record/reader.rs|assertion `left == right` failed: Invalid list t", pq_kinds);
  ("arrow-buffer/src/util/bit_util.rs|assertion `left != right` failed: slice must not", pq_kinds);
  ("parquet/src/arrow/decoder/delta_byte_array.rs|attempt to add with overflow", pq_kinds);
  ("parquet/src/util/bit_util.rs|assertion failed: size <= src.len()", pq_kinds);
  ("parquet/src/column/page.rs|called `Option::unwrap()` on a `None` value", pq_kinds);
  ("parquet/src/arrow/array_reader/fixed_len_byte_array.rs|attempt to divide by zero", pq_kinds)
].
Fixpoint class_index (k : Z) (cls : list Z) (tbl : list (string * list Z)) (i : Z) : Z :=
  match tbl with
  | [] => 0%Z
  | (s, ks) :: r => if zl_eqb cls (ascii_bytes s) && existsb (Z.eqb k) ks then i else class_index k cls r (i + 1)%Z
  end.
(* kinds: 1 thrift list pre-allocation (abort, parquet); 2 declared-length allocation in the IPC readers (abort);
   3 Avro OCF reader no-progress loop (timeout); 4 parquet SchemaElement.num_children pre-allocation (abort);
   5 Avro block decompression to a declared length beyond the allocation cap (abort); 6 any other allocation abort in
   a parquet reader (a size declared in a page / column chunk, not in the footer lists); 10+i panic class i; 0 unknown *)
Definition classify (x out : list (list Z)) : Z :=
  let k := argz 0 x in
  let bs := bytes_of (arg 1 x) in
  let c := out_code out in
  if Z.eqb c 4 then
    (if existsb (Z.eqb k) pq_kinds then
       let foot := if Z.eqb k 5 then bs else pq_footer bs in
       if has_oversize_list foot then 1%Z else if schema_children_oversize foot then 4%Z else 6%Z
     else if existsb (Z.eqb k) ipc_kinds then 2%Z
     else if Z.eqb k 6 then 5%Z
     else 0%Z)
  else if Z.eqb c 3 then (if Z.eqb k 6 then 3%Z else 0%Z)
  else if Z.eqb c 2 then class_index k (nth 2 out []) known_panic_classes 10%Z
  else 0%Z.
Definition m_knownclass (a : args) : list (list Z) :=
  let (x, out) := split_post a [] in [[classify x out]].

Definition ops_C08 : list (string * opfun) := [
  ("c08.outcome.post", post p_outcome);
  ("c08.thrift_meta", m_thrift_meta); ("c08.thrift_meta.post", post p_thrift_meta);
  ("c08.schema_probe", m_schema_probe); ("c08.schema_probe.post", post p_schema_probe);
  ("c08.avro_longs", m_avro_longs); ("c08.avro_longs.post", post p_avro_longs);
  ("c08.ipc_batch", m_ipc_batch); ("c08.ipc_batch.post", post p_ipc_batch);
  ("c08.knownclass", m_knownclass)
].
