(* C04 — encapsulated message framing of the IPC stream / file formats.
   Writer: arrow-ipc/src/writer.rs [pad_to_alignment], [MetadataLayout::new], [write_continuation],
   [write_encoded_data] (schema and dictionary messages), [write_record_batch] (per-buffer padding and
   tail padding), [write_eos], FileWriter block bookkeeping.
   Reader: arrow-ipc/src/reader.rs [MessageReader::read_meta_len] / [maybe_next].
   The flatbuffer metadata is an opaque byte string; the only thing the framing reader needs from it is
   the bodyLength field, modelled by the parameter [bodylen] of [unframe].  Definitions only. *)
From Coq Require Import List Arith NArith Bool.
Import ListNotations.

Record wopts := { o_align : nat; o_legacy : bool; o_v5 : bool }.

(* fn pad_to_alignment(alignment: u8, len: usize):  let a = alignment - 1; ((len + a) & !a) - len *)
Definition pad_to_alignment (alignment len : nat) : nat :=
  let a := N.of_nat (alignment - 1) in
  N.to_nat (N.ldiff (N.of_nat len + a) a) - len.

(* the specification: distance to the next multiple *)
Definition pad_spec (alignment len : nat) : nat := (alignment - len mod alignment) mod alignment.

Definition zeros (n : nat) : list N := repeat 0%N n.
Definition continuation_marker : list N := [255; 255; 255; 255]%N.
Definition le32 (n : nat) : list N :=
  let x := N.of_nat n in
  [x mod 256; (x / 256) mod 256; (x / 65536) mod 256; (x / 16777216) mod 256]%N.

(* MetadataLayout::new *)
Definition prefix_size (o : wopts) : nat := if o_legacy o then 4 else 8.
Definition padded_header_len (o : wopts) (metadata_len : nat) : nat :=
  let mask := N.of_nat (o_align o - 1) in
  N.to_nat (N.ldiff (N.of_nat (metadata_len + prefix_size o) + mask) mask).
Definition padded_metadata_len (o : wopts) (metadata_len : nat) : nat := padded_header_len o metadata_len - prefix_size o.
Definition metadata_padding (o : wopts) (metadata_len : nat) : nat := padded_metadata_len o metadata_len - metadata_len.

(* write_continuation: V4 legacy = 4-byte length only; V4 / V5 = marker + length *)
Definition write_continuation (o : wopts) (len : nat) : list N :=
  if o_v5 o then continuation_marker ++ le32 len
  else if o_legacy o then le32 len else continuation_marker ++ le32 len.

(* a message handed to the framing layer *)
Inductive msg :=
| MEnc (meta body : list N)               (* EncodedData { ipc_message, arrow_data }: schema, dictionary batch *)
| MBatch (meta : list N) (bufs : list (list N)).   (* record batch: metadata + encoded buffers *)

Definition msg_meta (m : msg) : list N := match m with MEnc a _ | MBatch a _ => a end.

Definition padded (a : nat) (b : list N) : list N := b ++ zeros (pad_to_alignment a (length b)).

(* record batch body: each buffer padded, then tail_pad = pad_to_alignment(offset) *)
Definition batch_offset (a : nat) (bufs : list (list N)) : nat :=
  fold_left (fun off b => off + length b + pad_to_alignment a (length b)) bufs 0.
Definition body_bytes (a : nat) (m : msg) : list N :=
  match m with
  | MEnc _ body => match body with [] => [] | _ => padded a body end
  | MBatch _ bufs => concat (map (padded a) bufs) ++ zeros (pad_to_alignment a (batch_offset a bufs))
  end.

(* write_encoded_data refuses arrow_data whose length is not a multiple of the alignment *)
Definition frame_ok (o : wopts) (m : msg) : bool :=
  match m with MEnc _ body => Nat.eqb (length body mod o_align o) 0 | MBatch _ _ => true end.

Definition frame_msg (o : wopts) (m : msg) : list N :=
  let meta := msg_meta m in
  write_continuation o (padded_metadata_len o (length meta)) ++ meta ++ zeros (metadata_padding o (length meta))
  ++ body_bytes (o_align o) m.

Definition eos (o : wopts) : list N := write_continuation o 0.
Definition frame_stream (o : wopts) (ms : list msg) : list N := concat (map (frame_msg o) ms) ++ eos o.

(* (padded_header_len, body_len) as returned to the FileWriter for its footer blocks *)
Definition msg_sizes (o : wopts) (m : msg) : nat * nat :=
  (padded_header_len o (length (msg_meta m)), length (body_bytes (o_align o) m)).

(* FileWriter: magic + padding, then Block { offset, metaDataLength, bodyLength } per message *)
Definition file_header_size (o : wopts) : nat := 6 + pad_to_alignment (o_align o) 6.
Fixpoint blocks_from (o : wopts) (off : nat) (ms : list msg) : list (nat * nat * nat) :=
  match ms with
  | [] => []
  | m :: r => let '(h, b) := msg_sizes o m in (off, h, b) :: blocks_from o (off + h + b) r
  end.

(* ---- reader: MessageReader.  [bodylen] reads Message.bodyLength out of the metadata bytes. *)
Definition le32_val (b : list N) : N :=
  (nth 0 b 0 + 256 * nth 1 b 0 + 65536 * nth 2 b 0 + 16777216 * nth 3 b 0)%N.
Definition list_eqb (a b : list N) : bool :=
  Nat.eqb (length a) (length b) && forallb (fun p => N.eqb (fst p) (snd p)) (combine a b).

Inductive rres := RDone (ms : list (list N * list N)) | RErr.

(* MessageReader::read_meta_len: Ok(None) on EOF at a message boundary or on a zero length, Err on a
   truncated prefix or a negative length, Ok(Some(len)) otherwise; returns the unread rest *)
Inductive rlen := LEnd | LErr | LLen (n : nat) (rest : list N).
Definition read_meta_len (s : list N) : rlen :=
  if length s <? 4 then LEnd          (* read_exact fails with UnexpectedEof on the first read: Ok(None) *)
  else
    let w0 := firstn 4 s in let s1 := skipn 4 s in
    if list_eqb w0 continuation_marker then
      if length s1 <? 4 then LErr
      else
        let len := le32_val (firstn 4 s1) in
        if N.eqb len 0 then LEnd else if (2147483648 <=? len)%N then LErr else LLen (N.to_nat len) (skipn 4 s1)
    else
      let len := le32_val w0 in
      if N.eqb len 0 then LEnd else if (2147483648 <=? len)%N then LErr else LLen (N.to_nat len) s1.

(* MessageReader::maybe_next, once per unit of fuel: metadata (meta_len bytes), then bodyLength body bytes *)
Fixpoint unframe (bodylen : list N -> nat) (fuel : nat) (s : list N) : rres :=
  match fuel with
  | O => RErr
  | S f =>
    match read_meta_len s with
    | LEnd => RDone []
    | LErr => RErr
    | LLen n s2 =>
        if length s2 <? n then RErr else
        let meta := firstn n s2 in let s3 := skipn n s2 in
        let bl := bodylen meta in
        if length s3 <? bl then RErr else
        match unframe bodylen f (skipn bl s3) with
        | RDone r => RDone ((meta, firstn bl s3) :: r)
        | RErr => RErr
        end
    end
  end.
