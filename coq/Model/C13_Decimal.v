(* C13 — decimal kernels of arrow-cast/src/cast/decimal.rs and the integer<->decimal arms of
   arrow-cast/src/cast/mod.rs.  Definitions only.
   A decimal type is (width in bits, precision, scale); the native value is a signed integer of
   that width; the represented number is value * 10^-scale. *)
From Coq Require Import List ZArith Bool.
From AV Require Import Gen.Consts Model.C13_Num.
Import ListNotations.
Local Open Scope Z_scope.

(* DecimalType::MAX_PRECISION / MAX_SCALE (regenerated constants) *)
Definition dec_maxp (w : Z) : Z :=
  if w =? 32 then arrow_schema_datatype__DECIMAL32_MAX_PRECISION
  else if w =? 64 then arrow_schema_datatype__DECIMAL64_MAX_PRECISION
  else if w =? 128 then arrow_schema_datatype__DECIMAL128_MAX_PRECISION
  else arrow_schema_datatype__DECIMAL256_MAX_PRECISION.
Definition dec_maxs (w : Z) : Z :=
  if w =? 32 then arrow_schema_datatype__DECIMAL32_MAX_SCALE
  else if w =? 64 then arrow_schema_datatype__DECIMAL64_MAX_SCALE
  else if w =? 128 then arrow_schema_datatype__DECIMAL128_MAX_SCALE
  else arrow_schema_datatype__DECIMAL256_MAX_SCALE.

(* DecimalType::MAX_FOR_EACH_PRECISION: [0; 9; 99; ...] — the 32/64/128-bit tables are the
   regenerated constants; the i256 table is built with from_parts in Rust and is written here by
   its defining formula (tied by the correspondence run). *)
Definition pow10_table_256 : list Z := map (fun k => 10 ^ Z.of_nat k - 1) (seq 0 77).
Definition max_table (w : Z) : list Z :=
  if w =? 32 then arrow_data_decimal__MAX_DECIMAL32_FOR_EACH_PRECISION
  else if w =? 64 then arrow_data_decimal__MAX_DECIMAL64_FOR_EACH_PRECISION
  else if w =? 128 then arrow_data_decimal__MAX_DECIMAL128_FOR_EACH_PRECISION
  else pow10_table_256.
(* table.get(k as usize) for an i8 k: a negative k is a huge usize *)
Definition table_get (w : Z) (k : Z) : option Z := if k <? 0 then None else nth_error (max_table w) (Z.to_nat k).

(* validate_decimal_precision_and_scale *)
Definition dec_type_ok (w p s : Z) : bool :=
  (1 <=? p) && (p <=? dec_maxp w) && (s <=? dec_maxs w) && (if 0 <? s then s <=? p else true) && (-128 <=? s).

(* is_valid_decimal_precision(v, p): p <= MAX_PRECISION && MIN[p] <= v <= MAX[p] (MIN[p] = -MAX[p]) *)
Definition valid_prec (w p v : Z) : bool :=
  match table_get w p with Some m => (- m <=? v) && (v <=? m) | None => false end.
Definition check_prec (w p : Z) (v : Z) : option Z := if valid_prec w p v then Some v else None.

(* DecimalCast::from_decimal into a native of width w *)
Definition from_decimal (w : Z) (v : Z) : option Z := num_cast w true v.

(* i8 arithmetic on precisions and scales: the debug build panics on overflow *)
Definition i8_ok (v : Z) : bool := (-128 <=? v) && (v <=? 127).

(* ---- make_upscaler *)
Definition up_fallible (w2 mul : Z) (x : Z) : option Z := obind (from_decimal w2 x) (fun y => checked_mul w2 y mul).
Definition up_infallible (w2 mul : Z) (x : Z) : option Z :=   (* from_decimal(x).unwrap().mul_wrapping(mul) *)
  match from_decimal w2 x with Some y => Some (wrap_signed w2 (y * mul)) | None => None end.

(* ---- make_downscaler: divide by div = 10^delta with round-half-away-from-zero, written with
   Rust's truncating / and % *)
Definition downscale (div x : Z) : Z :=
  let half := Z.quot div 2 in
  let d := Z.quot x div in
  let r := Z.rem x div in
  if 0 <=? x then (if half <=? r then d + 1 else d)
  else (if r <=? - half then d - 1 else d).
Definition down_fallible (w2 div : Z) (x : Z) : option Z := from_decimal w2 (downscale div x).

(* kernel chosen by cast_decimal_to_decimal / cast_decimal_to_decimal_same_type for
   (w1,p1,s1) -> (w2,p2,s2).  i8 overflow in the scale / precision arithmetic is a panic in the
   checked build; modelled as KNone (never generated: see harness, KNOWN-FINDING candidate). *)
Definition dec_dec_kernel (w1 p1 s1 w2 p2 s2 : Z) : kernel :=
  if (w1 =? w2) && (s1 =? s2) && (p1 <=? p2) then KTotal (fun v => v)          (* array.clone() *)
  else if s1 <=? s2 then
    let delta := s2 - s1 in
    if negb (i8_ok delta) then KNone else
    match table_get w2 delta with
    | None => KFail                                                           (* "Value overflows for output scale" *)
    | Some mx =>
        let mul := mx + 1 in
        if negb (i8_ok (p1 + delta)) then KNone
        else if p1 + delta <=? p2 then KUnwrap (up_infallible w2 mul)
        else KOpt (fun x => obind (up_fallible w2 mul x) (check_prec w2 p2))
    end
  else
    let delta := s1 - s2 in
    if negb (i8_ok delta) then KNone else
    match table_get w1 delta with
    | None => KTotal (fun _ => 0)                                             (* array of zeros, nulls kept *)
    | Some mx =>
        let div := mx + 1 in
        if negb (i8_ok (p1 - delta)) then KNone
        else if p1 - delta <? p2 then KUnwrap (down_fallible w2 div)
        else KOpt (fun x => obind (down_fallible w2 div x) (check_prec w2 p2))
    end.

(* ---- integer -> decimal: cast_integer_to_decimal (mod.rs) *)
(* 10.pow_checked(k) in a native of (bits, signed) *)
Definition pow10_checked (bits : Z) (signed : bool) (k : Z) : option Z :=
  let r := 10 ^ k in if fits bits signed r then Some r else None.

Definition int_dec_kernel (ibits : Z) (isigned : bool) (w p s : Z) : kernel :=
  if s <? 0 then
    match pow10_checked ibits isigned (- s) with
    | Some sf => KOpt (fun v => obind (from_decimal w (Z.quot v sf)) (check_prec w p))
    | None => KTotal (fun _ => 0)
    end
  else
    match pow10_checked w true s with
    | None => KFail
    | Some sf => KOpt (fun v => obind (obind (from_decimal w v) (fun y => checked_mul w y sf)) (check_prec w p))
    end.

(* ---- decimal -> integer: cast_decimal_to_integer (decimal.rs): truncating division *)
Definition dec_int_kernel (w s : Z) (obits : Z) (osigned : bool) : kernel :=
  match pow10_checked w true (Z.abs s) with
  | None => KFail
  | Some div =>
      if s <? 0 then KOpt (fun v => obind (checked_mul w v div) (num_cast obits osigned))
      else KOpt (fun v => num_cast obits osigned (Z.quot v div))
  end.

(* ---------------------------------------------------------------- specification
   Exact rescaling of the represented number with round-half-away-from-zero (on unbounded Z). *)
Definition round_half_away (div x : Z) : Z :=
  if 0 <=? x then (2 * x + div) / (2 * div) else - ((2 * (- x) + div) / (2 * div)).
(* (the powers of ten are bound outside the per-value function so that the extracted model computes
   them once per column; up to beta/zeta these are the plain formulas) *)
Definition rescale_spec (s1 s2 : Z) : Z -> Z :=
  let up := 10 ^ (s2 - s1) in
  let dn := 10 ^ (s1 - s2) in
  fun x => if s1 <=? s2 then x * up else round_half_away dn x.
Definition in_prec (p : Z) : Z -> bool := let lim := 10 ^ p in fun v => Z.abs v <? lim.
Definition dec_dec_spec (s1 p2 s2 : Z) : Z -> option Z :=
  let ok := in_prec p2 in
  let conv := rescale_spec s1 s2 in
  fun x => let r := conv x in if ok r then Some r else None.
Definition int_dec_spec (p s : Z) : Z -> option Z :=
  let ok := in_prec p in
  let dn := 10 ^ (- s) in
  let up := 10 ^ s in
  fun v => let r := if s <? 0 then Z.quot v dn else v * up in if ok r then Some r else None.
Definition dec_int_spec (s : Z) (obits : Z) (osigned : bool) : Z -> option Z :=
  let up := 10 ^ (- s) in
  let dn := 10 ^ s in
  fun v => let r := if s <? 0 then v * up else Z.quot v dn in num_cast obits osigned r.
