(* C07 — byte-string statistics truncation, transcribed from
   parquet/src/column/writer/mod.rs:
     truncate_min_value / truncate_max_value (GenericColumnWriter, 1244-1293)
     truncate_utf8 / truncate_and_increment_utf8 / increment_utf8 / increment (1917-1970)
   Bytes and code points are N.  Definitions only (proofs in Proofs/C07_Trunc.v, C07_Utf8.v). *)
From Coq Require Import List NArith Arith Bool.
Import ListNotations.
Local Open Scope N_scope.

Notation bytes := (list N).

(* ---------- spec order: unsigned byte-wise lexicographic comparison (Rust `[u8]: Ord`) *)
Fixpoint lex (a b : bytes) : comparison :=
  match a, b with
  | [], [] => Eq
  | [], _ :: _ => Lt
  | _ :: _, [] => Gt
  | x :: a', y :: b' => match N.compare x y with Eq => lex a' b' | c => c end
  end.
Definition lex_gtb (a b : bytes) : bool := match lex a b with Gt => true | _ => false end.
Definition lex_leb (a b : bytes) : bool := negb (lex_gtb a b).
Definition lex_ltb (a b : bytes) : bool := match lex a b with Lt => true | _ => false end.

(* ---------- increment (mod.rs:1959): add one from the right with carry, overflowing bytes
   wrap to 0; None iff every byte overflowed.  Written on the reversed list, as the loop runs. *)
Fixpoint incr_rev (r : bytes) : option bytes :=
  match r with
  | [] => None
  | b :: r' => if b =? 255 then option_map (cons 0) (incr_rev r') else Some (b + 1 :: r')
  end.
Definition increment (d : bytes) : option bytes := option_map (@rev N) (incr_rev (rev d)).

(* ---------- RFC 3629 UTF-8 (what `str::from_utf8` accepts, `char::encode_utf8` produces) *)
Definition scalar (c : N) : bool := (c <? 55296) || ((57343 <? c) && (c <=? 1114111)).
Definition cont (b : N) : bool := (128 <=? b) && (b <=? 191).
Definition in_rng (lo hi b : N) : bool := (lo <=? b) && (b <=? hi).

Definition encode (c : N) : bytes :=
  if c <? 128 then [c]
  else if c <? 2048 then [192 + c / 64; 128 + c mod 64]
  else if c <? 65536 then [224 + c / 4096; 128 + (c / 64) mod 64; 128 + c mod 64]
  else [240 + c / 262144; 128 + (c / 4096) mod 64; 128 + (c / 64) mod 64; 128 + c mod 64].

(* strict decoder of one scalar value (Unicode Table 3-7) *)
Definition decode1 (bs : bytes) : option (N * bytes) :=
  match bs with
  | [] => None
  | b0 :: r =>
    if b0 <? 128 then Some (b0, r)
    else if in_rng 194 223 b0 then
      match r with b1 :: r' => if cont b1 then Some ((b0 - 192) * 64 + (b1 - 128), r') else None | _ => None end
    else if in_rng 224 239 b0 then
      match r with
      | b1 :: b2 :: r' =>
        let lo := if b0 =? 224 then 160 else 128 in
        let hi := if b0 =? 237 then 159 else 191 in
        if in_rng lo hi b1 && cont b2
        then Some ((b0 - 224) * 4096 + (b1 - 128) * 64 + (b2 - 128), r') else None
      | _ => None end
    else if in_rng 240 244 b0 then
      match r with
      | b1 :: b2 :: b3 :: r' =>
        let lo := if b0 =? 240 then 144 else 128 in
        let hi := if b0 =? 244 then 143 else 191 in
        if in_rng lo hi b1 && cont b2 && cont b3
        then Some ((b0 - 240) * 262144 + (b1 - 128) * 4096 + (b2 - 128) * 64 + (b3 - 128), r') else None
      | _ => None end
    else None
  end.

(* whole-string decoding; fuel = length suffices (every char consumes >= 1 byte) *)
Fixpoint decode_all (fuel : nat) (bs : bytes) : option (list N) :=
  match bs with
  | [] => Some []
  | _ => match fuel with
         | O => None
         | S fuel => match decode1 bs with
                     | Some (c, r) => option_map (cons c) (decode_all fuel r)
                     | None => None end
         end
  end.
Definition decode (bs : bytes) : option (list N) := decode_all (length bs) bs.
Definition valid_utf8 (bs : bytes) : bool := match decode bs with Some _ => true | None => false end.

(* ---------- str::is_char_boundary(index): 0 and len are boundaries, otherwise the byte at
   index must not be a continuation byte ((b as i8) >= -0x40) *)
Definition is_char_boundary (d : bytes) (x : nat) : bool :=
  if (x =? 0)%nat then true
  else if (length d <=? x)%nat then (x =? length d)%nat
  else let b := nth x d 0 in (b <? 128) || (192 <=? b).

(* (lo..=hi).rfind(p): the largest x in [lo, hi] with p x *)
Fixpoint rfind_from (p : nat -> bool) (lo cnt : nat) : option nat :=
  match cnt with
  | O => None
  | S c => if p (lo + c)%nat then Some (lo + c)%nat else rfind_from p lo c
  end.
Definition rfind (p : nat -> bool) (lo hi : nat) : option nat := rfind_from p lo (S hi - lo).

(* truncate_utf8 (mod.rs:1917) *)
Definition truncate_utf8 (d : bytes) (l : nat) : option bytes :=
  match rfind (is_char_boundary d) 1 l with
  | Some split => Some (firstn split d)
  | None => None
  end.

(* increment_utf8 (mod.rs:1940): walk the characters from the last one; the first one whose
   successor is a scalar value of the same encoded width is replaced, everything after it dropped.
   [rcs] is the reversed list of code points of [d]; [pre] the bytes before the current char
   are recomputed from the remaining (reversed) prefix. *)
Fixpoint increment_utf8_rev (rcs : list N) : option bytes :=
  match rcs with
  | [] => None
  | c :: r =>
    if scalar (c + 1) && (length (encode (c + 1)) =? length (encode c))%nat
    then Some (flat_map encode (rev r) ++ encode (c + 1))
    else increment_utf8_rev r
  end.
Definition increment_utf8 (d : bytes) : option bytes :=
  match decode d with
  | Some cs => increment_utf8_rev (rev cs)
  | None => None   (* unreachable: callers pass a &str *)
  end.

(* truncate_and_increment_utf8 (mod.rs:1927) *)
Definition truncate_and_increment_utf8 (d : bytes) (l : nat) : option bytes :=
  match rfind (is_char_boundary d) (l - 3) l with
  | Some split => increment_utf8 (firstn split d)
  | None => None
  end.

(* truncate_min_value / truncate_max_value (mod.rs:1244, 1275): result and "did truncate" flag.
   [utf8] = the column is a String/UTF8 column; [tl] = the configured truncation length. *)
Definition truncate_min_value (utf8 : bool) (tl : option nat) (d : bytes) : bytes * bool :=
  match tl with
  | Some l =>
    if (l <? length d)%nat then
      match (if utf8 && valid_utf8 d then truncate_utf8 d l else Some (firstn l d)) with
      | Some t => (t, true)
      | None => (d, false)
      end
    else (d, false)
  | None => (d, false)
  end.

Definition truncate_max_value (utf8 : bool) (tl : option nat) (d : bytes) : bytes * bool :=
  match tl with
  | Some l =>
    if (l <? length d)%nat then
      match (if utf8 && valid_utf8 d then truncate_and_increment_utf8 d l else increment (firstn l d)) with
      | Some t => (t, true)
      | None => (d, false)
      end
    else (d, false)
  | None => (d, false)
  end.
