(* C05 — Dremel definition/repetition levels for one column path (definitions only).
   A column path is the chain of schema nodes from the root to a leaf, as levels.rs sees it:
     Req  a required struct / required leaf wrapper        (no level)
     Opt  a nullable struct, the nullable wrapper of a list, or a nullable leaf   (def +1)
     Rep  the repeated node of a list / large list / fixed-size list / map       (def +1, rep +1)
   (a nullable list is  Opt :: Rep :: element path,  a required list  Rep :: element path).
   Values are typed by the path, so "null at every level / empty list at every level" are exactly
   the inhabitants of [val p]. *)
From Coq Require Import List ZArith Arith Bool.
Import ListNotations.

Inductive node := Req | Opt | Rep.
Notation path := (list node).

Fixpoint val (p : path) : Type :=
  match p with
  | [] => Z
  | Req :: p' => val p'
  | Opt :: p' => option (val p')
  | Rep :: p' => list (val p')
  end.

(* one level entry: definition level, repetition level, leaf value when the leaf is defined *)
Record entry := { e_def : nat; e_rep : nat; e_val : option Z }.

Definition max_def (p : path) : nat := length (filter (fun n => match n with Req => false | _ => true end) p).
Definition max_rep (p : path) : nat := length (filter (fun n => match n with Rep => true | _ => false end) p).

(* S: shredding.  d = definition level reached so far, r = repetition level to emit for the first
   entry of this value, rl = number of repeated ancestors. *)
Fixpoint shred (p : path) : nat -> nat -> nat -> val p -> list entry :=
  match p return nat -> nat -> nat -> val p -> list entry with
  | [] => fun d r _ z => [{| e_def := d; e_rep := r; e_val := Some z |}]
  | Req :: p' => fun d r rl v => shred p' d r rl v
  | Opt :: p' => fun d r rl v =>
      match v with
      | None => [{| e_def := d; e_rep := r; e_val := None |}]
      | Some x => shred p' (S d) r rl x
      end
  | Rep :: p' => fun d r rl v =>
      match v with
      | [] => [{| e_def := d; e_rep := r; e_val := None |}]
      | x :: xs => shred p' (S d) r (S rl) x ++ flat_map (shred p' (S d) (S rl) (S rl)) xs
      end
  end.

(* a column chunk / record batch: rows in order *)
Definition shred_rows (p : path) (rows : list (val p)) : list entry := flat_map (shred p 0 0 0) rows.

(* record assembly: the inverse, by recursive descent over the entry stream *)
Fixpoint many {A} (fuel : nat) (one : list entry -> option (A * list entry)) (rl1 : nat) (es : list entry)
  : option (list A * list entry) :=
  match fuel with
  | O => None
  | S f =>
    match es with
    | [] => Some ([], [])
    | e :: _ =>
      if (e_rep e =? rl1)%nat then
        match one es with
        | None => None
        | Some (x, es') =>
          match many f one rl1 es' with
          | None => None
          | Some (xs, r) => Some (x :: xs, r)
          end
        end
      else Some ([], es)
    end
  end.

Fixpoint assemble (fuel : nat) (p : path) : nat -> nat -> list entry -> option (val p * list entry) :=
  match p return nat -> nat -> list entry -> option (val p * list entry) with
  | [] => fun d _ es =>
      match es with
      | e :: r => match e_val e with
                  | Some z => if (e_def e =? d)%nat then Some (z, r) else None
                  | None => None
                  end
      | [] => None
      end
  | Req :: p' => fun d rl es => assemble fuel p' d rl es
  | Opt :: p' => fun d rl es =>
      match es with
      | [] => None
      | e :: r =>
        if (e_def e =? d)%nat then (match e_val e with None => Some (None, r) | Some _ => None end)
        else if (e_def e <? d)%nat then None
        else match assemble fuel p' (S d) rl es with
             | None => None
             | Some (x, r') => Some (Some x, r')
             end
      end
  | Rep :: p' => fun d rl es =>
      match es with
      | [] => None
      | e :: r =>
        if (e_def e =? d)%nat then (match e_val e with None => Some ([], r) | Some _ => None end)
        else if (e_def e <? d)%nat then None
        else match assemble fuel p' (S d) (S rl) es with
             | None => None
             | Some (x, es') =>
               match many fuel (assemble fuel p' (S d) (S rl)) (S rl) es' with
               | None => None
               | Some (xs, r') => Some (x :: xs, r')
               end
             end
      end
  end.

(* all rows of a chunk: a row starts at repetition level 0 *)
Fixpoint assemble_rows (fuel : nat) (p : path) (es : list entry) : option (list (val p)) :=
  match fuel with
  | O => match es with [] => Some [] | _ => None end
  | S f =>
    match es with
    | [] => Some []
    | _ => match assemble (length es) p 0 0 es with
           | None => None
           | Some (x, r) => match assemble_rows f p r with None => None | Some xs => Some (x :: xs) end
           end
    end
  end.

(* ---- token stream <-> values (the flattening used by the case interface) ----
   [] : one integer ;  Opt : 0 (null) | 1 then the child ;  Rep : length then the elements *)
Fixpoint parse_n {A} (one : list Z -> option (A * list Z)) (n : nat) (ts : list Z) : option (list A * list Z) :=
  match n with
  | O => Some ([], ts)
  | S n => match one ts with
           | None => None
           | Some (x, r) => match parse_n one n r with None => None | Some (xs, r') => Some (x :: xs, r') end
           end
  end.

Fixpoint parse (p : path) : list Z -> option (val p * list Z) :=
  match p return list Z -> option (val p * list Z) with
  | [] => fun ts => match ts with z :: r => Some (z, r) | [] => None end
  | Req :: p' => parse p'
  | Opt :: p' => fun ts =>
      match ts with
      | [] => None
      | f :: r => if (f =? 0)%Z then Some (None, r)
                  else match parse p' r with None => None | Some (x, r') => Some (Some x, r') end
      end
  | Rep :: p' => fun ts =>
      match ts with
      | [] => None
      | n :: r => parse_n (parse p') (Z.to_nat n) r
      end
  end.

Fixpoint unparse (p : path) : val p -> list Z :=
  match p return val p -> list Z with
  | [] => fun z => [z]
  | Req :: p' => unparse p'
  | Opt :: p' => fun v => match v with None => [0%Z] | Some x => 1%Z :: unparse p' x end
  | Rep :: p' => fun v => Z.of_nat (length v) :: flat_map (unparse p') v
  end.
