(* C06 — the reference reader (S) for the end-to-end suite, and the model (M) of the read plan
   that the sync reader derives from the options (ReadPlanBuilder::with_predicate,
   LimitedReadPlanBuilder::build_limited, ReadPlanBuilder::build) on top of the RowSelection
   algebra of C06_RowSel.v.  Definitions only.

   Test files have an `id` column holding the row number, so "the rows returned" is a list of
   row numbers; the other columns are fixed functions of the row number (below), which lets S
   compute the projected cells as well. *)
From Coq Require Import List ZArith Arith Bool.
From AV Require Import Model.C06_RowSel.
Import ListNotations.
Local Open Scope Z_scope.

(* ------------------------------------------------------------------ file contents as functions of the row number *)
(* Int32 `val` column; nullmod = 0 means no nulls *)
Definition val_of (nullmod id : Z) : option Z :=
  if (0 <? nullmod) && ((id * 7 + 3) mod nullmod =? 0) then None
  else Some ((id * 37) mod 101 - 50).
(* Utf8 `s` column: the text "r<id>", reported by the harness as <id>; null every 13th row *)
Definition str_of (id : Z) : option Z := if id mod 13 =? 7 then None else Some id.
(* List<Int32> `lst` column: null list, empty list, lists with null elements *)
Fixpoint zseq (start : Z) (n : nat) : list Z :=
  match n with O => [] | S k => start :: zseq (start + 1) k end.
Definition lst_of (id : Z) : option (list (option Z)) :=
  if id mod 11 =? 5 then None
  else Some (map (fun e => if e mod 5 =? 0 then None else Some e) (zseq id (Z.to_nat (id mod 4)))).

(* List<List<Int32>> `ll` column (two repetition levels): null / empty outer lists, null / empty
   inner lists, null elements *)
Definition ll_of (id : Z) : option (list (option (list (option Z)))) :=
  if id mod 17 =? 3 then None
  else Some (map (fun j => if j mod 7 =? 0 then None
                           else Some (map (fun e => if e mod 6 =? 0 then None else Some e)
                                          (zseq j (Z.to_nat (j mod 3)))))
                 (zseq id (Z.to_nat (id mod 3)))).

(* Decimal128(30,2) `dec` column (a FIXED_LEN_BYTE_ARRAY(13) leaf): the unscaled value; null every 9th row *)
Definition dec_of (id : Z) : option Z := if id mod 9 =? 4 then None else Some (id * 1000003 - 7).

(* ------------------------------------------------------------------ predicates (ArrowPredicateFn) *)
(* kind 0: id mod p1 <> p2      kind 1: val < p1 (NULL -> not selected)
   kind 2: val IS NULL           kind 3: p1 <= id < p2 *)
Record pred := { p_kind : Z; p_1 : Z; p_2 : Z }.
Definition eval_pred (nullmod : Z) (p : pred) (id : Z) : bool :=
  if p_kind p =? 0 then negb (id mod p_1 p =? p_2 p)
  else if p_kind p =? 1 then match val_of nullmod id with Some v => v <? p_1 p | None => false end
  else if p_kind p =? 2 then match val_of nullmod id with Some _ => false | None => true end
  else (p_1 p <=? id) && (id <? p_2 p).

(* ------------------------------------------------------------------ S: the reference reader *)
(* row numbers of the chosen row groups, in the order given *)
Fixpoint sumz (l : list Z) : Z := match l with [] => 0 | x :: r => x + sumz r end.
Definition group_rows (rg_counts : list Z) (g : nat) : list Z :=
  zseq (sumz (firstn g rg_counts)) (Z.to_nat (nth g rg_counts 0)).
Definition rows_of (rg_counts : list Z) (chosen : list nat) : list Z :=
  flat_map (group_rows rg_counts) chosen.

(* keep the rows whose position is selected; positions beyond the selection are not selected *)
Fixpoint select_rows {A} (bits : list bool) (rows : list A) : list A :=
  match bits, rows with
  | b :: bs, r :: rs => if b then r :: select_rows bs rs else select_rows bs rs
  | _, _ => []
  end.

Definition apply_opt {A} (o : option nat) (f : nat -> list A -> list A) (l : list A) : list A :=
  match o with Some n => f n l | None => l end.

(* full read -> row-group choice -> selection -> predicates in order -> offset -> limit *)
Definition reference_read (nullmod : Z) (rg_counts : list Z) (chosen : list nat)
    (selection : option (list bool)) (preds : list pred) (offset limit : option nat) : list Z :=
  let rows := rows_of rg_counts chosen in
  let rows := match selection with Some bits => select_rows bits rows | None => rows end in
  let rows := fold_left (fun rs p => filter (eval_pred nullmod p) rs) preds rows in
  apply_opt limit (@firstn Z) (apply_opt offset (@skipn Z) rows).

(* ------------------------------------------------------------------ M: the read plan *)
(* ReadPlanBuilder::with_predicate: the predicate is evaluated on the currently selected rows
   (in batches whose boundaries do not matter for from_filters / filters_to_boolean_buffer),
   NULL results count as false.  [rows] are the row numbers of the chosen row groups. *)
Definition with_predicate (rows : list Z) (f : Z -> bool) (sel : option rowsel) : option (option rowsel) :=
  let current := match sel with Some s => select_rows (den s) rows | None => rows end in
  let filt := map f current in
  if forallb (fun b => b) filt then Some sel               (* all selected: no-op *)
  else
    let raw := match sel with
               | Some (Mask _) => Some (Mask filt)          (* from_boolean_buffer *)
               | _ => option_map Sels (from_filters [filt]) (* from_filters *)
               end in
    match raw, sel with
    | None, _ => None
    | Some r, Some s => option_map Some (and_then s r)
    | Some r, None => Some (Some r)
    end.

(* the loop over filter.predicates in ParquetRecordBatchReaderBuilder::build:
   stops early once nothing is selected *)
Fixpoint with_predicates (rows : list Z) (fs : list (Z -> bool)) (sel : option rowsel) : option (option rowsel) :=
  match fs with
  | [] => Some sel
  | f :: r =>
      if match sel with Some s => selects_any s | None => true end then
        match with_predicate rows f sel with
        | None => None
        | Some sel' => with_predicates rows r sel'
        end
      else Some sel
  end.

(* LimitedReadPlanBuilder::build_limited *)
Definition build_limited (row_count : nat) (sel : option rowsel) (off lim : option nat) : option rowsel :=
  let sel := match sel with
             | Some s => if selects_any s then Some s else Some (Sels [])
             | None => None
             end in
  let sel := match off with
             | None => sel
             | Some o =>
                 if (row_count <? o)%nat then Some (Sels [])
                 else match sel with
                      | Some s => Some (offset s o)
                      | None => Some (Sels (from_iter [(true, o); (false, (row_count - o)%nat)]))
                      end
             end in
  match lim with
  | None => sel
  | Some l => match sel with
              | Some s => Some (limit s l)
              | None => Some (Sels (from_iter [(false, Nat.min l row_count)]))
              end
  end.

(* ReadPlanBuilder::build: empty selections are truncated, trailing skips trimmed; the rows the
   cursor then visits are the selected positions *)
Definition plan_rows (rows : list Z) (sel : option rowsel) : list Z :=
  match sel with
  | None => rows
  | Some s => let s1 := if selects_any s then s else Sels [] in select_rows (den (trim s1)) rows
  end.

Definition plan_read (nullmod : Z) (rg_counts : list Z) (chosen : list nat)
    (selection : option rowsel) (preds : list pred) (off lim : option nat) : option (list Z) :=
  let rows := rows_of rg_counts chosen in
  match with_predicates rows (map (eval_pred nullmod) preds) selection with
  | None => None
  | Some sel => Some (plan_rows rows (build_limited (length rows) sel off lim))
  end.
