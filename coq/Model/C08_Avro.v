(* C08 — Avro varint readers (arrow-avro/src/reader/vlq.rs) and the OCF block layer
   (reader/block.rs BlockDecoder::decode, reader/mod.rs Reader::read) for a file whose schema is a record
   with one `long` field, following the Rust control flow.  Definitions only. *)
From Coq Require Import List NArith ZArith Bool.
Import ListNotations.
Local Open Scope N_scope.

(* ---- spec: bounded ULEB128 (at most 10 bytes, the 10th at most 1), value < 2^64 *)
Fixpoint uleb_dec (fuel : nat) (bs : list N) (shift acc : N) : option (N * list N) :=
  match fuel with
  | O => None
  | S f => match bs with
           | [] => None
           | b :: r => let acc' := acc + (b mod 128) * 2^shift in
                       if b <? 128 then (if (shift =? 63) && (1 <? b) then None else Some (acc', r))
                       else uleb_dec f r (shift + 7) acc'
           end
  end.
Definition varint_spec (bs : list N) : option (N * list N) := uleb_dec 10 bs 0 0.

Fixpoint uleb_enc (fuel : nat) (n : N) : list N :=
  match fuel with
  | O => []
  | S f => if n <? 128 then [n] else (n mod 128 + 128) :: uleb_enc f (n / 128)
  end.

Definition zigzag (v : N) : Z := if N.even v then Z.of_N (v / 2) else (- Z.of_N (v / 2) - 1)%Z.
Definition zigzag_enc (z : Z) : N := if (0 <=? z)%Z then Z.to_N (2 * z) else Z.to_N (- 2 * z - 1).

(* ---- read_varint: fast single byte, the 10-byte array path (additive), the slow path *)
Fixpoint varint_array_loop (k : nat) (idx : N) (bs : list N) (acc : N) : option (N * N) + N :=
  (* inl (Some (value, consumed)) = returned inside the loop; inr acc = fell through after 9 bytes *)
  match k with
  | O => inr acc
  | S k' => match bs with
            | [] => inr acc
            | b :: r => let acc1 := acc + N.shiftl b (7 * idx) in
                        if b <? 128 then inl (Some (acc1, idx + 1))
                        else varint_array_loop k' (idx + 1) r (acc1 - N.shiftl 128 (7 * idx))
            end
  end.
Definition read_varint_array (bs : list N) : option (N * N) :=   (* precondition: 10 <= length bs *)
  match varint_array_loop 9 0 bs 0 with
  | inl r => r
  | inr acc => let b := nth 9 bs 0 in if b <? 2 then Some (acc + N.shiftl b 63, 10) else None
  end.

Fixpoint varint_slow_loop (k : nat) (count : N) (bs : list N) (value : N) : option (N * N) :=
  match k with
  | O => None
  | S k' => match bs with
            | [] => None
            | b :: r => let v := N.lor value (N.shiftl (N.land b 127) (count * 7)) in
                        if b <=? 127 then (if negb (count =? 9) || (b <? 2) then Some (v, count + 1) else None)
                        else varint_slow_loop k' (count + 1) r v
            end
  end.
Definition read_varint_slow (bs : list N) : option (N * N) := varint_slow_loop 10 0 bs 0.

Definition read_varint (bs : list N) : option (N * N) :=
  match bs with
  | [] => None
  | b :: _ => if b <? 128 then Some (b, 1)
              else if (10 <=? length bs)%nat then read_varint_array bs else read_varint_slow bs
  end.

(* AvroCursor::get_long *)
Definition get_long (bs : list N) : option (Z * list N) :=
  match read_varint bs with
  | Some (v, n) => Some (zigzag v, skipn (N.to_nat n) bs)
  | None => None
  end.

(* ---- VLQDecoder::long on a complete buffer.  Outcomes: value, need more input, error, and the
   debug-build arithmetic panic `<< shift` with shift >= 64 (reached after a 10th byte 0x80). *)
Inductive vres := VVal (z : Z) (rest : list N) | VMore | VErr | VPanic.
Fixpoint vlq_long (bs : list N) (acc shift : N) : vres :=
  match bs with
  | [] => VMore
  | b :: r => if (shift =? 63) && (2 <=? b) then VErr
              else if 64 <=? shift then VPanic
              else let acc' := N.lor acc (N.shiftl (N.land b 127) shift mod 2^64) in
                   if b <? 128 then VVal (zigzag acc') r else vlq_long r acc' (shift + 7)
  end.

(* ---- BlockDecoder::decode on the whole remaining input, from state Count *)
Inductive bres :=
| BBlock (count : N) (data : list N) (sync : list N) (rest : list N)   (* state Finished *)
| BPartial                                                              (* input exhausted inside a block *)
| BErr | BPanic.
Definition decode_block (bs : list N) : bres :=
  match vlq_long bs 0 0 with
  | VMore => BPartial | VErr => BErr | VPanic => BPanic
  | VVal c r1 => if (c <? 0)%Z then BErr else
    match vlq_long r1 0 0 with
    | VMore => BPartial | VErr => BErr | VPanic => BPanic
    | VVal s r2 => if (s <? 0)%Z then BErr else
      let sz := Z.to_N s in
      if N.of_nat (length r2) <? sz + 16 then BPartial
      else let data := firstn (N.to_nat sz) r2 in
           let r3 := skipn (N.to_nat sz) r2 in
           BBlock (Z.to_N c) data (firstn 16 r3) (skipn 16 r3)
    end
  end.

(* RecordDecoder::decode for the one-long-field record: `count` longs from data *)
Fixpoint decode_longs (count : nat) (data : list N) (acc : list Z) : option (list Z * list N) :=
  match count with
  | O => Some (rev acc, data)
  | S c => match get_long data with
           | Some (z, r) => decode_longs c r (z :: acc)
           | None => None
           end
  end.

(* ---- Reader::read with batch capacity not binding (fewer than batch_size rows in the file).
   ROk vals | RErr | RPanic | RHang (the loop `while !finished` makes no progress: a block whose data is longer
   than its `count` records leaves block_cursor < block_data.len() with block_count = 0 forever). *)
Fixpoint bytes_eqb (a b : list N) : bool :=
  match a, b with
  | [], [] => true
  | x :: a', y :: b' => (x =? y) && bytes_eqb a' b'
  | _, _ => false
  end.

Inductive rres := ROk (vals : list Z) | RErr | RPanic | RHang | RFuel.
Fixpoint read_blocks (fuel : nat) (sync : list N) (bs : list N) (acc : list Z) : rres :=
  match fuel with
  | O => RFuel
  | S f =>
    match bs with
    | [] => ROk acc                                   (* fill_buf empty: finished *)
    | _ =>
      match decode_block bs with
      | BErr => RErr | BPanic => RPanic
      | BPartial => ROk acc                            (* trailing partial block is dropped silently *)
      | BBlock count data s rest =>
          if negb (bytes_eqb s sync) then RErr
          else match data with
               | [] => read_blocks f sync rest acc     (* block_cursor == len: next block *)
               | _ => if count =? 0 then RHang
                      else if N.of_nat (length data) <? count then RErr     (* each record needs >= 1 byte *)
                      else match decode_longs (N.to_nat count) data [] with
                           | None => RErr
                           | Some (vals, []) => read_blocks f sync rest (acc ++ vals)
                           | Some (_, _ :: _) => RHang
                           end
               end
      end
    end
  end.
