(* C09 — classification of the KNOWN gaps between arrow-rs validation and the specification
   (known_findings.json F4, F5).  A node is a gap node when the transcribed validator accepts it and
   the specification rejects it; its kind is decided by the data type, and kind 0 means "not a known gap". *)
From Coq Require Import List Arith ZArith Bool.
From AV Require Import Model.C09_Layout Model.C09_Validate.
Import ListNotations.

Definition gap_kind (a : parr) : option Z :=
  if (node_ok a && negb (spec_node a && spec_nullability a))%bool then
    Some (match p_ty a with
          | TStruct _ => if Nat.eqb (p_off a) 0 then 0 else 1          (* F4: struct child length / nullability ignore the offset *)
          | TFixedList _ false _ => if Nat.eqb (p_off a) 0 then 0 else 2  (* F4: non-nullable child mask ignores the offset *)
          | TUnion _ _ => 3                                            (* F5: type ids and dense offsets are not validated *)
          | _ => 0
          end)%Z
  else None.

Fixpoint gap_kinds (a : parr) : list Z :=
  match a with
  | PArr _ _ _ _ _ kids =>
      (match gap_kind a with Some k => [k] | None => [] end) ++ flat_map gap_kinds kids
  end.

Fixpoint dedup (l : list Z) : list Z :=
  match l with [] => [] | x :: r => if existsb (Z.eqb x) r then dedup r else x :: dedup r end.
