(* C13 dispatch.  Type encoding (one group): [0;bits;signed] Int | [1] Bool | [2;bits;p;s] Decimal |
   [3] Date32 | [4] Date64 | [5;u] Time32 | [6;u] Time64 | [7;u;tz] Timestamp (tz 0 None, 1 "UTC") |
   [8;u] Duration; time units u: 0 s, 1 ms, 2 us, 3 ns.
   Columns: [validity 0/1 ...] [raw values ...]; outputs print the value of a null slot as 0.
   Errors: [-1;1] cast error, [-1;8] panic; [-3] = pair / input outside the model (never generated). *)
From Coq Require Import List ZArith NArith String Bool.
From AV Require Import Base.Codec Model.C13_Num Model.C13_Decimal Model.C13_Cast Model.C13_Text Model.C13_Interval Model.C13_List Model.C13_Dict.
Import ListNotations.
Local Open Scope string_scope.
Local Open Scope Z_scope.

Definition parse_mty (l : list Z) : option mty :=
  match l with
  | [0; b; s] => Some (TInt b (negb (s =? 0)))
  | [1] => Some TBool
  | [2; w; p; s] => Some (TDec w p s)
  | [3] => Some TDate32
  | [4] => Some TDate64
  | [5; u] => Some (TTime32 u)
  | [6; u] => Some (TTime64 u)
  | [7; u; z] => Some (TTs u (negb (z =? 0)))
  | [8; u] => Some (TDur u)
  | _ => None
  end.

Definition unmodelled : list (list Z) := [[-3]].

Definition col_of (valid vals : list Z) : column := combine (bools_of valid) vals.
Definition out_col (c : column) : list (list Z) :=
  let n := norm c in [zs_of_bools (map fst n); map snd n].
Definition out_res (r : res) : list (list Z) :=
  match r with ROk c => out_col c | RErr => err_out 1 | RPanic => err_out 8 end.
Definition out_logical (xs : list (option Z)) : list (list Z) :=
  [map (fun x => match x with Some _ => 1 | None => 0 end) xs; map (fun x => match x with Some v => v | None => 0 end) xs].

(* c13.cast: [layout] [ta] [tb] [safe] [validity] [values] — M *)
Definition d_cast (a : args) : list (list Z) :=
  match parse_mty (arg 1 a), parse_mty (arg 2 a) with
  | Some ta, Some tb =>
      if modelled ta tb then out_res (cast_model ta tb (argb 3 a) (col_of (arg 4 a) (arg 5 a))) else unmodelled
  | _, _ => unmodelled
  end.
(* c13.cast.spec — S on the logical column *)
Definition s_cast (a : args) : list (list Z) :=
  match parse_mty (arg 1 a), parse_mty (arg 2 a) with
  | Some ta, Some tb =>
      match spec_conv ta tb with
      | Some conv => match spec_cast conv (argb 3 a) (logical (col_of (arg 4 a) (arg 5 a))) with
                     | Some xs => out_logical xs | None => err_out 1 end
      | None => unmodelled
      end
  | _, _ => unmodelled
  end.
(* c13.inverse.spec: [layout] [ta] [tb] [validity] [values]: strict a -> b -> a by S; the harness skips
   the case when the forward cast fails *)
Definition s_inverse (a : args) : list (list Z) :=
  match parse_mty (arg 1 a), parse_mty (arg 2 a) with
  | Some ta, Some tb =>
      match spec_conv ta tb, spec_conv tb ta with
      | Some f, Some g =>
          match spec_strict f (logical (col_of (arg 3 a) (arg 4 a))) with
          | Some ys => match spec_strict g ys with Some zs => out_logical zs | None => err_out 1 end
          | None => unmodelled
          end
      | _, _ => unmodelled
      end
  | _, _ => unmodelled
  end.
(* identity specification: the output column is the (normalised) input column *)
Definition s_identity (nv nx : nat) (a : args) : list (list Z) := out_col (col_of (arg nv a) (arg nx a)).

(* c13.fmt: [t] [value] -> bytes *)
Definition d_fmt (a : args) : list (list Z) :=
  match parse_mty (arg 0 a) with
  | Some (TInt _ _) => [fmt_int (argz 1 a)]
  | Some (TDec _ p s) => [fmt_dec (argz 1 a) p s]
  | _ => unmodelled
  end.

Definition out_parse (safe : bool) (o : option Z) : list (list Z) :=
  match o with
  | Some v => [[1]; [v]]
  | None => if safe then [[0]; [0]] else err_out 1
  end.
(* c13.parse: [t] [strkind] [safe] [bytes] — M *)
Definition d_parse (a : args) : list (list Z) :=
  match parse_mty (arg 0 a) with
  | Some (TInt b sg) => out_parse (argb 2 a) (parse_int b sg (arg 3 a))
  | Some (TDec w p s) => match cast_str_dec w p s with
                         | Some f => out_parse (argb 2 a) (f (arg 3 a))
                         | None => err_out 1 end
  | _ => unmodelled
  end.
(* c13.parse.spec — S *)
Definition s_parse (a : args) : list (list Z) :=
  match parse_mty (arg 0 a) with
  | Some (TInt b sg) => out_parse (argb 2 a) (parse_int_spec b sg (arg 3 a))
  | Some (TDec w p s) => if (s <? 0) || (dec_maxs w <? s) then err_out 1
                         else out_parse (argb 2 a) (parse_dec_spec w p s (arg 3 a))
  | _ => unmodelled
  end.
(* c13.parse_decimal: [bits] [p] [s] [bytes] *)
Definition d_parse_decimal (a : args) : list (list Z) :=
  match parse_decimal (argz 0 a) (argz 1 a) (argz 2 a) (arg 3 a) with
  | inl v => [[v]]
  | inr 0 => err_out 3
  | inr _ => unmodelled
  end.

(* postcondition: the implementation reported success ([1]) *)
Definition p_one (out : args) : list (list Z) :=
  match out with [[1]] => [[1]] | _ => [[0]] end.

(* c13.ivcast: [kind; unit] [safe] [validity] [g1] [g2] [g3] — interval casts (C13_Interval.v).
   kind 0: g1 g2 g3 = months days nanos, output [validity] [values];
   kind 1: g1 = duration values; kinds 2 / 4: g1 = i32 values; kind 3: g1 g2 = days millis;
   kinds 1, 2, 3 output [validity] [months] [days] [nanos] (null slots printed as 0 0 0). *)
Fixpoint zip3 (f : Z -> Z -> Z -> Z) (a b c : list Z) : list Z :=
  match a, b, c with
  | x :: a', y :: b', z :: c' => f x y z :: zip3 f a' b' c'
  | _, _, _ => []
  end.
Fixpoint zip2 (f : Z -> Z -> Z) (a b : list Z) : list Z :=
  match a, b with x :: a', y :: b' => f x y :: zip2 f a' b' | _, _ => [] end.
Definition iv_column (kind : Z) (a : args) : column :=
  let vals := if kind =? 0 then zip3 pack_mdn (arg 3 a) (arg 4 a) (arg 5 a)
              else if kind =? 3 then zip2 pack_dt (arg 3 a) (arg 4 a)
              else arg 3 a in
  col_of (arg 2 a) vals.
Definition out_iv (kind : Z) (xs : list (option Z)) : list (list Z) :=
  if (kind =? 0) || (kind =? 4) then out_logical xs
  else [map (fun x => match x with Some _ => 1 | None => 0 end) xs;
        map (fun x => match x with Some v => mdn_months v | None => 0 end) xs;
        map (fun x => match x with Some v => mdn_days v | None => 0 end) xs;
        map (fun x => match x with Some v => mdn_nanos v | None => 0 end) xs].
Definition d_ivcast (a : args) : list (list Z) :=
  let kind := nth 0 (arg 0 a) 0 in let u := nth 1 (arg 0 a) 0 in
  match interval_kernel kind u with
  | KNone => unmodelled
  | k => match run_kernel k (argb 1 a) (iv_column kind a) with
         | ROk c => out_iv kind (logical c) | RErr => err_out 1 | RPanic => err_out 8 end
  end.
Definition s_ivcast (a : args) : list (list Z) :=
  let kind := nth 0 (arg 0 a) 0 in let u := nth 1 (arg 0 a) 0 in
  match interval_conv kind u with
  | None => unmodelled
  | Some conv => match spec_cast conv (argb 1 a) (logical (iv_column kind a)) with
                 | Some xs => out_iv kind xs | None => err_out 1 end
  end.

(* c13.ivfmt: [kind; strkind] [a] [b] [c] -> bytes.  kind 0 MonthDayNano (a b c = months days nanos), 1 DayTime
   (a b = days millis), 2 YearMonth (a), 3 Duration, DurationFormat::Pretty (a = value, c = unit) *)
Definition d_ivfmt (a : args) : list (list Z) :=
  let kind := nth 0 (arg 0 a) 0 in
  if kind =? 0 then [fmt_mdn (argz 1 a) (argz 2 a) (argz 3 a)]
  else if kind =? 1 then [fmt_daytime (argz 1 a) (argz 2 a)]
  else if kind =? 2 then [fmt_yearmonth (argz 1 a)]
  else if kind =? 3 then [fmt_duration_pretty (argz 3 a) (argz 1 a)]
  else unmodelled.
(* c13.ivtext_rt.spec: [kind; strkind] [validity] [a] [b] [c]: interval -> text -> interval is the identity *)
Definition s_ivtext_rt (a : args) : list (list Z) :=
  let kind := nth 0 (arg 0 a) 0 in
  let v := bools_of (arg 1 a) in
  let col := fun g => map (fun s : bool * Z => if fst s then snd s else 0) (combine v g) in
  if kind =? 0 then [zs_of_bools v; col (arg 2 a); col (arg 3 a); col (arg 4 a)]
  else if kind =? 1 then [zs_of_bools v; col (arg 2 a); col (arg 3 a)]
  else [zs_of_bools v; col (arg 2 a)].

(* c13.list2fsl: [large; n; safe; inner_to] [offsets of the FULL list array] [list validity] [child validity]
   [child values] [row_off; row_len; child_pad]: the list array is sliced to rows row_off .. row_off+row_len.
   Output [row validity] [inner validity, n per row] [inner values, n per row] (null rows / elements print 0). *)
Definition l2f_args (a : args) : bool * Z * list elem * list Z * list bool :=
  let n := nth 1 (arg 0 a) 0 in let safe := negb (nth 2 (arg 0 a) 0 =? 0) in
  let ro := Z.to_nat (nth 0 (arg 5 a) 0) in let rl := Z.to_nat (nth 1 (arg 5 a) 0) in
  let child := map (fun s : bool * Z => if fst s then Some (snd s) else None) (combine (bools_of (arg 3 a)) (arg 4 a)) in
  (safe, n, child, firstn (S rl) (skipn ro (arg 1 a)), firstn rl (skipn ro (bools_of (arg 2 a)))).
Definition out_fsl (n : Z) (r : option (list (option (list elem)))) : list (list Z) :=
  match r with
  | None => err_out 1
  | Some rows =>
      let pad := repeat (None : elem) (Z.to_nat n) in
      let flat := flat_map (fun x => match x with Some l => l | None => pad end) rows in
      [map (fun x => match x with Some _ => 1 | None => 0 end) rows;
       map (fun e : elem => match e with Some _ => 1 | None => 0 end) flat;
       map (fun e : elem => match e with Some v => v | None => 0 end) flat]
  end.
Definition d_list2fsl (a : args) : list (list Z) :=
  let '(safe, n, child, offs, valid) := l2f_args a in out_fsl n (list_to_fsl safe n child offs valid).
Definition s_list2fsl (a : args) : list (list Z) :=
  let '(safe, n, child, offs, valid) := l2f_args a in out_fsl n (list_to_fsl_spec safe n child offs valid).

(* c13.dictbytes.spec: [key kind; value type; target; safe; key prefix] [key validity] [keys] [value validity]
   [value lengths] [value bytes].  value type 0 Binary, 1 LargeBinary, 2 Utf8, 3 LargeUtf8; target 0 Utf8,
   1 LargeUtf8, 2 Utf8View, 3 Binary, 4 LargeBinary, 5 BinaryView.
   Output [row validity] [row lengths] [bytes of the valid rows] | error *)
Definition s_dictbytes (a : args) : list (list Z) :=
  let vt := nth 1 (arg 0 a) 0 in let tg := nth 2 (arg 0 a) 0 in let safe := negb (nth 3 (arg 0 a) 0 =? 0) in
  let check := (vt <? 2) && (tg <? 3) in
  let keys := map (fun s : bool * Z => if fst s then Some (snd s) else None) (combine (bools_of (arg 1 a)) (arg 2 a)) in
  let vals := map (fun s : bool * list Z => if fst s then Some (snd s) else None)
                  (combine (bools_of (arg 3 a)) (split_lens (arg 4 a) (arg 5 a))) in
  match dict_cast_spec check safe vals keys with
  | inr 0 => err_out 1
  | inr _ => unmodelled
  | inl rows =>
      [map (fun x : option (list Z) => match x with Some _ => 1 | None => 0 end) rows;
       map (fun x : option (list Z) => match x with Some l => Z.of_nat (List.length l) | None => 0 end) rows;
       flat_map (fun x : option (list Z) => match x with Some l => l | None => [] end) rows]
  end.

Definition ops_C13 : list (string * opfun) :=
  [ ("c13.cast", d_cast); ("c13.cast_m", d_cast); ("c13.cast.spec", s_cast); ("c13.inverse.spec", s_inverse);
    ("c13.fmt", d_fmt); ("c13.parse", d_parse); ("c13.parse.spec", s_parse); ("c13.parse_decimal", d_parse_decimal);
    ("c13.text_rt.spec", s_identity 2 3); ("c13.one.post1", p_one);
    ("c13.ivcast", d_ivcast); ("c13.ivcast.spec", s_ivcast); ("c13.ivfmt", d_ivfmt); ("c13.ivtext_rt.spec", s_ivtext_rt);
    ("c13.list2fsl", d_list2fsl); ("c13.list2fsl.spec", s_list2fsl);
    ("c13.dictbytes.spec", s_dictbytes) ].
