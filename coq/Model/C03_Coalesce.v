(* C03 — BatchCoalescer (arrow-select/src/coalesce.rs) as a state machine over logical rows.
   Definitions only.  M follows push_batch (three large-batch cases, split loop, final flush),
   push_batch_with_filtered_columns (early exits, materialise vs sparse-copy decision),
   push_batch_with_indices, finish_buffered_batch, next_completed_batch.
   S is the naive definition: append the selected rows, cut every full [target] rows off the front. *)
From Coq Require Import List Arith ZArith Bool.
From AV Require Import Model.C03_Select.
Import ListNotations.

Section Coalesce.
Context {A : Type}.
Notation rows := (list (option A)).

(* in-progress rows, completed queue (front first), batches already handed out by next_completed_batch *)
Record cst := { buf : rows; done : list rows; out : list rows }.
Definition cinit : cst := {| buf := []; done := []; out := [] |}.

Record cfg := { target : nat; limit : option nat; nonspec : bool }.
(* nonspec = has_non_specialized_filter_columns (some column is neither primitive nor a view) *)

Inductive cop :=
| Push (r : rows)
| PushFilter (r : rows) (m : pcol bool)
| PushIdx (r : rows) (idx : pcol Z)
| Finish
| Pop.

(* finish_buffered_batch *)
Definition finish (s : cst) : cst :=
  match buf s with
  | [] => s
  | _ => {| buf := []; done := done s ++ [buf s]; out := out s |}
  end.

(* the split loop of push_batch: while num_rows > target - buffered { copy; finish }, then the tail;
   fuel = number of rows + 1 (every iteration consumes at least one row when target > buffered) *)
Fixpoint fill (fuel : nat) (t : nat) (s : cst) (r : rows) : cst :=
  match fuel with
  | O => s
  | S fuel' =>
    let room := t - length (buf s) in
    if room <? length r then
      fill fuel' t (finish {| buf := buf s ++ firstn room r; done := done s; out := out s |}) (skipn room r)
    else
      let s' := {| buf := buf s ++ r; done := done s; out := out s |} in
      if t <=? length (buf s') then finish s' else s'
  end.

Definition push (c : cfg) (s : cst) (r : rows) : cst :=
  match r with
  | [] => s                                            (* batch_size == 0 *)
  | _ =>
    let normal := fill (S (length r)) (target c) s r in
    match limit c with
    | Some l =>
      if l <? length r then
        match buf s with
        | [] => {| buf := []; done := done s ++ [r]; out := out s |}                 (* case 1 *)
        | _ => if l <? length (buf s)
               then let s1 := finish s in {| buf := []; done := done s1 ++ [r]; out := out s1 |}   (* case 2 *)
               else normal                                                                  (* case 3 *)
        end
      else normal
    | None => normal
    end
  end.

(* should_use_sparse_filter_copy *)
Definition sparse_ok (filter_len selected : nat) : bool := selected <=? filter_len / 16.

(* push_batch_with_filtered_columns *)
Definition push_filter (c : cfg) (s : cst) (r : rows) (m : pcol bool) : cst :=
  let flen := length (fst m) in
  let n := length r in
  if n <? flen then s else                                     (* Err: filter longer than batch *)
  let selected := count_true (prep_mask m) in
  if selected =? 0 then s else
  if (selected =? n) && (flen =? n) then push c s r else
  let filtered := filter_spec r (logical_mask m) in
  let exceeds := match limit c with Some l => l <? selected | None => false end in
  let does_not_fit := target c - length (buf s) <? selected in
  if exceeds || nonspec c || does_not_fit || negb (sparse_ok flen selected) then
    push c s filtered                                          (* materialise, then push_batch *)
  else
    let s' := {| buf := buf s ++ filtered; done := done s; out := out s |} in
    if target c <=? length (buf s') then finish s' else s'.

(* push_batch_with_indices: take_record_batch, then push_batch; a take error leaves the state unchanged *)
Definition push_idx (c : cfg) (s : cst) (r : rows) (idx : pcol Z) : cst :=
  match take_spec r (logical_idx idx) with
  | Some taken => push c s taken
  | None => s
  end.

(* next_completed_batch *)
Definition pop (s : cst) : cst :=
  match done s with
  | [] => s
  | b :: d => {| buf := buf s; done := d; out := out s ++ [b] |}
  end.

Definition cstep (c : cfg) (s : cst) (o : cop) : cst :=
  match o with
  | Push r => push c s r
  | PushFilter r m => push_filter c s r m
  | PushIdx r idx => push_idx c s r idx
  | Finish => finish s
  | Pop => pop s
  end.
Definition crun (c : cfg) (ops : list cop) : cst := fold_left (cstep c) ops cinit.

(* everything the coalescer has ever been given and not lost, in output order *)
Definition all_rows (s : cst) : rows := concat (out s) ++ concat (done s) ++ buf s.
Definition batches (s : cst) : list rows := out s ++ done s.

(* ------------------------------------------------------------------ S *)
(* the rows a history selects, in order *)
Definition selected_rows (o : cop) : rows :=
  match o with
  | Push r => r
  | PushFilter r m => if length r <? length (fst m) then [] else filter_spec r (logical_mask m)
  | PushIdx r idx => match take_spec r (logical_idx idx) with Some t => t | None => [] end
  | Finish | Pop => []
  end.
Definition rows_out (ops : list cop) : rows := flat_map selected_rows ops.

(* naive coalescer: append, then cut full batches of exactly [t] rows off the front *)
Fixpoint chunks (fuel t : nat) (l : rows) : list rows * rows :=
  match fuel with
  | O => ([], l)
  | S fuel' =>
    if length l <? t then ([], l)
    else let '(full, rem) := chunks fuel' t (skipn t l) in (firstn t l :: full, rem)
  end.
Definition spush (t : nat) (s : cst) (r : rows) : cst :=
  let all := buf s ++ r in
  let '(full, rem) := chunks (length all) t all in
  {| buf := rem; done := done s ++ full; out := out s |}.
Definition sstep (t : nat) (s : cst) (o : cop) : cst :=
  match o with
  | Finish => finish s
  | Pop => pop s
  | _ => spush t s (selected_rows o)
  end.
Definition srun (t : nat) (ops : list cop) : cst := fold_left (sstep t) ops cinit.

Definition is_finish (o : cop) : bool := match o with Finish => true | _ => false end.
Definition short_batches (t : nat) (bs : list rows) : nat :=
  length (filter (fun b => length b <? t) bs).

End Coalesce.

Arguments cst : clear implicits.
Arguments cop : clear implicits.
