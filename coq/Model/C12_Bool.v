(* C12 — boolean kernels (definitions only).
   Source: arrow-arith/src/boolean.rs (and_kleene, or_kleene, and, or, and_not, not, is_null,
   is_not_null) over arrow-buffer's word-at-a-time helpers (bitwise_bin_op_helper,
   bitwise_quaternary_op_helper, bitwise_unary_op_helper, BooleanBuffer::from_bitwise_binary_op):
   the inputs are read 64 bits at a time (the bit-offset handling of BitChunks is C19's subject and
   is abstracted here: inputs are logical bit vectors), the closure is applied to the u64 words, the
   last partial word is zero padded and the result is cut to `len` bits.

   M works on words (N) with the closures as written in the Rust source; S is three-valued logic
   on `option bool` rows. *)
From Coq Require Import List NArith Bool Arith.
Import ListNotations.

(* physical boolean array: value bits (arbitrary under nulls) + optional validity bits *)
Record barr : Type := mkb { b_vals : list bool; b_nulls : option (list bool) }.
Definition blen (a : barr) : nat := length (b_vals a).
Inductive bres : Type := BOk (vals : list bool) (nulls : option (list bool)) | BErr (kind : nat).

(* ---- words *)
Fixpoint pack (l : list bool) : N :=
  match l with [] => 0%N | b :: r => (2 * pack r + N.b2n b)%N end.
Definition unpack (n : nat) (w : N) : list bool := map (fun i => N.testbit w (N.of_nat i)) (seq 0 n).
Definition not64 (x : N) : N := N.lxor x (N.ones 64).     (* !x on u64 *)

(* n-ary word loop: one u64 per input per step, closure on the words, result cut to len bits *)
Fixpoint nary_words (fuel : nat) (f : list N -> N) (ins : list (list bool)) (len : nat) : list bool :=
  match fuel with
  | O => []
  | S k => unpack (min 64 len) (f (map (fun l => pack (firstn 64 l)) ins))
           ++ nary_words k f (map (skipn 64) ins) (len - 64)
  end.
Definition bitwise_op (f : list N -> N) (ins : list (list bool)) (len : nat) : list bool :=
  nary_words (S (len / 64)) f ins len.

Definition w1 (f : N -> N) (ws : list N) : N := match ws with [a] => f a | _ => 0%N end.
Definition w2 (f : N -> N -> N) (ws : list N) : N := match ws with [a; b] => f a b | _ => 0%N end.
Definition w4 (f : N -> N -> N -> N -> N) (ws : list N) : N :=
  match ws with [a; b; c; d] => f a b c d | _ => 0%N end.

(* ---- closures, as written in boolean.rs *)
Definition and_kleene_one (a b : N) : N := N.lor a (not64 b).                       (* |a, b| a | !b *)
Definition and_kleene_both (a b c d : N) : N :=                                      (* (a | (c & !d)) & (c | (a & !b)) *)
  N.land (N.lor a (N.land c (not64 d))) (N.lor c (N.land a (not64 b))).
Definition or_kleene_one (a b : N) : N := N.lor a b.                                 (* |a, b| a | b *)
Definition or_kleene_both (a b c d : N) : N :=                                       (* (a | (c & d)) & (c | (a & b)) *)
  N.land (N.lor a (N.land c d)) (N.lor c (N.land a b)).

Definition E_INVALID_n : nat := 3.

Definition and_kleene (l r : barr) : bres :=
  if negb (blen l =? blen r) then BErr E_INVALID_n else
  let len := blen l in
  let nulls :=
    match b_nulls l, b_nulls r with
    | None, None => None
    | Some ln, None => Some (bitwise_op (w2 and_kleene_one) [ln; b_vals r] len)
    | None, Some rn => Some (bitwise_op (w2 and_kleene_one) [rn; b_vals l] len)
    | Some ln, Some rn => Some (bitwise_op (w4 and_kleene_both) [ln; b_vals l; rn; b_vals r] len)
    end in
  BOk (bitwise_op (w2 N.land) [b_vals l; b_vals r] len) nulls.

Definition or_kleene (l r : barr) : bres :=
  if negb (blen l =? blen r) then BErr E_INVALID_n else
  let len := blen l in
  let nulls :=
    match b_nulls l, b_nulls r with
    | None, None => None
    | Some ln, None => Some (bitwise_op (w2 or_kleene_one) [ln; b_vals r] len)
    | None, Some rn => Some (bitwise_op (w2 or_kleene_one) [rn; b_vals l] len)
    | Some ln, Some rn => Some (bitwise_op (w4 or_kleene_both) [ln; b_vals l; rn; b_vals r] len)
    end in
  BOk (bitwise_op (w2 N.lor) [b_vals l; b_vals r] len) nulls.

(* NullBuffer::union on bit buffers: `lhs.inner() & rhs.inner()` *)
Definition nulls_union (len : nat) (a b : option (list bool)) : option (list bool) :=
  match a, b with
  | Some x, Some y => Some (bitwise_op (w2 N.land) [x; y] len)
  | Some x, None | None, Some x => Some x
  | None, None => None
  end.
(* binary_boolean_kernel *)
Definition binary_boolean (f : N -> N -> N) (l r : barr) : bres :=
  if negb (blen l =? blen r) then BErr E_INVALID_n else
  BOk (bitwise_op (w2 f) [b_vals l; b_vals r] (blen l)) (nulls_union (blen l) (b_nulls l) (b_nulls r)).
Definition and_k (l r : barr) : bres := binary_boolean N.land l r.
Definition or_k (l r : barr) : bres := binary_boolean N.lor l r.
Definition and_not_k (l r : barr) : bres := binary_boolean (fun a b => N.land a (not64 b)) l r. (* buffer_bin_and_not *)
Definition not_k (l : barr) : bres := BOk (bitwise_op (w1 not64) [b_vals l] (blen l)) (b_nulls l).
(* is_null / is_not_null on the validity of any array of length len *)
Definition is_null_k (len : nat) (nulls : option (list bool)) : bres :=
  match nulls with
  | None => BOk (repeat false len) None
  | Some n => BOk (bitwise_op (w1 not64) [n] len) None
  end.
Definition is_not_null_k (len : nat) (nulls : option (list bool)) : bres :=
  match nulls with
  | None => BOk (repeat true len) None
  | Some n => BOk n None
  end.

(* ---- specification: three-valued logic on rows *)
Notation brows := (list (option bool)).
Definition bit (l : list bool) (i : nat) : bool := nth i l false.
Definition brow (vals : list bool) (nulls : option (list bool)) (i : nat) : option bool :=
  match nulls with
  | None => Some (bit vals i)
  | Some n => if bit n i then Some (bit vals i) else None
  end.
Definition bdenote_n (len : nat) (vals : list bool) (nulls : option (list bool)) : brows :=
  map (brow vals nulls) (seq 0 len).
Definition bdenote (a : barr) : brows := bdenote_n (blen a) (b_vals a) (b_nulls a).

Definition k3_and (l r : option bool) : option bool :=
  match l, r with
  | Some false, _ | _, Some false => Some false
  | Some true, Some true => Some true
  | _, _ => None
  end.
Definition k3_or (l r : option bool) : option bool :=
  match l, r with
  | Some true, _ | _, Some true => Some true
  | Some false, Some false => Some false
  | _, _ => None
  end.
Definition k3_not (l : option bool) : option bool := option_map negb l.
(* null-propagating (non-Kleene) lifting *)
Definition strict2 (f : bool -> bool -> bool) (l r : option bool) : option bool :=
  match l, r with Some a, Some b => Some (f a b) | _, _ => None end.

Fixpoint bmap2 (f : option bool -> option bool -> option bool) (l r : brows) : brows :=
  match l, r with x :: l', y :: r' => f x y :: bmap2 f l' r' | _, _ => [] end.

Definition spec_bool2 (f : option bool -> option bool -> option bool) (l r : brows) : brows + nat :=
  if negb (length l =? length r) then inr E_INVALID_n else inl (bmap2 f l r).

Definition bcanon (r : bres) : brows + nat :=
  match r with
  | BOk v n => inl (bdenote_n (length v) v n)
  | BErr k => inr k
  end.
