(* C14 dispatch table: wraps the C14 models in the uniform case interface. *)
From Coq Require Import List ZArith NArith String Bool Arith.
From AV Require Import Base.Codec Base.Bytes Model.C14_Ipc Model.C14_Avro Model.C14_Json.
Import ListNotations.
Local Open Scope string_scope.

(* cut `input` (the suffix starting at absolute position prev) at the sorted positions `bounds`,
   clamped exactly like the harness does: b.min(len).max(prev) *)
Fixpoint cut (input : list N) (prev : nat) (bounds : list nat) : list (list N) :=
  match bounds with
  | [] => [input]
  | b :: r => let b' := Nat.max prev (Nat.min b (prev + List.length input)) in
              firstn (b' - prev) input :: cut (skipn (b' - prev) input) b' r
  end.
Definition chunks_of (a : args) (i j : nat) : list (list N) :=
  cut (bytes_of (arg i a)) 0 (map Z.to_nat (arg j a)).

(* ---- the property predicate itself ---------------------------------------------------------
   c14.chunk : [fmt; cfg; batch_size; variant] [input] [chunk boundaries] ++ outcome of the
               single-chunk run (5 groups: [status] [nrows; ncols] [schema] [rows] [batch_ok]).
   S: the outcome under the given chunking is the outcome of the single-chunk run, and no batch
   exceeds the configured batch size. *)
Definition s_chunk (a : args) : list (list Z) := firstn 4 (skipn 3 a) ++ [[1%Z]].

(* c14.sweep : [fmt; cfg; batch_size; variant] [input] [family; p; q; admissible cut positions (families 7-9)]
   -> [number of chunkings in the family] [first chunking whose outcome differs] [its outcome].
   S: every chunking of the family gives the single-chunk outcome, i.e. the last two groups are empty. *)
Definition family_count (fam : Z) (n p k : Z) : Z :=
  if (fam =? 7)%Z then k else if (fam =? 8)%Z then (2 ^ k)%Z else if (fam =? 9)%Z then 1%Z
  else if (fam =? 0)%Z || (fam =? 4)%Z then (n + 1)%Z
  else if (fam =? 1)%Z then (if (n =? 0)%Z then 1 else 2 ^ (n - 1))%Z
  else if (fam =? 2)%Z then 1%Z
  else if (fam =? 3)%Z then p
  else if (fam =? 5)%Z then (Z.max 0 (n - 1) * Z.max 0 (n - 2) / 2)%Z
  else if (fam =? 6)%Z then (if (p =? 0)%Z then 1 else 2 ^ (p - 1))%Z
  else 0%Z.
Definition s_sweep (a : args) : list (list Z) :=
  let f := arg 2 a in
  [ [family_count (nth 0 f 0%Z) (Z.of_nat (List.length (arg 1 a))) (nth 1 f 0%Z) (Z.of_nat (List.length f - 3))]; []; [] ].

(* ---- IPC framing ---------------------------------------------------------------------------
   [stream] [chunk boundaries] [oracle: valid; bodyLength; kind (0 none / 1 batch / 2 err); rows, per message] *)
Fixpoint oracle_table (l : list Z) : list minfo :=
  match l with
  | v :: b :: k :: t :: r =>
      MkInfo (negb (Z.eqb v 0)) (Z.to_nat b)
             (if Z.eqb k 0 then ONone else if Z.eqb k 1 then OBatch else OErr) t :: oracle_table r
  | _ => []
  end.
Definition orc_of (a : args) (i : nat) : nat -> list N -> minfo :=
  let tbl := oracle_table (arg i a) in
  fun k _ => nth k tbl (MkInfo false 0 OErr 0%Z).

Definition res_code (r : dres) : list Z :=
  match r with RNone => [0; 0] | RBatch t => [1; t] | RErr => [2; 0] end%Z.
Fixpoint flat_calls (ci : nat) (css : list (list call)) : list Z :=
  match css with
  | [] => []
  | cs :: r => flat_map (fun c : call => Z.of_nat ci :: Z.of_nat (fst c) :: res_code (snd c)) cs ++ flat_calls (S ci) r
  end.

(* M: per-call observables of StreamDecoder::decode under the given chunking: for every call
   (chunk index, bytes consumed, 0 none / 1 batch / 2 err, rows), then finish (1 ok, 0 err, -1 not reached) *)
Definition d_ipc_calls (a : args) : list (list Z) :=
  let orc := orc_of a 2 in
  let '(d, css, e, _) := run orc dec0 (chunks_of a 0 1) in
  [ flat_calls 0 css; [if e then (-1)%Z else if finish d then 1%Z else 0%Z] ].

Fixpoint batch_tags (orc : nat -> list N -> minfo) (ev : list event) : list Z :=
  match ev with
  | [] => []
  | EMsg k meta _ :: r =>
      match mi_out (orc k meta) with OBatch => mi_tag (orc k meta) :: batch_tags orc r | _ => batch_tags orc r end
  | _ :: r => batch_tags orc r
  end.
Definition status_of (o : list event * bool * bool) : Z :=
  let '(_, e, f) := o in if e then 1%Z else if f then 0%Z else 2%Z.
(* M and S views of the chunk-independent observation: rows of the batches in order, final status *)
Definition d_ipc_events (a : args) : list (list Z) :=
  let orc := orc_of a 2 in
  let o := obs (run orc dec0 (chunks_of a 0 1)) in
  [ batch_tags orc (fst (fst o)); [status_of o] ].
Definition s_ipc_events (a : args) : list (list Z) :=
  let orc := orc_of a 2 in
  let o := obs1 (run1 orc (abs dec0) (bytes_of (arg 0 a))) in
  [ batch_tags orc (fst (fst o)); [status_of o] ].

(* ---- Avro OCF ------------------------------------------------------------------------------
   [file] [chunk boundaries] -> [bytes passed to BufRead::consume, per call] [decoded longs] [status] *)
Definition d_avro_ocf (a : args) : list (list Z) :=
  let '(trace, vals, st) := ocf_read (chunks_of a 0 1) in
  [ zs_of_nats trace; vals; [st] ].
(* S: the same file read from a single chunk gives the same values and status (the trace is chunk specific) *)
Definition d_avro_vals (a : args) : list (list Z) :=
  let '(_, vals, st) := ocf_read (chunks_of a 0 1) in [ vals; [st] ].
Definition s_avro_vals (a : args) : list (list Z) :=
  let '(_, vals, st) := ocf_read [bytes_of (arg 0 a)] in [ vals; [st] ].


(* ---- JSON tape decoder ---------------------------------------------------------------------
   [batch_size; flatten] [input] [chunk boundaries] -> per successful decode call
   (bytes consumed, num_buffered_rows, has_partial_record), rows of every flushed batch, status
   (0 ok, 1 decode error, 2 flush error, 3 model out of fuel).  Driver: every chunk (also empty
   ones) is handed to decode; when decode stops short the batch is flushed; flush at the end. *)
Fixpoint json_chunk (bs : nat) (fl : bool) (fuel : nat) (t : tape) (rest : list N)
  : tape * list Z * list Z * Z :=
  match fuel with
  | O => (t, [], [], 3%Z)
  | S fuel =>
    let '(t', rest', st) := jdecode bs fl (jfuel rest) t rest in
    match st with
    | JErr => (t', [], [], 1%Z)
    | JOof => (t', [], [], 3%Z)
    | JOk =>
        let call := [Z.of_nat (List.length rest - List.length rest'); Z.of_nat (t_row t'); zb (has_partial t')] in
        match rest' with
        | [] => (t', call, [], 0%Z)
        | _ :: _ =>
            match jflush t' with
            | None => (t', call, [], 2%Z)
            | Some (rows, t'') =>
                let '(t3, calls, fl3, s3) := json_chunk bs fl fuel t'' rest' in
                (t3, (call ++ calls)%list, Z.of_nat rows :: fl3, s3)
            end
        end
    end
  end.
Fixpoint json_chunks (bs : nat) (fl : bool) (t : tape) (chunks : list (list N)) : tape * list Z * list Z * Z :=
  match chunks with
  | [] => (t, [], [], 0%Z)
  | c :: r =>
      let '(t1, calls, fls, s) := json_chunk bs fl (List.length c + 2) t c in
      if (s =? 0)%Z then
        let '(t2, calls2, fls2, s2) := json_chunks bs fl t1 r in (t2, (calls ++ calls2)%list, (fls ++ fls2)%list, s2)
      else (t1, calls, fls, s)
  end.
Definition d_json_calls (a : args) : list (list Z) :=
  let bs := Z.to_nat (nth 0 (arg 0 a) 0%Z) in
  let fl := negb (Z.eqb (nth 1 (arg 0 a) 0%Z) 0) in
  let '(t, calls, fls, s) := json_chunks bs fl tape0 (chunks_of a 1 2) in
  if negb (s =? 0)%Z then [calls; fls; [s]]
  else match jflush t with
       | None => [calls; fls; [2%Z]]
       | Some (O, _) => [calls; fls; [0%Z]]
       | Some (rows, _) => [calls; (fls ++ [Z.of_nat rows])%list; [0%Z]]
       end.
(* S: the rows flushed and the status do not depend on the chunking: the same input in one chunk *)
Definition json_summary (r : list (list Z)) : list (list Z) :=
  [ [fold_right Z.add 0%Z (nth 1 r [])]; nth 2 r [] ].
Definition d_json_rows (a : args) : list (list Z) := json_summary (d_json_calls a).
Definition s_json_rows (a : args) : list (list Z) :=
  json_summary (d_json_calls [arg 0 a; arg 1 a; []]).

Definition ops_C14 : list (string * opfun) :=
  [ ("c14.chunk.spec", s_chunk); ("c14.sweep.spec", s_sweep);
    ("c14.ipc_calls", d_ipc_calls);
    ("c14.ipc_events", d_ipc_events); ("c14.ipc_events.spec", s_ipc_events);
    ("c14.avro_ocf", d_avro_ocf);
    ("c14.avro_vals", d_avro_vals); ("c14.avro_vals.spec", s_avro_vals);
    ("c14.json_calls", d_json_calls);
    ("c14.json_rows", d_json_rows); ("c14.json_rows.spec", s_json_rows) ].
