(* C12 — fixed-width integer vocabulary (definitions only).
   Source: Rust std {checked,wrapping,overflowing}_{add,sub,mul,div,rem,neg} as wired by
   arrow-array/src/arithmetic.rs (`native_type_op!` : ArrowNativeTypeOp) and by
   arrow-arith/src/numeric.rs (`integer_op`, `neg`, `neg_wrapping`).

   A machine integer type is the pair (s, H): signed types range over [-H, H), unsigned types
   over [0, 2H); H = 2^(bits-1).  Everything is parametric in H (the theorems hold for every
   H > 0, in particular for 2^7, 2^15, 2^31, 2^63, 2^127, 2^255). Values are mathematical
   integers (Z). *)
From Coq Require Import List ZArith Bool.
Import ListNotations.
Local Open Scope Z_scope.

Definition tmin (s : bool) (H : Z) : Z := if s then - H else 0.
Definition tmax (s : bool) (H : Z) : Z := if s then H - 1 else 2 * H - 1.
Definition in_range (s : bool) (H z : Z) : bool := (tmin s H <=? z) && (z <=? tmax s H).
(* two's-complement reduction into the type *)
Definition wrap (s : bool) (H : Z) (z : Z) : Z :=
  if s then (z + H) mod (2 * H) - H else z mod (2 * H).

(* scalar results: Ok value | Err kind  (kinds as in Base/Codec: 1 overflow, 2 divide-by-zero, 3 invalid) *)
Inductive res : Type := Ok (z : Z) | Err (kind : Z).
Definition E_OVERFLOW : Z := 1.
Definition E_DIVZERO : Z := 2.
Definition E_INVALID : Z := 3.

(* ------------------------------------------------------------------ Rust std *)
(* overflowing_* : the wrapped result and the flag "wrapped result differs from the exact one" *)
Definition overflowing (s : bool) (H : Z) (exact : Z) : Z * bool :=
  let r := wrap s H exact in (r, negb (r =? exact)).
(* checked_* = overflowing_* with the flag turned into None *)
Definition std_checked (s : bool) (H : Z) (exact : Z) : option Z :=
  let '(r, o) := overflowing s H exact in if o then None else Some r.

Definition checked_add (s : bool) (H a b : Z) := std_checked s H (a + b).
Definition checked_sub (s : bool) (H a b : Z) := std_checked s H (a - b).
Definition checked_mul (s : bool) (H a b : Z) := std_checked s H (a * b).
Definition wrapping_add (s : bool) (H a b : Z) := wrap s H (a + b).
Definition wrapping_sub (s : bool) (H a b : Z) := wrap s H (a - b).
Definition wrapping_mul (s : bool) (H a b : Z) := wrap s H (a * b).

(* checked_div: `if rhs == 0 || (self == MIN && rhs == -1) { None } else { Some(self / rhs) }`
   (the second test exists for signed types only); `/` truncates toward zero *)
Definition checked_div (s : bool) (H a b : Z) : option Z :=
  if (b =? 0) || (s && (a =? tmin s H) && (b =? -1)) then None else Some (Z.quot a b).
Definition checked_rem (s : bool) (H a b : Z) : option Z :=
  if (b =? 0) || (s && (a =? tmin s H) && (b =? -1)) then None else Some (Z.rem a b).
(* wrapping_div: MIN / -1 = MIN; wrapping_rem: `if rhs == -1 { 0 } else { self % rhs }` (signed);
   both panic on rhs == 0 (never called with 0 by the kernels, see integer_op) *)
Definition wrapping_div (s : bool) (H a b : Z) : Z :=
  if s && (a =? tmin s H) && (b =? -1) then a else Z.quot a b.
Definition wrapping_rem (s : bool) (H a b : Z) : Z :=
  if s && (b =? -1) then 0 else Z.rem a b.
(* checked_neg: signed: None iff MIN; unsigned: overflowing_neg = (!x + 1, x != 0) *)
Definition checked_neg (s : bool) (H a : Z) : option Z :=
  if s then (if a =? tmin s H then None else Some (- a))
  else (if a =? 0 then Some 0 else None).
Definition wrapping_neg (s : bool) (H a : Z) : Z := wrap s H (- a).

(* ------------------------------------------------------------------ ArrowNativeTypeOp *)
Definition of_opt (o : option Z) : res := match o with Some z => Ok z | None => Err E_OVERFLOW end.
Definition add_checked (s : bool) (H a b : Z) := of_opt (checked_add s H a b).
Definition sub_checked (s : bool) (H a b : Z) := of_opt (checked_sub s H a b).
Definition mul_checked (s : bool) (H a b : Z) := of_opt (checked_mul s H a b).
Definition div_checked (s : bool) (H a b : Z) := if b =? 0 then Err E_DIVZERO else of_opt (checked_div s H a b).
Definition mod_checked (s : bool) (H a b : Z) := if b =? 0 then Err E_DIVZERO else of_opt (checked_rem s H a b).
Definition neg_checked (s : bool) (H a : Z) := of_opt (checked_neg s H a).

(* arrow-arith numeric.rs `enum Op` *)
Inductive aop : Type := AddWrapping | Add | SubWrapping | Sub | MulWrapping | Mul | Div | Rem.
Definition aop_of_code (c : Z) : aop :=
  if c =? 0 then AddWrapping else if c =? 1 then Add else if c =? 2 then SubWrapping
  else if c =? 3 then Sub else if c =? 4 then MulWrapping else if c =? 5 then Mul
  else if c =? 6 then Div else Rem.

(* the closure applied per row by `integer_op` *)
Definition integer_op_elem (s : bool) (H : Z) (op : aop) (l r : Z) : res :=
  match op with
  | AddWrapping => Ok (wrapping_add s H l r)
  | Add => add_checked s H l r
  | SubWrapping => Ok (wrapping_sub s H l r)
  | Sub => sub_checked s H l r
  | MulWrapping => Ok (wrapping_mul s H l r)
  | Mul => mul_checked s H l r
  | Div => div_checked s H l r
  | Rem => if r =? 0 then Err E_DIVZERO else Ok (wrapping_rem s H l r)
  end.

(* ------------------------------------------------------------------ specification *)
(* the mathematically exact result *)
Definition exact_op (op : aop) (a b : Z) : Z :=
  match op with
  | AddWrapping | Add => a + b
  | SubWrapping | Sub => a - b
  | MulWrapping | Mul => a * b
  | Div => Z.quot a b            (* truncating quotient *)
  | Rem => Z.rem a b             (* remainder with the sign of the dividend *)
  end.
Definition is_wrapping (op : aop) : bool :=
  match op with AddWrapping | SubWrapping | MulWrapping => true | _ => false end.
Definition is_divrem (op : aop) : bool := match op with Div | Rem => true | _ => false end.

(* S: exact result when representable, Overflow otherwise; DivideByZero iff the divisor is 0;
   wrapping forms: the exact result modulo the type width *)
Definition spec_scalar (s : bool) (H : Z) (op : aop) (a b : Z) : res :=
  if is_divrem op && (b =? 0) then Err E_DIVZERO
  else let z := exact_op op a b in
       if is_wrapping op then Ok (wrap s H z)
       else if in_range s H z then Ok z else Err E_OVERFLOW.

Definition spec_neg (s : bool) (H : Z) (a : Z) : res :=
  if in_range s H (- a) then Ok (- a) else Err E_OVERFLOW.
Definition spec_neg_wrapping (s : bool) (H : Z) (a : Z) : res := Ok (wrap s H (- a)).
