(* C13 — interval casts of arrow-cast/src/cast/mod.rs: Interval(MonthDayNano) <-> Duration(unit)
   (cast_month_day_nano_to_duration / cast_duration_to_interval), Interval(YearMonth | DayTime) ->
   Interval(MonthDayNano), Int32 -> Interval(YearMonth).  Definitions only.
   A MonthDayNano value (months : i32, days : i32, nanoseconds : i64) travels through the generic
   column machinery packed into one integer (offset encoding of the two low fields); a DayTime value
   (days : i32, milliseconds : i32) likewise. *)
From Coq Require Import List ZArith Bool.
From AV Require Import Model.C13_Num.
Import ListNotations.
Local Open Scope Z_scope.

Definition pack_mdn (m d n : Z) : Z := m * 2 ^ 96 + (d + 2 ^ 31) * 2 ^ 64 + (n + 2 ^ 63).
Definition mdn_months (v : Z) : Z := v / 2 ^ 96.
Definition mdn_days (v : Z) : Z := (v / 2 ^ 64) mod 2 ^ 32 - 2 ^ 31.
Definition mdn_nanos (v : Z) : Z := v mod 2 ^ 64 - 2 ^ 63.

Definition pack_dt (d ms : Z) : Z := (d + 2 ^ 31) * 2 ^ 32 + (ms + 2 ^ 31).
Definition dt_days (v : Z) : Z := v / 2 ^ 32 - 2 ^ 31.
Definition dt_millis (v : Z) : Z := v mod 2 ^ 32 - 2 ^ 31.

(* nanoseconds per tick of Duration(unit): the `scale` of both functions (unit 0 s, 1 ms, 2 us, 3 ns) *)
Definition dur_scale (u : Z) : Z :=
  if u =? 0 then 1000000000 else if u =? 1 then 1000000 else if u =? 2 then 1000 else 1.

(* ---- M *)
(* cast_month_day_nano_to_duration, one value: (v.days == 0 && v.months == 0).then_some(v.nanoseconds / scale)
   (safe) / the same test with Err (strict) *)
Definition mdn_to_dur (u : Z) (v : Z) : option Z :=
  if (mdn_days v =? 0) && (mdn_months v =? 0) then Some (Z.quot (mdn_nanos v) (dur_scale u)) else None.
(* cast_duration_to_interval: v.checked_mul(scale) -> IntervalMonthDayNano::new(0, 0, v) *)
Definition dur_to_mdn (u : Z) (v : Z) : option Z :=
  match checked_mul 64 v (dur_scale u) with Some n => Some (pack_mdn 0 0 n) | None => None end.
(* cast_interval_year_month_to_interval_month_day_nano / ..._day_time_...: unary, total *)
Definition ym_to_mdn (v : Z) : Z := pack_mdn v 0 0.
Definition dt_to_mdn (v : Z) : Z := pack_mdn 0 (dt_days v) (dt_millis v * 1000000).

(* kind: 0 MonthDayNano -> Duration(u) | 1 Duration(u) -> MonthDayNano | 2 YearMonth -> MonthDayNano
        | 3 DayTime -> MonthDayNano | 4 Int32 -> YearMonth (reinterpretation) *)
Definition interval_kernel (kind u : Z) : kernel :=
  if kind =? 0 then KOpt (mdn_to_dur u)
  else if kind =? 1 then KOpt (dur_to_mdn u)
  else if kind =? 2 then KTotal ym_to_mdn
  else if kind =? 3 then KTotal dt_to_mdn
  else if kind =? 4 then KTotal (fun v => v)
  else KNone.

(* ---- S: a month-day-nano interval is a duration iff it has no calendar part; the duration is the
   nanosecond count in the target unit, truncated toward zero; a duration is the interval
   (0, 0, nanoseconds) iff the nanosecond count fits i64 *)
Definition interval_conv (kind u : Z) : option (Z -> option Z) :=
  if kind =? 0 then Some (fun v => if (mdn_months v =? 0) && (mdn_days v =? 0)
                                   then Some (Z.quot (mdn_nanos v) (dur_scale u)) else None)
  else if kind =? 1 then Some (fun v => let n := v * dur_scale u in
                                        if fits 64 true n then Some (pack_mdn 0 0 n) else None)
  else if kind =? 2 then Some (fun v => Some (pack_mdn v 0 0))
  else if kind =? 3 then Some (fun v => Some (pack_mdn 0 (dt_days v) (dt_millis v * 1000000)))
  else if kind =? 4 then Some (fun v => Some v)
  else None.
