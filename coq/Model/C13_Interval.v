(* C13 — interval casts of arrow-cast/src/cast/mod.rs: Interval(MonthDayNano) <-> Duration(unit)
   (cast_month_day_nano_to_duration / cast_duration_to_interval), Interval(YearMonth | DayTime) ->
   Interval(MonthDayNano), Int32 -> Interval(YearMonth).  Definitions only.
   A MonthDayNano value (months : i32, days : i32, nanoseconds : i64) travels through the generic
   column machinery packed into one integer (offset encoding of the two low fields); a DayTime value
   (days : i32, milliseconds : i32) likewise. *)
From Coq Require Import List ZArith Bool.
From AV Require Import Model.C13_Num.
Import ListNotations.
Local Open Scope Z_scope.

Definition pack_mdn (m d n : Z) : Z := m * 2 ^ 96 + (d + 2 ^ 31) * 2 ^ 64 + (n + 2 ^ 63).
Definition mdn_months (v : Z) : Z := v / 2 ^ 96.
Definition mdn_days (v : Z) : Z := (v / 2 ^ 64) mod 2 ^ 32 - 2 ^ 31.
Definition mdn_nanos (v : Z) : Z := v mod 2 ^ 64 - 2 ^ 63.

Definition pack_dt (d ms : Z) : Z := (d + 2 ^ 31) * 2 ^ 32 + (ms + 2 ^ 31).
Definition dt_days (v : Z) : Z := v / 2 ^ 32 - 2 ^ 31.
Definition dt_millis (v : Z) : Z := v mod 2 ^ 32 - 2 ^ 31.

(* nanoseconds per tick of Duration(unit): the `scale` of both functions (unit 0 s, 1 ms, 2 us, 3 ns) *)
Definition dur_scale (u : Z) : Z :=
  if u =? 0 then 1000000000 else if u =? 1 then 1000000 else if u =? 2 then 1000 else 1.

(* ---- M *)
(* cast_month_day_nano_to_duration, one value: (v.days == 0 && v.months == 0).then_some(v.nanoseconds / scale)
   (safe) / the same test with Err (strict) *)
Definition mdn_to_dur (u : Z) (v : Z) : option Z :=
  if (mdn_days v =? 0) && (mdn_months v =? 0) then Some (Z.quot (mdn_nanos v) (dur_scale u)) else None.
(* cast_duration_to_interval: v.checked_mul(scale) -> IntervalMonthDayNano::new(0, 0, v) *)
Definition dur_to_mdn (u : Z) (v : Z) : option Z :=
  match checked_mul 64 v (dur_scale u) with Some n => Some (pack_mdn 0 0 n) | None => None end.
(* cast_interval_year_month_to_interval_month_day_nano / ..._day_time_...: unary, total *)
Definition ym_to_mdn (v : Z) : Z := pack_mdn v 0 0.
Definition dt_to_mdn (v : Z) : Z := pack_mdn 0 (dt_days v) (dt_millis v * 1000000).

(* kind: 0 MonthDayNano -> Duration(u) | 1 Duration(u) -> MonthDayNano | 2 YearMonth -> MonthDayNano
        | 3 DayTime -> MonthDayNano | 4 Int32 -> YearMonth (reinterpretation) *)
Definition interval_kernel (kind u : Z) : kernel :=
  if kind =? 0 then KOpt (mdn_to_dur u)
  else if kind =? 1 then KOpt (dur_to_mdn u)
  else if kind =? 2 then KTotal ym_to_mdn
  else if kind =? 3 then KTotal dt_to_mdn
  else if kind =? 4 then KTotal (fun v => v)
  else KNone.

(* ---- S: a month-day-nano interval is a duration iff it has no calendar part; the duration is the
   nanosecond count in the target unit, truncated toward zero; a duration is the interval
   (0, 0, nanoseconds) iff the nanosecond count fits i64 *)
Definition interval_conv (kind u : Z) : option (Z -> option Z) :=
  if kind =? 0 then Some (fun v => if (mdn_months v =? 0) && (mdn_days v =? 0)
                                   then Some (Z.quot (mdn_nanos v) (dur_scale u)) else None)
  else if kind =? 1 then Some (fun v => let n := v * dur_scale u in
                                        if fits 64 true n then Some (pack_mdn 0 0 n) else None)
  else if kind =? 2 then Some (fun v => Some (pack_mdn v 0 0))
  else if kind =? 3 then Some (fun v => Some (pack_mdn 0 (dt_days v) (dt_millis v * 1000000)))
  else if kind =? 4 then Some (fun v => Some v)
  else None.

(* ---------------------------------------------------------------- text form (arrow-cast/src/display.rs)
   MillisecondsFormatter / NanosecondsFormatter (time part of Interval(DayTime) / Interval(MonthDayNano)),
   the DisplayIndex impls of the three interval types, and duration_fmt! (DurationFormat::Pretty).
   Pure integer decompositions with Rust's truncating / and %. *)
From Coq Require Import Ascii String.
From AV Require Import Model.C13_Text.

Fixpoint str (s : string) : list Z :=
  match s with EmptyString => [] | String c r => Z.of_N (N_of_ascii c) :: str r end.

(* hours / mins / secs / sub-second fields of a count v of sub-second units, U units per second *)
Definition hms_hours (U v : Z) : Z := Z.quot (Z.quot (Z.quot v U) 60) 60.
Definition hms_mins (U v : Z) : Z := Z.quot (Z.quot v U) 60 - hms_hours U v * 60.
Definition hms_secs (U v : Z) : Z := Z.quot v U - Z.quot (Z.quot v U) 60 * 60.
Definition hms_sub (U v : Z) : Z := Z.rem v U.

(* Display for MillisecondsFormatter (U = 1000, W = 3) / NanosecondsFormatter (U = 10^9, W = 9) *)
Definition hms_part (U W : Z) (prefix : list Z) (v : Z) : list Z :=
  let hours := hms_hours U v in let mins := hms_mins U v in let secs := hms_secs U v in let sub := hms_sub U v in
  let p1 := if hours =? 0 then [] else prefix ++ fmt_int hours ++ str " hours" in
  let pre1 := if hours =? 0 then prefix else str " " in
  let p2 := if mins =? 0 then [] else pre1 ++ fmt_int mins ++ str " mins" in
  let pre2 := if mins =? 0 then pre1 else str " " in
  let p3 := if (secs =? 0) && (sub =? 0) then []
            else pre2 ++ (if (secs <? 0) || (sub <? 0) then [MINUS] else []) ++ fmt_int (Z.abs secs) ++ [POINT]
                 ++ pad_left (fmt_int (Z.abs sub)) (Z.to_nat W) ZERO ++ str " secs" in
  p1 ++ p2 ++ p3.

Definition fmt_daytime (d ms : Z) : list Z :=
  if (d =? 0) && (ms =? 0) then str "0 secs"
  else (if d =? 0 then [] else fmt_int d ++ str " days")
       ++ (if ms =? 0 then [] else hms_part 1000 3 (if d =? 0 then [] else str " ") ms).

Definition fmt_mdn (m d n : Z) : list Z :=
  if (m =? 0) && (d =? 0) && (n =? 0) then str "0 secs"
  else let p1 := if m =? 0 then [] else fmt_int m ++ str " mons" in
       let pre1 := if m =? 0 then [] else str " " in
       let p2 := if d =? 0 then [] else pre1 ++ fmt_int d ++ str " days" in
       let pre2 := if d =? 0 then pre1 else str " " in
       p1 ++ p2 ++ (if n =? 0 then [] else hms_part 1000000000 9 pre2 n).

(* Interval(YearMonth): floor(v / 12) years, v - 12 * years mons (computed in f64, exact for i32) *)
Definition fmt_yearmonth (v : Z) : list Z := fmt_int (v / 12) ++ str " years " ++ fmt_int (v mod 12) ++ str " mons".

(* duration_fmt!(f, v, scale): unit u (0 s, 1 ms, 2 us, 3 ns), scale = 3 * u decimals *)
Definition fmt_duration_pretty (u v : Z) : list Z :=
  let P := 10 ^ (3 * u) in
  let secs0 := Z.quot v P in let mins0 := Z.quot secs0 60 in let hours0 := Z.quot mins0 60 in let days := Z.quot hours0 24 in
  let subsec := v - secs0 * P in
  let secs := secs0 - mins0 * 60 in let mins := mins0 - hours0 * 60 in let hours := hours0 - days * 24 in
  let head := fmt_int days ++ str " days " ++ fmt_int hours ++ str " hours " ++ fmt_int mins ++ str " mins " in
  if u =? 0 then head ++ fmt_int secs ++ str " secs"
  else if subsec <? 0 then head ++ [MINUS] ++ fmt_int (Z.abs secs) ++ [POINT] ++ pad_left (fmt_int (Z.abs subsec)) (Z.to_nat (3 * u)) ZERO ++ str " secs"
  else head ++ fmt_int secs ++ [POINT] ++ pad_left (fmt_int subsec) (Z.to_nat (3 * u)) ZERO ++ str " secs".
