(* C06 — executable models (M) of parquet's RowSelection algebra and their specification (S)
   on [list bool].  Definitions only; proofs live in Proofs/C06_*.v.

   Transcribed from parquet/src/arrow/arrow_reader/selection/{mod,selector,boolean,algebra,ranges,cursor}.rs.
   A RowSelector is a pair (skip?, row_count); a RowSelection is either a vector of selectors
   (run-length backing) or a bitmap (mask backing).  usize arithmetic is modelled on [nat]
   (the code's checked_add / debug overflow panics are out of reach for row counts < 2^64). *)
From Coq Require Import List Arith Bool.
Import ListNotations.

(* ------------------------------------------------------------------ vocabulary *)
Notation sel := (bool * nat)%type.          (* (skip, row_count) *)
Notation select n := (false, n) (only parsing).
Notation skip n := (true, n) (only parsing).

Inductive rowsel := Sels (l : list sel) | Mask (m : list bool).

(* ------------------------------------------------------------------ S: denotation *)
Definition den1 (s : sel) : list bool := repeat (negb (fst s)) (snd s).
Definition dens (l : list sel) : list bool := flat_map den1 l.
Definition den (s : rowsel) : list bool := match s with Sels l => dens l | Mask m => m end.

Fixpoint count_true (l : list bool) : nat :=
  match l with [] => 0 | b :: r => (if b then 1 else 0) + count_true r end.

(* ------------------------------------------------------------------ S: operations on list bool *)
(* apply [b] to the rows selected by [a]; missing entries of [b] read as "not selected"
   (the code panics there; theorems exclude it by hypothesis) *)
Fixpoint and_then_spec (a b : list bool) : list bool :=
  match a with
  | [] => []
  | false :: a' => false :: and_then_spec a' b
  | true :: a' => match b with
                  | [] => false :: and_then_spec a' []
                  | y :: b' => y :: and_then_spec a' b'
                  end
  end.

(* pointwise combination; the longer operand's tail passes through unchanged *)
Fixpoint zip_tail (f : bool -> bool -> bool) (a b : list bool) : list bool :=
  match a, b with
  | [], _ => b
  | _, [] => a
  | x :: a', y :: b' => f x y :: zip_tail f a' b'
  end.
Definition intersection_spec := zip_tail andb.
Definition union_spec := zip_tail orb.

Definition split_off_spec (n : nat) (l : list bool) : list bool * list bool := (firstn n l, skipn n l).

(* deselect the first [n] selected rows *)
Fixpoint clear_first (n : nat) (l : list bool) : list bool :=
  match l with
  | [] => []
  | b :: r => match n with
              | 0 => l
              | S n' => false :: clear_first (if b then n' else n) r
              end
  end.
(* RowSelection::offset: offset 0 is the identity; an offset consuming every selected row
   yields the empty selection *)
Definition offset_spec (n : nat) (l : list bool) : list bool :=
  if n =? 0 then l else if count_true l <=? n then [] else clear_first n l.

(* the prefix ending with the n-th selected row (everything if fewer are selected) *)
Fixpoint limit_spec (n : nat) (l : list bool) : list bool :=
  match l with
  | [] => []
  | b :: r => match n with
              | 0 => []
              | S n' => b :: limit_spec (if b then n' else n) r
              end
  end.

Fixpoint drop_false (l : list bool) : list bool :=
  match l with false :: r => drop_false r | _ => l end.
(* remove trailing unselected rows *)
Definition trim_spec (l : list bool) : list bool := rev (drop_false (rev l)).

Definition selects_any_spec (l : list bool) : bool := existsb (fun b => b) l.

(* row i is selected iff it lies in one of the half-open ranges *)
Definition in_ranges (rs : list (nat * nat)) (i : nat) : bool :=
  existsb (fun r => (fst r <=? i) && (i <? snd r)) rs.
Definition ranges_spec (rs : list (nat * nat)) (total : nat) : list bool :=
  map (in_ranges rs) (seq 0 total).

(* ------------------------------------------------------------------ M: constructors *)
(* impl FromIterator<RowSelector> for RowSelection: drop empty selectors, merge neighbours
   of the same kind.  [norm_go cur l]: [cur] is selectors.last_mut() *)
Fixpoint norm_go (cur : sel) (l : list sel) : list sel :=
  match l with
  | [] => [cur]
  | (sk, n) :: r =>
      if n =? 0 then norm_go cur r
      else if Bool.eqb (fst cur) sk then norm_go (fst cur, snd cur + n) r
      else cur :: norm_go (sk, n) r
  end.
Fixpoint from_iter (l : list sel) : list sel :=
  match l with
  | [] => []
  | (sk, n) :: r => if n =? 0 then from_iter r else norm_go (sk, n) r
  end.

(* from_consecutive_ranges; [racc] is the selector vector reversed (head = last_mut()).
   None = panic ("out of order", or usize underflow under debug overflow checks). *)
Fixpoint fcr_go (ranges : list (nat * nat)) (last_end : nat) (racc : list sel) : option (list sel * nat) :=
  match ranges with
  | [] => Some (racc, last_end)
  | (s, e) :: r =>
      if e <? s then None
      else let len := e - s in
        if len =? 0 then fcr_go r last_end racc
        else match s ?= last_end with
             | Eq => match racc with
                     | (sk, n) :: racc' => fcr_go r e ((sk, n + len) :: racc')
                     | [] => fcr_go r e [select len]
                     end
             | Gt => fcr_go r e (select len :: skip (s - last_end) :: racc)
             | Lt => None
             end
  end.
Definition from_consecutive_ranges (ranges : list (nat * nat)) (total : nat) : option (list sel) :=
  match fcr_go ranges 0 [] with
  | None => None
  | Some (racc, last_end) =>
      if last_end =? total then Some (rev racc)
      else if total <? last_end then None
      else Some (rev (skip (total - last_end) :: racc))
  end.

(* BooleanBuffer::set_slices / SlicesIterator: maximal runs of set bits as (start, end),
   positions counted from [pos]; [cur] = start of the run being scanned *)
Fixpoint slices_go (l : list bool) (pos : nat) (cur : option nat) : list (nat * nat) :=
  match l with
  | [] => match cur with Some s => [(s, pos)] | None => [] end
  | true :: r => slices_go r (S pos) (match cur with Some s => Some s | None => Some pos end)
  | false :: r => match cur with
                  | Some s => (s, pos) :: slices_go r (S pos) None
                  | None => slices_go r (S pos) None
                  end
  end.
Definition set_slices (l : list bool) : list (nat * nat) := slices_go l 0 None.

(* from_filters: slices of each filter shifted by the rows before it *)
Fixpoint filter_ranges (filters : list (list bool)) (off : nat) : list (nat * nat) :=
  match filters with
  | [] => []
  | f :: r => slices_go f off None ++ filter_ranges r (off + length f)
  end.
Definition from_filters (filters : list (list bool)) : option (list sel) :=
  from_consecutive_ranges (filter_ranges filters 0) (length (concat filters)).

(* mask_to_selectors / MaskRunIter: the run-length form of a bitmap *)
Fixpoint m2s_go (sl : list (nat * nat)) (last_end total : nat) : list sel :=
  match sl with
  | [] => if last_end =? total then [] else [skip (total - last_end)]
  | (s, e) :: r =>
      (if last_end <? s then [skip (s - last_end)] else []) ++ select (e - s) :: m2s_go r e total
  end.
Definition mask_to_selectors (m : list bool) : list sel :=
  if length m =? 0 then [] else m2s_go (set_slices m) 0 (length m).

(* into_selectors_vec / iter() *)
Definition selectors_of (s : rowsel) : list sel :=
  match s with Sels l => l | Mask m => mask_to_selectors m end.

(* ------------------------------------------------------------------ M: and_then *)
Definition push_skip (n : nat) (out : list sel) : list sel :=
  if n =? 0 then out else out ++ [skip n].

(* the trailing "for v in first" loop: every non-empty remaining selector must be a skip *)
Fixpoint drain_first (first : list sel) (to_skip : nat) : option nat :=
  match first with
  | [] => Some to_skip
  | (sk, n) :: r =>
      if n =? 0 then drain_first r to_skip
      else if sk then drain_first r (to_skip + n) else None
  end.

(* and_then_iter; heads carry the remaining counts (peek_mut); None = panic *)
Fixpoint and_then_go (fuel : nat) (first second : list sel) (to_skip : nat) (out : list sel)
  : option (list sel) :=
  match fuel with
  | 0 => None
  | S fuel =>
    match second with
    | [] => match drain_first first to_skip with
            | None => None
            | Some ts => Some (push_skip ts out)
            end
    | (bskip, bn) :: second' =>
      match first with
      | [] => None
      | (askip, an) :: first' =>
        if bn =? 0 then and_then_go fuel first second' to_skip out
        else if an =? 0 then and_then_go fuel first' second to_skip out
        else if askip then and_then_go fuel first' second (to_skip + an) out
        else
          let p := Nat.min an bn in
          let first2 := (askip, an - p) :: first' in
          let second2 := (bskip, bn - p) :: second' in
          if bskip then and_then_go fuel first2 second2 (to_skip + p) out
          else and_then_go fuel first2 second2 0 (push_skip to_skip out ++ [select p])
      end
    end
  end.
Definition and_then_sels (first second : list sel) : option (list sel) :=
  and_then_go (2 * (length first + length second) + 2) first second 0 [].

(* and_then_mask_from_selectors: walk the bitmap, one bit of [other] per set bit *)
Fixpoint drop_zero (l : list sel) : list sel :=
  match l with
  | (sk, 0) :: r => drop_zero r
  | _ => l
  end.
Fixpoint and_then_mask_sels (mask : list bool) (other : list sel) : option (list bool) :=
  match mask with
  | [] => if forallb (fun s : sel => snd s =? 0) other then Some [] else None
  | false :: m => option_map (cons false) (and_then_mask_sels m other)
  | true :: m =>
      match drop_zero other with
      | [] => None
      | (sk, n) :: r => option_map (cons (negb sk)) (and_then_mask_sels m ((sk, n - 1) :: r))
      end
  end.

(* BooleanBuffer::set_indices *)
Fixpoint positions_from (l : list bool) (pos : nat) : list nat :=
  match l with
  | [] => []
  | b :: r => (if b then [pos] else []) ++ positions_from r (S pos)
  end.

(* and_then_masks general path: for each set ordinal of [other] take the matching set index
   of [mask] (Iterator::nth(skip) consumes skip+1 items); emits the bits from [cursor] on *)
Fixpoint atmm_go (oidx outer : list nat) (next_ord cursor len : nat) : list bool :=
  match oidx with
  | [] => repeat false (len - cursor)
  | so :: oidx' =>
      match skipn (so - next_ord) outer with
      | [] => []
      | set_idx :: outer' =>
          repeat false (set_idx - cursor) ++ true :: atmm_go oidx' outer' (S so) (S set_idx) len
      end
  end.
Definition and_then_masks (mask other : list bool) : option (list bool) :=
  let selected := count_true mask in
  if length other <? selected then None
  else if selected <? length other then None
  else
    let other_true := count_true other in
    if other_true =? 0 then Some (repeat false (length mask))
    else if other_true =? selected then Some mask
    else Some (atmm_go (positions_from other 0) (positions_from mask 0) 0 0 (length mask)).

Definition and_then (a b : rowsel) : option rowsel :=
  match a, b with
  | Mask m, Mask o => option_map Mask (and_then_masks m o)
  | Mask m, Sels o => option_map Mask (and_then_mask_sels m o)
  | Sels f, Sels s => option_map Sels (and_then_sels f s)
  | Sels f, Mask s => option_map Sels (and_then_sels f (mask_to_selectors s))
  end.

(* ------------------------------------------------------------------ M: intersection / union *)
(* the from_fn stream of intersect_row_selections (before collect()).  When one side is
   exhausted the rest of the other is returned one selector at a time; empty ones are
   dropped there by the loop and in any case by collect(), so the tail is emitted whole. *)
Fixpoint isect_go (fuel : nat) (l r : list sel) : list sel :=
  match fuel with
  | 0 => []
  | S f =>
    match l with
    | [] => r
    | (ls, ln) :: l' =>
      if ln =? 0 then isect_go f l' r else
      match r with
      | [] => l
      | (rs, rn) :: r' =>
        if rn =? 0 then isect_go f l r' else
        if negb ls && negb rs then
          if ln <? rn then select ln :: isect_go f l' ((rs, rn - ln) :: r')
          else select rn :: isect_go f ((ls, ln - rn) :: l') r'
        else
          if ln <? rn then skip ln :: isect_go f l' ((rs, rn - ln) :: r')
          else skip rn :: isect_go f ((ls, ln - rn) :: l') r'
      end
    end
  end.
Definition intersect_sels (l r : list sel) : list sel :=
  from_iter (isect_go (length l + length r + 1) l r).

Fixpoint union_go (fuel : nat) (l r : list sel) : list sel :=
  match fuel with
  | 0 => []
  | S f =>
    match l with
    | [] => r
    | (ls, ln) :: l' =>
      if ln =? 0 then union_go f l' r else
      match r with
      | [] => l
      | (rs, rn) :: r' =>
        if rn =? 0 then union_go f l r' else
        if ls && rs then
          if ln <? rn then skip ln :: union_go f l' ((rs, rn - ln) :: r')
          else skip rn :: union_go f ((ls, ln - rn) :: l') r'
        else
          (* the three "keep" arms all yield select(min) and advance the shorter side *)
          if ln <? rn then select ln :: union_go f l' ((rs, rn - ln) :: r')
          else select rn :: union_go f ((ls, ln - rn) :: l') r'
      end
    end
  end.
Definition union_sels (l r : list sel) : list sel :=
  from_iter (union_go (length l + length r + 1) l r).

Fixpoint zip_with (f : bool -> bool -> bool) (a b : list bool) : list bool :=
  match a, b with
  | x :: a', y :: b' => f x y :: zip_with f a' b'
  | _, _ => []
  end.
(* combine_equal_length_masks / combine_unequal_length_masks: the longer mask is copied and
   [f longer shorter] applied over the common prefix *)
Definition combine_masks (f : bool -> bool -> bool) (l r : list bool) : list bool :=
  if length l =? length r then zip_with f l r
  else
    let longer := if length r <? length l then l else r in
    let shorter := if length r <? length l then r else l in
    zip_with f (firstn (length shorter) longer) shorter ++ skipn (length shorter) longer.

Definition intersection (a b : rowsel) : rowsel :=
  match a, b with
  | Mask l, Mask r => Mask (combine_masks andb l r)
  | _, _ => Sels (intersect_sels (selectors_of a) (selectors_of b))
  end.
Definition union (a b : rowsel) : rowsel :=
  match a, b with
  | Mask l, Mask r => Mask (combine_masks orb l r)
  | _, _ => Sels (union_sels (selectors_of a) (selectors_of b))
  end.

(* ------------------------------------------------------------------ M: split_off / offset / limit / trim *)
(* split_off_selectors: position() with the running total, then split the straddling selector *)
Fixpoint split_go (l : list sel) (total n : nat) : option (list sel * list sel) :=
  match l with
  | [] => None
  | (sk, c) :: r =>
      let total' := total + c in
      if n <? total' then
        let overflow := total' - n in
        Some ((if c =? overflow then [] else [(sk, c - overflow)]), (sk, overflow) :: r)
      else match split_go r total' n with
           | None => None
           | Some (h, t) => Some ((sk, c) :: h, t)
           end
  end.
Definition split_off_sels (l : list sel) (n : nat) : list sel * list sel :=
  match split_go l 0 n with None => (l, []) | Some p => p end.
Definition split_off_mask (m : list bool) (n : nat) : list bool * list bool :=
  if length m <=? n then (m, []) else (firstn n m, skipn n m).
(* returns (head, tail) *)
Definition split_off (s : rowsel) (n : nat) : rowsel * rowsel :=
  match s with
  | Sels l => let (h, t) := split_off_sels l n in (Sels h, Sels t)
  | Mask m => let (h, t) := split_off_mask m n in (Mask h, Mask t)
  end.

(* BooleanBuffer::find_nth_set_bit_position(0, n): one past the n-th set bit, len if fewer *)
Fixpoint find_nth (m : list bool) (n : nat) : nat :=
  match m with
  | [] => 0
  | b :: r => match n with
              | 0 => 0
              | S n' => S (find_nth r (if b then n' else n))
              end
  end.

Fixpoint offset_go (l : list sel) (selected skipped offset : nat) : option (list sel) :=
  match l with
  | [] => None
  | (true, c) :: r => offset_go r selected (skipped + c) offset
  | (false, c) :: r =>
      let selected' := selected + c in
      if offset <? selected' then Some (skip (skipped + offset) :: select (selected' - offset) :: r)
      else offset_go r selected' skipped offset
  end.
Definition offset_sels (l : list sel) (offset : nat) : list sel :=
  match offset_go l 0 0 offset with None => [] | Some x => x end.
Definition offset_mask (m : list bool) (offset : nat) : list bool :=
  if count_true m <=? offset then []
  else let pos := find_nth m offset in repeat false pos ++ skipn pos m.
Definition offset (s : rowsel) (n : nat) : rowsel :=
  if n =? 0 then s else
  match s with Sels l => Sels (offset_sels l n) | Mask m => Mask (offset_mask m n) end.

Fixpoint limit_go (l : list sel) (limit : nat) : list sel :=
  match l with
  | [] => []
  | (true, c) :: r => skip c :: limit_go r limit
  | (false, c) :: r => if limit <=? c then [select limit] else select c :: limit_go r (limit - c)
  end.
Definition limit_sels (l : list sel) (limit : nat) : list sel :=
  if limit =? 0 then [] else limit_go l limit.
Definition limit_mask (m : list bool) (limit : nat) : list bool := firstn (find_nth m limit) m.
Definition limit (s : rowsel) (n : nat) : rowsel :=
  match s with Sels l => Sels (limit_sels l n) | Mask m => Mask (limit_mask m n) end.

Fixpoint drop_skips (l : list sel) : list sel :=
  match l with (true, _) :: r => drop_skips r | _ => l end.
(* while selectors.last().skip { pop } *)
Definition trim_sels (l : list sel) : list sel := rev (drop_skips (rev l)).
(* last_set_bit_position *)
Fixpoint last_true (m : list bool) (pos : nat) (found : option nat) : option nat :=
  match m with
  | [] => found
  | b :: r => last_true r (S pos) (if b then Some pos else found)
  end.
Definition trim_mask (m : list bool) : list bool :=
  if (length m =? 0) || last m false then m
  else firstn (match last_true m 0 None with Some p => S p | None => 0 end) m.
Definition trim (s : rowsel) : rowsel :=
  match s with Sels l => Sels (trim_sels l) | Mask m => Mask (trim_mask m) end.

(* ------------------------------------------------------------------ M: counters *)
Definition selects_any (s : rowsel) : bool :=
  match s with
  | Sels l => existsb (fun x : sel => negb (fst x)) l
  | Mask m => existsb (fun b => b) m
  end.
Definition sum_counts (l : list sel) : nat := fold_right (fun x acc => snd x + acc) 0 l.
Definition row_count (s : rowsel) : nat :=
  match s with
  | Sels l => sum_counts (filter (fun x : sel => negb (fst x)) l)
  | Mask m => count_true m
  end.
Definition total_row_count (s : rowsel) : nat :=
  match s with Sels l => sum_counts l | Mask m => length m end.
Definition skipped_row_count (s : rowsel) : nat :=
  match s with
  | Sels l => sum_counts (filter (fun x : sel => fst x) l)
  | Mask m => length m - count_true m
  end.

(* ------------------------------------------------------------------ M: scan_ranges *)
(* pages are (index, first_row_index); returns the indices of the pages whose byte range is
   pushed.  [incl] = current_page_included.  (The second push in the last-page branch of the
   Rust code can never fire: the first one has already set current_page_included.) *)
Fixpoint scan_go (fuel : nat) (sels : list sel) (pages : list (nat * nat)) (row_offset : nat) (incl : bool)
  : list nat :=
  match fuel with
  | 0 => []
  | S f =>
    match sels, pages with
    | (sk, c) :: sels', (pi, _) :: pages' =>
        let emit := negb (sk || incl) in
        let incl1 := incl || emit in
        (if emit then [pi] else []) ++
        match pages' with
        | (_, nfirst) :: _ =>
            if nfirst <? row_offset + c then
              let rem := nfirst - row_offset in
              scan_go f ((sk, c - rem) :: sels') pages' (row_offset + rem) false
            else if row_offset + c =? nfirst then scan_go f sels' pages' (row_offset + c) false
            else scan_go f sels' pages (row_offset + c) incl1
        | [] => scan_go f sels' pages row_offset incl1
        end
    | _, _ => []
    end
  end.
Definition scan_ranges (s : rowsel) (first_rows : list nat) : list nat :=
  let sels := selectors_of s in
  scan_go (length sels + length first_rows + 1) sels (combine (seq 0 (length first_rows)) first_rows) 0 false.

(* S: the page holding row [r], for pages given as (index, first_row_index) in increasing order:
   the last page whose first row is <= r *)
Fixpoint page_of (pages : list (nat * nat)) (r : nat) : option nat :=
  match pages with
  | [] => None
  | (pi, _) :: rest =>
      match rest with
      | (_, nfirst) :: _ => if r <? nfirst then Some pi else page_of rest r
      | [] => Some pi
      end
  end.

(* S: page i holds rows [first_i, first_{i+1}) (the last page: everything from first_last on);
   the pages holding at least one selected row *)
Definition any_in (l : list bool) (lo hi : nat) : bool := existsb (fun b => b) (firstn (hi - lo) (skipn lo l)).
Fixpoint scan_spec_go (l : list bool) (idx : nat) (first_rows : list nat) : list nat :=
  match first_rows with
  | [] => []
  | lo :: rest =>
      let hi := match rest with nxt :: _ => nxt | [] => length l end in
      (if any_in l lo hi then [idx] else []) ++ scan_spec_go l (S idx) rest
  end.
Definition scan_ranges_spec (l : list bool) (first_rows : list nat) : list nat := scan_spec_go l 0 first_rows.

(* ------------------------------------------------------------------ M: PartialEq *)
(* the mixed Mask/Selectors comparison of impl PartialEq for RowSelection *)
Fixpoint eq_mixed_go (sels : list sel) (slices : list (nat * nat)) (cursor : nat) : bool :=
  match sels with
  | [] => match slices with [] => true | _ => false end
  | (sk, c) :: r =>
      let e := cursor + c in
      if sk then
        match slices with
        | (s0, _) :: _ => if s0 <? e then false else eq_mixed_go r slices e
        | [] => eq_mixed_go r slices e
        end
      else
        match slices with
        | (s0, e0) :: slices' => if (s0 =? cursor) && (e0 =? e) then eq_mixed_go r slices' e else false
        | [] => false
        end
  end.
Definition eq_mixed (m : list bool) (sels : list sel) : bool :=
  if sum_counts sels =? length m then eq_mixed_go sels (set_slices m) 0 else false.
Fixpoint sels_eqb (a b : list sel) : bool :=
  match a, b with
  | [], [] => true
  | (s1, n1) :: a', (s2, n2) :: b' => Bool.eqb s1 s2 && (n1 =? n2) && sels_eqb a' b'
  | _, _ => false
  end.
Fixpoint bits_eqb (a b : list bool) : bool :=
  match a, b with
  | [], [] => true
  | x :: a', y :: b' => Bool.eqb x y && bits_eqb a' b'
  | _, _ => false
  end.
Definition rowsel_eqb (a b : rowsel) : bool :=
  match a, b with
  | Sels x, Sels y => sels_eqb x y
  | Mask x, Mask y => bits_eqb x y
  | Mask m, Sels s | Sels s, Mask m => eq_mixed m s
  end.

(* ------------------------------------------------------------------ M: ReadPlanBuilder::build + MaskCursor *)
(* boolean_mask_from_selectors *)
Definition mask_of (s : rowsel) : list bool := den s.

(* MaskCursor::next_mask_chunk on the remaining mask (positions relative to [pos]):
   returns (initial_skip, chunk_rows, selected_rows, mask_start) and the remaining mask *)
Fixpoint take_selected (m : list bool) (bs rows selected : nat) : nat * nat * list bool :=
  match m with
  | [] => (rows, selected, [])
  | b :: r => if selected <? bs then take_selected r bs (S rows) (if b then S selected else selected)
              else (rows, selected, m)
  end.
Fixpoint leading_false (m : list bool) : nat :=
  match m with false :: r => S (leading_false r) | _ => 0 end.
Fixpoint mask_chunks (fuel : nat) (m : list bool) (pos bs : nat) : list (nat * nat * nat * nat * list bool) :=
  match fuel with
  | 0 => []
  | S f =>
    match m with
    | [] => []
    | _ =>
      let isk := leading_false m in
      let m1 := skipn isk m in
      let '(rows, selected, rest) := take_selected m1 bs 0 0 in
      (isk, rows, selected, pos + isk, firstn rows m1) :: mask_chunks f rest (pos + isk + rows) bs
    end
  end.
(* ReadPlanBuilder::new(bs).with_selection(s).with_row_selection_policy(Mask).build():
   an empty selection is replaced by [], trailing skips are trimmed, the cursor walks a mask *)
Definition plan_mask (s : rowsel) (bs : nat) : list (nat * nat * nat * nat * list bool) :=
  let s1 := if selects_any s then s else Sels [] in
  let m := mask_of (trim s1) in
  mask_chunks (S (length m)) m 0 bs.

(* ------------------------------------------------------------------ M: FromIterator<RowSelection> *)
(* concatenation: bitmaps are appended when every item is mask backed, otherwise the items are
   flattened through their selectors and re-collected *)
Definition is_mask (s : rowsel) : bool := match s with Mask _ => true | Sels _ => false end.
Definition concat_sel (l : list rowsel) : rowsel :=
  if forallb is_mask l then Mask (flat_map den l)
  else Sels (from_iter (flat_map selectors_of l)).
