(* C10 — lexsort_topk (arrow-ord/src/sort.rs): the bounded max-heap that keeps the `limit` smallest row
   indices (root = the worst retained row), with sift_up_worst_heap / sift_down_worst_heap.
   Definitions only; the final heap.sort_unstable_by is the sort oracle. *)
From Coq Require Import List Arith Bool.
From AV Require Import Model.C10_Order Model.C10_Sort Model.C10_Rank.
Import ListNotations.

Definition hget (h : list nat) (i : nat) : nat := nth i h 0.
Definition hswap (h : list nat) (i j : nat) : list nat := upd (upd h i (hget h j)) j (hget h i).

(* while pos > 0 { parent = (pos-1)/2; if compare(heap[parent], heap[pos]) != Less { break }; swap; pos = parent } *)
Fixpoint sift_up (fuel : nat) (cmp : nat -> nat -> comparison) (h : list nat) (pos : nat) : list nat :=
  match fuel with
  | O => h
  | S f =>
      match pos with
      | O => h
      | S _ =>
          let parent := (pos - 1) / 2 in
          match cmp (hget h parent) (hget h pos) with
          | Lt => sift_up f cmp (hswap h parent pos) parent
          | _ => h
          end
      end
  end.

(* loop { left = 2*pos+1; if left >= len { break }; right = left+1;
          worst = if right < len && compare(heap[left], heap[right]) == Less { right } else { left };
          if compare(heap[pos], heap[worst]) != Less { break }; swap(pos, worst); pos = worst } *)
Fixpoint sift_down (fuel : nat) (cmp : nat -> nat -> comparison) (h : list nat) (pos : nat) : list nat :=
  match fuel with
  | O => h
  | S f =>
      let left := 2 * pos + 1 in
      if length h <=? left then h
      else
        let right := left + 1 in
        let worst := if (right <? length h) && is_lt_c (cmp (hget h left) (hget h right)) then right else left in
        match cmp (hget h pos) (hget h worst) with
        | Lt => sift_down f cmp (hswap h pos worst) worst
        | _ => h
        end
  end.

(* one iteration of `for idx in 0..row_count` *)
Definition topk_step (limit : nat) (cmp : nat -> nat -> comparison) (heap : list nat) (idx : nat) : list nat :=
  if length heap <? limit then sift_up (length heap) cmp (heap ++ [idx]) (length heap)
  else match heap with
       | [] => heap
       | root :: _ =>
           match cmp idx root with
           | Lt => sift_down (length heap) cmp (upd heap 0 idx) 0
           | _ => heap
           end
       end.

Definition topk_heap (row_count limit : nat) (cmp : nat -> nat -> comparison) : list nat :=
  fold_left (topk_step limit cmp) (seq 0 row_count) [].

Definition lexsort_topk (so : (nat -> nat -> comparison) -> list nat -> list nat)
    (row_count limit : nat) (cmp : nat -> nat -> comparison) : list nat :=
  so cmp (topk_heap row_count limit cmp).
