(* C13 — numbers <-> text as functions on byte lists (list Z, ASCII codes).  Definitions only.
   Formatting: lexical_core::write for integers (external crate; the model is "sign, then the
   decimal digits without leading zeros"), arrow-data/src/decimal.rs format_decimal_str for decimals.
   Parsing: arrow-cast/src/parse.rs parser_primitive! (integers, via atoi), parse_decimal, and
   arrow-cast/src/cast/decimal.rs parse_string_to_decimal_native (the Utf8 -> Decimal cast). *)
From Coq Require Import List ZArith Bool.
From AV Require Import Gen.Consts Model.C13_Num Model.C13_Decimal.
Import ListNotations.
Local Open Scope Z_scope.

Definition is_digit (b : Z) : bool := (48 <=? b) && (b <=? 57).
Definition MINUS : Z := 45.
Definition PLUS : Z := 43.
Definition POINT : Z := 46.
Definition ZERO : Z := 48.
(* u8::is_ascii_whitespace: space, \t, \n, \x0C, \r *)
Definition is_ascii_ws (b : Z) : bool := (b =? 32) || (b =? 9) || (b =? 10) || (b =? 12) || (b =? 13).
(* char::is_whitespace restricted to ASCII (str::trim): additionally \x0B *)
Definition is_ws (b : Z) : bool := is_ascii_ws b || (b =? 11).

Fixpoint drop_while (p : Z -> bool) (l : list Z) : list Z :=
  match l with [] => [] | b :: r => if p b then drop_while p r else l end.
Definition trim_start (p : Z -> bool) (l : list Z) : list Z := drop_while p l.
Definition trim_end (p : Z -> bool) (l : list Z) : list Z := rev (drop_while p (rev l)).
Definition last_is_digit (l : list Z) : bool := match rev l with b :: _ => is_digit b | [] => false end.

(* ---------------------------------------------------------------- digits *)
(* most significant digit first; fuel = number of binary digits + 1 *)
Fixpoint digits_fuel (fuel : nat) (n : Z) (acc : list Z) : list Z :=
  match fuel with
  | O => acc
  | S f => if n <? 10 then n :: acc else digits_fuel f (n / 10) (n mod 10 :: acc)
  end.
Definition digits_of (n : Z) : list Z := digits_fuel (S (Z.to_nat (Z.log2 n))) n [].
Definition digits_val (ds : list Z) : Z := fold_left (fun acc d => acc * 10 + d) ds 0.
Definition chars_of (ds : list Z) : list Z := map (fun d => d + ZERO) ds.
Definition vals_of (cs : list Z) : list Z := map (fun c => c - ZERO) cs.

(* integer Display / lexical_core::write / i256 Display *)
Definition fmt_int (v : Z) : list Z := (if v <? 0 then [MINUS] else []) ++ chars_of (digits_of (Z.abs v)).

(* ---------------------------------------------------------------- integer parsing (atoi + parser_primitive!) *)
(* FromRadix10SignedChecked::from_radix_10_signed_checked: optional sign, then the maximal run of
   digits accumulated with checked arithmetic (None after an overflow, but the digits are still
   consumed); returns the value and the number of bytes used *)
Fixpoint atoi_digits (bits : Z) (signed neg : bool) (l : list Z) (acc : option Z) (used : Z) : option Z * Z :=
  match l with
  | b :: r => if is_digit b
              then let d := b - ZERO in
                   let acc' := obind acc (fun n => num_cast bits signed (if neg then n * 10 - d else n * 10 + d)) in
                   atoi_digits bits signed neg r acc' (used + 1)
              else (acc, used)
  | [] => (acc, used)
  end.
Definition atoi (bits : Z) (signed : bool) (l : list Z) : option Z * Z :=
  match l with
  | b :: r => if b =? MINUS then atoi_digits bits signed true r (Some 0) 1
              else if b =? PLUS then atoi_digits bits signed false r (Some 0) 1
              else atoi_digits bits signed false l (Some 0) 0
  | [] => (Some 0, 0)
  end.
Definition atoi_full (bits : Z) (signed : bool) (l : list Z) : option Z :=
  match atoi bits signed l with
  | (Some n, used) => if used =? Z.of_nat (length l) then Some n else None
  | _ => None
  end.
(* parser_primitive!: M *)
Definition parse_int (bits : Z) (signed : bool) (s : list Z) : option Z :=
  let raw := if last_is_digit s then s else trim_end is_ascii_ws s in
  if negb (last_is_digit raw) then None else
  match atoi_full bits signed raw with
  | Some n => Some n
  | None => atoi_full bits signed (trim_start is_ascii_ws raw)
  end.
(* S: trim ASCII whitespace, optional sign, one or more digits, value in range *)
Definition parse_int_spec (bits : Z) (signed : bool) (s : list Z) : option Z :=
  let t := trim_start is_ascii_ws (trim_end is_ascii_ws s) in
  let '(neg, ds) := match t with
                    | b :: r => if b =? MINUS then (true, r) else if b =? PLUS then (false, r) else (false, t)
                    | [] => (false, []) end in
  if forallb is_digit ds && negb (match ds with [] => true | _ => false end)
  then num_cast bits signed (if neg then - digits_val (vals_of ds) else digits_val (vals_of ds))
  else None.

(* ---------------------------------------------------------------- decimal formatting *)
(* format_decimal_str_internal(value.to_string(), precision, scale, safe_decimal = true) *)
Definition pad_right (l : list Z) (n : nat) (c : Z) : list Z := l ++ repeat c (n - length l).
Definition pad_left (l : list Z) (n : nat) (c : Z) : list Z := repeat c (n - length l) ++ l.
Definition fmt_dec (v : Z) (precision scale : Z) : list Z :=
  let sign := if v <? 0 then [MINUS] else [] in
  let rest := chars_of (digits_of (Z.abs v)) in
  let bound := Nat.min (Z.to_nat precision) (length rest) in
  let rest_t := firstn bound rest in                 (* value_str[0..bound] without the sign *)
  let vs := sign ++ rest_t in
  if scale =? 0 then vs
  else if scale <? 0 then pad_right vs (length vs + Z.to_nat (- scale)) ZERO
  else if Z.of_nat (length rest) >? scale then
    let k := (length vs - Z.to_nat scale)%nat in firstn k vs ++ [POINT] ++ skipn k vs
  else sign ++ [ZERO; POINT] ++ pad_left rest (Z.to_nat scale) ZERO.

(* ---------------------------------------------------------------- decimal parsing, cast path (M) *)
Record dstate := mk_dstate { d_value : Z; d_chunk : Z; d_chunk_len : Z; d_saw_digit : bool; d_saw_point : bool;
                             d_fractionals : Z; d_first_disc : option Z }.
Definition MAX_CHUNK_DIGITS := arrow_cast_cast_decimal__MAX_CHUNK_DIGITS.
(* decimal_pow: MAX_FOR_EACH_PRECISION[exp] + 1 *)
Definition decimal_pow (w exp : Z) : option Z := match table_get w exp with Some m => Some (m + 1) | None => None end.
Definition checked_add (w a b : Z) : option Z := num_cast w true (a + b).
(* fold_decimal_chunk *)
Definition fold_chunk (w : Z) (value chunk chunk_len : Z) (neg : bool) : option Z :=
  obind (from_decimal w (if neg then - chunk else chunk)) (fun c =>
    if value =? 0 then Some c
    else obind (decimal_pow w chunk_len) (fun p => obind (checked_mul w value p) (fun m => checked_add w m c))).
Fixpoint dec_loop (w scale : Z) (neg : bool) (bs : list Z) (st : dstate) : option dstate :=
  match bs with
  | [] => Some st
  | b :: r =>
      if is_digit b then
        let digit := b - ZERO in
        if d_saw_point st && (d_fractionals st =? scale) then
          dec_loop w scale neg r (mk_dstate (d_value st) (d_chunk st) (d_chunk_len st) true true (d_fractionals st)
                                            (match d_first_disc st with Some x => Some x | None => Some digit end))
        else
          let fr := if d_saw_point st then d_fractionals st + 1 else d_fractionals st in
          let chunk := d_chunk st * 10 + digit in
          let clen := d_chunk_len st + 1 in
          if clen =? MAX_CHUNK_DIGITS then
            match fold_chunk w (d_value st) chunk clen neg with
            | None => None
            | Some v => dec_loop w scale neg r (mk_dstate v 0 0 true (d_saw_point st) fr (d_first_disc st))
            end
          else dec_loop w scale neg r (mk_dstate (d_value st) chunk clen true (d_saw_point st) fr (d_first_disc st))
      else if (b =? POINT) && negb (d_saw_point st) then
        dec_loop w scale neg r (mk_dstate (d_value st) (d_chunk st) (d_chunk_len st) (d_saw_digit st) true (d_fractionals st) (d_first_disc st))
      else None
  end.
(* parse_string_to_decimal_native::<Decimal w>(s, scale) *)
Definition parse_dec_native (w scale : Z) (s : list Z) : option Z :=
  let t := trim_start is_ws (trim_end is_ws s) in
  let '(neg, body) := match t with
                      | b :: r => if b =? MINUS then (true, r) else if b =? PLUS then (false, r) else (false, t)
                      | [] => (false, []) end in
  match dec_loop w scale neg body (mk_dstate 0 0 0 false false 0 None) with
  | None => None
  | Some st =>
      match (if 0 <? d_chunk_len st then fold_chunk w (d_value st) (d_chunk st) (d_chunk_len st) neg else Some (d_value st)) with
      | None => None
      | Some v =>
          if negb (d_saw_digit st) then None else
          match (if (d_fractionals st <? scale) && negb (v =? 0)
                 then obind (decimal_pow w (scale - d_fractionals st)) (checked_mul w v) else Some v) with
          | None => None
          | Some v2 =>
              match d_first_disc st with
              | Some d => if 5 <=? d then checked_add w v2 (if neg then -1 else 1) else Some v2
              | None => Some v2
              end
          end
      end
  end.
(* cast_string_to_decimal + generic_string_to_decimal_cast, one value: None = null (safe) / Err (strict);
   the outer option is the value-independent refusal (negative scale / scale > MAX_SCALE) *)
Definition cast_str_dec (w p s : Z) : option (list Z -> option Z) :=
  if (s <? 0) || (dec_maxs w <? s) then None
  else Some (fun str => obind (parse_dec_native w s str) (check_prec w p)).

(* S: the mathematical reading of a decimal literal at a scale, round half away from zero *)
Fixpoint split_point (l : list Z) : list Z * option (list Z) :=
  match l with
  | [] => ([], None)
  | b :: r => if b =? POINT then ([], Some r) else let '(i, f) := split_point r in (b :: i, f)
  end.
Definition parse_dec_spec (w p scale : Z) (s : list Z) : option Z :=
  let t := trim_start is_ws (trim_end is_ws s) in
  let '(neg, body) := match t with
                      | b :: r => if b =? MINUS then (true, r) else if b =? PLUS then (false, r) else (false, t)
                      | [] => (false, []) end in
  let '(ip, fo) := split_point body in
  let fp := match fo with Some f => f | None => [] end in
  if negb (forallb is_digit ip && forallb is_digit fp) then None
  else if match ip ++ fp with [] => true | _ => false end then None
  else
    let kept := firstn (Z.to_nat scale) fp in
    let mag0 := digits_val (vals_of (ip ++ kept)) * 10 ^ (scale - Z.of_nat (length kept)) in
    let mag := match nth_error fp (Z.to_nat scale) with Some c => if 5 <=? c - ZERO then mag0 + 1 else mag0 | None => mag0 end in
    let v := if neg then - mag else mag in
    if fits w true v && in_prec p v then Some v else None.

(* ---------------------------------------------------------------- arrow_cast::parse::parse_decimal (M), without e-notation *)
(* result of the model: inl value | inr 0 = Err | inr 1 = e-notation met (not modelled) *)
Fixpoint pd_frac (w scale : Z) (bs : list Z) (result digits fractionals : Z) : (Z * Z * Z) + Z :=
  match bs with
  | [] => inl (result, digits, fractionals)
  | b :: r =>
      if negb (is_digit b) then (if (b =? 101) || (b =? 69) then inr 1 else inr 0)
      else if fractionals =? scale then pd_frac w scale r result digits fractionals
      else pd_frac w scale r (wrap_signed w (wrap_signed w (result * 10) + (b - ZERO))) (digits + 1) (fractionals + 1)
  end.
Fixpoint pd_int (w scale : Z) (bs : list Z) (result digits : Z) : (Z * Z * Z) + Z :=
  match bs with
  | [] => inl (result, digits, 0)
  | b :: r =>
      if is_digit b then
        if (digits =? 0) && (b =? ZERO) then pd_int w scale r result digits
        else pd_int w scale r (wrap_signed w (wrap_signed w (result * 10) + (b - ZERO))) (digits + 1)
      else if b =? POINT then pd_frac w scale r result digits 0
      else if (b =? 101) || (b =? 69) then inr 1
      else inr 0
  end.
Definition parse_decimal (w p scale : Z) (s : list Z) : Z + Z :=
  let ok_last := match rev s with
                 | b :: _ => is_digit b || ((b =? POINT) && (1 <? Z.of_nat (length s)))
                 | [] => false end in
  if negb ok_last then inr 0 else
  let '(signed, neg) := match s with
                        | b :: _ => if b =? MINUS then (true, true) else if b =? PLUS then (true, false) else (false, false)
                        | [] => (false, false) end in
  match pd_int w scale (if signed then tl s else s) 0 0 with
  | inr k => inr k
  | inl (result, digits, fractionals) =>
      if fractionals <? scale then
        let exp := scale - fractionals in
        if p <? exp + digits then inr 0
        else let r := wrap_signed w (result * wrap_signed w (10 ^ exp)) in inl (if neg then wrap_signed w (- r) else r)
      else if p <? digits then inr 0
      else inl (if neg then wrap_signed w (- result) else result)
  end.
