(* C02 — the logical content of a physical array (the specification side S of the property):
   [logical : parr -> list lval] reads a physical layout (Model/C09_Layout.v [parr], the mirror of
   arrow_data::ArrayData) exactly the way the Arrow columnar format defines the denoted column,
   honouring the array offset, the validity bitmap's own offset, non-zero first offsets, split view
   buffers, dictionaries (a slot denotes the dictionary VALUE its key selects) and run-end encoding
   (a slot denotes the value of the run that covers it).  Fixed-width values are unsigned
   little-endian bit patterns (floats are compared bitwise, as arrow-rs's equality does).
   Also: [slice] (ArrayData::slice / Array::slice), and the builder models [build_*].
   Definitions only. *)
From Coq Require Import List Arith NArith ZArith Bool.
From AV Require Import Base.ListX Base.Bits Base.Bytes Model.C09_Layout.
Import ListNotations.

Inductive lval :=
| LNull
| LBool (b : bool)
| LInt (z : N)                  (* fixed-width value: unsigned little-endian reading of its bytes *)
| LBytes (l : list N)           (* binary / string / fixed-size binary / view *)
| LList (l : list lval)         (* list / large list / list view / fixed-size list *)
| LStruct (l : list lval).      (* one entry per field *)

(* ------------------------------------------------------------------ guarded raw readers *)
(* every conversion of a data-derived integer to [nat] happens under a comparison with a buffer or
   child length (extraction: [Z.to_nat] of a garbage 2^31 would build a unary number) *)
Definition bytes_between (b : list N) (s e : Z) : list N :=
  if (0 <=? s)%Z then if (s <=? e)%Z then if (e <=? Z.of_nat (length b))%Z then slice_bytes b s e else [] else [] else [].

Definition fixed_bytes (b : list N) (w i : nat) : list N := firstn w (skipn (i * w) b).

(* bytes denoted by a view word *)
Definition view_bytes (data : list (list N)) (v : N) : list N :=
  let len := view_len v in
  if (len <=? 12)%N then view_inline_bytes v
  else if (view_bufidx v <? N.of_nat (length data))%N then
    let d := nth (N.to_nat (view_bufidx v)) data [] in
    if (view_offset v + len <=? N.of_nat (length d))%N
    then firstn (N.to_nat len) (skipn (N.to_nat (view_offset v)) d) else []
  else [].

(* child range [s, e) guarded by the child's length *)
Definition child_range (klen : nat) (s e : Z) : list nat :=
  if (0 <=? s)%Z then if (s <=? e)%Z then if (e <=? Z.of_nat klen)%Z then seq (Z.to_nat s) (Z.to_nat (e - s)) else [] else [] else [].

Definition key_at (b : list N) (kw : nat) (signed : bool) (i : nat) : Z :=
  if signed then sle_at b kw i else Z.of_N (le_at b kw i).

(* run ends child: the physical index of logical position p is the number of run ends <= p *)
Definition run_ends_of (r : parr) (rw : nat) : list Z :=
  map (fun j => sle_at (nth 0 (p_bufs r) []) rw (p_off r + j)) (seq 0 (p_len r)).
Definition phys_index (ends : list Z) (p : nat) : nat :=
  length (filter (fun e => (e <=? Z.of_nat p)%Z) ends).

(* ------------------------------------------------------------------ logical value of slot i *)
Fixpoint logical_at (a : parr) (i : nat) {struct a} : lval :=
  match a with
  | PArr ty len off nulls bufs kids =>
    let valid := match nulls with None => true | Some nb => nb_valid nb i end in
    let b0 := nth 0 bufs [] in
    let b1 := nth 1 bufs [] in
    match ty with
    | TNull => LNull
    | TBool => if valid then LBool (bit_at b0 (off + i)) else LNull
    | TFixed w => if valid then LInt (le_at b0 w (off + i)) else LNull
    | TFixedBin n => if valid then LBytes (fixed_bytes b0 (Z.to_nat n) (off + i)) else LNull
    | TBin large _ =>
        if valid then LBytes (bytes_between b1 (sle_at b0 (offw large) (off + i)) (sle_at b0 (offw large) (off + i + 1)))
        else LNull
    | TView _ => if valid then LBytes (view_bytes (tl bufs) (le_at b0 16 (off + i))) else LNull
    | TList large _ _ =>
        if valid then
          match kids with
          | k :: _ => LList (map (logical_at k)
                        (child_range (p_len k) (sle_at b0 (offw large) (off + i)) (sle_at b0 (offw large) (off + i + 1))))
          | [] => LList []
          end
        else LNull
    | TListView large _ _ =>
        if valid then
          match kids with
          | k :: _ => let o := sle_at b0 (offw large) (off + i) in let s := sle_at b1 (offw large) (off + i) in
                      LList (map (logical_at k) (child_range (p_len k) o (if (0 <=? s)%Z then o + s else -1)%Z))
          | [] => LList []
          end
        else LNull
    | TFixedList n _ _ =>
        if valid then
          match kids with
          | k :: _ => LList (map (logical_at k) (seq ((off + i) * Z.to_nat n) (Z.to_nat n)))
          | [] => LList []
          end
        else LNull
    | TStruct _ => if valid then LStruct (map (fun k => logical_at k (off + i)) kids) else LNull
    | TDict kw signed _ =>
        if valid then
          match kids with
          | k :: _ => let key := key_at b0 kw signed (off + i) in
                      if (0 <=? key)%Z then if (key <? Z.of_nat (p_len k))%Z then logical_at k (Z.to_nat key) else LNull else LNull
          | [] => LNull
          end
        else LNull
    | TRee rw _ =>
        match kids with
        | r :: v :: _ => logical_at v (phys_index (run_ends_of r rw) (off + i))
        | _ => LNull
        end
    | TUnion _ _ => LNull        (* unions are not modelled (tier B) *)
    end
  end.

Definition logical (a : parr) : list lval := map (logical_at a) (seq 0 (p_len a)).

(* the relation of the property: same data type, same column *)
Fixpoint lval_eqb (x y : lval) {struct x} : bool :=
  match x, y with
  | LNull, LNull => true
  | LBool a, LBool b => Bool.eqb a b
  | LInt a, LInt b => N.eqb a b
  | LBytes a, LBytes b =>
      (fix go (p q : list N) : bool := match p, q with [], [] => true | u :: p', v :: q' => N.eqb u v && go p' q' | _, _ => false end) a b
  | LList a, LList b | LStruct a, LStruct b =>
      (fix go (p q : list lval) : bool := match p, q with [], [] => true | u :: p', v :: q' => lval_eqb u v && go p' q' | _, _ => false end) a b
  | _, _ => false
  end.
Fixpoint lvals_eqb (p q : list lval) : bool :=
  match p, q with [], [] => true | u :: p', v :: q' => lval_eqb u v && lvals_eqb p' q' | _, _ => false end.

Definition logically_equal (a b : parr) : bool := dty_eqb (p_ty a) (p_ty b) && lvals_eqb (logical a) (logical b).

(* ------------------------------------------------------------------ slicing *)
(* NullBuffer::slice: same bytes, offset advanced, null count recomputed *)
Definition slice_nulls (nb : nullbuf) (o n : nat) : nullbuf :=
  {| nb_bytes := nb_bytes nb; nb_off := nb_off nb + o; nb_len := n;
     nb_count := count_false (bits_range (nb_bytes nb) (nb_off nb + o) n) |}.

(* ArrayData::slice for every type but Struct (arrow-data/src/data.rs): zero copy, offset advanced *)
Definition slice (a : parr) (o n : nat) : parr :=
  match a with
  | PArr ty len off nulls bufs kids =>
      PArr ty n (off + o) (match nulls with Some nb => Some (slice_nulls nb o n) | None => None end) bufs kids
  end.

(* StructArray::slice (arrow-array/src/array/struct_array.rs): every field is sliced, offset stays 0 *)
Definition slice_struct (a : parr) (o n : nat) : parr :=
  match a with
  | PArr ty len off nulls bufs kids =>
      PArr ty n 0 (match nulls with Some nb => Some (slice_nulls nb o n) | None => None end) bufs
           (map (fun k => slice k (off + o) n) kids)
  end.

(* ArrayData::slice on a Struct: slices the children AND advances the offset (finding F3: read with the
   format's meaning of [offset] the children are then shifted twice) *)
Definition slice_data_struct (a : parr) (o n : nat) : parr :=
  match a with
  | PArr ty len off nulls bufs kids =>
      PArr ty n (off + o) (match nulls with Some nb => Some (slice_nulls nb o n) | None => None end) bufs
           (map (fun k => slice k o n) kids)
  end.

(* ------------------------------------------------------------------ builders *)
(* PrimitiveBuilder / BooleanBuilder / GenericByteBuilder / FixedSizeBinaryBuilder: append_value /
   append_null.  A null slot stores a zero payload (an empty value for byte arrays); the validity
   bitmap is materialised only when a null was appended. *)
Fixpoint byte_of_bools (l : list bool) : N :=
  match l with [] => 0%N | b :: r => ((if b then 1 else 0) + 2 * byte_of_bools r)%N end.
Fixpoint pack_bits (fuel : nat) (l : list bool) : list N :=
  match fuel with O => [] | S f =>
    match l with [] => [] | _ => byte_of_bools (firstn 8 l) :: pack_bits f (skipn 8 l) end end.
Definition pack (l : list bool) : list N := pack_bits (length l) l.

Definition le_bytes_of (w : nat) (x : N) : list N :=
  map (fun k => N.land (N.shiftr x (N.of_nat (8 * k))) 255) (seq 0 w).

Definition is_valid_l (v : lval) : bool := match v with LNull => false | _ => true end.

Definition build_nulls (vs : list lval) : option nullbuf :=
  let bits := map is_valid_l vs in
  if forallb (fun b : bool => b) bits then None
  else Some {| nb_bytes := pack bits; nb_off := 0; nb_len := length vs; nb_count := count_false bits |}.

Definition build_prim (w : nat) (vs : list lval) : parr :=
  PArr (TFixed w) (length vs) 0 (build_nulls vs)
       [flat_map (fun v => match v with LInt z => le_bytes_of w z | _ => repeat 0%N w end) vs] [].

Definition build_bool (vs : list lval) : parr :=
  PArr TBool (length vs) 0 (build_nulls vs)
       [pack (map (fun v => match v with LBool b => b | _ => false end) vs)] [].

Definition payload (v : lval) : list N := match v with LBytes l => l | _ => [] end.

Fixpoint offsets_from (cur : nat) (vs : list lval) : list nat :=
  match vs with [] => [cur] | v :: r => cur :: offsets_from (cur + length (payload v)) r end.

Definition build_bin (large utf8 : bool) (vs : list lval) : parr :=
  PArr (TBin large utf8) (length vs) 0 (build_nulls vs)
       [flat_map (fun o => le_bytes_of (offw large) (N.of_nat o)) (offsets_from 0 vs); flat_map payload vs] [].

Definition build_fixedbin (n : nat) (vs : list lval) : parr :=
  PArr (TFixedBin (Z.of_nat n)) (length vs) 0 (build_nulls vs)
       [flat_map (fun v => match v with LBytes l => l | _ => repeat 0%N n end) vs] [].

(* well-typed input columns of the builders *)
Definition prim_col (w : nat) (vs : list lval) : Prop :=
  Forall (fun v => match v with LNull => True | LInt z => (z < 2 ^ N.of_nat (8 * w))%N | _ => False end) vs.
Definition bool_col (vs : list lval) : Prop :=
  Forall (fun v => match v with LNull | LBool _ => True | _ => False end) vs.
Definition bin_col (vs : list lval) : Prop :=
  Forall (fun v => match v with LNull => True | LBytes l => wf_bytes l | _ => False end) vs.
Definition fixedbin_col (n : nat) (vs : list lval) : Prop :=
  Forall (fun v => match v with LNull => True | LBytes l => wf_bytes l /\ length l = n | _ => False end) vs.
