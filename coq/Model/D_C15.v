(* C15 dispatch table: wraps the C15 models in the uniform case interface. *)
From Coq Require Import List ZArith NArith String Bool.
From AV Require Import Base.Codec Model.C15_PushBuf Model.C15_Machine Model.C15_Trace Model.C15_Plan.
Import ListNotations.
Local Open Scope string_scope.
Local Open Scope N_scope.
Local Open Scope list_scope.

(* ------------------------------------------------------------------ c15.pushbuf
   args: [file_len] [file bytes] then one group per operation on a PushBuffers::new(file_len):
     0,st,en,b...                         push_range(st..en, b)          -> [1] | [0]
     1,k,m,st1,en1..stk,enk,len1..lenm,b.. push_ranges(k ranges, m buffers) -> [1] | [0]
     2,start,len                          get_bytes(start,len)           -> [1,bytes..] | [0,start,start+len]
     3,start,n1,n2,..                     get_read(start) then read(n_i) -> per read: 1,n,bytes.. | 0
     4,n                                  read(n) on the buffer itself   -> [1,bytes..] | [0]
     5                                    len()                          -> [file_len]
   one output group per operation. *)
Definition zN := Z.of_N.
Definition nat_small (z : Z) : nat := if (z <? 16777216)%Z then Z.to_nat z else O.

Fixpoint split_lens (lens : list Z) (bytes : list Z) : list (list N) :=
  match lens with
  | [] => []
  | n :: lens' => bytes_of (firstn (nat_small n) bytes) :: split_lens lens' (skipn (nat_small n) bytes)
  end.
Fixpoint pair_up (l : list Z) : list range :=
  match l with st :: en :: l' => (Z.to_N st, Z.to_N en) :: pair_up l' | _ => [] end.

Fixpoint reads (pb : pushbuf) (ns : list Z) : list Z :=
  match ns with
  | [] => []
  | n :: ns' => match read pb (Z.to_N n) with
                | (Some x, pb') => (1%Z :: n :: zs_of_bytes x) ++ reads pb' ns'
                | (None, pb') => 0%Z :: reads pb' ns'
                end
  end.

Definition pb_op (pb : pushbuf) (g : list Z) : pushbuf * list Z :=
  match g with
  | 0%Z :: st :: en :: b =>
      match push_range pb (Z.to_N st) (Z.to_N en) (bytes_of b) with
      | Some pb' => (pb', [1%Z]) | None => (pb, [0%Z]) end
  | 1%Z :: k :: m :: l =>
      let k' := nat_small k in let m' := nat_small m in
      let rs := pair_up (firstn (2 * k') l) in
      let l1 := skipn (2 * k') l in
      let bs := split_lens (firstn m' l1) (skipn m' l1) in
      let '(pb', ok) := push_ranges pb rs bs in (pb', [zb ok])
  | 2%Z :: start :: len :: _ =>
      match get_bytes pb (Z.to_N start) (Z.to_N len) with
      | Some x => (pb, 1%Z :: zs_of_bytes x)
      | None => (pb, [0%Z; start; (start + len)%Z])
      end
  | 3%Z :: start :: ns => (pb, reads (get_read pb (Z.to_N start)) ns)
  | 4%Z :: n :: _ =>
      match read pb (Z.to_N n) with
      | (Some x, pb') => (pb', 1%Z :: zs_of_bytes x)
      | (None, pb') => (pb', [0%Z])
      end
  | 5%Z :: _ => (pb, [zN (pb_file_len pb)])
  | _ => (pb, [])
  end.
Fixpoint pb_ops (pb : pushbuf) (gs : list (list Z)) : list (list Z) :=
  match gs with
  | [] => []
  | g :: gs' => let '(pb', out) := pb_op pb g in out :: pb_ops pb' gs'
  end.
Definition d_pushbuf (a : args) : list (list Z) := pb_ops (pb_new (argN 0 a)) (skipn 2 a).

(* spec form: the buffer contents are never stored; a read is answered from the FILE (group 1) iff
   one accepted range contains it.  State: accepted ranges, offset. *)
Definition sp_accept (st en : N) (len : N) : bool := (en - st) =? len.
Fixpoint sp_push_all (acc : list range) (rs : list range) (lens : list Z) : list range * bool :=
  match rs, lens with
  | (st, en) :: rs', n :: lens' =>
      if sp_accept st en (Z.to_N n) then sp_push_all (acc ++ [(st, en)]) rs' lens' else (acc, false)
  | _, _ => (acc, true)
  end.
Fixpoint sp_reads (file : list N) (acc : list range) (off : N) (ns : list Z) : list Z :=
  match ns with
  | [] => []
  | n :: ns' => match get_bytes_spec file acc off (Z.to_N n) with
                | Some x => (1%Z :: n :: zs_of_bytes x) ++ sp_reads file acc (off + Z.to_N n) ns'
                | None => 0%Z :: sp_reads file acc off ns'
                end
  end.
Definition sp_op (file : list N) (flen : N) (s : list range * N) (g : list Z) : (list range * N) * list Z :=
  let '(acc, off) := s in
  match g with
  | 0%Z :: st :: en :: b =>
      if sp_accept (Z.to_N st) (Z.to_N en) (nlen b) then ((acc ++ [(Z.to_N st, Z.to_N en)], off), [1%Z]) else (s, [0%Z])
  | 1%Z :: k :: m :: l =>
      let k' := nat_small k in let m' := nat_small m in
      let rs := pair_up (firstn (2 * k') l) in
      let lens := firstn m' (skipn (2 * k') l) in
      if Nat.eqb (List.length rs) (List.length lens)
      then let '(acc', ok) := sp_push_all acc rs lens in ((acc', off), [zb ok]) else (s, [0%Z])
  | 2%Z :: start :: len :: _ =>
      match get_bytes_spec file acc (Z.to_N start) (Z.to_N len) with
      | Some x => (s, 1%Z :: zs_of_bytes x)
      | None => (s, [0%Z; start; (start + len)%Z])
      end
  | 3%Z :: start :: ns => (s, sp_reads file acc (off + Z.to_N start) ns)
  | 4%Z :: n :: _ =>
      match get_bytes_spec file acc off (Z.to_N n) with
      | Some x => ((acc, off + Z.to_N n), 1%Z :: zs_of_bytes x)
      | None => (s, [0%Z])
      end
  | 5%Z :: _ => (s, [zN flen])
  | _ => (s, [])
  end.
Fixpoint sp_ops (file : list N) (flen : N) (s : list range * N) (gs : list (list Z)) : list (list Z) :=
  match gs with
  | [] => []
  | g :: gs' => let '(s', out) := sp_op file flen s g in out :: sp_ops file flen s' gs'
  end.
Definition s_pushbuf (a : args) : list (list Z) := sp_ops (bytes_of (arg 1 a)) (argN 0 a) ([], 0) (skipn 2 a).

(* ------------------------------------------------------------------ c15.metabuf
   PushBuffers observed through ParquetMetaDataPushDecoder (has_range and clear_all_ranges are not
   public): args [file_len L] [metadata_len m] then per operation
     0,st,en,len   push_range(st..en, <len bytes of the virtual file>)     -> [1] | [0]
     1             clear_all_ranges                                        -> []
     2             try_decode -> [1,st,en] NeedsData([st..en]) | [2] got past both has_range gates
   Stage 0 waits for the footer L-8..L, stage 1 for the metadata L-8-m..L-8; after [2] the rest of
   the history is ignored (no output groups). *)
Fixpoint mb_ops (L m : N) (stage : nat) (pb : pushbuf) (gs : list (list Z)) : list (list Z) :=
  match gs with
  | [] => []
  | g :: gs' =>
      match g with
      | 0%Z :: st :: en :: len :: _ =>
          if sp_accept (Z.to_N st) (Z.to_N en) (Z.to_N len)
          then [1%Z] :: mb_ops L m stage (pb_with_entries pb (pb_entries pb ++ [{| e_st := Z.to_N st; e_en := Z.to_N en; e_data := [] |}])) gs'
          else [0%Z] :: mb_ops L m stage pb gs'
      | 1%Z :: _ => [] :: mb_ops L m stage (clear_all_ranges pb) gs'
      | 2%Z :: _ =>
          let footer := (L - 8, L) in
          let meta := (L - 8 - m, L - 8) in
          match stage with
          | O => if has_range pb footer
                 then (if has_range pb meta then [[2%Z]] else [1%Z; zN (fst meta); zN (snd meta)] :: mb_ops L m 1 pb gs')
                 else [1%Z; zN (fst footer); zN (snd footer)] :: mb_ops L m 0 pb gs'
          | _ => if has_range pb meta then [[2%Z]] else [1%Z; zN (fst meta); zN (snd meta)] :: mb_ops L m 1 pb gs'
          end
      | _ => [] :: mb_ops L m stage pb gs'
      end
  end.
Definition d_metabuf (a : args) : list (list Z) := mb_ops (argN 0 a) (argN 1 a) 0 (pb_new (argN 0 a)) (skipn 2 a).

(* ------------------------------------------------------------------ c15.push / c15.async postcondition
   input (= output of the implementation op): [file_len] [sync rows] [rows of the reader under test] [trace]
   -> [1] iff rows agree and the trace satisfies the protocol predicate; otherwise [0; which] *)
Definition d_run_ok (o : args) : list (list Z) :=
  match o with
  | [[flen]; sync; other; tr] =>
      match parse_trace (S (List.length tr)) tr with
      | Some t =>
          let t' := map fst t in
          if run_ok (Z.to_N flen) sync other t' then [[1%Z]]
          else [[0%Z; zb (if list_eq_dec Z.eq_dec sync other then true else false);
                 zb (trace_safe (Z.to_N flen) [] false t'); zb (trace_complete t');
                 zb (trace_rows t' =? nlen other)]]
      | None => [[0%Z; (-2)%Z]]
      end
  | _ => [[0%Z; (-1)%Z]]
  end.

(* ------------------------------------------------------------------ c15.plan postcondition
   input (= output of the implementation op):
     [nrg; nleaves; npred] [row counts] [chunk st,en per row group per leaf] [projection mask]
     [predicate masks] [match table per row group per predicate] [offset?] [limit?] [trace]
   -> [1] iff the model machine with the planner built from these tables, driven by the observed
      caller actions, produces exactly the observed results; otherwise [0; index of first mismatch] *)
Fixpoint chunk_list_f (fuel n : nat) (l : list Z) : list (list Z) :=
  match fuel with
  | O => []
  | S f => match l with [] => [] | _ => firstn n l :: chunk_list_f f n (skipn n l) end
  end.
Definition chunk_list (n : nat) (l : list Z) : list (list Z) :=
  match n with O => [] | _ => chunk_list_f (List.length l) n l end.
Definition optN (g : list Z) : option N := match g with z :: _ => Some (Z.to_N z) | [] => None end.

Definition d_plan_ok (o : args) : list (list Z) :=
  match o with
  | [hdr; rows; chunks; proj; preds; mtab; off; lim; tr] =>
      let nleaves := nat_small (nth 1 hdr 0%Z) in
      let npred := nat_small (nth 2 hdr 0%Z) in
      let fp := {| fp_rows := map Z.to_N rows;
                   fp_chunks := map pair_up (chunk_list (2 * nleaves) chunks);
                   fp_proj := bools_of proj;
                   fp_preds := map bools_of (chunk_list nleaves preds);
                   fp_match := map (map Z.to_N) (chunk_list npred mtab) |} in
      match parse_trace (S (List.length tr)) tr with
      | Some t =>
          match replay fp 0 (c_init fp {| b_off := optN off; b_lim := optN lim |}) t with
          | None => [[1%Z]]
          | Some i => [[0%Z; Z.of_nat i]]
          end
      | None => [[0%Z; (-2)%Z]]
      end
  | _ => [[0%Z; (-1)%Z]]
  end.

Definition ops_C15 : list (string * opfun) :=
  [ ("c15.pushbuf", d_pushbuf); ("c15.pushbuf.spec", s_pushbuf);
    ("c15.metabuf", d_metabuf);
    ("c15.push.post1", d_run_ok); ("c15.async.post1", d_run_ok);
    ("c15.plan.post1", d_plan_ok) ].
