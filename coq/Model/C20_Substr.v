(* C20 — substring (byte based, char-boundary checked), substring_by_char, length / bit_length,
   concat_elements.  S on code-point lists; M follows arrow-string/src/{substring,length,
   concat_elements}.rs on offsets + value bytes.  Definitions only. *)
From Coq Require Import List NArith ZArith Bool Arith.
From AV Require Import Base.Utf8 Model.C20_Like.
Import ListNotations.

Definition blen (s : list N) : nat := length (utf8 s).          (* byte length of the UTF-8 encoding *)
Definition slice {A} (d : list A) (a b : nat) : list A := firstn (b - a) (skipn a d).
Definition zslice {A} (d : list A) (a b : Z) : list A := slice d (Z.to_nat a) (Z.to_nat b).

(* `x as iN` *)
Definition wrap (bits : Z) (z : Z) : Z := ((z + 2 ^ (bits - 1)) mod 2 ^ bits - 2 ^ (bits - 1))%Z.

Fixpoint windows (o : list Z) : list (Z * Z) :=
  match o with
  | a :: r => match r with b :: _ => (a, b) :: windows r | [] => [] end
  | [] => []
  end.
Fixpoint mapM {A B} (f : A -> option B) (l : list A) : option (list B) :=
  match l with
  | [] => Some []
  | x :: r => match f x with None => None | Some y => match mapM f r with None => None | Some ys => Some (y :: ys) end end
  end.

(* ------------------------------------------------------------------------------------------ S *)
(* the prefix of s whose encoding has exactly k bytes (None: k is not at a character boundary) *)
Fixpoint take_bytes (s : list N) (k : nat) : option (list N) :=
  if (k =? 0)%nat then Some [] else
  match s with
  | [] => None
  | c :: r => let n := length (encode c) in
              if (k <? n)%nat then None else option_map (cons c) (take_bytes r (k - n))
  end.

(* substring(array, start, length) on one string: bytes [a, b) of its UTF-8 encoding where
   a = start counted from the front (start >= 0) or from the back (start < 0), clamped to the string,
   b = a + length clamped; an error when a or b falls inside a character. *)
Definition substring_spec (s : list N) (start : Z) (len : option Z) : option (list N) :=
  let L := Z.of_nat (blen s) in
  let a := if (0 <=? start)%Z then Z.min start L else Z.max (L + start) 0 in
  let b := match len with Some n => Z.min (a + n) L | None => L end in
  match take_bytes s (Z.to_nat a), take_bytes s (Z.to_nat b) with
  | Some pa, Some pb => Some (skipn (length pa) pb)
  | _, _ => None
  end.

(* substring_by_char: characters [a, b), a counted from the front / back, clamped to the string *)
Definition substring_by_char_spec (s : list N) (start : Z) (len : option Z) : list N :=
  let n := Z.of_nat (length s) in
  let a := if (0 <=? start)%Z then Z.min start n else Z.max (n + start) 0 in
  let b := match len with Some k => Z.min (a + k) n | None => n end in
  slice s (Z.to_nat a) (Z.to_nat b).

Definition length_spec (s : list N) : Z := Z.of_nat (blen s).
Definition bit_length_spec (s : list N) : Z := (8 * Z.of_nat (blen s))%Z.

Fixpoint map2 {A B C} (f : A -> B -> C) (a : list A) (b : list B) : list C :=
  match a, b with x :: a', y :: b' => f x y :: map2 f a' b' | _, _ => [] end.
Definition concat_spec (l r : option (list N)) : option (list N) :=
  match l, r with Some a, Some b => Some (a ++ b) | _, _ => None end.

(* ------------------------------------------------------------------------------------------ M *)
(* str::is_char_boundary *)
Definition is_char_boundary (data : list N) (i : Z) : bool :=
  if (i =? 0)%Z then true
  else if (i <? 0)%Z then false
  else if (Z.of_nat (length data) <=? i)%Z then (i =? Z.of_nat (length data))%Z
  else negb (cont (nth (Z.to_nat i) data 0%N)).

(* byte_substring, one `offsets.windows(2)` step; offsets are absolute positions in `data` *)
Definition byte_substring_elem (data : list N) (start : Z) (len : option Z) (w : Z * Z) : option (list N) :=
  let (lo, hi) := w in
  let check o := if is_char_boundary data o then Some o else None in
  let ns := if (0 <? start)%Z then check (Z.min (lo + start) hi)
            else if (start =? 0)%Z then Some lo
            else check (Z.max (hi + start) lo) in
  match ns with
  | None => None
  | Some ns =>
    let ne := match len with Some l => check (Z.min (l + ns) hi) | None => Some hi end in
    match ne with None => None | Some ne => Some (zslice data ns ne) end
  end.
(* whole array; `bits` = width of the offset type (Utf8: start as i32, length as i32) *)
Definition byte_substring_m (bits : Z) (offsets : list Z) (data : list N) (start : Z) (len : option Z)
  : option (list (list N)) :=
  mapM (byte_substring_elem data (wrap bits start) (option_map (wrap bits) len)) (windows offsets).

(* view_substring_range + string_view_substring on one non-null value *)
Definition view_substring_elem (v : list N) (start : Z) (len : option Z) : option (list N) :=
  let L := Z.of_nat (length v) in
  let ns := if (0 <? start)%Z then Z.min start L else if (start =? 0)%Z then 0%Z else Z.max (L + start) 0 in
  let ne := match len with Some l => Z.min (ns + l) L | None => L end in
  if is_char_boundary v ns then if is_char_boundary v ne then Some (zslice v ns ne) else None else None.

(* char_indices(): byte offsets of the non-continuation bytes, starting at offset o *)
Fixpoint char_starts (b : list N) (o : nat) : list nat :=
  match b with
  | [] => []
  | x :: r => if cont x then char_starts r (S o) else o :: char_starts r (S o)
  end.
(* Iterator::nth on a finite iterator (None past the end), index given as an unbounded integer *)
Definition nth_z (z : Z) (l : list nat) (d : nat) : nat :=
  if (z <? Z.of_nat (length l))%Z then nth (Z.to_nat z) l d else d.
(* utf8_bounds *)
Definition utf8_bounds (v : list N) (start : Z) (len : option Z) : nat * nat :=
  let L := length v in
  let so := if (0 <=? start)%Z then nth_z start (char_starts v 0) L
            else nth_z (- start - 1) (rev (char_starts v 0)) 0%nat in
  let eo := match len with
            | None => L
            | Some n => if (Z.of_nat (L - so) <=? n)%Z then L
                        else nth_z n (char_starts (skipn so v) so) L
            end in
  (so, eo).
(* ascii_bounds *)
Definition ascii_bounds (v : list N) (start : Z) (len : option Z) : nat * nat :=
  let L := Z.of_nat (length v) in
  let so := if (0 <=? start)%Z then Z.min start L else Z.max (L + start) 0 in
  let eo := match len with None => L | Some n => Z.min (so + n) L end in
  (Z.to_nat so, Z.to_nat eo).
Definition substring_by_char_m (all_ascii : bool) (v : list N) (start : Z) (len : option Z) : list N :=
  let (so, eo) := if all_ascii then ascii_bounds v start len else utf8_bounds v start len in
  slice v so eo.

(* length_impl / bit_length_impl on an offsets buffer of width `bits` *)
Definition length_m (bits : Z) (offsets : list Z) : list Z :=
  map (fun w : Z * Z => wrap bits (snd w - fst w)) (windows offsets).
Definition bit_length_m (bits : Z) (offsets : list Z) : list Z :=
  map (fun w : Z * Z => wrap bits (wrap bits (snd w - fst w) * 8)) (windows offsets).

(* concat_elements_bytes: the loop over zipped offset windows *)
Fixpoint concat_loop (lw rw : list (Z * Z)) (ld rd : list N) (out : list N) (offs : list Z) : list Z * list N :=
  match lw, rw with
  | (a, b) :: lw', (c, d) :: rw' =>
      let out' := out ++ zslice ld a b ++ zslice rd c d in
      concat_loop lw' rw' ld rd out' (offs ++ [Z.of_nat (length out')])
  | _, _ => (offs, out)
  end.
Definition concat_elements_m (lo : list Z) (ld : list N) (ro : list Z) (rd : list N) : list Z * list N :=
  concat_loop (windows lo) (windows ro) ld rd [] [0%Z].
(* NullBuffer::union *)
Definition union_valid (a b : list bool) : list bool := map (fun p : bool * bool => fst p && snd p) (combine a b).

(* layout of a list of byte strings as (offsets, data): garbage `pre` before, `post` after *)
Fixpoint offsets_from (o : Z) (vs : list (list N)) : list Z :=
  match vs with [] => [o] | v :: r => o :: offsets_from (o + Z.of_nat (length v)) r end.
Definition layout_offsets (pre : list N) (vs : list (list N)) : list Z := offsets_from (Z.of_nat (length pre)) vs.
Definition layout_data (pre : list N) (vs : list (list N)) (post : list N) : list N := pre ++ concat vs ++ post.
(* values denoted by (offsets, data) *)
Definition values_of (offsets : list Z) (data : list N) : list (list N) :=
  map (fun w : Z * Z => zslice data (fst w) (snd w)) (windows offsets).
