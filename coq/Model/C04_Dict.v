(* C04 — dictionary state across a stream: writer side arrow-ipc/src/writer.rs
   [DictionaryTracker::insert_column] + [compare_dictionaries] (None / New / Replaced / Delta,
   error_on_replacement, DictionaryHandling::{Resend,Delta}), reader side
   arrow-ipc/src/reader.rs [update_dictionaries] (isDelta => concat, else replace).
   Dictionary values are an abstract type V with decidable equality (the logical value of one
   dictionary entry); a dictionary is a [list V].  Definitions only. *)
From Coq Require Import List Arith ZArith Bool.
Import ListNotations.

Section Dict.
Variable V : Type.
Variable veq : V -> V -> bool.

Fixpoint leq (a b : list V) : bool :=
  match a, b with [], [] => true | x :: a', y :: b' => veq x y && leq a' b' | _, _ => false end.

(* fn compare_dictionaries(old, new) -> DictionaryComparison *)
Inductive cmp := CEqual | CNotEqual | CDelta.
Definition compare_dictionaries (old new : list V) : cmp :=
  if length old =? length new then (if leq old new then CEqual else CNotEqual)
  else if length new <? length old then CNotEqual
  else if leq (firstn (length old) new) old then CDelta else CNotEqual.

Inductive handling := Resend | Delta.
(* a dictionary batch message: full replacement, or isDelta = true carrying the new suffix *)
Inductive dmsg := Full (d : list V) | DeltaMsg (suffix : list V).

(* DictionaryTracker::insert_column for one dictionary id: new tracker entry and the emitted
   dictionary messages; None = Err(InvalidArgumentError) (file writer: error_on_replacement).
   The ptr_eq fast path returns DictionaryUpdate::None exactly like the Equal comparison. *)
Definition insert_column (error_on_replacement : bool) (h : handling) (written : option (list V)) (d : list V)
  : option (option (list V) * list dmsg) :=
  match written with
  | None => Some (Some d, [Full d])
  | Some old =>
    match compare_dictionaries old d with
    | CEqual => Some (Some old, [])
    | CNotEqual => if error_on_replacement then None else Some (Some d, [Full d])
    | CDelta => match h with
                | Resend => if error_on_replacement then None else Some (Some d, [Full d])
                | Delta => Some (Some d, [DeltaMsg (skipn (length old) d)])
                end
    end
  end.

(* reader: update_dictionaries(dictionaries_by_id, is_delta, id, values) for one id;
   a delta for an unknown id is an error in the reader (the writer never emits one: proved) *)
Definition apply_msg (r : option (list V)) (m : dmsg) : option (list V) :=
  match m with
  | Full d => Some d
  | DeltaMsg s => match r with Some old => Some (old ++ s) | None => None end
  end.

(* one dictionary id over a whole stream: the history is the dictionary used by each successive
   batch; result = what the reader holds when it decodes each batch (streaming readers apply the
   messages in order, just before the batch) *)
Fixpoint run (eor : bool) (h : handling) (written reader : option (list V)) (hist : list (list V))
  : option (list (option (list V))) :=
  match hist with
  | [] => Some []
  | d :: rest =>
    match insert_column eor h written d with
    | None => None
    | Some (w', msgs) =>
      let r' := fold_left apply_msg msgs reader in
      option_map (cons r') (run eor h w' r' rest)
    end
  end.

(* all messages of a history, in order (file format: the FileReader applies every dictionary
   block before decoding any batch) *)
Fixpoint emit (eor : bool) (h : handling) (written : option (list V)) (hist : list (list V)) : option (list dmsg) :=
  match hist with
  | [] => Some []
  | d :: rest =>
    match insert_column eor h written d with
    | None => None
    | Some (w', msgs) => option_map (app msgs) (emit eor h w' rest)
    end
  end.

Fixpoint is_prefix (a b : list V) : bool :=
  match a, b with [] , _ => true | x :: a', y :: b' => veq x y && is_prefix a' b' | _ :: _, [] => false end.

(* ---- several dictionary ids: the tracker / reader tables are association lists *)
Notation table := (list (Z * list V)).
Fixpoint tget (t : table) (id : Z) : option (list V) :=
  match t with [] => None | (k, d) :: r => if Z.eqb k id then Some d else tget r id end.
Fixpoint tset (t : table) (id : Z) (d : list V) : table :=
  match t with [] => [(id, d)] | (k, x) :: r => if Z.eqb k id then (k, d) :: r else (k, x) :: tset r id d end.

(* encode_dictionaries over the dictionaries of one batch, in traversal order: emitted (id, message) list *)
Fixpoint track_batch (eor : bool) (h : handling) (t : table) (ds : list (Z * list V))
  : option (table * list (Z * dmsg)) :=
  match ds with
  | [] => Some (t, [])
  | (id, d) :: rest =>
    match insert_column eor h (tget t id) d with
    | None => None
    | Some (w', msgs) =>
      let t' := match w' with Some x => tset t id x | None => t end in
      match track_batch eor h t' rest with
      | None => None
      | Some (t'', out) => Some (t'', map (fun m => (id, m)) msgs ++ out)
      end
    end
  end.
End Dict.

Arguments Full {V} d.
Arguments DeltaMsg {V} suffix.
