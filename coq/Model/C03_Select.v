(* C03 — selection kernels of arrow-select: specification (S) on logical columns and executable
   models (M) on the physical representation (values buffer + optional validity buffer).
   Definitions only; proofs live in Proofs/C03_*.v.

   Transcribed from arrow-select/src/{filter,take,concat,interleave,zip,merge,nullif,window,dictionary}.rs.
   A logical column is a [list (option A)] (None = null row).  A physical column is a pair
   (values, optional validity bitmap); the payload under a null slot is arbitrary.
   The iterators over the filter mask are the [runs] / [positions] of Model/C19_Bits.v, which C19
   ties to BitSliceIterator / BitIndexIterator. *)
From Coq Require Import List Arith ZArith Bool.
From AV Require Model.C19_Bits.
Import ListNotations.

Notation runs := C19_Bits.runs.
Notation positions := C19_Bits.positions.
Notation count_true := C19_Bits.count_true.

(* ------------------------------------------------------------------ vocabulary *)
Fixpoint map2 {X Y Z} (f : X -> Y -> Z) (xs : list X) (ys : list Y) : list Z :=
  match xs, ys with x :: xs', y :: ys' => f x y :: map2 f xs' ys' | _, _ => [] end.

Definition mk_row {T} (v : T) (b : bool) : option T := if b then Some v else None.

(* physical column: values and optional validity bitmap (true = valid) *)
Notation pcol T := (list T * option (list bool))%type.

Definition logical {T} (c : pcol T) : list (option T) :=
  match snd c with None => map Some (fst c) | Some n => map2 mk_row (fst c) n end.

(* a nullable boolean mask / index array, logically *)
Definition logical_mask (c : pcol bool) : list (option bool) := logical c.
Definition logical_idx (c : pcol Z) : list (option Z) := logical c.

Definition all_true (l : list bool) : bool := forallb (fun b => b) l.
(* Option<&NullBuffer>.filter(|n| n.null_count() > 0) *)
Definition has_nulls (n : option (list bool)) : option (list bool) :=
  match n with Some l => if all_true l then None else Some l | None => None end.

Definition wf_col {T} (c : pcol T) : Prop :=
  match snd c with None => True | Some n => length n = length (fst c) end.

(* ================================================================== S : specifications *)
Definition sel (b : option bool) : bool := match b with Some true => true | _ => false end.

(* filter: the rows whose predicate is (valid and) true, in order *)
Fixpoint filter_spec {R} (xs : list R) (m : list (option bool)) : list R :=
  match xs, m with
  | x :: xs', b :: m' => if sel b then x :: filter_spec xs' m' else filter_spec xs' m'
  | _, _ => []
  end.

(* take: null index -> null row; valid index out of bounds -> error (None) *)
Definition out_of_range (len : nat) (i : Z) : bool := (i <? 0)%Z || (Z.of_nat len <=? i)%Z.
Fixpoint take_spec {A} (xs : list (option A)) (is : list (option Z)) : option (list (option A)) :=
  match is with
  | [] => Some []
  | None :: r => option_map (cons None) (take_spec xs r)
  | Some i :: r =>
    if out_of_range (length xs) i then None else
    match nth_error xs (Z.to_nat i), take_spec xs r with
    | Some x, Some out => Some (x :: out)
    | _, _ => None
    end
  end.

Definition concat_spec {R} (xss : list (list R)) : list R := concat xss.

(* interleave: (array index, row index) pairs; out of range -> error (None) *)
Fixpoint interleave_spec {R} (xss : list (list R)) (ps : list (nat * nat)) : option (list R) :=
  match ps with
  | [] => Some []
  | (a, i) :: r =>
    match nth_error (nth a xss []) i, interleave_spec xss r with
    | Some x, Some out => Some (x :: out)
    | _, _ => None
    end
  end.

(* zip: a scalar datum is a one-row column read at row 0 for every position *)
Definition datum_at {A} (scalar : bool) (c : list (option A)) (i : nat) : option A :=
  nth (if scalar then 0 else i) c None.
Fixpoint zip_spec_from {A} (i : nat) (m : list (option bool)) (ts : bool) (t : list (option A))
         (fs : bool) (f : list (option A)) : list (option A) :=
  match m with
  | [] => []
  | b :: m' => (if sel b then datum_at ts t i else datum_at fs f i) :: zip_spec_from (S i) m' ts t fs f
  end.
Definition zip_spec {A} m ts (t : list (option A)) fs f := zip_spec_from 0 m ts t fs f.

(* merge: like zip, but truthy / falsy rows are consumed sequentially *)
Fixpoint merge_spec {A} (m : list (option bool)) (ts : bool) (t : list (option A))
         (fs : bool) (f : list (option A)) : list (option A) :=
  match m with
  | [] => []
  | b :: m' =>
    if sel b then hd None t :: merge_spec m' ts (if ts then t else tl t) fs f
    else hd None f :: merge_spec m' ts t fs (if fs then f else tl f)
  end.

(* merge_n: the k-th occurrence of array index a takes row k of array a; None -> null row *)
Fixpoint update_nth {X} (n : nat) (g : X -> X) (l : list X) : list X :=
  match l, n with
  | [], _ => []
  | x :: r, O => g x :: r
  | x :: r, S n' => x :: update_nth n' g r
  end.
Fixpoint merge_n_spec {A} (xss : list (list (option A))) (is : list (option nat)) : list (option A) :=
  match is with
  | [] => []
  | None :: r => None :: merge_n_spec xss r
  | Some a :: r => hd None (nth a xss []) :: merge_n_spec (update_nth a (@tl _) xss) r
  end.

Definition nullif_spec {A} (xs : list (option A)) (m : list (option bool)) : list (option A) :=
  map2 (fun x b => if sel b then None else x) xs m.

(* shift by [off] (positive = to the right), same length, vacated rows null *)
Definition shift_spec {A} (xs : list (option A)) (off : Z) : list (option A) :=
  let n := length xs in
  let k := Z.to_nat (Z.min (Z.abs off) (Z.of_nat n)) in
  if (0 <=? off)%Z then repeat None k ++ firstn (n - k) xs
  else skipn k xs ++ repeat None k.

Definition slice_spec {R} (xs : list R) (off len : nat) : list R := firstn len (skipn off xs).

(* ================================================================== M : filter *)
Inductive strategy := SNone | SAll | SSlices | SIndices.
(* SlicesIterator and Slices(Vec) yield the same sequence of ranges, IndexIterator and
   Indices(Vec) the same sequence of indices: FilterBuilder::optimize only materialises them. *)

(* IterationStrategy::default_strategy; count/len > 0.8 as the exact rational comparison *)
Definition default_strategy (len count : nat) : strategy :=
  if (len =? 0) || (count =? 0) then SNone
  else if count =? len then SAll
  else if 4 * len <? 5 * count then SSlices
  else SIndices.

(* FilterBuilder::new: null_count = 0 -> clone, else prep_null_mask_filter (values & validity) *)
Definition prep_mask (m : pcol bool) : list bool :=
  match has_nulls (snd m) with Some n => map2 andb (fst m) n | None => fst m end.

Record predicate := { p_filter : list bool; p_count : nat; p_strategy : strategy }.

Definition build_predicate (m : pcol bool) : predicate :=
  let f := prep_mask m in
  {| p_filter := f; p_count := count_true f; p_strategy := default_strategy (length f) (count_true f) |}.
Definition with_strategy (s : strategy) (p : predicate) : predicate :=
  {| p_filter := p_filter p; p_count := p_count p; p_strategy := s |}.

Definition copy_range {T} (vals : list T) (se : nat * nat) : list T :=
  firstn (snd se - fst se) (skipn (fst se) vals).

(* filter_native / filter_bits: copy by ranges or by single positions *)
Definition filter_native {T} (d : T) (vals : list T) (p : predicate) : list T :=
  match p_strategy p with
  | SSlices => flat_map (copy_range vals) (runs (p_filter p))
  | SIndices => map (fun i => nth i vals d) (positions (p_filter p))
  | _ => []   (* unreachable!() *)
  end.

(* FilterPredicate::filter_nulls *)
Definition filter_nulls (p : predicate) (nulls : option (list bool)) : option (list bool) :=
  match nulls with
  | None => None
  | Some n =>
    if all_true n then None else
    let f := filter_native false n p in
    if all_true f then None else Some f
  end.

(* filter_array + filter_primitive *)
Definition filter_array {T} (d : T) (c : pcol T) (p : predicate) : pcol T :=
  match p_strategy p with
  | SNone => ([], None)
  | SAll => (firstn (p_count p) (fst c), option_map (firstn (p_count p)) (snd c))
  | _ => (filter_native d (fst c) p, filter_nulls p (snd c))
  end.

Definition filter_M {T} (d : T) (c : pcol T) (m : pcol bool) : pcol T := filter_array d c (build_predicate m).
Definition filter_with {T} (s : strategy) (d : T) (c : pcol T) (m : pcol bool) : pcol T :=
  filter_array d c (with_strategy s (build_predicate m)).

(* the strategies a predicate over mask [f] may legitimately carry *)
Definition strategy_ok (s : strategy) (f : list bool) : Prop :=
  match s with
  | SNone => count_true f = 0
  | SAll => count_true f = length f
  | _ => True
  end.

(* ================================================================== M : take *)
(* index.as_usize() after to_indices: a negative index of a signed type is reinterpreted /
   sign-extended to a value >= 2^31, beyond any array length: modelled as "no such row";
   values.get(i) / values[i] on a slice *)
Definition get {T} (vs : list T) (i : Z) : option T :=
  if out_of_range (length vs) i then None else nth_error vs (Z.to_nat i).

(* take_native, indices with nulls: out of range under a null slot -> default, else panic *)
Fixpoint take_native_n {T} (d : T) (vs : list T) (ivals : list Z) (n : list bool) : option (list T) :=
  match ivals, n with
  | i :: ir, b :: nr =>
    match get vs i with
    | Some v => option_map (cons v) (take_native_n d vs ir nr)
    | None => if b then None else option_map (cons d) (take_native_n d vs ir nr)
    end
  | _, _ => Some []
  end.
(* take_native, indices without nulls: values[index] (panics out of range) *)
Fixpoint take_native_a {T} (vs : list T) (ivals : list Z) : option (list T) :=
  match ivals with
  | [] => Some []
  | i :: ir => match get vs i with Some v => option_map (cons v) (take_native_a vs ir) | None => None end
  end.
Definition take_native {T} (d : T) (vs : list T) (idx : pcol Z) : option (list T) :=
  match has_nulls (snd idx) with
  | Some n => take_native_n d vs (fst idx) n
  | None => take_native_a vs (fst idx)
  end.

(* take_bits: with index nulls only the valid slots are read (BooleanBuffer::value asserts bounds) *)
Fixpoint take_bits_n (vs : list bool) (ivals : list Z) (n : list bool) : option (list bool) :=
  match ivals, n with
  | i :: ir, b :: nr =>
    if b then match get vs i with
              | Some v => option_map (cons v) (take_bits_n vs ir nr)
              | None => None
              end
    else option_map (cons false) (take_bits_n vs ir nr)
  | _, _ => Some []
  end.
Definition take_bits (vs : list bool) (idx : pcol Z) : option (list bool) :=
  match has_nulls (snd idx) with
  | Some n => take_bits_n vs (fst idx) n
  | None => take_native_a vs (fst idx)
  end.

(* take_nulls; the outer option is the panic, the inner one the absent buffer *)
Definition take_nulls (nulls : option (list bool)) (idx : pcol Z) : option (option (list bool)) :=
  match has_nulls nulls with
  | Some n => option_map Some (take_bits n idx)
  | None => Some (snd idx)
  end.

(* check_bounds (TakeOptions) *)
Definition check_bounds (len : nat) (idx : pcol Z) : bool :=
  match has_nulls (snd idx) with
  | Some n => forallb (fun p : Z * bool => negb (snd p) || (fst p <? Z.of_nat len)%Z) (List.combine (fst idx) n)
  | None => forallb (fun i => (0 <=? i)%Z && (i <? Z.of_nat len)%Z) (fst idx)
  end.

(* take + take_impl + take_primitive; None = Err or panic *)
Definition take_M {T} (d : T) (cb : bool) (c : pcol T) (idx : pcol Z) : option (pcol T) :=
  if cb && negb (check_bounds (length (fst c)) idx) then None else
  match fst idx with
  | [] => Some ([], None)
  | _ =>
    match take_native d (fst c) idx, take_nulls (snd c) idx with
    | Some v, Some n => Some (v, n)
    | _, _ => None
    end
  end.

(* ================================================================== M : concat, interleave *)
(* concat_primitives / concat_boolean (builder.append_array per input: values appended, validity
   materialised only once some input has nulls; earlier inputs count as all valid) *)
Definition nulls_or_true {T} (c : pcol T) : list bool :=
  match snd c with Some n => n | None => repeat true (length (fst c)) end.
Definition some_has_nulls {T} (cs : list (pcol T)) : bool :=
  existsb (fun c => match has_nulls (snd c) with Some _ => true | None => false end) cs.
Definition concat_M {T} (cs : list (pcol T)) : pcol T :=
  (concat (map fst cs),
   if some_has_nulls cs then Some (concat (map nulls_or_true cs)) else None).

(* Interleave::new + interleave_primitive *)
Definition is_valid_at {T} (c : pcol T) (i : nat) : bool :=
  match snd c with Some n => nth i n false | None => true end.
Fixpoint interleave_vals {T} (cs : list (pcol T)) (ps : list (nat * nat)) : option (list T) :=
  match ps with
  | [] => Some []
  | (a, i) :: r =>
    match nth_error (fst (nth a cs ([], None))) i, interleave_vals cs r with
    | Some v, Some out => Some (v :: out)
    | _, _ => None
    end
  end.
Definition interleave_M {T} (cs : list (pcol T)) (ps : list (nat * nat)) : option (pcol T) :=
  match interleave_vals cs ps with
  | None => None
  | Some v =>
    Some (v, if some_has_nulls cs
             then Some (map (fun p : nat * nat => is_valid_at (nth (fst p) cs ([], None)) (snd p)) ps)
             else None)
  end.

(* ================================================================== M : zip (zip_impl) *)
(* MutableArrayData over logical rows: extend(i, start, end) appends rows [start,end) of source i *)
Definition extend {A} (out : list (option A)) (src : list (option A)) (s e : nat) : list (option A) :=
  out ++ firstn (e - s) (skipn s src).
Definition extend_scalar {A} (out : list (option A)) (src : list (option A)) (n : nat) : list (option A) :=
  out ++ repeat (nth 0 src None) n.
Definition zip_fill {A} (scalar : bool) (out src : list (option A)) (s e : nat) : list (option A) :=
  if scalar then extend_scalar out src (e - s) else extend out src s e.
(* one SlicesIterator step: fill the gap with falsy rows, then the run with truthy rows *)
Definition zip_step {A} (ts : bool) (t : list (option A)) (fs : bool) (f : list (option A))
           (st : list (option A) * nat) (se : nat * nat) : list (option A) * nat :=
  let '(out, filled) := st in
  let '(s, e) := se in
  let out1 := if filled <? s then zip_fill fs out f filled s else out in
  (zip_fill ts out1 t s e, e).
Definition zip_M {A} (m : pcol bool) (ts : bool) (t : list (option A)) (fs : bool) (f : list (option A))
  : list (option A) :=
  let len := length (fst m) in
  let '(out, filled) := fold_left (zip_step ts t fs f) (runs (prep_mask m)) ([], 0) in
  if filled <? len then zip_fill fs out f filled len else out.

(* ================================================================== M : merge (merge.rs) *)
(* like zip_impl, but array operands are consumed through running offsets (truthy_offset / falsy_offset);
   scalar operands repeat row 0 and leave the offset alone *)
Definition take_rows {A} (scalar : bool) (out src : list (option A)) (off n : nat) : list (option A) * nat :=
  if scalar then (extend_scalar out src n, off) else (extend out src off (off + n), off + n).
Definition merge_step {A} (ts : bool) (t : list (option A)) (fs : bool) (f : list (option A))
           (st : list (option A) * nat * nat * nat) (se : nat * nat) : list (option A) * nat * nat * nat :=
  let '(out, filled, toff, foff) := st in
  let '(s, e) := se in
  let '(out1, foff1) := if filled <? s then take_rows fs out f foff (s - filled) else (out, foff) in
  let '(out2, toff1) := take_rows ts out1 t toff (e - s) in
  (out2, e, toff1, foff1).
Definition merge_M {A} (m : pcol bool) (ts : bool) (t : list (option A)) (fs : bool) (f : list (option A))
  : list (option A) :=
  let len := length (fst m) in
  let '(out, filled, toff, foff) := fold_left (merge_step ts t fs f) (runs (prep_mask m)) ([], 0, 0, 0) in
  if filled <? len then fst (take_rows fs out f foff (len - filled)) else out.

(* ================================================================== M : nullif *)
(* validity' = validity & !(mask_values & mask_validity)   (no validity: !(...)) *)
Definition nullif_M {T} (c : pcol T) (m : pcol bool) : pcol T :=
  let right := match snd m with Some n => map2 andb (fst m) n | None => fst m end in
  let combined := match snd c with
                  | Some l => map2 (fun a b => a && negb b) l right
                  | None => map negb right
                  end in
  (fst c, Some combined).

(* ================================================================== M : shift (window.rs) *)
Definition slice_M {T} (c : pcol T) (off len : nat) : pcol T :=
  (firstn len (skipn off (fst c)), option_map (fun n => firstn len (skipn off n)) (snd c)).
Definition null_col {T} (d : T) (n : nat) : pcol T := (repeat d n, Some (repeat false n)).
Definition i64_min : Z := (- 2 ^ 63)%Z.
Definition shift_M {T} (d : T) (c : pcol T) (off : Z) : pcol T :=
  let len := length (fst c) in
  if (off =? 0)%Z then c
  else if (off =? i64_min)%Z || (Z.of_nat len <=? Z.abs off)%Z then null_col d len
  else if (0 <? off)%Z then
    let k := Z.to_nat off in concat_M [null_col d k; slice_M c 0 (len - k)]
  else
    let k := Z.to_nat (- off) in concat_M [slice_M c k (len - k); null_col d k].

(* ================================================================== M : dictionary gc *)
(* a dictionary column: keys (physical column of indices) into a values list *)
Definition dict_logical {T} (keys : pcol Z) (values : list T) : list (option T) :=
  map (fun k => match k with Some i => get values i | None => None end) (logical keys).

(* DictionaryArray::occupancy: which values are referenced by a valid key *)
Definition occupancy (keys : pcol Z) (nvalues : nat) : list bool :=
  map (fun j => existsb (fun k => match k with Some i => (i =? Z.of_nat j)%Z | None => false end) (logical keys))
      (seq 0 nvalues).
(* key_remap[old] = rank of old among the occupied positions (0 for unoccupied) *)
Definition key_remap (mask : list bool) : list Z :=
  map (fun j => if nth j mask false then Z.of_nat (count_true (firstn j mask)) else 0%Z) (seq 0 (length mask)).
Definition gc_M {T} (keys : pcol Z) (values : list T) : pcol Z * list T :=
  let mask := occupancy keys (length values) in
  if count_true mask =? length values then (keys, values) else
  let remap := key_remap mask in
  ((map (fun k => match get remap k with Some k' => k' | None => 0%Z end) (fst keys), snd keys),
   filter_spec values (map Some mask)).
