(* C11 — model of the arrow-row byte format (arrow-row/src/{lib,fixed,variable,list,run}.rs).
   Definitions only.  Bytes are [N] (0..255), logical values are [Z] / byte lists / nested
   structs and lists.  M (the encoders/decoders) follows the Rust control flow; S (the
   logical comparison [cmp_field] / [row_cmp]) is the specification. *)
From Coq Require Import List ZArith NArith Bool.
Import ListNotations.
Local Open Scope N_scope.

(* ------------------------------------------------------------------ constants (variable.rs) *)
Definition BLOCK_SIZE : nat := 32.
Definition MINI_BLOCK_COUNT : nat := 4.
Definition MINI_BLOCK_SIZE : nat := 8.            (* BLOCK_SIZE / MINI_BLOCK_COUNT *)
Definition BLOCK_CONTINUATION : N := 255.         (* 0xFF *)
Definition EMPTY_SENTINEL : N := 1.
Definition NON_EMPTY_SENTINEL : N := 2.

(* ------------------------------------------------------------------ sort options *)
Record opts := mkOpts { descending : bool; nulls_first : bool }.

(* lib.rs null_sentinel *)
Definition null_sentinel (o : opts) : N := if nulls_first o then 0 else 255.

(* `!b` on u8 *)
Definition not8 (b : N) : N := 255 - b.
Definition invert (l : list N) : list N := map not8 l.
Definition inv_if (d : bool) (l : list N) : list N := if d then invert l else l.

(* options of the child converter of List / RunEndEncoded (lib.rs Codec::new):
   descending:false, nulls_first: nulls_first != descending *)
Definition child_opts (o : opts) : opts := mkOpts false (xorb (nulls_first o) (descending o)).

(* ------------------------------------------------------------------ byte-wise lexicographic order
   (slice Ord on [u8], i.e. memcmp then length) *)
Fixpoint lex (a b : list N) : comparison :=
  match a, b with
  | [], [] => Eq
  | [], _ :: _ => Lt
  | _ :: _, [] => Gt
  | x :: a', y :: b' => match N.compare x y with Eq => lex a' b' | c => c end
  end.

(* ------------------------------------------------------------------ fixed.rs: FixedLengthEncoding *)
(* to_be_bytes of a w-byte unsigned pattern *)
Fixpoint be_bytes (w : nat) (n : N) : list N :=
  match w with
  | O => []
  | S w' => (n / 2 ^ (8 * N.of_nat w')) mod 256 :: be_bytes w' n
  end.

(* from_be_bytes *)
Definition be_val (bs : list N) : N := fold_left (fun acc b => acc * 256 + b) bs 0.

Definition flip_first (bs : list N) : list N :=
  match bs with b :: r => N.lxor b 128 :: r | [] => [] end.

Definition bits (w : nat) : N := 8 * N.of_nat w.

(* two's complement pattern of a signed value / back *)
Definition to_pattern (w : nat) (z : Z) : N := Z.to_N (z mod 2 ^ Z.of_N (bits w)).
Definition of_pattern (w : nat) (p : N) : Z :=
  if N.testbit p (bits w - 1) then Z.of_N p - 2 ^ Z.of_N (bits w) else Z.of_N p.

(* encode_signed!: to_be_bytes, b[0] ^= 0x80 ; decode: encoded[0] ^= 0x80, from_be_bytes *)
Definition encode_signed_pat (w : nat) (p : N) : list N := flip_first (be_bytes w p).
Definition decode_signed_pat (bs : list N) : N := be_val (flip_first bs).
Definition encode_signed (w : nat) (z : Z) : list N := encode_signed_pat w (to_pattern w z).
Definition decode_signed (w : nat) (bs : list N) : Z := of_pattern w (decode_signed_pat bs).

(* encode_unsigned! *)
Definition encode_unsigned (w : nat) (z : Z) : list N := be_bytes w (Z.to_N z).
Definition decode_unsigned (bs : list N) : Z := Z.of_N (be_val bs).

(* bool: [self as u8] *)
Definition encode_bool (z : Z) : list N := [if Z.eqb z 0 then 0 else 1].

(* floats (f16/f32/f64), on bit patterns:
     let s = self.to_bits() as iW;  let val = s ^ (((s >> (W-1)) as uW) >> 1) as iW;  val.encode()
   [s >> (W-1)] is an arithmetic shift: all ones when the sign bit is set, else 0. *)
Definition sar_sign (w : nat) (u : N) : N := if N.testbit u (bits w - 1) then N.ones (bits w) else 0.
Definition float_key (w : nat) (u : N) : N := N.lxor u (N.shiftr (sar_sign w u) 1).
Definition encode_float (w : nat) (z : Z) : list N := encode_signed_pat w (float_key w (Z.to_N z)).
Definition decode_float (w : nat) (bs : list N) : Z := Z.of_N (float_key w (decode_signed_pat bs)).

(* fixed::encode / encode_not_null / encode_boolean / encode_fixed_size_binary:
   valid: 1 then the encoded bytes (bitwise NOT when descending);
   null: null sentinel; the remaining [w] bytes keep the zero the buffer was resized with *)
Definition encode_fixed (o : opts) (w : nat) (v : option (list N)) : list N :=
  match v with
  | Some e => 1 :: inv_if (descending o) e
  | None => null_sentinel o :: repeat 0 w
  end.

(* ------------------------------------------------------------------ variable.rs *)
Definition set_last (l : list N) (x : N) : list N := removelast l ++ [x].

(* val.chunks_exact(SIZE): the full chunks and the remainder *)
Fixpoint chunks_exact (fuel size : nat) (v : list N) : list (list N) * list N :=
  match fuel with
  | O => ([], v)
  | S f =>
    if (size <=? length v)%nat
    then let (c, r) := chunks_exact f size (skipn size v) in (firstn size v :: c, r)
    else ([], v)
  end.

(* encode_blocks::<SIZE>(out, val), val non-empty: every full chunk is followed by the continuation
   byte; a non-empty remainder is zero padded and followed by its length; without remainder the
   last continuation byte is overwritten with SIZE *)
Definition encode_blocks (size : nat) (val : list N) : list N :=
  let (chunks, rem) := chunks_exact (length val) size val in
  let body := flat_map (fun c => c ++ [BLOCK_CONTINUATION]) chunks in
  match rem with
  | [] => set_last body (N.of_nat size)
  | _ => body ++ rem ++ repeat 0 (size - length rem) ++ [N.of_nat (length rem)]
  end.

Definition encode_null (o : opts) : list N := [null_sentinel o].
Definition encode_empty (o : opts) : list N := [if descending o then not8 EMPTY_SENTINEL else EMPTY_SENTINEL].

(* the non-empty arm of encode_one before the descending inversion *)
Definition encode_nonempty (val : list N) : list N :=
  if (length val <=? BLOCK_SIZE)%nat
  then NON_EMPTY_SENTINEL :: encode_blocks MINI_BLOCK_SIZE val
  else
    let initial := firstn BLOCK_SIZE val in
    let rem := skipn BLOCK_SIZE val in
    (* out[offset] = BLOCK_CONTINUATION overwrites the length byte of the 4th mini block *)
    NON_EMPTY_SENTINEL :: set_last (encode_blocks MINI_BLOCK_SIZE initial) BLOCK_CONTINUATION
      ++ encode_blocks BLOCK_SIZE rem.

(* variable::encode_one *)
Definition encode_one (o : opts) (val : option (list N)) : list N :=
  match val with
  | None => encode_null o
  | Some [] => encode_empty o
  | Some v => inv_if (descending o) (encode_nonempty v)
  end.

(* bit_util::ceil = usize::div_ceil *)
Definition ceil (value divisor : nat) : nat :=
  (value / divisor + (if (value mod divisor =? 0)%nat then 0 else 1))%nat.

(* variable::non_null_padded_length / padded_length: the row length pre-computed by row_lengths,
   which the unchecked writes of encode_column rely on *)
Definition non_null_padded_length (len : nat) : nat :=
  if (len <=? BLOCK_SIZE)%nat then (1 + ceil len MINI_BLOCK_SIZE * (MINI_BLOCK_SIZE + 1))%nat
  else (MINI_BLOCK_COUNT + ceil len BLOCK_SIZE * (BLOCK_SIZE + 1))%nat.
Definition padded_length (a : option nat) : nat :=
  match a with Some a => non_null_padded_length a | None => 1%nat end.

(* variable::decode_blocks: returns the concatenated (still inverted when descending) data handed
   to the callback and the number of bytes consumed *)
Definition slice (row : list N) (from len : nat) : list N := firstn len (skipn from row).

Fixpoint decode_full (fuel : nat) (d : bool) (row : list N) (idx : nat) (acc : list N) : list N * nat :=
  match fuel with
  | O => (acc, idx)
  | S f =>
    let sentinel := nth (idx + BLOCK_SIZE) row 0 in
    let continuation := if d then not8 BLOCK_CONTINUATION else BLOCK_CONTINUATION in
    if negb (N.eqb sentinel continuation)
    then (acc ++ slice row idx (N.to_nat (if d then not8 sentinel else sentinel)), (idx + BLOCK_SIZE + 1)%nat)
    else decode_full f d row (idx + BLOCK_SIZE + 1)%nat (acc ++ slice row idx BLOCK_SIZE)
  end.

Fixpoint decode_mini (n : nat) (d : bool) (row : list N) (idx : nat) (acc : list N) : list N * nat :=
  match n with
  | O => decode_full (length row) d row idx acc
  | S n' =>
    let sentinel := nth (idx + MINI_BLOCK_SIZE) row 0 in
    let continuation := if d then not8 BLOCK_CONTINUATION else BLOCK_CONTINUATION in
    if negb (N.eqb sentinel continuation)
    then (acc ++ slice row idx (N.to_nat (if d then not8 sentinel else sentinel)), (idx + MINI_BLOCK_SIZE + 1)%nat)
    else decode_mini n' d row (idx + MINI_BLOCK_SIZE + 1)%nat (acc ++ slice row idx MINI_BLOCK_SIZE)
  end.

Definition decode_blocks (o : opts) (row : list N) : list N * nat :=
  let d := descending o in
  let non_empty := if d then not8 NON_EMPTY_SENTINEL else NON_EMPTY_SENTINEL in
  if negb (N.eqb (nth 0 row 0) non_empty) then ([], 1%nat)
  else decode_mini MINI_BLOCK_COUNT d row 1 [].

(* decode_binary for one row: (None = null | Some bytes, rest of the row) *)
Definition decode_var (o : opts) (row : list N) : option (list N) * list N :=
  let valid := negb (N.eqb (nth 0 row 0) (null_sentinel o)) in
  let (data, used) := decode_blocks o row in
  ((if valid then Some (inv_if (descending o) data) else None), skipn used row).

(* ------------------------------------------------------------------ field types and values *)
Inductive ftype : Type :=
| TInt (w : nat)            (* signed two's complement integer of w bytes (ints, dates, decimals …) *)
| TUInt (w : nat)           (* unsigned integer of w bytes *)
| TBool
| TFloat (w : nat)          (* IEEE float of w bytes; the value is its bit pattern *)
| TFsb (n : nat)            (* FixedSizeBinary(n) *)
| TVar                      (* Binary / Utf8 (any offset width, views); dictionaries of those *)
| TStruct (fs : list ftype)
| TList (t : ftype)         (* List / LargeList *)
| TFsl (t : ftype) (n : nat)(* FixedSizeList *)
| TRee (t : ftype)          (* RunEndEncoded: the logical value is the value of type t *)
| TIv (ws : list nat).      (* IntervalDayTime [4;4] / IntervalMonthDayNano [4;4;8]: signed components of the
                               given byte widths under ONE validity byte; the value is VStruct of VInt *)

Inductive value : Type :=
| VNull
| VInt (z : Z)
| VBytes (b : list N)
| VStruct (vs : list value)
| VList (vs : list value).

Definition vint (v : value) : Z := match v with VInt z => z | _ => 0%Z end.

(* FixedLengthEncoding for IntervalDayTime / IntervalMonthDayNano: the components' encodings, in
   declaration order (days, milliseconds) / (months, days, nanoseconds) *)
Fixpoint encode_tuple (ws : list nat) (zs : list value) : list N :=
  match ws with
  | [] => []
  | w :: ws' => encode_signed w (vint (hd VNull zs)) ++ encode_tuple ws' (tl zs)
  end.
Fixpoint decode_tuple (ws : list nat) (e : list N) : list value :=
  match ws with
  | [] => []
  | w :: ws' => VInt (decode_signed w (firstn w e)) :: decode_tuple ws' (skipn w e)
  end.
Definition sum_widths (ws : list nat) : nat := fold_right Nat.add 0%nat ws.

Definition fixed_width (t : ftype) : nat :=
  match t with TInt w | TUInt w | TFloat w => w | TBool => 1%nat | TFsb n => n | _ => 0%nat end.

(* ------------------------------------------------------------------ encoder of one field (encode_column) *)
Fixpoint enc (t : ftype) (o : opts) (v : value) {struct t} : list N :=
  match t with
  | TInt w => encode_fixed o w (match v with VInt z => Some (encode_signed w z) | _ => None end)
  | TUInt w => encode_fixed o w (match v with VInt z => Some (encode_unsigned w z) | _ => None end)
  | TBool => encode_fixed o 1 (match v with VInt z => Some (encode_bool z) | _ => None end)
  | TFloat w => encode_fixed o w (match v with VInt z => Some (encode_float w z) | _ => None end)
  | TFsb n => encode_fixed o n (match v with VBytes b => Some b | _ => None end)
  | TVar => encode_one o (match v with VBytes b => Some b | _ => None end)
  | TStruct fs =>
    (* Encoder::Struct: 0x01 + child rows, or the null sentinel + the row of all-null children *)
    match v with
    | VStruct vs =>
      1 :: (fix go (fs : list ftype) (vs : list value) : list N :=
              match fs with
              | [] => []
              | f :: fs' => enc f o (hd VNull vs) ++ go fs' (tl vs)
              end) fs vs
    | _ =>
      null_sentinel o :: (fix nulls (fs : list ftype) : list N :=
              match fs with
              | [] => []
              | f :: fs' => enc f o VNull ++ nulls fs'
              end) fs
    end
  | TList c =>
    (* list::encode_one: each child row is variable-length encoded, then an empty terminator *)
    match v with
    | VList [] => encode_empty o
    | VList vs => flat_map (fun e => encode_one o (Some (enc c (child_opts o) e))) vs ++ encode_empty o
    | _ => encode_null o
    end
  | TFsl c n =>
    match v with
    | VList vs => 1 :: flat_map (fun e => enc c o e) vs
    | _ => [null_sentinel o]
    end
  | TRee c => encode_one o (Some (enc c (child_opts o) v))
  | TIv ws => encode_fixed o (sum_widths ws) (match v with VStruct zs => Some (encode_tuple ws zs) | _ => None end)
  end.

(* a row: concatenation of the field encodings *)
Notation field := (ftype * opts)%type.
Fixpoint enc_row (fs : list field) (vs : list value) : list N :=
  match fs with
  | [] => []
  | (t, o) :: fs' => enc t o (hd VNull vs) ++ enc_row fs' (tl vs)
  end.

(* ------------------------------------------------------------------ decoder of one field (decode_column) *)
Definition dec_fixed (o : opts) (w : nat) (f : list N -> value) (row : list N) : value * list N :=
  let valid := N.eqb (nth 0 row 0) 1 in
  let e := inv_if (descending o) (slice row 1 w) in
  ((if valid then f e else VNull), skipn (S w) row).

(* list::decode, one row: child rows are the successive non-empty variable-length values *)
Fixpoint dec_list_loop (fuel : nat) (o : opts) (row : list N) (acc : list (list N)) : list (list N) * list N :=
  match fuel with
  | O => (acc, row)
  | S f =>
    let (data, used) := decode_blocks o row in
    if (used <=? 1)%nat then (acc, skipn used row)
    else dec_list_loop f o (skipn used row) (acc ++ [inv_if (descending o) data])
  end.

Fixpoint dec (t : ftype) (o : opts) (row : list N) {struct t} : value * list N :=
  match t with
  | TInt w => dec_fixed o w (fun e => VInt (decode_signed w e)) row
  | TUInt w => dec_fixed o w (fun e => VInt (decode_unsigned e)) row
  | TBool => dec_fixed o 1 (fun e => VInt (if N.eqb (nth 0 e 0) 1 then 1%Z else 0%Z)) row
  | TFloat w => dec_fixed o w (fun e => VInt (decode_float w e)) row
  | TFsb n => dec_fixed o n (fun e => VBytes e) row
  | TVar => let (v, rest) := decode_var o row in
            (match v with Some b => VBytes b | None => VNull end, rest)
  | TStruct fs =>
    let valid := N.eqb (nth 0 row 0) 1 in
    let (vs, rest) :=
      (fix go (fs : list ftype) (row : list N) : list value * list N :=
         match fs with
         | [] => ([], row)
         | f :: fs' => let (v, r) := dec f o row in let (vs, r') := go fs' r in (v :: vs, r')
         end) fs (skipn 1 row) in
    ((if valid then VStruct vs else VNull), rest)
  | TList c =>
    let valid := negb (N.eqb (nth 0 row 0) (null_sentinel o)) in
    let (children, rest) := dec_list_loop (length row) o row [] in
    ((if valid then VList (map (fun r => fst (dec c (child_opts o) r)) children) else VNull), rest)
  | TFsl c n =>
    let valid := N.eqb (nth 0 row 0) 1 in
    if valid then
      let (vs, rest) :=
        (fix go (k : nat) (row : list N) : list value * list N :=
           match k with
           | O => ([], row)
           | S k' => let (v, r) := dec c o row in let (vs, r') := go k' r in (v :: vs, r')
           end) n (skipn 1 row) in
      (VList vs, rest)
    else (VNull, skipn 1 row)
  | TRee c =>
    let (data, used) := decode_blocks o row in
    (fst (dec c (child_opts o) (inv_if (descending o) data)), skipn used row)
  | TIv ws => dec_fixed o (sum_widths ws) (fun e => VStruct (decode_tuple ws e)) row
  end.

Fixpoint dec_row (fs : list field) (row : list N) : list value :=
  match fs with
  | [] => []
  | (t, o) :: fs' => let (v, r) := dec t o row in v :: dec_row fs' r
  end.

(* ------------------------------------------------------------------ SPEC: logical comparison *)
(* IEEE 754 totalOrder on bit patterns of width 2H (H = weight of the sign bit):
   negatives below positives; positives by magnitude; negatives by reverse magnitude *)
Definition fsign (H x : Z) : bool := (H <=? x)%Z.
Definition fmag (H x : Z) : Z := if fsign H x then (x - H)%Z else x.
Definition total_cmp (H x y : Z) : comparison :=
  match fsign H x, fsign H y with
  | false, false => (fmag H x ?= fmag H y)%Z
  | true, true => (fmag H y ?= fmag H x)%Z
  | true, false => Lt
  | false, true => Gt
  end.

(* ascending comparison with nulls first ([nf]) or last; lists compare element-wise, then by length *)
Fixpoint cmp_asc (t : ftype) (nf : bool) (a b : value) {struct t} : comparison :=
  match t with
  | TRee c => cmp_asc c nf a b
  | _ =>
    match a, b with
    | VNull, VNull => Eq
    | VNull, _ => if nf then Lt else Gt
    | _, VNull => if nf then Gt else Lt
    | _, _ =>
      match t, a, b with
      | TFloat w, VInt x, VInt y => total_cmp (2 ^ (Z.of_N (bits w) - 1)) x y
      | (TInt _ | TUInt _ | TBool), VInt x, VInt y => (x ?= y)%Z
      | (TFsb _ | TVar), VBytes x, VBytes y => lex x y
      | TStruct fs, VStruct xs, VStruct ys =>
        (fix go (fs : list ftype) (xs ys : list value) : comparison :=
           match fs with
           | [] => Eq
           | f :: fs' =>
             match cmp_asc f nf (hd VNull xs) (hd VNull ys) with
             | Eq => go fs' (tl xs) (tl ys)
             | c => c
             end
           end) fs xs ys
      | TIv _, VStruct xs, VStruct ys =>
        (* lexicographic order of the signed components *)
        (fix go (xs ys : list value) : comparison :=
           match xs, ys with
           | x :: xs', y :: ys' => match (vint x ?= vint y)%Z with Eq => go xs' ys' | r => r end
           | _, _ => Eq
           end) xs ys
      | (TList c | TFsl c _), VList xs, VList ys =>
        (fix go (xs ys : list value) : comparison :=
           match xs, ys with
           | [], [] => Eq
           | [], _ :: _ => Lt
           | _ :: _, [] => Gt
           | x :: xs', y :: ys' => match cmp_asc c nf x y with Eq => go xs' ys' | r => r end
           end) xs ys
      | _, _, _ => Eq
      end
    end
  end.

(* comparison under SortOptions: descending = reverse of the ascending order that puts nulls at
   the other end (so that nulls_first keeps its meaning) *)
Definition cmp_field (t : ftype) (o : opts) (a b : value) : comparison :=
  if descending o then CompOpp (cmp_asc t (negb (nulls_first o)) a b)
  else cmp_asc t (nulls_first o) a b.

(* rows compare lexicographically, field by field *)
Fixpoint row_cmp (fs : list field) (r1 r2 : list value) : comparison :=
  match fs with
  | [] => Eq
  | (t, o) :: fs' =>
    match cmp_field t o (hd VNull r1) (hd VNull r2) with
    | Eq => row_cmp fs' (tl r1) (tl r2)
    | c => c
    end
  end.

(* ------------------------------------------------------------------ well-formedness *)
Definition wf_byte (b : N) : Prop := b < 256.

Fixpoint wf_type (t : ftype) : Prop :=
  match t with
  | TInt w | TUInt w | TFloat w => (1 <= w)%nat
  | TBool | TFsb _ | TVar => True
  | TStruct fs => (fix all (fs : list ftype) : Prop := match fs with [] => True | f :: r => wf_type f /\ all r end) fs
  | TList c | TFsl c _ | TRee c => wf_type c
  | TIv ws => (fix all (ws : list nat) : Prop := match ws with [] => True | w :: r => (1 <= w)%nat /\ all r end) ws
  end.

(* [wt t v]: v is a value of type t (what an Arrow array of that type can hold) *)
Fixpoint wt (t : ftype) (v : value) {struct t} : Prop :=
  match t with
  | TRee c => wt c v
  | _ =>
    match v with
    | VNull => True
    | VInt z =>
      match t with
      | TInt w => (- 2 ^ (Z.of_N (bits w) - 1) <= z < 2 ^ (Z.of_N (bits w) - 1))%Z
      | TUInt w | TFloat w => (0 <= z < 2 ^ Z.of_N (bits w))%Z
      | TBool => z = 0%Z \/ z = 1%Z
      | _ => False
      end
    | VBytes b =>
      match t with
      | TFsb n => length b = n /\ Forall wf_byte b
      | TVar => Forall wf_byte b
      | _ => False
      end
    | VStruct vs =>
      match t with
      | TStruct fs =>
        (fix all (fs : list ftype) (vs : list value) : Prop :=
           match fs, vs with
           | [], [] => True
           | f :: fs', x :: vs' => wt f x /\ all fs' vs'
           | _, _ => False
           end) fs vs
      | TIv ws =>
        (fix all (ws : list nat) (vs : list value) : Prop :=
           match ws, vs with
           | [], [] => True
           | w :: ws', VInt z :: vs' =>
             (- 2 ^ (Z.of_N (bits w) - 1) <= z < 2 ^ (Z.of_N (bits w) - 1))%Z /\ all ws' vs'
           | _, _ => False
           end) ws vs
      | _ => False
      end
    | VList vs =>
      match t with
      | TList c => (fix all (vs : list value) : Prop := match vs with [] => True | x :: r => wt c x /\ all r end) vs
      | TFsl c n => length vs = n /\
                    (fix all (vs : list value) : Prop := match vs with [] => True | x :: r => wt c x /\ all r end) vs
      | _ => False
      end
    end
  end.

Fixpoint wt_row (fs : list field) (vs : list value) : Prop :=
  match fs, vs with
  | [], [] => True
  | (t, _) :: fs', v :: vs' => wt t v /\ wt_row fs' vs'
  | _, _ => False
  end.

(* structural equality of values (logical equality of two slots) *)
Fixpoint value_eqb (a b : value) {struct a} : bool :=
  match a, b with
  | VNull, VNull => true
  | VInt x, VInt y => Z.eqb x y
  | VBytes x, VBytes y =>
    (fix eqb (x y : list N) : bool :=
       match x, y with [], [] => true | p :: x', q :: y' => N.eqb p q && eqb x' y' | _, _ => false end) x y
  | VStruct xs, VStruct ys | VList xs, VList ys =>
    (fix eqb (xs ys : list value) : bool :=
       match xs, ys with [], [] => true | p :: x', q :: y' => value_eqb p q && eqb x' y' | _, _ => false end) xs ys
  | _, _ => false
  end.

Fixpoint row_eqb (r1 r2 : list value) : bool :=
  match r1, r2 with
  | [], [] => true
  | a :: r1', b :: r2' => value_eqb a b && row_eqb r1' r2'
  | _, _ => false
  end.
