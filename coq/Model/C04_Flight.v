(* C04 — arrow-flight/src/encode.rs [split_batch_for_grpc_response]: the arithmetic that cuts one
   record batch into row ranges so that each FlightData hopefully stays under the size limit.
   Definitions only. *)
From Coq Require Import List Arith NArith Bool.
Import ListNotations.

(* n_batches = (size / max + usize::from(size % max != 0)).max(1)   (max = 0 panics: division by zero) *)
Definition n_batches (size max : N) : N :=
  N.max (size / max + (if N.eqb (size mod max) 0 then 0 else 1)) 1.
(* rows_per_batch = (num_rows / n_batches).max(1)    (byte sizes are binary numbers, row counts are nat) *)
Definition rows_per_batch (num_rows : nat) (nb : N) : nat := Nat.max (N.to_nat (N.of_nat num_rows / nb)) 1.

(* while offset < num_rows { length = rows_per_batch.min(num_rows - offset); push slice(offset, length); offset += length }
   One unit of fuel per iteration; [split] gives num_rows units, proved sufficient. *)
Fixpoint split_loop (fuel rows_per offset num_rows : nat) : list (nat * nat) :=
  match fuel with
  | O => []
  | S f =>
    if offset <? num_rows then
      let length := Nat.min rows_per (num_rows - offset) in
      (offset, length) :: split_loop f rows_per (offset + length) num_rows
    else []
  end.

Definition split (num_rows : nat) (size max : N) : list (nat * nat) :=
  split_loop num_rows (rows_per_batch num_rows (n_batches size max)) 0 num_rows.

(* RecordBatch::slice(offset, length) on the rows of a batch *)
Definition slice_rows {A} (rows : list A) (p : nat * nat) : list A := firstn (snd p) (skipn (fst p) rows).
