(* C05 — Parquet value/level encodings (definitions only).
   Transcribed from /repo/parquet/src/util/bit_util.rs (BitWriter/BitReader), encodings/rle.rs
   (RleEncoder/RleDecoder), encodings/encoding/mod.rs + byte_stream_split_encoder.rs (PLAIN,
   DELTA_BINARY_PACKED, DELTA_LENGTH_BYTE_ARRAY, DELTA_BYTE_ARRAY, BYTE_STREAM_SPLIT), encodings/decoding.rs.
   Bytes are [list N] (each < 256); bit streams are [list bool], LSB first. *)
From Coq Require Import List NArith ZArith Arith Bool.
Import ListNotations.

(* ------------------------------------------------------------------ bit lists (spec-level objects) *)
(* LSB-first bit list of the low w bits of n, and back *)
Fixpoint bits_of (w : nat) (n : N) : list bool :=
  match w with O => [] | S w => N.odd n :: bits_of w (N.div2 n) end.
Fixpoint val_of (bs : list bool) : N :=
  match bs with [] => 0%N | b :: r => (N.b2n b + 2 * val_of r)%N end.

(* S: what a sequence of put_value(v, w) calls denotes / what n get_value(w) calls return *)
Definition pack (w : nat) (vs : list N) : list bool := flat_map (bits_of w) vs.
Fixpoint unpack (w n : nat) (bs : list bool) : list N :=
  match n with O => [] | S n => val_of (firstn w bs) :: unpack w n (skipn w bs) end.

Definition byte_bits (b : N) : list bool := bits_of 8 b.
Definition bytes_bits (bs : list N) : list bool := flat_map byte_bits bs.
(* n bytes from a bit list (short input is zero padded: val_of of a short list) *)
Fixpoint bits_bytes (n : nat) (bits : list bool) : list N :=
  match n with O => [] | S n => val_of (firstn 8 bits) :: bits_bytes n (skipn 8 bits) end.
(* bits -> bytes with zero padding to the next byte boundary (BitWriter::flush) *)
Definition bits_to_bytes (bits : list bool) : list N := bits_bytes ((length bits + 7) / 8) bits.

(* little-endian: first k bytes of v / value of a byte list *)
Definition le_bytes (k : nat) (v : N) : list N := bits_bytes k (bits_of (8 * k) v).
Definition le_value (bs : list N) : N := val_of (bytes_bits bs).

(* ------------------------------------------------------------------ BitWriter, word level (M) *)
Record bitw := { bw_rbuf : list N;   (* flushed bytes, newest first *)
                 bw_acc : N;         (* buffered_values : u64 *)
                 bw_off : N }.       (* bit_offset < 64 *)
Definition bw_new : bitw := {| bw_rbuf := []; bw_acc := 0; bw_off := 0 |}.
Definition u64 (x : N) : N := N.land x (N.ones 64).
(* checked_shr(k).unwrap_or(0) on u64 *)
Definition shr_checked (v k : N) : N := if (k <? 64)%N then N.shiftr v k else 0%N.

Definition bw_put_value (s : bitw) (v : N) (nb : N) : bitw :=
  let acc := N.lor (bw_acc s) (u64 (N.shiftl v (bw_off s))) in
  let off := (bw_off s + nb)%N in
  if (64 <=? off)%N then
    let rem := (off - 64)%N in
    {| bw_rbuf := rev (le_bytes 8 acc) ++ bw_rbuf s; bw_off := rem; bw_acc := shr_checked v (nb - rem) |}
  else {| bw_rbuf := bw_rbuf s; bw_acc := acc; bw_off := off |}.

Definition bw_flush (s : bitw) : bitw :=
  let nbytes := N.to_nat ((bw_off s + 7) / 8) in
  {| bw_rbuf := rev (le_bytes nbytes (bw_acc s)) ++ bw_rbuf s; bw_acc := 0; bw_off := 0 |}.
Definition bw_consume (s : bitw) : list N := rev (bw_rbuf (bw_flush s)).

(* run a list of (value, width) puts and consume *)
Definition bw_run (ops : list (N * N)) : list N :=
  bw_consume (fold_left (fun s p => bw_put_value s (fst p) (snd p)) ops bw_new).
(* S for the same: the concatenated bit groups, zero padded to a byte *)
Definition bw_run_spec (ops : list (N * N)) : list N :=
  bits_to_bytes (flat_map (fun p => bits_of (N.to_nat (snd p)) (fst p)) ops).

(* ------------------------------------------------------------------ BitReader::get_value, word level (M) *)
Record bitr := { br_byte : nat; br_bit : N; br_buf : N }.
Definition br_new : bitr := {| br_byte := 0; br_bit := 0; br_buf := 0 |}.
Definition load8 (data : list N) (byte_off : nat) : N := le_value (firstn 8 (skipn byte_off data)).
Definition trailing_bits (v nb : N) : N := if (64 <=? nb)%N then v else N.land v (N.ones nb).

Definition br_get_value (data : list N) (s : bitr) (nb : N) : option (N * bitr) :=
  if (N.of_nat (length data) * 8 <? N.of_nat (br_byte s) * 8 + br_bit s + nb)%N then None else
  let buf := if (br_bit s =? 0)%N then load8 data (br_byte s) else br_buf s in
  let v := N.shiftr (trailing_bits buf (br_bit s + nb)) (br_bit s) in
  let bit := (br_bit s + nb)%N in
  if (64 <=? bit)%N then
    let byte' := (br_byte s + 8)%nat in
    let bit' := (bit - 64)%N in
    if (bit' =? 0)%N then Some (v, {| br_byte := byte'; br_bit := 0; br_buf := buf |})
    else let buf' := load8 data byte' in
         Some (N.lor v (u64 (N.shiftl (trailing_bits buf' bit') (nb - bit'))),
               {| br_byte := byte'; br_bit := bit'; br_buf := buf' |})
  else Some (v, {| br_byte := br_byte s; br_bit := bit; br_buf := buf |}).

(* read the widths in order until the first None: values read, and how many succeeded *)
Fixpoint br_run (data : list N) (s : bitr) (ws : list N) : list N :=
  match ws with
  | [] => []
  | w :: r => match br_get_value data s w with
              | None => []
              | Some (v, s') => v :: br_run data s' r
              end
  end.
(* S: cut the bit stream *)
Fixpoint br_run_spec (bits : list bool) (ws : list N) : list N :=
  match ws with
  | [] => []
  | w :: r => if (length bits <? N.to_nat w)%nat then []
              else val_of (firstn (N.to_nat w) bits) :: br_run_spec (skipn (N.to_nat w) bits) r
  end.

(* ------------------------------------------------------------------ ULEB128 (put_vlq_int / get_vlq_int) and zig-zag *)
Fixpoint vlq_enc (fuel : nat) (n : N) : list N :=
  match fuel with
  | O => []
  | S fuel => if (n <? 128)%N then [n] else (n mod 128 + 128)%N :: vlq_enc fuel (n / 128)
  end.
Definition vlq (n : N) : list N := vlq_enc 10 n.

(* returns the (unbounded) value and the rest; None on truncated input *)
Fixpoint vlq_dec (bs : list N) (shift : N) (acc : N) : option (N * list N) :=
  match bs with
  | [] => None
  | b :: r => let acc' := (acc + (b mod 128) * 2^shift)%N in
              if (b <? 128)%N then Some (acc', r) else vlq_dec r (shift + 7) acc'
  end.

(* two's complement helpers for an abstract width *)
Definition to_signed (tw : N) (u : N) : Z :=
  if (u <? 2^(tw - 1))%N then Z.of_N u else (Z.of_N u - Z.of_N (2^tw))%Z.
Definition to_unsigned (tw : N) (z : Z) : N := Z.to_N (z mod Z.of_N (2^tw)).
Definition wrap_s (tw : N) (z : Z) : Z := to_signed tw (to_unsigned tw z).

(* M: ((v << 1) ^ (v >> 63)) as u64   and   (u >> 1) as i64 ^ -((u & 1) as i64) *)
Definition zz_enc_m (v : Z) : N := to_unsigned 64 (Z.lxor (Z.shiftl v 1) (Z.shiftr v 63)).
Definition zz_dec_m (u : N) : Z := Z.lxor (Z.of_N (N.shiftr u 1)) (- Z.of_N (N.land u 1)).
(* S: arithmetic form *)
Definition zz_enc (z : Z) : Z := if (0 <=? z)%Z then (2 * z)%Z else (- 2 * z - 1)%Z.
Definition zz_dec (v : Z) : Z := if Z.even v then (v / 2)%Z else (- ((v + 1) / 2))%Z.

Definition zz_vlq (z : Z) : list N := vlq (zz_enc_m z).
(* get_vlq_int accumulates in an i64 (bits above 63 are lost), get_zigzag_vlq_int reinterprets as u64 *)
Definition zz_vlq_dec (bs : list N) : option (Z * list N) :=
  match vlq_dec bs 0 0 with
  | None => None
  | Some (u, r) => Some (zz_dec_m (u mod 2^64), r)
  end.

(* ------------------------------------------------------------------ RLE / bit-packed hybrid *)
Inductive run :=
| Rle (count : nat) (v : N)
| Packed (groups : nat) (vs : list N).      (* length vs = 8 * groups *)

Definition expand (r : run) : list N := match r with Rle c v => repeat v c | Packed _ vs => vs end.

Definition vbytes (w : nat) : nat := (w + 7) / 8.   (* ceil(w/8): bytes of an RLE value *)

(* well-formed runs: what the format allows (counts fit the decoder's u32 counters, values fit the width) *)
Definition bounded (w : nat) (l : list N) : Prop := Forall (fun v => (v < 2^N.of_nat w)%N) l.
Definition wf_run (w : nat) (r : run) : Prop :=
  match r with
  | Rle c v => (0 < c)%nat /\ (N.of_nat c < 2147483648)%N /\ (v < 2^N.of_nat w)%N
  | Packed g vs => (0 < g)%nat /\ (N.of_nat g < 268435456)%N /\ length vs = (8 * g)%nat /\ bounded w vs
  end.

Definition ser (w : nat) (r : run) : list N :=
  match r with
  | Rle c v => vlq (2 * N.of_nat c) ++ le_bytes (vbytes w) v
  | Packed g vs => vlq (2 * N.of_nat g + 1) ++ bits_bytes (g * w) (pack w vs)
  end.

(* RleEncoder state; completed runs are kept abstractly and serialised at the end (every run is a
   whole number of bytes, so the BitWriter contents are exactly the concatenation of the runs;
   the back-patched 1-byte indicator equals the VLQ header because a bit-packed run has <= 63 groups) *)
Record rle_st := { r_out : list run;      (* completed runs, oldest first *)
                   r_bp : list N;         (* values already written into the open bit-packed run *)
                   r_buf : list N;        (* buffered_values[..num_buffered_values] *)
                   r_cur : N;             (* current_value *)
                   r_rc : nat }.          (* repeat_count *)
Definition rle_new : rle_st := {| r_out := []; r_bp := []; r_buf := []; r_cur := 0; r_rc := 0 |}.

Definition finish_bp (s : rle_st) : rle_st :=
  {| r_out := r_out s ++ [Packed (length (r_bp s) / 8) (r_bp s)]; r_bp := [];
     r_buf := r_buf s; r_cur := r_cur s; r_rc := r_rc s |}.

Definition flush_rle_run (s : rle_st) : rle_st :=
  {| r_out := r_out s ++ [Rle (r_rc s) (r_cur s)]; r_bp := r_bp s; r_buf := []; r_cur := r_cur s; r_rc := 0 |}.

Definition flush_buffered_values (s : rle_st) : rle_st :=
  if (8 <=? r_rc s)%nat then
    let s1 := {| r_out := r_out s; r_bp := r_bp s; r_buf := []; r_cur := r_cur s; r_rc := r_rc s |} in
    if (0 <? length (r_bp s))%nat then finish_bp s1 else s1
  else
    let s1 := {| r_out := r_out s; r_bp := r_bp s ++ r_buf s; r_buf := []; r_cur := r_cur s; r_rc := 0 |} in
    if (64 <=? length (r_bp s1) / 8 + 1)%nat then finish_bp s1 else s1.

Definition rle_push (s : rle_st) (v : N) : rle_st :=
  let s1 := {| r_out := r_out s; r_bp := r_bp s; r_buf := r_buf s ++ [v]; r_cur := r_cur s; r_rc := r_rc s |} in
  if (length (r_buf s1) =? 8)%nat then flush_buffered_values s1 else s1.

Definition rle_put (s : rle_st) (v : N) : rle_st :=
  if (r_cur s =? v)%N then
    let s1 := {| r_out := r_out s; r_bp := r_bp s; r_buf := r_buf s; r_cur := r_cur s; r_rc := S (r_rc s) |} in
    if (8 <? r_rc s1)%nat then s1 else rle_push s1 v
  else
    let s0 := if (8 <=? r_rc s)%nat then flush_rle_run s else s in
    rle_push {| r_out := r_out s0; r_bp := r_bp s0; r_buf := r_buf s0; r_cur := v; r_rc := 1 |} v.

Definition rle_flush (s : rle_st) : list run :=
  if ((0 <? length (r_bp s)) || (0 <? r_rc s) || (0 <? length (r_buf s)))%nat%bool then
    let all_repeat := ((length (r_bp s) =? 0) && ((r_rc s =? length (r_buf s)) || (length (r_buf s) =? 0)))%nat%bool in
    if ((0 <? r_rc s)%nat && all_repeat)%bool then r_out (flush_rle_run s)
    else
      let padded := if (0 <? length (r_buf s))%nat then r_buf s ++ repeat 0%N (8 - length (r_buf s)) else [] in
      r_out (finish_bp {| r_out := r_out s; r_bp := r_bp s ++ padded; r_buf := []; r_cur := r_cur s; r_rc := 0 |})
  else r_out s.

Definition rle_runs (vs : list N) : list run := rle_flush (fold_left rle_put vs rle_new).
Definition rle_encode (w : nat) (vs : list N) : list N := flat_map (ser w) (rle_runs vs).

(* RleDecoder: decode up to n values.  Follows reload()/get_batch(): header 0 or exhausted input
   stops; a bit-packed run delivers min(n, 8*groups, what the buffer still holds) values; an RLE run
   whose value bytes are missing is an error (None).  Fuel: every run consumes at least one byte. *)
Fixpoint rle_decode_aux (fuel : nat) (w : nat) (n : nat) (bs : list N) : option (list N) :=
  match fuel with
  | O => Some []
  | S fuel =>
    if (n =? 0)%nat then Some [] else
    match vlq_dec bs 0 0 with
    | None => Some []
    | Some (h, rest) =>
      if (h =? 0)%N then Some [] else
      if N.even h then
        let cN := ((h / 2) mod 2^32)%N in                          (* rle_left : u32 *)
        if (length rest <? vbytes w)%nat then None else
        let v := le_value (firstn (vbytes w) rest) in
        let k := N.to_nat (N.min (N.of_nat n) cN) in
        match rle_decode_aux fuel w (n - k) (skipn (vbytes w) rest) with
        | None => None
        | Some r => Some (repeat v k ++ r)
        end
      else
        let cN := (((h / 2) * 8) mod 2^32)%N in                    (* bit_packed_left : u32 *)
        let availN := if (w =? 0)%nat then cN else N.of_nat ((8 * length rest) / w) in
        let kN := N.min (N.min (N.of_nat n) cN) availN in
        let k := N.to_nat kN in
        if (k =? 0)%nat then rle_decode_aux fuel w n rest     (* truncated final block: run dropped *)
        else
          let vals := unpack w k (bytes_bits rest) in
          (* a run cut short by the end of the buffer leaves the reader at the next byte boundary *)
          let consumed := if (kN <? cN)%N then ((k * w + 7) / 8)%nat else (N.to_nat (cN / 8) * w)%nat in
          match rle_decode_aux fuel w (n - k) (skipn consumed rest) with
          | None => None
          | Some r => Some (vals ++ r)
          end
    end
  end.
(* set_data() performs the first reload(): a leading zero header is consumed there and ignored *)
Definition rle_decode (w n : nat) (bs : list N) : option (list N) :=
  let bs' := match vlq_dec bs 0 0 with
             | Some (h, rest) => if (h =? 0)%N then rest else bs
             | None => bs
             end in
  rle_decode_aux (S (length bs')) w n bs'.

(* S: one run after the other *)
Definition rle_decode_spec (n : nat) (runs : list run) : list N := firstn n (flat_map expand runs).

(* ------------------------------------------------------------------ PLAIN *)
Definition plain_int_enc (k : nat) (vs : list Z) : list N :=
  flat_map (fun z => le_bytes k (to_unsigned (8 * N.of_nat k) z)) vs.
Fixpoint chunks {A} (n k : nat) (l : list A) : list (list A) :=     (* n chunks of k elements *)
  match n with O => [] | S n => firstn k l :: chunks n k (skipn k l) end.
Definition plain_int_dec (k n : nat) (bs : list N) : option (list Z) :=
  if (length bs <? n * k)%nat then None
  else Some (map (fun c => to_signed (8 * N.of_nat k) (le_value c)) (chunks n k bs)).

Definition plain_bool_enc (vs : list bool) : list N := bits_to_bytes vs.
Definition plain_bool_dec (n : nat) (bs : list N) : list bool := firstn n (bytes_bits bs).

(* BYTE_ARRAY: 4-byte little-endian length then the bytes *)
Definition plain_ba_enc (vs : list (list N)) : list N :=
  flat_map (fun v => le_bytes 4 (N.of_nat (length v)) ++ v) vs.
Fixpoint plain_ba_dec (n : nat) (bs : list N) : option (list (list N)) :=
  match n with
  | O => Some []
  | S n => if (length bs <? 4)%nat then None else
           let len := N.to_nat (le_value (firstn 4 bs)) in
           let r := skipn 4 bs in
           if (length r <? len)%nat then None else
           match plain_ba_dec n (skipn len r) with
           | None => None
           | Some vs => Some (firstn len r :: vs)
           end
  end.

(* ------------------------------------------------------------------ DELTA_BINARY_PACKED *)
(* tw = 32 | 64: value width; mini block size = tw values, 4 mini blocks per block *)
Definition nbits (x : N) : nat := N.to_nat (N.size x).       (* num_required_bits *)

Fixpoint deltas_of (tw : N) (prev : Z) (vs : list Z) : list Z :=
  match vs with [] => [] | v :: r => wrap_s tw (v - prev) :: deltas_of tw v r end.

Definition zmin_list (d : Z) (l : list Z) : Z := fold_left Z.min l d.
Definition zmax_list (d : Z) (l : list Z) : Z := fold_left Z.max l d.

(* mini blocks of one block: per-miniblock bit width bytes and packed payload *)
Fixpoint enc_minis (k : nat) (tw : N) (mini : nat) (minv : Z) (ds : list Z) : list N * list N :=
  match k with
  | O => ([], [])
  | S k' =>
    match ds with
    | [] => (repeat 0%N k, [])                       (* n == 0: pad the remaining widths with 0 and stop *)
    | d0 :: _ =>
      let c := firstn mini ds in
      let maxv := zmax_list d0 c in
      let w := nbits (to_unsigned tw (maxv - minv)) in
      let packed := map (fun d => to_unsigned tw (d - minv)) c ++ repeat 0%N (mini - length c) in
      let '(ws, bs) := enc_minis k' tw mini minv (skipn mini ds) in
      (N.of_nat w :: ws, bits_bytes (mini * w / 8) (pack w packed) ++ bs)
    end
  end.

Definition enc_block (tw : N) (mini : nat) (ds : list Z) : list N :=
  match ds with
  | [] => []
  | d0 :: _ =>
    let minv := zmin_list d0 ds in
    let '(ws, bs) := enc_minis 4 tw mini minv ds in
    zz_vlq minv ++ ws ++ bs
  end.

Fixpoint enc_blocks (fuel : nat) (tw : N) (mini : nat) (ds : list Z) : list N :=
  match fuel with
  | O => []
  | S fuel => match ds with
              | [] => []
              | _ => enc_block tw mini (firstn (4 * mini) ds) ++ enc_blocks fuel tw mini (skipn (4 * mini) ds)
              end
  end.

Definition delta_encode (tw : N) (vs : list Z) : list N :=
  let mini := N.to_nat tw in
  let header first := vlq (N.of_nat (4 * mini)) ++ vlq 4 ++ vlq (N.of_nat (length vs)) ++ zz_vlq first in
  match vs with
  | [] => header 0%Z
  | v0 :: rest => header v0 ++ enc_blocks (length vs) tw mini (deltas_of tw v0 rest)
  end.

(* decoder: whole page at once (get() with a buffer of values_left); returns values and the unread rest
   (get_offset(): the end of the last block, including its padding) *)
Definition take_bytes (n : nat) (bs : list N) : option (list N * list N) :=
  if (length bs <? n)%nat then None else Some (firstn n bs, skipn n bs).

Fixpoint prefix_sums (tw : N) (last : Z) (minv : Z) (packed : list N) : list Z :=
  match packed with
  | [] => []
  | p :: r => let v := wrap_s tw (wrap_s tw (Z.of_N p + minv) + last) in v :: prefix_sums tw v minv r
  end.
Fixpoint progression (tw : N) (last delta minv : Z) (n : nat) : list Z :=
  match n with O => [] | S n => wrap_s tw (last + delta) :: progression tw last (wrap_s tw (delta + minv)) minv n end.

(* one mini block holding k (<= vpm) wanted values *)
Definition dec_mini (tw : N) (w : nat) (k : nat) (minv last : Z) (payload : list N) : list Z :=
  if (w =? 0)%nat then
    if (minv =? 0)%Z then repeat last k else progression tw last minv minv k
  else prefix_sums tw last minv (unpack w k (bytes_bits payload)).

Fixpoint dec_minis (tw : N) (vpm : nat) (minv : Z) (ws : list N) (last : Z) (remaining : nat) (bs : list N)
  : option (list Z * Z * list N) :=
  match ws with
  | [] => Some ([], last, bs)
  | wN :: ws' =>
    if (remaining =? 0)%nat then Some ([], last, bs)       (* trailing mini blocks: width forced to 0 *)
    else
      let w := N.to_nat wN in
      if (N.to_nat tw <? w)%nat then None else             (* check_bit_width *)
      match take_bytes (w * vpm / 8) bs with
      | None => None
      | Some (payload, rest) =>
        let k := Nat.min vpm remaining in
        let vals := dec_mini tw w k minv last payload in
        let last' := List.last vals last in
        match dec_minis tw vpm minv ws' last' (remaining - k) rest with
        | None => None
        | Some (more, l, r) => Some (vals ++ more, l, r)
        end
      end
  end.

Fixpoint dec_blocks (fuel : nat) (tw : N) (mpb vpm : nat) (last : Z) (remaining : nat) (bs : list N)
  : option (list Z * list N) :=
  match fuel with
  | O => Some ([], bs)
  | S fuel =>
    if (remaining =? 0)%nat then Some ([], bs) else
    match zz_vlq_dec bs with
    | None => None
    | Some (minv0, r1) =>
      let minv := minv0 in
      if negb (Z.eqb (wrap_s tw minv) minv) then None else       (* from_i64: 'min_delta' too large *)
      match take_bytes mpb r1 with
      | None => None
      | Some (ws, r2) =>
        match dec_minis tw vpm minv ws last remaining r2 with
        | None => None
        | Some (vals, last', r3) =>
          match dec_blocks fuel tw mpb vpm last' (remaining - length vals) r3 with
          | None => None
          | Some (more, r4) => Some (vals ++ more, r4)
          end
        end
      end
    end
  end.

Definition delta_decode (tw : N) (bs : list N) : option (list Z * list N) :=
  match vlq_dec bs 0 0 with None => None | Some (block_size, r1) =>
  match vlq_dec r1 0 0 with None => None | Some (mpb, r2) =>
  if (mpb =? 0)%N then None else
  match vlq_dec r2 0 0 with None => None | Some (total, r3) =>
  match zz_vlq_dec r3 with None => None | Some (first, r4) =>
  if negb (Z.eqb (wrap_s tw first) first) then None else
  if negb (block_size mod 128 =? 0)%N then None else
  if negb (block_size mod mpb =? 0)%N then None else
  let vpm := (block_size / mpb)%N in
  if negb (vpm mod 32 =? 0)%N then None else
  if (total =? 0)%N then Some ([], r4) else
  match dec_blocks (N.to_nat total) tw (N.to_nat mpb) (N.to_nat vpm) first (N.to_nat total - 1) r4 with
  | None => None
  | Some (vals, rest) => Some (first :: vals, rest)
  end end end end end.

(* ------------------------------------------------------------------ DELTA_LENGTH_BYTE_ARRAY / DELTA_BYTE_ARRAY *)
Definition dlba_encode (vs : list (list N)) : list N :=
  delta_encode 32 (map (fun v => Z.of_nat (length v)) vs) ++ concat vs.

Fixpoint split_lens (lens : list Z) (bs : list N) : option (list (list N)) :=
  match lens with
  | [] => Some []
  | l :: r => if (l <? 0)%Z then None else
              let n := Z.to_nat l in
              if (length bs <? n)%nat then None else
              match split_lens r (skipn n bs) with
              | None => None
              | Some vs => Some (firstn n bs :: vs)
              end
  end.
Definition dlba_decode (bs : list N) : option (list (list N)) :=
  match delta_decode 32 bs with
  | None => None
  | Some (lens, rest) => split_lens lens rest
  end.

Fixpoint common_prefix (a b : list N) : nat :=
  match a, b with
  | x :: a', y :: b' => if (x =? y)%N then S (common_prefix a' b') else O
  | _, _ => O
  end.
Fixpoint dba_split (prev : list N) (vs : list (list N)) : list Z * list (list N) :=
  match vs with
  | [] => ([], [])
  | v :: r => let c := common_prefix prev v in
              let '(ps, ss) := dba_split v r in
              (Z.of_nat c :: ps, skipn c v :: ss)
  end.
Definition dba_encode (vs : list (list N)) : list N :=
  let '(ps, ss) := dba_split [] vs in delta_encode 32 ps ++ dlba_encode ss.

Fixpoint dba_join (prev : list N) (ps : list Z) (ss : list (list N)) : option (list (list N)) :=
  match ps, ss with
  | [], _ => Some []
  | p :: ps', s :: ss' =>
    if (p <? 0)%Z then None else
    if (length prev <? Z.to_nat p)%nat then None else
    let v := firstn (Z.to_nat p) prev ++ s in
    match dba_join v ps' ss' with None => None | Some r => Some (v :: r) end
  | _ :: _, [] => None
  end.
Definition dba_decode (bs : list N) : option (list (list N)) :=
  match delta_decode 32 bs with
  | None => None
  | Some (ps, rest) =>
    match dlba_decode rest with
    | None => None
    | Some ss => dba_join [] ps ss
    end
  end.

(* ------------------------------------------------------------------ BYTE_STREAM_SPLIT (k bytes per value) *)
Definition bss_encode (k : nat) (vs : list (list N)) : list N :=
  flat_map (fun j => map (fun v => nth j v 0%N) vs) (seq 0 k).
Definition bss_decode (k n : nat) (bs : list N) : list (list N) :=
  map (fun i => map (fun j => nth (j * n + i) bs 0%N) (seq 0 k)) (seq 0 n).
