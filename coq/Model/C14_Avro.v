(* C14 — Avro resumable decoders (arrow-avro/src/reader/{vlq,block,header}.rs and the OCF
   Reader::read loop of reader/mod.rs), transcribed; plus their chunk-oblivious specifications.

   vlq_long      = VLQDecoder::long          (streaming zig-zag varint, state carried across calls)
   read_varint   = vlq::read_varint          (one-shot: 1-byte fast path, 10-byte array path, slow path)
   uleb          = S: ULEB128 value of a byte string with the 10-byte / 64-bit limit
   block_decode  = BlockDecoder::decode      (Count / Size / Data / Sync / Finished)
   brun1         = S: byte-at-a-time block automaton
   header_decode = HeaderDecoder::decode     (Magic / metadata map blocks / Sync)
   ocf_read      = read_header + Reader::read over a chunked BufRead, for files whose records
                   are a single Avro long (the case the correspondence run exercises)          *)
From Coq Require Import List Arith NArith ZArith Bool.
Import ListNotations.
Local Open Scope N_scope.

(* ------------------------------------------------------------------ zig-zag *)
(* (val >> 1) as i64 ^ -((val & 1) as i64) *)
Definition zigzag (val : N) : Z :=
  Z.lxor (Z.of_N (N.shiftr val 1)) (- Z.of_N (N.land val 1)).
(* S *)
Definition zz_dec (v : Z) : Z := if Z.even v then (v / 2)%Z else (- ((v + 1) / 2))%Z.

(* ------------------------------------------------------------------ VLQDecoder::long *)
Record vlq := MkVlq { v_acc : N (* in_progress: u64 *); v_shift : N (* shift: u32 *) }.
Definition vlq0 : vlq := MkVlq 0 0.
Inductive vres := VNone | VSome (z : Z) | VErr.

(* returns the decoder, the unconsumed rest of buf, and the result *)
Fixpoint vlq_long (st : vlq) (buf : list N) : vlq * list N * vres :=
  match buf with
  | [] => (st, [], VNone)
  | byte :: rest =>
      if (v_shift st =? 63) && (2 <=? byte) then (vlq0, buf, VErr)
      else
        let acc := N.lor (v_acc st) (N.shiftl (N.land byte 127) (v_shift st)) in
        if N.land byte 128 =? 0 then (vlq0, rest, VSome (zigzag acc))
        else vlq_long (MkVlq acc (v_shift st + 7)) rest
  end.

(* ------------------------------------------------------------------ S: ULEB128, at most 10 bytes, < 2^64 *)
(* value and the rest of the input; None = truncated, over-long or overflowing *)
Fixpoint uleb (n : nat) (bs : list N) (shift acc : N) : option (N * list N) :=
  match n, bs with
  | O, _ => None
  | _, [] => None
  | S n', b :: r =>
      if (shift =? 63) && (2 <=? b) then None
      else let acc' := acc + (b mod 128) * 2 ^ shift in
           if b <? 128 then Some (acc', r) else uleb n' r (shift + 7) acc'
  end.
Definition uleb10 (bs : list N) : option (N * list N) := uleb 10 bs 0 0.

(* ------------------------------------------------------------------ vlq::read_varint *)
Definition U64 : N := 2 ^ 64.

(* read_varint_array: bytes 0..8 with += / -= 0x80 << 7 idx, then byte 9 *)
Fixpoint rv_array_loop (idx : nat) (n : nat) (buf : list N) (acc : N) : option (N * nat) + N (* inr = fell through with acc *) :=
  match n with
  | O => inr acc
  | S n' =>
      match buf with
      | [] => inr acc
      | b :: r =>
          let acc1 := acc + N.shiftl b (7 * N.of_nat idx) in
          if b <? 128 then inl (Some (acc1, S idx))
          else rv_array_loop (S idx) n' r (acc1 - N.shiftl 128 (7 * N.of_nat idx))
      end
  end.
Definition read_varint_array (buf : list N) : option (N * nat) :=
  match rv_array_loop 0 9 buf 0 with
  | inl r => r
  | inr acc =>
      let b := nth 9 buf 0 in
      let acc' := (acc + (N.shiftl b 63) mod U64) in
      if b <? 2 then Some (acc', 10%nat) else None
  end.

(* read_varint_slow: value |= (byte & 0x7F) << (count*7) for at most 10 bytes *)
Fixpoint rv_slow_loop (count : nat) (n : nat) (buf : list N) (value : N) : option (N * nat) :=
  match n with
  | O => None
  | S n' =>
      match buf with
      | [] => None
      | b :: r =>
          let value' := N.lor value ((N.shiftl (N.land b 127) (N.of_nat count * 7)) mod U64) in
          if b <=? 127 then (if negb (Nat.eqb count 9) || (b <? 2) then Some (value', S count) else None)
          else rv_slow_loop (S count) n' r value'
      end
  end.
Definition read_varint_slow (buf : list N) : option (N * nat) := rv_slow_loop 0 10 buf 0.

Definition read_varint (buf : list N) : option (N * nat) :=
  match buf with
  | [] => None
  | first :: _ =>
      if first <? 128 then Some (first, 1%nat)
      else if (10 <=? length buf)%nat then read_varint_array (firstn 10 buf)
      else read_varint_slow buf
  end.

(* AvroCursor::get_long *)
Definition get_long (buf : list N) : option (Z * list N) :=
  match read_varint buf with
  | Some (v, k) => Some (zigzag v, skipn k buf)
  | None => None
  end.

(* `count` longs from a block payload (RecordDecoder::decode for the schema {x: long}) *)
Fixpoint get_longs (count : nat) (buf : list N) : option (list Z * list N) :=
  match count with
  | O => Some ([], buf)
  | S c => match get_long buf with
           | None => None
           | Some (z, r) => match get_longs c r with
                            | None => None
                            | Some (zs, r') => Some (z :: zs, r')
                            end
           end
  end.

(* ------------------------------------------------------------------ BlockDecoder *)
Inductive bstate := BCount | BSize | BData | BSync | BFinished.
Record bdec := MkBdec {
  bd_state : bstate;
  bd_count : N;          (* in_progress.count *)
  bd_data : list N;      (* in_progress.data *)
  bd_sync : list N;      (* the bytes of in_progress.sync filled so far *)
  bd_vlq : vlq;
  bd_rem : N             (* bytes_remaining *)
}.
Definition bdec0 : bdec := MkBdec BCount 0 [] [] vlq0 0.

(* min(rem, buf.len()) as a nat without ever converting a huge rem *)
Definition take_n (rem : N) (buf : list N) : nat :=
  if rem <? N.of_nat (length buf) then N.to_nat rem else length buf.

(* decode(&mut self, buf) -> Result<usize>: returns decoder, unconsumed rest, ok *)
Fixpoint block_decode (fuel : nat) (d : bdec) (buf : list N) : bdec * list N * bool :=
  match fuel with
  | O => (d, buf, true)
  | S fuel =>
    match buf with
    | [] => (d, [], true)
    | _ :: _ =>
      match bd_state d with
      | BCount =>
          match vlq_long (bd_vlq d) buf with
          | (v, rest, VSome c) =>
              if (c <? 0)%Z then (MkBdec BCount (bd_count d) (bd_data d) (bd_sync d) v (bd_rem d), rest, false)
              else block_decode fuel (MkBdec BSize (Z.to_N c) (bd_data d) (bd_sync d) v (bd_rem d)) rest
          | (v, rest, VNone) => block_decode fuel (MkBdec BCount (bd_count d) (bd_data d) (bd_sync d) v (bd_rem d)) rest
          | (v, rest, VErr) => (MkBdec BCount (bd_count d) (bd_data d) (bd_sync d) v (bd_rem d), rest, false)
          end
      | BSize =>
          match vlq_long (bd_vlq d) buf with
          | (v, rest, VSome c) =>
              if (c <? 0)%Z then (MkBdec BSize (bd_count d) (bd_data d) (bd_sync d) v (bd_rem d), rest, false)
              else block_decode fuel (MkBdec BData (bd_count d) (bd_data d) (bd_sync d) v (Z.to_N c)) rest
          | (v, rest, VNone) => block_decode fuel (MkBdec BSize (bd_count d) (bd_data d) (bd_sync d) v (bd_rem d)) rest
          | (v, rest, VErr) => (MkBdec BSize (bd_count d) (bd_data d) (bd_sync d) v (bd_rem d), rest, false)
          end
      | BData =>
          let k := take_n (bd_rem d) buf in
          let data := bd_data d ++ firstn k buf in
          let rem := bd_rem d - N.of_nat k in
          if rem =? 0 then block_decode fuel (MkBdec BSync (bd_count d) data (bd_sync d) (bd_vlq d) 16) (skipn k buf)
          else block_decode fuel (MkBdec BData (bd_count d) data (bd_sync d) (bd_vlq d) rem) (skipn k buf)
      | BSync =>
          let k := take_n (bd_rem d) buf in
          let sync := bd_sync d ++ firstn k buf in
          let rem := bd_rem d - N.of_nat k in
          if rem =? 0 then block_decode fuel (MkBdec BFinished (bd_count d) (bd_data d) sync (bd_vlq d) 0) (skipn k buf)
          else block_decode fuel (MkBdec BSync (bd_count d) (bd_data d) sync (bd_vlq d) rem) (skipn k buf)
      | BFinished => (d, buf, true)
      end
    end
  end.
Definition block_fuel (buf : list N) : nat := 2 * length buf + 3.

(* flush(): Some block exactly in state Finished; the decoder restarts at Count *)
Definition block_flush (d : bdec) : option (N * list N * list N) * bdec :=
  match bd_state d with
  | BFinished => (Some (bd_count d, bd_data d, bd_sync d), MkBdec BCount 0 [] [] (bd_vlq d) (bd_rem d))
  | _ => (None, d)
  end.

(* ------------------------------------------------------------------ S: byte-at-a-time block automaton *)
(* epsilon: a block with no payload moves on to the sync marker when the next byte arrives *)
Definition beps (d : bdec) : bdec :=
  match bd_state d with
  | BData => if bd_rem d =? 0 then MkBdec BSync (bd_count d) (bd_data d) (bd_sync d) (bd_vlq d) 16 else d
  | _ => d
  end.
(* consume one byte; None = Err *)
Definition bconsume (d : bdec) (b : N) : option bdec :=
  match bd_state d with
  | BCount =>
      match vlq_long (bd_vlq d) [b] with
      | (v, [], VSome c) => if (c <? 0)%Z then None else Some (MkBdec BSize (Z.to_N c) (bd_data d) (bd_sync d) v (bd_rem d))
      | (v, [], VNone) => Some (MkBdec BCount (bd_count d) (bd_data d) (bd_sync d) v (bd_rem d))
      | _ => None
      end
  | BSize =>
      match vlq_long (bd_vlq d) [b] with
      | (v, [], VSome c) => if (c <? 0)%Z then None else Some (MkBdec BData (bd_count d) (bd_data d) (bd_sync d) v (Z.to_N c))
      | (v, [], VNone) => Some (MkBdec BSize (bd_count d) (bd_data d) (bd_sync d) v (bd_rem d))
      | _ => None
      end
  | BData =>
      let rem := bd_rem d - 1 in
      if rem =? 0 then Some (MkBdec BSync (bd_count d) (bd_data d ++ [b]) (bd_sync d) (bd_vlq d) 16)
      else Some (MkBdec BData (bd_count d) (bd_data d ++ [b]) (bd_sync d) (bd_vlq d) rem)
  | BSync =>
      let rem := bd_rem d - 1 in
      if rem =? 0 then Some (MkBdec BFinished (bd_count d) (bd_data d) (bd_sync d ++ [b]) (bd_vlq d) 0)
      else Some (MkBdec BSync (bd_count d) (bd_data d) (bd_sync d ++ [b]) (bd_vlq d) rem)
  | BFinished => None
  end.
(* run until the input is exhausted, the block is complete, or an error: (state, rest, ok) *)
Fixpoint brun1 (d : bdec) (bs : list N) : bdec * list N * bool :=
  match bs with
  | [] => (d, [], true)
  | b :: r =>
      let d1 := beps d in
      match bd_state d1 with
      | BFinished => (d1, bs, true)
      | _ => match bconsume d1 b with
             | Some d2 => brun1 d2 r
             | None => (d1, bs, false)
             end
      end
  end.

(* ------------------------------------------------------------------ HeaderDecoder *)
Inductive hstate := HMagic | HBlockCount | HBlockLen | HKeyLen | HKey | HValueLen | HValue | HSync | HFinished.
Record hdec := MkHdec {
  hd_state : hstate;
  hd_vlq : vlq;
  hd_rem : N;            (* bytes_remaining (usize) *)
  hd_tuples : N;         (* tuples_remaining *)
  hd_meta : list (list N);  (* completed keys and values, in order *)
  hd_cur : list N;       (* the key / value being accumulated *)
  hd_sync : list N
}.
Definition MAGIC : list N := [79; 98; 106; 1].   (* b"Obj\x01" *)
Definition hdec0 : hdec := MkHdec HMagic vlq0 4 0 [] [] [].
Definition as_usize (z : Z) : N := Z.to_N (z mod 2 ^ 64)%Z.
Fixpoint starts_with (buf pre : list N) : bool :=
  match pre, buf with
  | [], _ => true
  | p :: pre', b :: buf' => N.eqb p b && starts_with buf' pre'
  | _ :: _, [] => false
  end.

Definition hset (d : hdec) (st : hstate) (v : vlq) (rem tuples : N) (meta : list (list N)) (cur sync : list N) : hdec :=
  MkHdec st v rem tuples meta cur sync.

Fixpoint header_decode (fuel : nat) (d : hdec) (buf : list N) : hdec * list N * bool :=
  match fuel with
  | O => (d, buf, true)
  | S fuel =>
    match buf with
    | [] => (d, [], true)
    | _ :: _ =>
      let '(MkHdec st v rem tuples meta cur sync) := d in
      match st with
      | HMagic =>
          let remaining := skipn (4 - N.to_nat rem) MAGIC in
          let k := Nat.min (length buf) (length remaining) in
          if negb (starts_with buf (firstn k remaining)) then (d, buf, false)
          else let rem' := rem - N.of_nat k in
               header_decode fuel (MkHdec (if rem' =? 0 then HBlockCount else HMagic) v rem' tuples meta cur sync) (skipn k buf)
      | HBlockCount =>
          match vlq_long v buf with
          | (v', rest, VSome c) =>
              if (c =? 0)%Z then header_decode fuel (MkHdec HSync v' 16 tuples meta cur sync) rest
              else if (0 <? c)%Z then header_decode fuel (MkHdec HKeyLen v' rem (Z.to_N c) meta cur sync) rest
              else header_decode fuel (MkHdec HBlockLen v' rem (Z.to_N (- c)) meta cur sync) rest
          | (v', rest, VNone) => header_decode fuel (MkHdec st v' rem tuples meta cur sync) rest
          | (v', rest, VErr) => (MkHdec st v' rem tuples meta cur sync, rest, false)
          end
      | HBlockLen =>
          match vlq_long v buf with
          | (v', rest, VSome _) => header_decode fuel (MkHdec HKeyLen v' rem tuples meta cur sync) rest
          | (v', rest, VNone) => header_decode fuel (MkHdec st v' rem tuples meta cur sync) rest
          | (v', rest, VErr) => (MkHdec st v' rem tuples meta cur sync, rest, false)
          end
      | HKeyLen =>
          match vlq_long v buf with
          | (v', rest, VSome c) => header_decode fuel (MkHdec HKey v' (as_usize c) tuples meta cur sync) rest
          | (v', rest, VNone) => header_decode fuel (MkHdec st v' rem tuples meta cur sync) rest
          | (v', rest, VErr) => (MkHdec st v' rem tuples meta cur sync, rest, false)
          end
      | HValueLen =>
          match vlq_long v buf with
          | (v', rest, VSome c) => header_decode fuel (MkHdec HValue v' (as_usize c) tuples meta cur sync) rest
          | (v', rest, VNone) => header_decode fuel (MkHdec st v' rem tuples meta cur sync) rest
          | (v', rest, VErr) => (MkHdec st v' rem tuples meta cur sync, rest, false)
          end
      | HKey =>
          let k := take_n rem buf in
          let cur' := cur ++ firstn k buf in
          let rem' := rem - N.of_nat k in
          if rem' =? 0 then header_decode fuel (MkHdec HValueLen v rem' tuples (meta ++ [cur']) [] sync) (skipn k buf)
          else header_decode fuel (MkHdec HKey v rem' tuples meta cur' sync) (skipn k buf)
      | HValue =>
          let k := take_n rem buf in
          let cur' := cur ++ firstn k buf in
          let rem' := rem - N.of_nat k in
          if rem' =? 0 then
            let tuples' := tuples - 1 in
            header_decode fuel (MkHdec (if tuples' =? 0 then HBlockCount else HKeyLen) v rem' tuples' (meta ++ [cur']) [] sync) (skipn k buf)
          else header_decode fuel (MkHdec HValue v rem' tuples meta cur' sync) (skipn k buf)
      | HSync =>
          let k := take_n rem buf in
          let sync' := sync ++ firstn k buf in
          let rem' := rem - N.of_nat k in
          header_decode fuel (MkHdec (if rem' =? 0 then HFinished else HSync) v rem' tuples meta cur sync') (skipn k buf)
      | HFinished => (d, buf, true)
      end
    end
  end.

(* ------------------------------------------------------------------ a chunked BufRead *)
(* the reader state is the list of chunks still to be read; fill_buf returns the first
   non-empty one, consume(n) drops n bytes from it *)
Fixpoint fill_buf (chunks : list (list N)) : list N * list (list N) :=
  match chunks with
  | [] => ([], [])
  | [] :: rest => fill_buf rest
  | c :: rest => (c, rest)
  end.

(* read_header: loop { buf = fill_buf; if empty break; decode; consume; if decoded != read break } *)
Fixpoint read_header (fuel : nat) (d : hdec) (chunks : list (list N)) (trace : list nat)
  : hdec * list (list N) * list nat * bool :=
  match fuel with
  | O => (d, chunks, trace, false)
  | S fuel =>
    let '(buf, rest) := fill_buf chunks in
    match buf with
    | [] => (d, [], trace, true)
    | _ :: _ =>
      let '(d', lft, ok) := header_decode (2 * length buf + 3) d buf in
      if negb ok then (d', rest, trace, false)
      else
        let decoded := (length buf - length lft)%nat in
        let chunks' := lft :: rest in
        if Nat.eqb decoded (length buf) then read_header fuel d' chunks' (trace ++ [decoded])
        else (d', chunks', trace ++ [decoded], true)
    end
  end.

Fixpoint list_eqb (a b : list N) : bool :=
  match a, b with
  | [], [] => true
  | x :: a', y :: b' => N.eqb x y && list_eqb a' b'
  | _, _ => false
  end.

(* Reader::read for the schema {x: long}, uncompressed, with a batch size larger than the file:
   status 0 = Ok, 1 = header error, 2 = block / record error, 3 = payload longer than its
   `count` records (the real reader does not terminate on such a block; never generated) *)
Fixpoint read_blocks (fuel : nat) (sync : list N) (d : bdec) (chunks : list (list N))
                     (trace : list nat) (vals : list Z) : list nat * list Z * Z :=
  match fuel with
  | O => (trace, vals, 2%Z)
  | S fuel =>
    let '(buf, rest) := fill_buf chunks in
    match buf with
    | [] => (trace, vals, 0%Z)                               (* finished = true *)
    | _ :: _ =>
      let '(d', lft, ok) := block_decode (block_fuel buf) d buf in
      if negb ok then (trace, [], 2%Z)
      else
        let consumed := (length buf - length lft)%nat in
        let trace' := trace ++ [consumed] in
        let chunks' := lft :: rest in
        match block_flush d' with
        | (Some (count, data, bsync), d'') =>
            if negb (list_eqb bsync sync) then (trace', [], 2%Z)
            else
              match data with
              | [] => read_blocks fuel sync d'' chunks' trace' vals     (* empty payload: next block *)
              | _ :: _ =>
                match get_longs (N.to_nat count) data with
                | None => (trace', [], 2%Z)
                | Some (zs, []) => read_blocks fuel sync d'' chunks' trace' (vals ++ zs)
                | Some (_, _ :: _) => (trace', [], 3%Z)
                end
              end
        | (None, d'') => read_blocks fuel sync d'' chunks' trace' vals
        end
    end
  end.

Definition ocf_read (chunks : list (list N)) : list nat * list Z * Z :=
  let total := length (concat chunks) in
  let '(h, chunks', trace, ok) := read_header (total + 2) hdec0 chunks [] in
  if negb ok then (trace, [], 1%Z)
  else match hd_state h with
       | HFinished => read_blocks (total + 3) (hd_sync h) bdec0 chunks' trace []
       | _ => (trace, [], 1%Z)
       end.

(* ------------------------------------------------------------------ S for the block phase of Reader::read *)
(* the same loop on the flat byte string (no chunks), driven by the byte automaton: values and status *)
Fixpoint blocks1 (fuel : nat) (sync : list N) (d : bdec) (bytes : list N) (vals : list Z) : list Z * Z :=
  match fuel with
  | O => (vals, 2%Z)
  | S fuel =>
    match bytes with
    | [] => (vals, 0%Z)
    | _ :: _ =>
      let '(d', lft, ok) := brun1 d bytes in
      if negb ok then ([], 2%Z)
      else
        match block_flush d' with
        | (Some (count, data, bsync), d'') =>
            if negb (list_eqb bsync sync) then ([], 2%Z)
            else
              match data with
              | [] => blocks1 fuel sync d'' lft vals
              | _ :: _ =>
                match get_longs (N.to_nat count) data with
                | None => ([], 2%Z)
                | Some (zs, []) => blocks1 fuel sync d'' lft (vals ++ zs)
                | Some (_, _ :: _) => ([], 3%Z)
                end
              end
        | (None, _) => (vals, 0%Z)          (* input exhausted inside a block *)
        end
    end
  end.
