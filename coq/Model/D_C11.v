(* C11 dispatch table: wraps the row-format model in the uniform case interface.

   Arguments of every c11 op (groups):
     0  field types, pre-order, 4 integers per node: code, param, variant, dict
          code 0 signed int (param = width in bytes)   1 unsigned int (width)   2 bool
               3 float (width)   4 FixedSizeBinary (param = n)   5 variable-length bytes
               6 struct (param = number of children, which follow)   7 list (child follows)
               8 FixedSizeList (param = n, child follows)   9 RunEndEncoded (child follows)
               11 interval: param 0 = IntervalDayTime (days i32, milliseconds i32),
                  param 1 = IntervalMonthDayNano (months i32, days i32, nanoseconds i64)
               10 Map (key and value types follow): not modelled byte for byte; the *.spec ops read it
                  as List<Struct<key, value>> (entries are never null), the byte-level ops are not used
          variant / dict select the concrete Arrow type on the Rust side (Date32, Decimal128, Utf8,
          LargeBinary, views, dictionary key type, …) and do not influence the row format.
     1  sort options per field: descending, nulls_first, …
     2  number of rows
     3  values, row-major; per value (pre-order): 0 = null | 1 then
          int/bool/float: the value (floats: bit pattern)    bytes: length, bytes
          struct: the children    list / fixed-size list: element count, elements
          interval: the signed components in declaration order
          (RunEndEncoded has no token of its own: the value of the child type)
     4  physical layout parameters of the Rust arrays (slice offsets, seeds, split, flags): ignored here
     5  row selection (roundtrip only) *)
From Coq Require Import List ZArith NArith String Bool.
From AV Require Import Base.Codec Model.C11_Row.
Import ListNotations.
Local Open Scope Z_scope.

Fixpoint parse_type (fuel : nat) (toks : list Z) : option (ftype * list Z) :=
  match fuel with
  | O => None
  | S f =>
    match toks with
    | code :: p :: _ :: _ :: r =>
      let one (mk : ftype -> ftype) :=
        match parse_type f r with Some (c, r') => Some (mk c, r') | None => None end in
      if code =? 0 then Some (TInt (Z.to_nat p), r)
      else if code =? 1 then Some (TUInt (Z.to_nat p), r)
      else if code =? 2 then Some (TBool, r)
      else if code =? 3 then Some (TFloat (Z.to_nat p), r)
      else if code =? 4 then Some (TFsb (Z.to_nat p), r)
      else if code =? 5 then Some (TVar, r)
      else if code =? 6 then
        match (fix kids (k : nat) (r : list Z) : option (list ftype * list Z) :=
                 match k with
                 | O => Some ([], r)
                 | S k' =>
                   match parse_type f r with
                   | Some (t, r') =>
                     match kids k' r' with Some (ts, r'') => Some (t :: ts, r'') | None => None end
                   | None => None
                   end
                 end) (Z.to_nat p) r with
        | Some (ts, r') => Some (TStruct ts, r')
        | None => None
        end
      else if code =? 7 then one TList
      else if code =? 8 then one (fun c => TFsl c (Z.to_nat p))
      else if code =? 9 then one TRee
      else if code =? 11 then Some (TIv (if p =? 0 then [4%nat; 4%nat] else [4%nat; 4%nat; 8%nat]), r)
      else if code =? 10 then
        (* Map(key, value): specification only, as List<Struct<key, value>> *)
        match parse_type f r with
        | Some (k, r') =>
          match parse_type f r' with
          | Some (v, r'') => Some (TList (TStruct [k; v]), r'')
          | None => None
          end
        | None => None
        end
      else None
    | _ => None
    end
  end.

Fixpoint parse_types (fuel : nat) (toks : list Z) : option (list ftype) :=
  match fuel with
  | O => None
  | S f =>
    match toks with
    | [] => Some []
    | _ => match parse_type (List.length toks) toks with
           | Some (t, r) => match parse_types f r with Some ts => Some (t :: ts) | None => None end
           | None => None
           end
    end
  end.

Fixpoint parse_opts (l : list Z) : list opts :=
  match l with
  | d :: n :: r => mkOpts (negb (d =? 0)) (negb (n =? 0)) :: parse_opts r
  | _ => []
  end.

Fixpoint parse_n {A} (k : nat) (p : list Z -> A * list Z) (toks : list Z) : list A * list Z :=
  match k with
  | O => ([], toks)
  | S k' => let (v, r) := p toks in let (vs, r') := parse_n k' p r in (v :: vs, r')
  end.

Fixpoint parse_value (t : ftype) (toks : list Z) {struct t} : value * list Z :=
  match t with
  | TRee c => parse_value c toks
  | _ =>
    match toks with
    | [] => (VNull, [])
    | tag :: r =>
      if tag =? 0 then (VNull, r) else
      match t with
      | TInt _ | TUInt _ | TBool | TFloat _ =>
        match r with z :: r' => (VInt z, r') | [] => (VNull, []) end
      | TFsb _ | TVar =>
        match r with
        | len :: r' => (VBytes (map Z.to_N (firstn (Z.to_nat len) r')), skipn (Z.to_nat len) r')
        | [] => (VNull, [])
        end
      | TStruct fs =>
        let (vs, r') :=
          (fix go (fs : list ftype) (r : list Z) : list value * list Z :=
             match fs with
             | [] => ([], r)
             | f :: fs' => let (v, r1) := parse_value f r in let (vs, r2) := go fs' r1 in (v :: vs, r2)
             end) fs r in
        (VStruct vs, r')
      | TList c | TFsl c _ =>
        match r with
        | n :: r' => let (vs, r'') := parse_n (Z.to_nat n) (parse_value c) r' in (VList vs, r'')
        | [] => (VNull, [])
        end
      | TIv ws => (VStruct (map VInt (firstn (List.length ws) r)), skipn (List.length ws) r)
      | TRee _ => (VNull, r)
      end
    end
  end.

Fixpoint parse_row (ts : list ftype) (toks : list Z) : list value * list Z :=
  match ts with
  | [] => ([], toks)
  | t :: ts' => let (v, r) := parse_value t toks in let (vs, r') := parse_row ts' r in (v :: vs, r')
  end.

Fixpoint unparse_value (t : ftype) (v : value) {struct t} : list Z :=
  match t with
  | TRee c => unparse_value c v
  | _ =>
    match v with
    | VNull => [0]
    | VInt z => [1; z]
    | VBytes b => 1 :: Z.of_nat (List.length b) :: map Z.of_N b
    | VStruct vs =>
      match t with
      | TStruct fs =>
        1 :: (fix go (fs : list ftype) (vs : list value) : list Z :=
                match fs with
                | [] => []
                | f :: fs' => unparse_value f (hd VNull vs) ++ go fs' (tl vs)
                end) fs vs
      | TIv _ => 1 :: map vint vs
      | _ => [0]
      end
    | VList vs =>
      match t with
      | TList c | TFsl c _ => 1 :: Z.of_nat (List.length vs) :: flat_map (unparse_value c) vs
      | _ => [0]
      end
    end
  end.

Fixpoint unparse_row (ts : list ftype) (vs : list value) : list Z :=
  match ts with
  | [] => []
  | t :: ts' => unparse_value t (hd VNull vs) ++ unparse_row ts' (tl vs)
  end.

Record batch := mkBatch { b_fields : list field; b_rows : list (list value) }.

Definition parse_batch (a : args) : option batch :=
  let tt := arg 0 a in
  match parse_types (S (List.length tt)) tt with
  | None => None
  | Some ts =>
    let os := parse_opts (arg 1 a) in
    if negb (Nat.eqb (List.length ts) (List.length os)) then None else
    let (rows, _) := parse_n (argn 2 a) (parse_row ts) (arg 3 a) in
    Some (mkBatch (combine ts os) rows)
  end.

Definition zcmp (c : comparison) : Z := match c with Lt => -1 | Eq => 0 | Gt => 1 end.

Fixpoint bytes_eqb (x y : list N) : bool :=
  match x, y with [], [] => true | p :: x', q :: y' => N.eqb p q && bytes_eqb x' y' | _, _ => false end.

(* c11.rows: the encoded bytes of every row, one group per row *)
Definition d_rows (a : args) : list (list Z) :=
  match parse_batch a with
  | None => err_out 3
  | Some b => map (fun r => zs_of_bytes (enc_row (b_fields b) r)) (b_rows b)
  end.

(* c11.cmp: all-pairs byte comparison / byte equality of the model's rows *)
Definition d_cmp (a : args) : list (list Z) :=
  match parse_batch a with
  | None => err_out 3
  | Some b =>
    let rs := map (enc_row (b_fields b)) (b_rows b) in
    [ flat_map (fun x => map (fun y => zcmp (lex x y)) rs) rs;
      flat_map (fun x => map (fun y => zb (bytes_eqb x y)) rs) rs ]
  end.

(* c11.cmp.spec: all-pairs logical comparison / logical equality of the value tuples *)
Definition s_cmp (a : args) : list (list Z) :=
  match parse_batch a with
  | None => err_out 3
  | Some b =>
    let rs := b_rows b in
    [ flat_map (fun x => map (fun y => zcmp (row_cmp (b_fields b) x y)) rs) rs;
      flat_map (fun x => map (fun y => zb (row_eqb x y)) rs) rs ]
  end.

(* c11.roundtrip: decode (model decoder) the model's bytes of the selected rows *)
Definition d_roundtrip (a : args) : list (list Z) :=
  match parse_batch a with
  | None => err_out 3
  | Some b =>
    let ts := map fst (b_fields b) in
    [ flat_map (fun i => unparse_row ts (dec_row (b_fields b) (enc_row (b_fields b) (nth (Z.to_nat i) (b_rows b) []))))
        (arg 5 a) ]
  end.

(* c11.roundtrip.spec: the selected rows themselves *)
Definition s_roundtrip (a : args) : list (list Z) :=
  match parse_batch a with
  | None => err_out 3
  | Some b =>
    let ts := map fst (b_fields b) in
    [ flat_map (fun i => unparse_row ts (nth (Z.to_nat i) (b_rows b) [])) (arg 5 a) ]
  end.

Definition ops_C11 : list (string * opfun) :=
  [ ("c11.rows"%string, d_rows);
    ("c11.cmp"%string, d_cmp); ("c11.cmp.spec"%string, s_cmp);
    ("c11.roundtrip"%string, d_roundtrip); ("c11.roundtrip.spec"%string, s_roundtrip) ].
