(* C10 dispatch table: wraps the C10 models in the uniform case interface.

   A COLUMN is three groups  [type] [layout] [n; tokens...]:
     type   = prefix-serialised arrow type (harness only; the model reads it just to pick the byte
              comparison flavour of the physical type: 15 = Utf8View, 18 = BinaryView);
     layout = physical-layout choices of the harness (offsets, garbage under nulls, ...): IGNORED here;
     values = n, then n logical slot values as prefix tokens:
              0 = null | 1 z = integer/decimal/boolean(0,1) | 2 w bits = float of width w, bit pattern
              | 3 k b1..bk = bytes | 4 k v1..vk = list / struct of k (nullable) children.
   Options are a group [nulls_first; descending]; an optional limit is an empty or one-element group. *)
From Coq Require Import List ZArith NArith String Bool Arith.
From AV Require Import Base.Codec Model.C10_Order Model.C10_Sort Model.C10_Rank Model.C10_Heap Model.C10_Dict.
Import ListNotations.
Local Open Scope string_scope.

Fixpoint parse_vals (fuel : nat) (k : nat) (l : list Z) : list oval * list Z :=
  match fuel, k with
  | O, _ => ([], l)
  | _, O => ([], l)
  | S f, S k' =>
      let '(v, r) :=
        match l with
        | t :: r =>
            if (t =? 1)%Z then match r with z :: r' => (Some (VInt z), r') | [] => (None, []) end
            else if (t =? 2)%Z then match r with w :: b :: r' => (Some (VFloat (2 ^ (w - 1)) b), r') | _ => (None, []) end
            else if (t =? 3)%Z then match r with n :: r' => (Some (VBytes (firstn (Z.to_nat n) r')), skipn (Z.to_nat n) r') | [] => (None, []) end
            else if (t =? 4)%Z then match r with n :: r' => let '(vs, r'') := parse_vals f (Z.to_nat n) r' in (Some (VList vs), r'') | [] => (None, []) end
            else (None, r)
        | [] => (None, [])
        end in
      let '(vs, r') := parse_vals f k' r in (v :: vs, r')
  end.
Definition parse_col (g : list Z) : list oval :=
  match g with
  | n :: toks => fst (parse_vals (2 * List.length toks + 2) (Z.to_nat n) toks)
  | [] => []
  end.

Fixpoint ser_val (fuel : nat) (o : oval) : list Z :=
  match fuel with
  | O => []
  | S f =>
      match o with
      | None => [0%Z]
      | Some (VInt z) => [1%Z; z]
      | Some (VFloat h b) => [2%Z; (Z.log2 h + 1)%Z; b]
      | Some (VBytes l) => 3%Z :: Z.of_nat (List.length l) :: l
      | Some (VList l) => 4%Z :: Z.of_nat (List.length l) :: flat_map (ser_val f) l
      end
  end.
Definition ser_col (l : list oval) : list Z := Z.of_nat (List.length l) :: flat_map (ser_val 64) l.

Definition is_view (ty : list Z) : bool := existsb (fun t => (t =? 15)%Z || (t =? 18)%Z) ty.
Definition bc_of (ty : list Z) : list Z -> list Z -> comparison := if is_view ty then view_cmp else bytes_cmp.
Definition zc (c : comparison) : Z := match c with Lt => (-1)%Z | Eq => 0%Z | Gt => 1%Z end.
Definition optn (g : list Z) : option nat := match g with z :: _ => Some (Z.to_nat z) | [] => None end.
Definition nats_of (g : list Z) : list nat := map Z.to_nat g.
Definition ok_out (code : Z) : list (list Z) := if (code =? 1)%Z then [[1%Z]] else [[0%Z; code]].

Definition desc_of (g : list Z) : bool := negb (Z.eqb (nth 1 g 0%Z) 0).
Definition nf_of (g : list Z) : bool := negb (Z.eqb (nth 0 g 0%Z) 0).

Definition opts4 : list (bool * bool) := [(false, false); (false, true); (true, false); (true, true)].

(* ---- cmp: [type] [layout a] [values a] [layout b] [values b] -> for each (nulls_first, descending) in
        (0,0) (0,1) (1,0) (1,1): the n_a x n_b matrix of signs, row-major *)
Definition matrix (f : nat -> nat -> comparison) (na nb : nat) : list Z :=
  flat_map (fun i => map (fun j => zc (f i j)) (seq 0 nb)) (seq 0 na).
Definition d_cmp (a : args) : list (list Z) :=
  let ty := arg 0 a in let x := parse_col (arg 2 a) in let y := parse_col (arg 4 a) in
  map (fun o : bool * bool => matrix (m_cmp_idx (bc_of ty) (fst o) (snd o) x y) (List.length x) (List.length y)) opts4.
Definition s_cmp (a : args) : list (list Z) :=
  let x := parse_col (arg 2 a) in let y := parse_col (arg 4 a) in
  map (fun o : bool * bool => matrix (cmp_idx (fst o) (snd o) x y) (List.length x) (List.length y)) opts4.

(* ---- sort_check: [type] [layout] [values] [nf; desc] [limit?] [out] -> [1] | [0; code] *)
Definition s_sort_check (a : args) : list (list Z) :=
  let x := parse_col (arg 2 a) in
  ok_out (sort_check (cmp_opts (nf_of (arg 3 a)) (desc_of (arg 3 a))) x (optn (arg 4 a)) (nats_of (arg 5 a))).

(* ---- sort_to_indices: [type] [layout] [values] [nf; desc] [limit?] -> canonical indices (first Equal row) *)
Definition m_value_cmp (ty : list Z) : val -> val -> comparison :=
  if existsb (fun t => (t =? 13)%Z || (t =? 14)%Z || (t =? 16)%Z || (t =? 17)%Z) ty
  then (fun a b => match a, b with VBytes x, VBytes y => cmp_bytes_prefix x y | _, _ => m_vcmp bytes_cmp false a b end)
  else m_vcmp (bc_of ty) false.
Definition d_sort_to_indices (a : args) : list (list Z) :=
  let x := parse_col (arg 2 a) in let nf := nf_of (arg 3 a) in let desc := desc_of (arg 3 a) in
  let out := sort_to_indices (V := val) isort iselect (m_value_cmp (arg 0 a)) (val_of x) x nf desc (optn (arg 4 a)) in
  [ zs_of_nats (canon (cmp_opts nf desc) x out) ].

(* ---- sort_dictionary: [value type] [layout] [keys: -1 = null key, else index] [dictionary values column] [nf; desc] [limit?]
        -> sort_to_indices of the Dictionary<Int32, _> array, canonical indices (first Equal logical row) *)
Definition keys_of (g : list Z) : list (option nat) := map (fun z => if (z <? 0)%Z then None else Some (Z.to_nat z)) g.
Definition d_sort_dictionary (a : args) : list (list Z) :=
  let keys := keys_of (arg 2 a) in let values := parse_col (arg 3 a) in
  let nf := nf_of (arg 4 a) in let desc := desc_of (arg 4 a) in
  [ zs_of_nats (canon (cmp_opts nf desc) (dict_col keys values)
                  (sort_dictionary isort iselect keys values nf desc (optn (arg 5 a)))) ].

(* ---- sort (values): [type] [layout] [values] [nf; desc] [limit?] -> [n; tokens] of the sorted column *)
Definition s_sort (a : args) : list (list Z) :=
  let x := parse_col (arg 2 a) in
  [ ser_col (sorted_rows (cmp_opts (nf_of (arg 3 a)) (desc_of (arg 3 a))) x (optn (arg 4 a))) ].

(* ---- lexsort_check: [ncols] ([type] [layout] [values] [nf; desc])^ncols [limit?] [out] -> [1] | [0; code] *)
Fixpoint get_cols (k : nat) (stride : nat) (a : args) : list (list (list Z)) :=
  match k with O => [] | S k' => firstn stride a :: get_cols k' stride (skipn stride a) end.
(* rows are row numbers; the comparator is LexicographicalComparator::compare = [lex_idx] over the columns *)
Definition s_lexsort_check (a : args) : list (list Z) :=
  let k := argn 0 a in
  let cs := get_cols k 4 (tl a) in
  let cols : list column := map (fun c => (nf_of (arg 3 c), desc_of (arg 3 c), parse_col (arg 2 c))) cs in
  let rest := skipn (4 * k) (tl a) in
  let n := match cols with (_, _, c0) :: _ => List.length c0 | [] => O end in
  ok_out (sort_check (lex_idx cols) (seq 0 n) (optn (arg 0 rest)) (nats_of (arg 1 rest))).

(* ---- lexsort_topk: [ncols] ([type] [layout] [values] [nf; desc])^ncols [limit] -> the bounded-heap path of
        lexsort_to_indices (limit <= n/10, >= 2 columns), each index replaced by the first row that compares Equal *)
Definition d_lexsort_topk (a : args) : list (list Z) :=
  let k := argn 0 a in
  let cs := get_cols k 4 (tl a) in
  let cols : list column := map (fun c => (nf_of (arg 3 c), desc_of (arg 3 c), parse_col (arg 2 c))) cs in
  let rest := skipn (4 * k) (tl a) in
  let n := match cols with (_, _, c0) :: _ => List.length c0 | [] => O end in
  [ zs_of_nats (canon (lex_idx cols) (seq 0 n) (lexsort_topk isort n (argn 0 rest) (lex_idx cols))) ].

(* ---- partial_sort_check: [values (integers)] [limit] [out: the index vector after partial_sort] -> [1] | [0; code]
        out must be a permutation of 0..n whose first `limit` entries satisfy the sort predicate *)
Definition s_partial_sort_check (a : args) : list (list Z) :=
  let rows := arg 0 a in let limit := argn 1 a in let out := nats_of (arg 2 a) in
  let n := List.length rows in
  if negb (List.length out =? n)%nat then ok_out 2
  else match mark_all out (repeat false n) with
       | None => ok_out 4
       | Some _ => ok_out (sort_check Z.compare rows (Some limit) (firstn limit out))
       end.

(* ---- rank: [type] [layout] [values] [nf; desc] -> [ranks] *)
(* ArrowNativeTypeOp::is_eq / PartialEq::eq of the rankable types (floats: to_bits() == to_bits()) *)
Definition val_eqb (a b : val) : bool :=
  match a, b with
  | VInt x, VInt y => (x =? y)%Z
  | VFloat h x, VFloat h' y => (h =? h')%Z && (x =? y)%Z
  | VBytes x, VBytes y => list_eqb x y
  | _, _ => false
  end.
Definition d_rank (a : args) : list (list Z) :=
  let x := parse_col (arg 2 a) in let nf := nf_of (arg 3 a) in let desc := desc_of (arg 3 a) in
  if existsb (fun t => (t =? 12)%Z) (arg 0 a) then [ zs_of_nats (boolean_rank nf desc x) ]
  else [ zs_of_nats (rank_m isort (vcmp false) (fun u v => is_eq_c (vcmp false u v)) nf desc x) ].
Definition s_rank (a : args) : list (list Z) :=
  let x := parse_col (arg 2 a) in
  [ zs_of_nats (rank_spec (vcmp false) (nf_of (arg 3 a)) (desc_of (arg 3 a)) x) ].

(* ---- partition: [ncols] ([type] [layout] [values])^ncols -> [s0; e0; s1; e1; ...] *)
Definition flat_ranges (l : list (nat * nat)) : list Z :=
  flat_map (fun p : nat * nat => [Z.of_nat (fst p); Z.of_nat (snd p)]) l.
Definition part_cols (a : args) : list (list oval) :=
  map (fun c => parse_col (arg 2 c)) (get_cols (argn 0 a) 3 (tl a)).
Definition d_partition (a : args) : list (list Z) := [ flat_ranges (partition_m (part_cols a)) ].
Definition s_partition (a : args) : list (list Z) := [ flat_ranges (partition_spec (part_cols a)) ].

(* ---- kernel: [type] [layout l] [values l] [layout r] [values r] [l_scalar; r_scalar]
        -> for each op in eq neq lt lt_eq gt gt_eq distinct not_distinct: [validity bits] [value bits, 0 under null]
        | [-1; 3] when the lengths differ and neither side is a scalar *)
Definition all_ops8 : list cop := [OEq; ONeq; OLt; OLe; OGt; OGe; ODistinct; ONotDistinct].
Definition ser_obools (l : list (option bool)) : list (list Z) :=
  [ map (fun o : option bool => match o with Some _ => 1%Z | None => 0%Z end) l;
    map (fun o : option bool => match o with Some true => 1%Z | _ => 0%Z end) l ].
Definition m_is_eq (ty : list Z) (a b : val) : bool :=
  match a, b with
  | VBytes x, VBytes y => if is_view ty then view_eq x y else list_eqb x y
  | _, _ => val_eqb a b
  end.
Definition m_is_lt (ty : list Z) (a b : val) : bool := is_lt_c (m_vcmp (bc_of ty) false a b).
Definition d_kernel (a : args) : list (list Z) :=
  let ty := arg 0 a in let l := parse_col (arg 2 a) in let r := parse_col (arg 4 a) in
  let l_s := nf_of (arg 5 a) in let r_s := desc_of (arg 5 a) in
  match compare_op (m_is_eq ty) (m_is_lt ty) OEq l_s r_s l r with
  | None => err_out 3
  | Some _ =>
      flat_map (fun op => match compare_op (m_is_eq ty) (m_is_lt ty) op l_s r_s l r with
                          | Some res => ser_obools res | None => [] end) all_ops8
  end.
Definition s_kernel (a : args) : list (list Z) :=
  let l := parse_col (arg 2 a) in let r := parse_col (arg 4 a) in
  let l_s := nf_of (arg 5 a) in let r_s := desc_of (arg 5 a) in
  if negb (List.length l =? List.length r)%nat && negb l_s && negb r_s then err_out 3
  else flat_map (fun op => ser_obools (kernels_spec op l_s r_s l r)) all_ops8.

(* ---- float_key: [w] [bit patterns...] -> [keys] ; spec: the matrix of totalOrder signs *)
Definition d_float_key (a : args) : list (list Z) :=
  let w := argz 0 a in let xs := arg 1 a in
  [ matrix (fun i j => total_cmp_key w (nth i xs 0%Z) (nth j xs 0%Z)) (List.length xs) (List.length xs) ].
Definition s_float_key (a : args) : list (list Z) :=
  let w := argz 0 a in let xs := arg 1 a in
  [ matrix (fun i j => total_order (2 ^ (w - 1)) (nth i xs 0%Z) (nth j xs 0%Z)) (List.length xs) (List.length xs) ].

Definition ops_C10 : list (string * opfun) :=
  [ ("c10.cmp", d_cmp); ("c10.cmp.spec", s_cmp);
    ("c10.sort_check.spec", s_sort_check);
    ("c10.sort_to_indices", d_sort_to_indices);
    ("c10.sort.spec", s_sort);
    ("c10.sort_dictionary", d_sort_dictionary);
    ("c10.lexsort_check.spec", s_lexsort_check);
    ("c10.lexsort_topk", d_lexsort_topk);
    ("c10.partial_sort_check.spec", s_partial_sort_check);
    ("c10.rank", d_rank); ("c10.rank.spec", s_rank);
    ("c10.partition", d_partition); ("c10.partition.spec", s_partition);
    ("c10.kernel", d_kernel); ("c10.kernel.spec", s_kernel);
    ("c10.float_key", d_float_key); ("c10.float_key.spec", s_float_key) ].
