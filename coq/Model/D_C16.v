(* C16 dispatch table.

   c16.hist : args = [h_0; d_0; h_1; d_1; ...]  one operation per pair of groups:
              h = [code; a; b; c; tid], d = payload bytes (ops 0,1,2) else [].
              tid = 0: operation of the main thread, observed right after it;
              tid > 0: operation executed on thread tid; a maximal run of tid > 0 operations is a
              parallel phase, observed once after the join (flag reported as 0).
   output   : five groups per observation:
              [flag; pool.used()] ; drop counters of the custom owners (creation order) ;
              release-callback counters of the exported structures (creation order) ;
              changed slots since the previous observation ([idx; -1] died, [idx; n; view(n items)]) ;
              Buffer::strong_count of every buffer of every live shareable object.
   c16.hist.post : the property as a predicate on (args, observed trace), see [post_ok]. *)
From Coq Require Import List ZArith NArith String Bool Arith.
From AV Require Import Base.Codec Model.C16_Own.
Import ListNotations.

(* sizes and slot numbers are small; anything larger is a lane value, only used through o_zb / o_zc *)
Definition zn (l : list Z) (k : nat) : nat :=
  let z := nth k l 0%Z in if (z <? 1048576)%Z then Z.to_nat z else 0%nat.

Fixpoint decode_ops (a : args) : list op :=
  match a with
  | h :: d :: t => mkOp (zn h 0) (zn h 1) (zn h 2) (zn h 3) (zn h 4) d (nth 2 h 0%Z) (nth 3 h 0%Z) :: decode_ops t
  | _ => []
  end.

Definition observed (p : op) (rest : list op) : bool :=
  (o_tid p =? 0)%nat || match rest with [] => true | q :: _ => (o_tid q =? 0)%nat end.

Fixpoint run_obs (ops : list op) (s : state) (prev : list (option (list Z))) : list (list Z) :=
  match ops with
  | [] => []
  | p :: t =>
      let s' := step s p in
      if observed p t then
        let vs := views s' in
        [ (if (o_tid p =? 0)%nat then step_flag s p else 0%Z); pool s' ]
          :: cust_counters s' :: exp_counters s' :: delta 0 prev vs :: strong_counts s' :: run_obs t s' vs
      else run_obs t s' prev
  end.

Definition d_hist (a : args) : list (list Z) := run_obs (decode_ops a) init [].

(* ------------------------------------------------------------------ the property on a trace *)
(* entries of a delta group: (slot, None = died | Some view) *)
Fixpoint parse_delta (fuel : nat) (l : list Z) : list (nat * option (list Z)) :=
  match fuel with
  | O => []
  | S f =>
      match l with
      | i :: n :: t =>
          if (n <? 0)%Z then (Z.to_nat i, None) :: parse_delta f t
          else (Z.to_nat i, Some (firstn (Z.to_nat n) t)) :: parse_delta f (skipn (Z.to_nat n) t)
      | _ => []
      end
  end.

(* slots an operation is allowed to change: its target, the validity slot consumed by the array
   constructors (11, 13), and slots created since the previous observation *)
Definition op_targets (p : op) : list nat :=
  o_a p :: match o_code p with 11 | 13 => [o_b p] | _ => [] end.

Definition counters_ok (prev cur : list Z) : bool :=
  forallb (fun c => (c =? 0)%Z || (c =? 1)%Z) cur
  && (List.length prev <=? List.length cur)%nat
  && forallb (fun pc : Z * Z => (fst pc <=? snd pc)%Z) (combine prev cur).

Definition upd_live (live : list bool) (d : list (nat * option (list Z))) : list bool :=
  fold_left (fun lv e =>
               let i := fst e in
               let lv' := lv ++ repeat false (S i - List.length lv) in
               upd_nth i (match snd e with Some _ => true | None => false end) lv') d live.

(* walk the operations and the observation groups together.
   nslots = number of slots at the previous observation; cur = slots created so far;
   allowed = targets accumulated in the current phase *)
(* operations that may create, resize or free a reservation (claim, truncate, into_vec) or free a region
   (drop, the copy paths of the in-place kernels, import / stream next releasing a structure) *)
Definition pool_may_change (code : nat) : bool :=
  match code with 5 | 9 | 14 | 15 | 16 | 19 | 21 | 22 | 24 | 25 | 26 | 27 => true | _ => false end.

Fixpoint post_walk (ops : list op) (out : list (list Z)) (nslots cur : nat) (allowed : list nat)
         (pc pe : list Z) (live : list bool) (ppool : Z) (maychg : bool) : bool :=
  match ops with
  | [] => match out with [] => true | _ => false end
  | p :: t =>
      let allowed' := op_targets p ++ allowed in
      let cur' := (cur + appends (o_code p))%nat in
      let maychg' := maychg || pool_may_change (o_code p) in
      if observed p t then
        match out with
        | fp :: cc :: ec :: dl :: _ :: out' =>
            let d := parse_delta (S (List.length dl)) dl in
            let live' := upd_live live d in
            let quiescent := negb (existsb (fun b : bool => b) live') in
            (* immutability: only slots the operations acted on, or new slots, may change *)
            forallb (fun e => (nslots <=? fst e)%nat || existsb (Nat.eqb (fst e)) allowed') d
            (* each owner / structure released at most once, never un-released *)
            && counters_ok pc cc && counters_ok pe ec
            (* pool never negative; when nothing is alive everything was released exactly once *)
            && (0 <=? nth 1 fp 0)%Z
            (* the accounting moves only when a reservation can be created, resized or freed *)
            && ((nth 1 fp 0 =? ppool)%Z || maychg')
            && (if quiescent
                then forallb (Z.eqb 1) cc && forallb (Z.eqb 1) ec && (nth 1 fp 0 =? 0)%Z
                else true)
            && post_walk t out' cur' cur' [] cc ec live' (nth 1 fp 0%Z) false
        | _ => false
        end
      else post_walk t out nslots cur' allowed' pc pe live ppool maychg'
  end.

Definition split_post (a : args) : args * args :=
  let fix go (acc : args) (l : args) : args * args :=
    match l with
    | [] => (rev acc, [])
    | g :: t => match g with
                | [z] => if (z =? -7777)%Z then (rev acc, t) else go (g :: acc) t
                | _ => go (g :: acc) t
                end
    end in go [] a.

Definition post_ok (a : args) : bool :=
  let '(ar, out) := split_post a in
  post_walk (decode_ops ar) out 0 0 [] [] [] [] 0%Z false.

Definition d_hist_post (a : args) : list (list Z) := [[zb (post_ok a)]].

(* c16.ffi_rt.post1 : the harness reports [[1]] when the array imported over the C Data (or
   Stream) Interface is logically equal to the exported one and every release callback ran
   exactly once after the last reference was dropped; the model cannot compute the arrays, it
   checks the verdict *)
Definition d_rt_post1 (a : args) : list (list Z) :=
  [[zb (match a with [[v; r]] => (v =? 1)%Z && (r =? 1)%Z | _ => false end)]].

(* c16.bbop.spec : BooleanArray::bitwise_bin_op_mut.
   args [lhs values] [lhs validity | empty = no null buffer] [rhs values] [rhs validity | empty] [mode; w; bit offset]
   mode 0: the values buffer is uniquely owned and starts at its allocation -> Ok, computed in place, validity = union;
   mode 1 (a clone is alive) / 2 (buffer sliced at a byte offset): the kernel declines and the array handed
   back in Err is the caller's array, values AND validity untouched; the clone kept alive is untouched too. *)
Definition d_bbop_spec (a : args) : list (list Z) :=
  let lb := bools_of (arg 0 a) in let ln := arg 1 a in
  let rb := bools_of (arg 2 a) in let rn := arg 3 a in
  let mode := zn (arg 4 a) 0 in let w := zn (arg 4 a) 1 in
  let len := List.length lb in
  if (mode =? 0)%nat then
    let vals := map (fun p : bool * bool => bitop w (fst p) (snd p)) (combine lb rb) in
    let lv := match ln with [] => repeat true len | _ => bools_of ln end in
    let rv := match rn with [] => repeat true len | _ => bools_of rn end in
    let has_null := existsb negb lv || existsb negb rv in
    [ [1%Z]; zs_of_bools vals;
      (if has_null then zs_of_bools (map (fun p : bool * bool => andb (fst p) (snd p)) (combine lv rv)) else []); [] ]
  else
    [ [2%Z]; zs_of_bools lb; zs_of_bools (bools_of ln);
      (if (mode =? 1)%nat then zs_of_bools lb ++ (-1)%Z :: zs_of_bools (bools_of ln) else []) ].

(* c16.shrink.spec : Buffer::shrink_to_fit of a (claimed) buffer.
   args [bytes] [esz; off; l; claim; keep_other; custom]: capacity n = |bytes|, reservation n when claimed;
   the handle is slice_with_length(off, l); it reallocates to (if l = 0 then 0 else off + l) bytes iff that is
   smaller than n, the Arc is unique and the allocation is a standard one; the reservation follows the capacity.
   output [pool.used(); capacity] [visible bytes] [pool.used() after all handles are dropped = 0] *)
Definition d_shrink_spec (a : args) : list (list Z) :=
  let bytes := arg 0 a in let h := arg 1 a in
  let off := zn h 1 in let l := zn h 2 in
  let claim := zn h 3 in let keep := zn h 4 in let custom := zn h 5 in
  let n := List.length bytes in
  let want := if (l =? 0)%nat then 0%nat else (off + l)%nat in
  let cap := if (want <? n)%nat && (keep =? 0)%nat && (custom =? 0)%nat then want else n in
  [ [ (if (claim =? 1)%nat then Z.of_nat cap else 0%Z); Z.of_nat cap ]; firstn l (skipn off bytes); [0%Z] ].

Local Open Scope string_scope.
Definition ops_C16 : list (string * opfun) :=
  [ ("c16.hist", d_hist); ("c16.hist.post", d_hist_post); ("c16.ffi_rt.post1", d_rt_post1);
    ("c16.bbop.spec", d_bbop_spec); ("c16.shrink.spec", d_shrink_spec) ].
