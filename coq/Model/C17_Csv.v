(* C17 — CSV field quoting and record splitting (definitions only).
   Writer: arrow-csv/src/writer.rs hands every formatted field to csv::Writer::write_byte_record
           (csv-core 0.1 Writer, QuoteStyle::Necessary): requires_quotes table, quote(), the `""` written
           for a record that produced no bytes, terminator.
   Reader: arrow-csv/src/reader/records.rs RecordDecoder drives csv_core::Reader::read_record; the automaton
           below is csv-core's NFA (reader.rs transition_nfa / transition_final_nfa) with the epsilon moves
           (StartRecord -> StartField, EndFieldDelim -> StartField, EndFieldTerm -> InRecordTerm,
            EndRecord -> StartRecord, CRLF -> StartRecord) folded into the byte-consuming moves; comments
           are not configured by the cases and not modelled.  RecordDecoder then insists on exactly
           num_columns fields per record.
   Bytes are N. *)
From Coq Require Import List NArith Bool Arith.
Import ListNotations.
Local Open Scope N_scope.

(* ------------------------------------------------------------------ writer *)
Record wcfg := { w_delim : N; w_quote : N; w_escape : N; w_double : bool; w_crlf : bool }.

Section Writer.
Variable c : wcfg.
Definition requires_quotes (b : N) : bool :=
  (b =? w_delim c) || (b =? w_quote c) || (negb (w_double c) && (b =? w_escape c)) || (b =? 13) || (b =? 10).
Definition quote_byte (b : N) : list N :=
  if b =? w_quote c then (if w_double c then [w_quote c; w_quote c] else [w_escape c; w_quote c]) else [b].
Definition write_field (f : list N) : list N :=
  if existsb requires_quotes f then w_quote c :: flat_map quote_byte f ++ [w_quote c] else f.
Fixpoint join_fields (l : list (list N)) : list N :=
  match l with
  | [] => []
  | [f] => f
  | f :: r => f ++ w_delim c :: join_fields r
  end.
Definition terminator : list N := if w_crlf c then [13; 10] else [10].
Definition write_record (fields : list (list N)) : list N :=
  let body := join_fields (map write_field fields) in
  (match body with [] => [w_quote c; w_quote c] | _ => body end) ++ terminator.
Definition write_rows (rows : list (list (list N))) : list N := flat_map write_record rows.
End Writer.

(* ------------------------------------------------------------------ reader *)
Record rcfg := { r_delim : N; r_quote : N; r_escape : option N; r_term : option N }.   (* r_term None: CRLF mode *)

Inductive st := StartRecord | StartField | InField | InQuoted | InEscaped | InDoubleQ | AfterCR.

(* parser state: automaton state, current field (reversed), fields of the current record (reversed),
   finished records (reversed) *)
Notation pstate := (st * list N * list (list N) * list (list (list N)))%type.

Section Reader.
Variable c : rcfg.
Definition is_term (b : N) : bool :=
  match r_term c with None => (b =? 13) || (b =? 10) | Some t => b =? t end.
Definition is_escape (b : N) : bool := match r_escape c with Some e => b =? e | None => false end.

(* EndFieldTerm -> InRecordTerm -> (CRLF | EndRecord): the field and the record end on terminator byte b *)
Definition end_record (b : N) (cur : list N) (fields : list (list N)) (rows : list (list (list N))) : pstate :=
  let s := match r_term c with None => if b =? 13 then AfterCR else StartRecord | Some _ => StartRecord end in
  (s, [], [], rev (rev cur :: fields) :: rows).

(* StartField on byte b *)
Definition start_field (b : N) (fields : list (list N)) (rows : list (list (list N))) : pstate :=
  if b =? r_quote c then (InQuoted, [], fields, rows)
  else if b =? r_delim c then (StartField, [], [] :: fields, rows)
  else if is_term b then end_record b [] fields rows
  else (InField, [b], fields, rows).
Definition start_record (b : N) (rows : list (list (list N))) : pstate :=
  if is_term b then (StartRecord, [], [], rows) else start_field b [] rows.

Definition step (p : pstate) (b : N) : pstate :=
  let '(s, cur, fields, rows) := p in
  match s with
  | StartRecord => start_record b rows
  | AfterCR => if b =? 10 then (StartRecord, [], [], rows) else start_record b rows
  | StartField => start_field b fields rows
  | InField =>
      if b =? r_delim c then (StartField, [], rev cur :: fields, rows)
      else if is_term b then end_record b cur fields rows
      else (InField, b :: cur, fields, rows)
  | InQuoted =>
      if b =? r_quote c then (InDoubleQ, cur, fields, rows)
      else if is_escape b then (InEscaped, cur, fields, rows)
      else (InQuoted, b :: cur, fields, rows)
  | InEscaped => (InQuoted, b :: cur, fields, rows)
  | InDoubleQ =>
      if b =? r_quote c then (InQuoted, b :: cur, fields, rows)
      else if b =? r_delim c then (StartField, [], rev cur :: fields, rows)
      else if is_term b then end_record b cur fields rows
      else (InField, b :: cur, fields, rows)
  end.

(* transition_final_nfa: end of input *)
Definition finish (p : pstate) : list (list (list N)) :=
  let '(s, cur, fields, rows) := p in
  match s with
  | StartRecord | AfterCR => rev rows
  | _ => rev (rev (rev cur :: fields) :: rows)
  end.

Definition split (input : list N) : list (list (list N)) :=
  finish (fold_left step input (StartRecord, [], [], [])).

(* RecordDecoder: every record must have exactly ncols fields *)
Definition split_checked (ncols : nat) (input : list N) : option (list (list (list N))) :=
  let rows := split input in
  if forallb (fun r => (length r =? ncols)%nat) rows then Some rows else None.
End Reader.

