(* C14 — Arrow IPC StreamDecoder framing (arrow-ipc/src/reader/stream.rs).

   M  = [decode] : one call of StreamDecoder::decode(&mut Buffer), transcribed branch by branch
        (4-byte header with optional continuation marker, metadata with zero-copy / scratch
        paths, body with zero-copy / scratch paths, EOS, one RecordBatch per call), and the
        documented driver loop [feed] / [run] (`while !x.is_empty() { decoder.decode(&mut x)? }`
        per chunk, then `finish`).
   S  = [run1] : a byte-at-a-time automaton over the concatenated input; it never sees chunk
        boundaries, so it is chunk independent by construction.

   What flatbuffers verification and array decoding say about a completed metadata block is
   external: it enters through the oracle [orc k meta] (k = number of messages completed before). *)
From Coq Require Import List Arith NArith ZArith Bool.
From AV Require Import Base.Bytes.
Import ListNotations.

(* outcome of handing a complete (metadata, body) pair to the message decoder *)
Inductive outcome := ONone   (* Schema / DictionaryBatch / NONE: state reset, keep looping *)
                   | OBatch  (* RecordBatch: returned to the caller *)
                   | OErr.   (* any Err(..) raised while decoding the message *)

Record minfo := MkInfo {
  mi_valid : bool;    (* MessageBuffer::try_new succeeds *)
  mi_body  : nat;     (* message.bodyLength() *)
  mi_out   : outcome;
  mi_tag   : Z        (* label reported with a batch (the harness uses num_rows) *)
}.

Inductive event :=
| EMsg (k : nat) (meta body : list N)    (* message k handed to the decoder with these exact bytes *)
| EEos
| EErr.

Fixpoint bytes_eqb (a b : list N) : bool :=
  match a, b with
  | [], [] => true
  | x :: a', y :: b' => N.eqb x y && bytes_eqb a' b'
  | _, _ => false
  end.

Definition CONTINUATION_MARKER : list N := [255; 255; 255; 255]%N.
Definition is_marker (buf : list N) : bool := bytes_eqb buf CONTINUATION_MARKER.
Definition is_nil {A} (l : list A) : bool := match l with [] => true | _ => false end.

Inductive phase :=
| SHeader (buf : list N) (cont : bool)       (* |buf| < 4 *)
| SMessage (size : nat) (acc : list N)       (* |acc| < size *)
| SBody (meta : list N) (acc : list N)       (* |acc| <= bodyLength, = only when both are 0 *)
| SFinished
| SFailed.
Notation sstate := (nat * phase)%type.

Inductive dstate :=
| DHeader (buf : list N) (cont : bool)   (* buf = the first `read` bytes of the [u8;4] *)
| DMessage (size : nat)
| DBody (meta : list N)
| DFinished.

Record dec := MkDec { d_st : dstate; d_buf : list N (* self.buf scratch *); d_k : nat }.

Inductive dres := RNone | RBatch (tag : Z) | RErr.

Notation dout := (dec * list N * dres * list event)%type.
Notation call := (nat * dres)%type.

Section Ipc.
Variable orc : nat -> list N -> minfo.

(* ------------------------------------------------------------------ S: byte-at-a-time *)
Definition after_header (k : nat) (buf : list N) (cont : bool) : sstate * list event :=
  if negb cont && is_marker buf then ((k, SHeader [] true), [])
  else let size := N.to_nat (le_val buf) in
       if size =? 0 then ((k, SFinished), [EEos]) else ((k, SMessage size []), []).

Definition after_message (k : nat) (meta : list N) : sstate * list event :=
  if mi_valid (orc k meta) then ((k, SBody meta []), []) else ((k, SFailed), [EErr]).

Definition complete (k : nat) (meta body : list N) : sstate * list event :=
  match mi_out (orc k meta) with
  | OErr => ((k, SFailed), [EMsg k meta body; EErr])
  | _ => ((S k, SHeader [] false), [EMsg k meta body])
  end.

Definition consume (s : sstate) (b : N) : sstate * list event :=
  let '(k, ph) := s in
  match ph with
  | SHeader buf cont =>
      let buf' := buf ++ [b] in
      if length buf' =? 4 then after_header k buf' cont else ((k, SHeader buf' cont), [])
  | SMessage size acc =>
      let acc' := acc ++ [b] in
      if length acc' =? size then after_message k acc' else ((k, SMessage size acc'), [])
  | SBody meta acc =>
      let acc' := acc ++ [b] in
      if length acc' =? mi_body (orc k meta) then complete k meta acc' else ((k, SBody meta acc'), [])
  | SFinished => ((k, SFailed), [EErr])
  | SFailed => ((k, SFailed), [])
  end.

(* a zero-length body is completed by the arrival of the next byte (the Rust loop only runs
   while the buffer is non-empty) *)
Definition eps (s : sstate) : sstate * list event :=
  let '(k, ph) := s in
  match ph with
  | SBody meta acc => if length acc =? mi_body (orc k meta) then complete k meta acc else (s, [])
  | _ => (s, [])
  end.

Definition step1 (s : sstate) (b : N) : sstate * list event :=
  let '(s1, e1) := eps s in let '(s2, e2) := consume s1 b in (s2, e1 ++ e2).

Fixpoint run1 (s : sstate) (bs : list N) : sstate * list event :=
  match bs with
  | [] => (s, [])
  | b :: r => let '(s1, e1) := step1 s b in let '(s2, e2) := run1 s1 r in (s2, e1 ++ e2)
  end.

(* StreamDecoder::finish on the abstract state *)
Definition sfinish (s : sstate) : bool :=
  match snd s with
  | SFinished => true
  | SHeader [] false => true
  | _ => false
  end.

(* ------------------------------------------------------------------ M: the Rust code *)
Definition pre (e : list event) (r : dout) : dout :=
  let '(d, b, res, ev) := r in (d, b, res, e ++ ev).

(* one call of decode(&mut buffer): returns the decoder, the unconsumed rest of `buffer`,
   the result, and (ghost) the messages handed over during the call.  fuel bounds the
   number of `while !buffer.is_empty()` iterations. *)
Fixpoint decode (fuel : nat) (d : dec) (buffer : list N) : dout :=
  match fuel with
  | O => (d, buffer, RNone, [])
  | S fuel =>
    match buffer with
    | [] => (d, buffer, RNone, [])
    | _ :: _ =>
      let k := d_k d in
      match d_st d with
      | DHeader buf cont =>
          let to_read := Nat.min (length buffer) (4 - length buf) in
          let buf' := buf ++ firstn to_read buffer in
          let buffer' := skipn to_read buffer in
          if length buf' =? 4 then
            if negb cont && is_marker buf' then
              decode fuel (MkDec (DHeader [] true) (d_buf d) k) buffer'
            else
              let size := N.to_nat (le_val buf') in
              if size =? 0 then pre [EEos] (decode fuel (MkDec DFinished (d_buf d) k) buffer')
              else decode fuel (MkDec (DMessage size) (d_buf d) k) buffer'
          else decode fuel (MkDec (DHeader buf' cont) (d_buf d) k) buffer'
      | DMessage size =>
          if is_nil (d_buf d) && (size <? length buffer) then
            (* zero copy: buffer.slice_with_length(0, len) *)
            let meta := firstn size buffer in
            if mi_valid (orc k meta) then decode fuel (MkDec (DBody meta) [] k) (skipn size buffer)
            else (d, buffer, RErr, [EErr])
          else
            let to_read := Nat.min (length buffer) (size - length (d_buf d)) in
            let sb := d_buf d ++ firstn to_read buffer in
            let buffer' := skipn to_read buffer in
            if length sb =? size then
              if mi_valid (orc k sb) then decode fuel (MkDec (DBody sb) [] k) buffer'
              else (MkDec (DMessage size) [] k, buffer', RErr, [EErr])
            else decode fuel (MkDec (DMessage size) sb k) buffer'
      | DBody meta =>
          let bl := mi_body (orc k meta) in
          let finish_body (body buffer' : list N) : dout :=
            match mi_out (orc k meta) with
            | ONone => pre [EMsg k meta body] (decode fuel (MkDec (DHeader [] false) [] (S k)) buffer')
            | OBatch => (MkDec (DHeader [] false) [] (S k), buffer', RBatch (mi_tag (orc k meta)), [EMsg k meta body])
            | OErr => (MkDec (DBody meta) [] k, buffer', RErr, [EMsg k meta body; EErr])
            end in
          if is_nil (d_buf d) && (bl <=? length buffer) then
            finish_body (firstn bl buffer) (skipn bl buffer)
          else
            let to_read := Nat.min (length buffer) (bl - length (d_buf d)) in
            let sb := d_buf d ++ firstn to_read buffer in
            let buffer' := skipn to_read buffer in
            if length sb =? bl then finish_body sb buffer'
            else decode fuel (MkDec (DBody meta) sb k) buffer'
      | DFinished => (d, buffer, RErr, [EErr])
      end
    end
  end.

Definition decode_fuel (buffer : list N) : nat := 2 * length buffer + 3.

(* per-call observables: bytes consumed by the call and its result *)

(* `while !x.is_empty() { decoder.decode(&mut x)? }` on one chunk; the bool is "an Err was returned" *)
Fixpoint feed (fuel : nat) (d : dec) (x : list N) : dec * list call * bool * list event :=
  match fuel with
  | O => (d, [], false, [])
  | S fuel =>
    match x with
    | [] => (d, [], false, [])
    | _ :: _ =>
      let '(d', x', res, ev) := decode (decode_fuel x) d x in
      let c := (length x - length x', res) in
      match res with
      | RErr => (d', [c], true, ev)
      | _ => let '(d'', cs, e, ev') := feed fuel d' x' in (d'', c :: cs, e, ev ++ ev')
      end
    end
  end.

Definition feed_fuel (x : list N) : nat := 2 * length x + 3.

(* the chunks of a stream, in order; decoding stops at the first Err *)
Fixpoint run (d : dec) (chunks : list (list N)) : dec * list (list call) * bool * list event :=
  match chunks with
  | [] => (d, [], false, [])
  | x :: rest =>
    let '(d', cs, e, ev) := feed (feed_fuel x) d x in
    if e then (d', [cs], true, ev)
    else let '(d'', css, e', ev') := run d' rest in (d'', cs :: css, e', ev ++ ev')
  end.

Definition abs (d : dec) : sstate :=
  (d_k d, match d_st d with
          | DHeader buf cont => SHeader buf cont
          | DMessage size => SMessage size (d_buf d)
          | DBody meta => SBody meta (d_buf d)
          | DFinished => SFinished
          end).

(* abstract state after a run: a decoder that returned Err is Failed *)
Definition abs_after (d : dec) (errored : bool) : sstate :=
  if errored then (d_k d, SFailed) else abs d.

(* StreamDecoder::finish *)
Definition finish (d : dec) : bool :=
  match d_st d with
  | DFinished => true
  | DHeader [] false => true
  | _ => false
  end.

Definition dec0 : dec := MkDec (DHeader [] false) [] 0.

(* the observation the property talks about: which messages were handed to the decoder
   (with which bytes), where the first error occurred, and what finish() says *)
Definition obs (r : dec * list (list call) * bool * list event) : list event * bool * bool :=
  let '(d, _, e, ev) := r in (ev, e, if e then false else finish d).

Definition obs1 (r : sstate * list event) : list event * bool * bool :=
  let '(s, ev) := r in
  (ev, match snd s with SFailed => true | _ => false end, sfinish s).

End Ipc.
