(* C09 / C01 — physical array layouts (mirror of arrow_data::ArrayData) and the INDEPENDENT
   validator [spec_valid], written from the Arrow columnar-format specification
   (format/Columnar.rst, CDataInterface.rst), not from arrow-data/src/data.rs.
   Definitions only. *)
From Coq Require Import List Arith NArith ZArith Bool.
From AV Require Import Base.ListX Base.Bits Base.Bytes Base.Utf8 Model.C19_Bits.
Import ListNotations.

(* ------------------------------------------------------------------ data types *)
Inductive dty :=
| TNull
| TBool
| TFixed (w : nat)                       (* every fixed-width primitive: byte width (ints, floats, decimals, temporal) *)
| TFixedBin (n : Z)                      (* FixedSizeBinary(n) *)
| TBin (large utf8 : bool)               (* Binary / LargeBinary / Utf8 / LargeUtf8 *)
| TView (utf8 : bool)                    (* BinaryView / Utf8View *)
| TList (large nullable : bool) (c : dty)
| TListView (large nullable : bool) (c : dty)
| TFixedList (n : Z) (nullable : bool) (c : dty)
| TStruct (fs : list (bool * dty))       (* (nullable, type) per field *)
| TDict (kw : nat) (ksigned : bool) (v : dty)
| TRee (rw : nat) (v : dty)              (* run-end width 2/4/8 (Int16/32/64), values type *)
| TUnion (dense : bool) (fs : list (Z * dty)).   (* (type id, type) per field *)

Fixpoint dty_eqb (a b : dty) {struct a} : bool :=
  match a, b with
  | TNull, TNull | TBool, TBool => true
  | TFixed w1, TFixed w2 => Nat.eqb w1 w2
  | TFixedBin n1, TFixedBin n2 => Z.eqb n1 n2
  | TBin l1 u1, TBin l2 u2 => Bool.eqb l1 l2 && Bool.eqb u1 u2
  | TView u1, TView u2 => Bool.eqb u1 u2
  | TList l1 n1 c1, TList l2 n2 c2 => Bool.eqb l1 l2 && Bool.eqb n1 n2 && dty_eqb c1 c2
  | TListView l1 n1 c1, TListView l2 n2 c2 => Bool.eqb l1 l2 && Bool.eqb n1 n2 && dty_eqb c1 c2
  | TFixedList s1 n1 c1, TFixedList s2 n2 c2 => Z.eqb s1 s2 && Bool.eqb n1 n2 && dty_eqb c1 c2
  | TStruct f1, TStruct f2 =>
      (fix go (x y : list (bool * dty)) : bool :=
         match x, y with
         | [], [] => true
         | (n1, t1) :: x', (n2, t2) :: y' => Bool.eqb n1 n2 && dty_eqb t1 t2 && go x' y'
         | _, _ => false end) f1 f2
  | TDict w1 s1 v1, TDict w2 s2 v2 => Nat.eqb w1 w2 && Bool.eqb s1 s2 && dty_eqb v1 v2
  | TRee w1 v1, TRee w2 v2 => Nat.eqb w1 w2 && dty_eqb v1 v2
  | TUnion d1 f1, TUnion d2 f2 =>
      Bool.eqb d1 d2 &&
      (fix go (x y : list (Z * dty)) : bool :=
         match x, y with
         | [], [] => true
         | (i1, t1) :: x', (i2, t2) :: y' => Z.eqb i1 i2 && dty_eqb t1 t2 && go x' y'
         | _, _ => false end) f1 f2
  | _, _ => false
  end.

(* ------------------------------------------------------------------ physical arrays *)
(* validity bitmap: bytes, bit offset, bit length, cached null count *)
Record nullbuf := { nb_bytes : list N; nb_off : nat; nb_len : nat; nb_count : nat }.

Inductive parr :=
  PArr (ty : dty) (len off : nat) (nulls : option nullbuf) (bufs : list (list N)) (kids : list parr).

Definition p_ty (a : parr) := let 'PArr t _ _ _ _ _ := a in t.
Definition p_len (a : parr) := let 'PArr _ l _ _ _ _ := a in l.
Definition p_off (a : parr) := let 'PArr _ _ o _ _ _ := a in o.
Definition p_nulls (a : parr) := let 'PArr _ _ _ n _ _ := a in n.
Definition p_bufs (a : parr) := let 'PArr _ _ _ _ b _ := a in b.
Definition p_kids (a : parr) := let 'PArr _ _ _ _ _ k := a in k.

Fixpoint tree_all (P : parr -> bool) (a : parr) : bool :=
  match a with PArr _ _ _ _ _ kids => P a && forallb (tree_all P) kids end.

(* ------------------------------------------------------------------ reading values *)
Definition usize_max : N := (2^64 - 1)%N.

(* little-endian unsigned / signed integer of width w bytes at element index i of a buffer *)
Definition le_at (buf : list N) (w i : nat) : N := le_val (firstn w (skipn (i * w) buf)).
Definition signed_of (w : nat) (x : N) : Z :=
  if (x <? 2 ^ N.of_nat (8 * w - 1))%N then Z.of_N x else (Z.of_N x - 2 ^ Z.of_nat (8 * w))%Z.
Definition sle_at (buf : list N) (w i : nat) : Z := signed_of w (le_at buf w i).

(* validity of logical slot i (relative to the array's own offset): the null buffer carries its own offset *)
Definition nb_valid (nb : nullbuf) (i : nat) : bool := bit_at (nb_bytes nb) (nb_off nb + i).
Definition slot_valid (a : parr) (i : nat) : bool :=
  match p_nulls a with None => true | Some nb => nb_valid nb i end.
Definition nb_bits (nb : nullbuf) : list bool := bits_range (nb_bytes nb) (nb_off nb) (nb_len nb).
Definition count_false (l : list bool) : nat := length (filter negb l).

Definition offw (large : bool) : nat := if large then 8%nat else 4%nat.

(* ------------------------------------------------------------------ the specification validator *)
(* Columnar format: "Validity bitmaps": at least ceil((offset+length)/8) bytes; the null count is
   the number of unset bits in [offset, offset+length). arrow-rs additionally stores the bitmap with
   its own bit offset, which must equal the array offset's view: nb_len = len. *)
Definition spec_nulls (a : parr) : bool :=
  match p_nulls a with
  | None => true
  | Some nb =>
      Nat.eqb (nb_len nb) (p_len a) &&
      ((nb_off nb + nb_len nb + 7) / 8 <=? length (nb_bytes nb))%nat &&
      Nat.eqb (nb_count nb) (count_false (nb_bits nb))
  end.

Definition buf (a : parr) (i : nat) : list N := nth i (p_bufs a) [].

(* offsets buffer of a variable-size layout: len+1 entries starting at off (or an empty buffer for an
   empty array), non-negative, monotonically non-decreasing, last <= limit *)
Fixpoint monotone_from (prev : Z) (l : list Z) : bool :=
  match l with [] => true | x :: r => (prev <=? x)%Z && monotone_from x r end.
Definition offsets_of (a : parr) (w : nat) : list Z :=
  map (fun i => sle_at (buf a 0) w (p_off a + i)) (seq 0 (S (p_len a))).
Definition spec_offsets (a : parr) (w : nat) (limit : nat) : bool :=
  if (Nat.eqb (p_len a) 0 && Nat.eqb (length (buf a 0)) 0)%bool then true else
  ((p_off a + p_len a + 1) * w <=? length (buf a 0))%nat &&
  monotone_from 0 (offsets_of a w) &&
  (last (offsets_of a w) 0 <=? Z.of_nat limit)%Z.

(* Utf8: every value [offsets[i], offsets[i+1]) is well-formed UTF-8 *)
Definition slice_bytes (b : list N) (s e : Z) : list N := firstn (Z.to_nat (e - s)) (skipn (Z.to_nat s) b).
Fixpoint pairs_valid_utf8 (data : list N) (offs : list Z) : bool :=
  match offs with
  | s :: ((e :: _) as r) => valid_utf8 (slice_bytes data s e) && pairs_valid_utf8 data r
  | _ => true
  end.

(* views (Columnar format, "Variable-size Binary View Layout") *)
(* values of at most this many bytes are stored inline (tied to arrow_data::MAX_INLINE_VIEW_LEN by Proofs/C09_GenTie.v) *)
Definition max_inline_view_len : N := 12.
Definition view_at (a : parr) (i : nat) : N := le_at (buf a 0) 16 (p_off a + i).
Definition view_len (v : N) : N := N.land v (N.ones 32).
Definition view_prefix (v : N) : N := N.land (N.shiftr v 32) (N.ones 32).
Definition view_bufidx (v : N) : N := N.land (N.shiftr v 64) (N.ones 32).
Definition view_offset (v : N) : N := N.land (N.shiftr v 96) (N.ones 32).
Definition view_inline_bytes (v : N) : list N :=
  map (fun k => N.land (N.shiftr v (N.of_nat (32 + 8 * k))) 255) (seq 0 (N.to_nat (view_len v))).
Fixpoint starts_with (l p : list N) : bool :=
  match p, l with [], _ => true | x :: p', y :: l' => N.eqb x y && starts_with l' p' | _, [] => false end.
Definition spec_view (utf8 : bool) (data : list (list N)) (v : N) : bool :=
  let len := view_len v in
  if (len <=? max_inline_view_len)%N then
    (* inlined: bytes after the value are zero padding *)
    N.eqb (N.shiftr v (32 + 8 * len)) 0 && (negb utf8 || valid_utf8 (view_inline_bytes v))
  else
    (* NB: extracted [andb] is strict; conversions to [nat] happen only under the bound checks *)
    if (view_bufidx v <? N.of_nat (length data))%N then
      match nth_error data (N.to_nat (view_bufidx v)) with
      | None => false
      | Some d =>
          if (view_offset v + len <=? N.of_nat (length d))%N then
            let b := firstn (N.to_nat len) (skipn (N.to_nat (view_offset v)) d) in
            starts_with b (firstn 4 (map (fun k => N.land (N.shiftr (view_prefix v) (N.of_nat (8 * k))) 255) (seq 0 4))) &&
            (negb utf8 || valid_utf8 b)
          else false
      end
    else false.

Definition kid (a : parr) (i : nat) : option parr := nth_error (p_kids a) i.
Definition kid_is (a : parr) (i : nat) (t : dty) : bool :=
  match kid a i with Some k => dty_eqb (p_ty k) t | None => false end.
Definition kid_len (a : parr) (i : nat) : nat := match kid a i with Some k => p_len k | None => 0 end.

(* null count of a child (0 when it has no validity bitmap) *)
Definition kid_null_count (k : parr) : nat := match p_nulls k with Some nb => count_false (nb_bits nb) | None => 0 end.

(* a non-nullable child may only be null where the parent slot is null (struct / fixed-size list take
   up child space for parent nulls); for list types no child null at all *)
(* parent slot i corresponds to child slot [shift + i] (shift = the parent's offset, scaled) *)
Definition child_nulls_within (shift : nat) (mask : option (list bool)) (k : parr) : bool :=
  match p_nulls k with
  | None => true
  | Some nb =>
      match mask with
      | None => Nat.eqb (count_false (nb_bits nb)) 0
      | Some m => forallb (fun p : bool * bool => negb (fst p) || snd p) (List.combine m (skipn shift (nb_bits nb)))
      end
  end.

Definition key_in_range (a : parr) (w : nat) (signed : bool) (dict_len : nat) (i : nat) : bool :=
  negb (slot_valid a i) ||
  let k := if signed then sle_at (buf a 0) w (p_off a + i) else Z.of_N (le_at (buf a 0) w (p_off a + i)) in
  (0 <=? k)%Z && (k <? Z.of_nat dict_len)%Z.

Fixpoint strictly_increasing_pos (prev : Z) (l : list Z) : bool :=
  match l with [] => true | x :: r => (prev <? x)%Z && strictly_increasing_pos x r end.

Definition type_ids (fs : list (Z * dty)) : list Z := map fst fs.
Fixpoint index_of (x : Z) (l : list Z) (i : nat) : option nat :=
  match l with [] => None | y :: r => if Z.eqb x y then Some i else index_of x r (S i) end.

(* per-node specification; children are checked by [tree_all] *)
Definition spec_node (a : parr) : bool :=
  let len := p_len a in let off := p_off a in let n := (off + len)%nat in
  (N.of_nat off + N.of_nat len <=? usize_max)%N &&
  match p_ty a with
  | TNull => match p_nulls a with None => true | Some _ => false end && Nat.eqb (length (p_bufs a)) 0 && Nat.eqb (length (p_kids a)) 0
  | TBool => spec_nulls a && Nat.eqb (length (p_bufs a)) 1 && ((n + 7) / 8 <=? length (buf a 0))%nat && Nat.eqb (length (p_kids a)) 0
  | TFixed w => spec_nulls a && Nat.eqb (length (p_bufs a)) 1 && (n * w <=? length (buf a 0))%nat && Nat.eqb (length (p_kids a)) 0
  | TFixedBin s => spec_nulls a && (0 <=? s)%Z && Nat.eqb (length (p_bufs a)) 1 && (n * Z.to_nat s <=? length (buf a 0))%nat && Nat.eqb (length (p_kids a)) 0
  | TBin large utf8 =>
      spec_nulls a && Nat.eqb (length (p_bufs a)) 2 && Nat.eqb (length (p_kids a)) 0 &&
      (if spec_offsets a (offw large) (length (buf a 1))
       then (if utf8 then (Nat.eqb len 0 && Nat.eqb (length (buf a 0)) 0) || pairs_valid_utf8 (buf a 1) (offsets_of a (offw large)) else true)
       else false)
  | TView utf8 =>
      spec_nulls a && (1 <=? length (p_bufs a))%nat && Nat.eqb (length (p_kids a)) 0 &&
      (n * 16 <=? length (buf a 0))%nat &&
      forallb (fun i => negb (slot_valid a i) || spec_view utf8 (tl (p_bufs a)) (view_at a i)) (seq 0 len)
  | TList large nullable c =>
      spec_nulls a && Nat.eqb (length (p_bufs a)) 1 && Nat.eqb (length (p_kids a)) 1 && kid_is a 0 c &&
      spec_offsets a (offw large) (kid_len a 0) &&
      (nullable || match kid a 0 with Some k => child_nulls_within 0 None k | None => false end)
  | TListView large nullable c =>
      spec_nulls a && Nat.eqb (length (p_bufs a)) 2 && Nat.eqb (length (p_kids a)) 1 && kid_is a 0 c &&
      (n * offw large <=? length (buf a 0))%nat && (n * offw large <=? length (buf a 1))%nat &&
      forallb (fun i => let o := sle_at (buf a 0) (offw large) (off + i) in
                        let s := sle_at (buf a 1) (offw large) (off + i) in
                        (0 <=? o)%Z && (0 <=? s)%Z && (o + s <=? Z.of_nat (kid_len a 0))%Z) (seq 0 len)
  | TFixedList s nullable c =>
      spec_nulls a && (0 <=? s)%Z && Nat.eqb (length (p_bufs a)) 0 && Nat.eqb (length (p_kids a)) 1 && kid_is a 0 c &&
      (n * Z.to_nat s <=? kid_len a 0)%nat
  | TStruct fs =>
      spec_nulls a && Nat.eqb (length (p_bufs a)) 0 && Nat.eqb (length (p_kids a)) (length fs) &&
      forallb (fun p : (bool * dty) * parr => dty_eqb (p_ty (snd p)) (snd (fst p)) && (n <=? p_len (snd p))%nat)
              (List.combine fs (p_kids a))
  | TDict kw ksigned v =>
      spec_nulls a && Nat.eqb (length (p_bufs a)) 1 && Nat.eqb (length (p_kids a)) 1 && kid_is a 0 v &&
      (n * kw <=? length (buf a 0))%nat &&
      forallb (key_in_range a kw ksigned (kid_len a 0)) (seq 0 len)
  | TRee rw v =>
      match p_nulls a with None => true | Some _ => false end &&
      Nat.eqb (length (p_bufs a)) 0 && Nat.eqb (length (p_kids a)) 2 &&
      kid_is a 0 (TFixed rw) && kid_is a 1 v &&
      match kid a 0 with
      | Some r =>
          match p_nulls r with None => true | Some _ => false end &&
          Nat.eqb (p_len r) (kid_len a 1) &&
          let ends := map (fun i => sle_at (nth 0 (p_bufs r) []) rw (p_off r + i)) (seq 0 (p_len r)) in
          strictly_increasing_pos 0 ends &&
          (* the last run end covers the logical range [off, off+len) *)
          (Z.of_nat n <=? last ends 0)%Z
      | None => false
      end
  | TUnion dense fs =>
      match p_nulls a with None => true | Some _ => false end &&
      Nat.eqb (length (p_bufs a)) (if dense then 2 else 1) && Nat.eqb (length (p_kids a)) (length fs) &&
      forallb (fun p : (Z * dty) * parr => dty_eqb (p_ty (snd p)) (snd (fst p))) (List.combine fs (p_kids a)) &&
      (n <=? length (buf a 0))%nat &&
      (if dense then (n * 4 <=? length (buf a 1))%nat
       else forallb (fun k => (n <=? p_len k)%nat) (p_kids a)) &&
      forallb (fun i =>
        let id := sle_at (buf a 0) 1 (off + i) in
        match index_of id (type_ids fs) 0 with
        | None => false
        | Some ci =>
            if dense then
              let o := sle_at (buf a 1) 4 (off + i) in
              (0 <=? o)%Z && (o <? Z.of_nat (kid_len a ci))%Z
            else true
        end) (seq 0 len)
  end.

(* non-nullable children (nullability is declared by the parent's type) *)
Definition spec_nullability (a : parr) : bool :=
  match p_ty a with
  | TFixedList s false _ =>
      match kid a 0 with
      | Some k => child_nulls_within (p_off a * Z.to_nat s)
                    (match p_nulls a with
                     | None => None
                     | Some nb => Some (flat_map (fun b => repeat b (Z.to_nat s)) (nb_bits nb)) end) k
      | None => true end
  | TStruct fs =>
      forallb (fun p : (bool * dty) * parr =>
                 fst (fst p) || child_nulls_within (p_off a) (match p_nulls a with None => None | Some nb => Some (nb_bits nb) end) (snd p))
              (List.combine fs (p_kids a))
  | _ => true
  end.

Definition spec_valid (a : parr) : bool := tree_all (fun n => spec_node n && spec_nullability n) a.
