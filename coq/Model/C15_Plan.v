(* C15 — a CONCRETE planner instance for the abstract machine of C15_Machine.v, and the replay of an
   observed trace against it.  Definitions only.

   The instance covers the configuration in which the planner of the real decoder is observable from
   the file metadata alone: no page index loaded (so every request is a whole column chunk,
   InMemoryRowGroup::fetch_ranges else-branch), no global RowSelection; any projection, row-group
   list, predicate chain (per predicate: the leaves it reads), offset, limit.
     RowBudget            -> [budget], rows_after / advance / is_exhausted / selected_row_limit
     RowGroupFrontier     -> [c_fr_step]   (plan_selected_row_group, next_readable_row_group)
     RowGroupReaderBuilder-> [c_plan]      (Start -> Filters i -> WaitingOnFilterData -> StartData ->
                                            WaitingOnData), column chunks fetched by earlier phases
                                            are not requested again (column_chunks carried over)
   What a predicate selects is data: the harness computes, from the ids it wrote, how many rows of each
   row group satisfy predicates 0..i ([fp_match]) — independent of the implementation. *)
From Coq Require Import List NArith ZArith Bool.
From AV Require Import Model.C15_PushBuf Model.C15_Machine Model.C15_Trace.
Import ListNotations.
Local Open Scope N_scope.

Record budget := { b_off : option N; b_lim : option N }.
Definition off0 (b : budget) : N := match b_off b with Some o => o | None => 0 end.
Definition is_exhausted (b : budget) : bool := match b_lim b with Some 0 => true | _ => false end.
Definition rows_after (b : budget) (n : N) : N :=
  let a := n - off0 b in match b_lim b with Some l => N.min a l | None => a end.
Definition selected_row_limit (b : budget) : option N :=
  match b_lim b with Some l => Some (l + off0 b) | None => None end.
Definition advance (b : budget) (before after : N) : budget :=
  {| b_off := match b_off b with Some o => Some (o - (before - after)) | None => None end;
     b_lim := if after =? 0 then b_lim b else match b_lim b with Some l => Some (l - after) | None => None end |}.

Record fileplan := {
  fp_rows : list N;                    (* row count of the p-th selected row group *)
  fp_chunks : list (list range);       (* per selected row group: byte range of every leaf column *)
  fp_proj : list bool;                 (* output projection, per leaf *)
  fp_preds : list (list bool);         (* predicate i reads these leaves *)
  fp_match : list (list N)             (* per selected row group: rows satisfying predicates 0..i *)
}.

Section Concrete.
Variable fp : fileplan.
Definition rg_rows (g : nat) : N := nth g (fp_rows fp) 0.
Definition has_predicates : bool := match fp_preds fp with [] => false | _ => true end.

(* column chunk ranges of the leaves in [mask] that were not fetched yet, in leaf order *)
Fixpoint chunk_ranges (cs : list range) (mask fetched : list bool) : list range :=
  match cs with
  | [] => []
  | c :: cs' =>
      let m := hd false mask in let f := hd false fetched in
      (if m && negb f then [c] else []) ++ chunk_ranges cs' (tl mask) (tl fetched)
  end.
Fixpoint mask_or (a b : list bool) : list bool :=
  match a, b with
  | x :: a', y :: b' => (x || y) :: mask_or a' b'
  | [], b => b
  | a, [] => a
  end.

Definition c_fr_step (g : nat) (b : budget) : fstep budget (nat * budget) :=
  if is_exhausted b then FStop else
  let rc := rg_rows g in
  if has_predicates then FRead (g, b) b else
  let after := rows_after b rc in
  if after =? 0 then FSkip (advance b rc after) else FRead (g, b) b.

Definition data_phase (g : nat) (b : budget) (sel : N) (fetched : list bool) : phase unit budget :=
  let after := rows_after b sel in
  let remaining := advance b sel after in
  if (sel =? 0) || (after =? 0) then PFinish remaining
  else PNeed (chunk_ranges (nth g (fp_chunks fp) []) (fp_proj fp) fetched)
             (fun _ => PData (repeat [tt] (N.to_nat after)) remaining).

Fixpoint filter_phases (g : nat) (b : budget) (preds : list (list bool)) (i : nat) (sel : N) (fetched : list bool)
  : phase unit budget :=
  match preds with
  | [] => data_phase g b sel fetched
  | pm :: preds' =>
      if sel =? 0 then PFinish b else
      PNeed (chunk_ranges (nth g (fp_chunks fp) []) pm fetched)
            (fun _ =>
               let m := nth i (nth g (fp_match fp) []) 0 in
               let m' := match preds', selected_row_limit b with
                         | [], Some cap => N.min m cap          (* last predicate: early termination *)
                         | _, _ => m
                         end in
               filter_phases g b preds' (S i) m' (mask_or fetched pm))
  end.

Definition c_plan (r : nat * budget) : phase unit budget :=
  let '(g, b) := r in filter_phases g b (fp_preds fp) 0 (rg_rows g) [].
Definition c_upd (_ : budget) (u : budget) : budget := u.

Notation cmach := (mach unit budget budget).

Definition c_init (b : budget) : cmach := init unit budget budget (seq 0 (length (fp_rows fp))) b.
Definition c_decode (m : cmach) := try_decode unit budget budget (nat * budget) c_fr_step c_plan c_upd m.
Definition c_next_reader (m : cmach) := try_next_reader unit budget budget (nat * budget) c_fr_step c_plan c_upd m.

(* n successive try_decode calls each returning one (single-row) batch *)
Fixpoint decode_rows (n : nat) (m : cmach) : option cmach :=
  match n with
  | O => Some m
  | S n' => match c_decode m with (m', RData _) => decode_rows n' m' | _ => None end
  end.

Definition zeros (r : range) : list N := repeat 0 (N.to_nat (snd r - fst r)).
Definition bb_ok (m : cmach) (bb : Z) : bool :=
  (bb <? 0)%Z || (Z.of_N (decoder_buffered_bytes unit budget budget m) =? bb)%Z.
Fixpoint ranges_eqb (a b : list range) : bool :=
  match a, b with
  | [], [] => true
  | x :: a', y :: b' => (fst x =? fst y) && (snd x =? snd y) && ranges_eqb a' b'
  | _, _ => false
  end.

(* Replay: the model machine is driven by the caller's observed actions and must produce exactly
   the observed results (requested ranges, row counts, buffered bytes).  Returns the index of the
   first event that disagrees, or None. *)
Fixpoint replay (idx : nat) (m : cmach) (t : list (tev * Z)) : option nat :=
  match t with
  | [] => None
  | (e, bb) :: t' =>
      let next m' := if bb_ok m' bb then replay (S idx) m' t' else Some idx in
      match e with
      | TPush rs =>
          if forallb (fun r : range => snd r - fst r <? 16777216) rs then
            match push_data unit budget budget m rs (map zeros rs) with
            | Some m' => next m' | None => Some idx end
          else Some idx
      | TNeed rs =>
          match c_decode m with
          | (m', RNeed rs') => if ranges_eqb rs rs' then next m' else Some idx
          | _ => Some idx
          end
      | TData n =>
          if n <? 16777216 then
            match decode_rows (N.to_nat n) m with Some m' => next m' | None => Some idx end
          else Some idx
      | TReader n =>
          match c_next_reader m with
          | (m', RReader bs) => if nlen bs =? n then next m' else Some idx
          | _ => Some idx
          end
      | TFinished =>
          match c_decode m with (m', RFinished) => next m' | _ => Some idx end
      | TClear => next (clear_all unit budget budget m)
      | TRebuild =>
          match into_builder unit budget budget m with
          | Some bd => next (build unit budget budget bd) | None => Some idx end
      | TStall => Some idx
      end
  end.
End Concrete.
