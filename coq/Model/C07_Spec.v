(* C07 — specification S: the property predicate on (what was written, what the file says).
   Everything here is stated on logical values with a total preorder given by an integer key
   (numeric kinds) or by unsigned lexicographic order (byte kinds); nothing refers to the
   writer's algorithm.  Definitions only. *)
From Coq Require Import List ZArith NArith Bool Arith.
From AV Require Import Model.C07_Trunc Model.C07_File Model.C07_Bloom.
Import ListNotations.
Local Open Scope Z_scope.

(* ------------------------------------------------------------------ the column's order *)
(* IEEE 754 totalOrder on W-bit patterns: sign-magnitude; -NaN < -inf < ... < -0 < +0 < ... < +NaN *)
Definition fkey (W : Z) (u : Z) : Z := if u <? 2^(W-1) then u else 2^(W-1) - 1 - u.
Definition fnan (W : Z) (u : Z) : bool :=   (* exponent all ones, mantissa non-zero *)
  let m := u mod 2^(W-1) in
  let mant := if W =? 16 then 10 else if W =? 32 then 23 else 52 in
  (m / 2^mant =? 2^(W-1-mant) - 1) && negb (m mod 2^mant =? 0).

(* numeric kinds: logical values are Z (floats by bit pattern); order = Z order of the key *)
Definition skey (k : kind) (v : Z) : Z :=
  match k with KF32 => fkey 32 v | KF64 => fkey 64 v | KF16 => fkey 16 v | _ => v end.
Definition snan (k : kind) (v : Z) : bool :=
  match k with KF32 => fnan 32 v | KF64 => fnan 64 v | KF16 => fnan 16 v | _ => false end.

(* stored statistic bytes -> logical value *)
Fixpoint le_unsigned (bs : bytes) : Z := match bs with [] => 0 | b :: r => Z.of_N b + 256 * le_unsigned r end.
Definition signed_of (n : nat) (u : Z) : Z := if u <? 2^(8 * Z.of_nat n - 1) then u else u - 2^(8 * Z.of_nat n).
Definition sdec (k : kind) (flen : nat) (bs : bytes) : option Z :=
  let want := match k with KI32 | KU32 | KF32 | KD32 => 4 | KI64 | KU64 | KF64 | KD64 => 8
                         | KF16 => 2 | KBOOL => 1 | KDBA => length bs | _ => flen end%nat in
  if negb (length bs =? want)%nat || (length bs =? 0)%nat then None else
  Some match k with
       | KI32 | KD32 | KI64 | KD64 => signed_of want (le_unsigned bs)
       | KDF | KDBA => signed_of want (le_unsigned (rev bs))
       | _ => le_unsigned bs
       end.

(* One order for both families: a value is (inl z) or (inr bytes). *)
Notation value := (Z + bytes)%type.
Definition vle (k : kind) (a b : value) : bool :=
  match a, b with
  | inl x, inl y => skey k x <=? skey k y
  | inr x, inr y => lex_leb x y
  | _, _ => false
  end.
Definition vnan (k : kind) (a : value) : bool := match a with inl x => snan k x | inr _ => false end.
Definition veqb (a b : value) : bool :=
  match a, b with
  | inl x, inl y => x =? y
  | inr x, inr y => match lex x y with Eq => true | _ => false end
  | _, _ => false
  end.
Definition is_byte_kind (k : kind) : bool := match k with KUTF8 | KBIN | KFSB | KIVL => true | _ => false end.
Definition vdec (k : kind) (flen : nat) (bs : bytes) : option value :=
  if is_byte_kind k then Some (inr bs) else option_map inl (sdec k flen bs).

(* ------------------------------------------------------------------ bounds of a set of rows *)
Definition nonnan (k : kind) (rows : list (option value)) : list value :=
  filter (fun v => negb (vnan k v)) (somes rows).

(* a stored (min, max) pair bounds the rows: every non-NaN value lies between them, and when a
   non-NaN value exists the bounds themselves are not NaN *)
Definition bounds_ok (k : kind) (rows : list (option value)) (mn mx : value) : bool :=
  let vs := nonnan k rows in
  forallb (fun v => vle k mn v && vle k v mx) vs &&
  match vs with [] => true | _ => negb (vnan k mn) && negb (vnan k mx) end.
Definition attained (rows : list (option value)) (b : value) : bool := existsb (veqb b) (somes rows).

(* failure codes: 1 = property holds *)
Definition ok := 1%Z.
Fixpoint first_fail (checks : list (bool * Z)) : Z :=
  match checks with [] => ok | (true, _) :: r => first_fail r | (false, c) :: _ => c end.

(* ------------------------------------------------------------------ chunk level *)
Record chunk_obs := {
  co_min : option bytes; co_max : option bytes; co_min_exact : bool; co_max_exact : bool;
  co_null_count : option Z }.

Definition chunk_ok (k : kind) (flen : nat) (rows : list (option value)) (o : chunk_obs) : Z :=
  first_fail
   [ (match co_null_count o with Some n => n =? Z.of_nat (count_none rows) | None => true end, 20);
     (match co_min o, co_max o with
      | Some mn, Some mx =>
        match vdec k flen mn, vdec k flen mx with
        | Some a, Some b => bounds_ok k rows a b
        | _, _ => false
        end
      | None, None => true
      | _, _ => false           (* a one-sided bound is never written *)
      end, 21);
     (match co_min o with
      | Some mn => negb (co_min_exact o) || match vdec k flen mn with Some a => attained rows a | None => false end
      | None => true end, 22);
     (match co_max o with
      | Some mx => negb (co_max_exact o) || match vdec k flen mx with Some a => attained rows a | None => false end
      | None => true end, 23) ].

(* ------------------------------------------------------------------ page level *)
(* rows of page i: [start_i, start_{i+1}) with the last page ending at the row count *)
Fixpoint page_rows {A} (rows : list A) (starts : list nat) : list (list A) :=
  match starts with
  | [] => []
  | s :: rest =>
    let e := match rest with e :: _ => e | [] => length rows end in
    firstn (e - s) (skipn s rows) :: page_rows rows rest
  end.

(* offset index: first_row_index starts at 0, strictly increases, stays below the row count:
   the pages partition the rows and none is empty *)
Fixpoint strictly_increasing (l : list nat) : bool :=
  match l with a :: (b :: _) as r => (a <? b)%nat && strictly_increasing r | _ => true end.
Definition partition_ok (nrows : nat) (starts : list nat) : bool :=
  match starts with
  | [] => (nrows =? 0)%nat
  | s :: _ => (s =? 0)%nat && strictly_increasing starts && (last starts 0 <? nrows)%nat
  end.

Record page_obs := { po_null_page : bool; po_min : bytes; po_max : bytes; po_null_count : option Z }.

Definition page_ok (k : kind) (flen : nat) (rows : list (option value)) (o : page_obs) : Z :=
  first_fail
   [ (match po_null_count o with Some n => n =? Z.of_nat (count_none rows) | None => true end, 30);
     (Bool.eqb (po_null_page o) (match somes rows with [] => true | _ => false end), 31);
     (po_null_page o ||
      match vdec k flen (po_min o), vdec k flen (po_max o) with
      | Some a, Some b => bounds_ok k rows a b
      | _, _ => false
      end, 32) ].

Fixpoint pages_ok (k : kind) (flen : nat) (pages : list (list (option value))) (obs : list page_obs) : Z :=
  match pages, obs with
  | [], [] => ok
  | p :: pr, o :: or => let c := page_ok k flen p o in if c =? ok then pages_ok k flen pr or else c
  | _, _ => 33             (* column index and offset index disagree on the number of pages *)
  end.

(* declared boundary order (1 ascending, 2 descending, 0 unordered) over the non-null pages *)
Fixpoint adjacent_ok (k : kind) (dir : nat) (l : list (value * value)) : bool :=
  match l with
  | (mn1, mx1) :: (((mn2, mx2) :: _) as r) =>
    (if (dir =? 1)%nat then vle k mn1 mn2 && vle k mx1 mx2 else vle k mn2 mn1 && vle k mx2 mx1)
    && adjacent_ok k dir r
  | _ => true
  end.
Definition order_ok (k : kind) (dir : nat) (bounds : list (value * value)) : bool :=
  (dir =? 0)%nat || adjacent_ok k dir bounds.

(* the stored bounds of the non-null pages, decoded; None if one does not decode *)
Fixpoint stored_bounds (k : kind) (flen : nat) (obs : list page_obs) : option (list (value * value)) :=
  match obs with
  | [] => Some []
  | o :: r =>
    match stored_bounds k flen r with
    | None => None
    | Some t =>
      if po_null_page o then Some t else
      match vdec k flen (po_min o), vdec k flen (po_max o) with
      | Some a, Some b => Some ((a, b) :: t)
      | _, _ => None
      end
    end
  end.

(* exact extrema of a page (used when the order is judged on the untruncated values) *)
Definition vmin (k : kind) (a b : value) : value := if vle k a b then a else b.
Definition vmax (k : kind) (a b : value) : value := if vle k a b then b else a.
Definition true_bounds (k : kind) (pages : list (list (option value))) : list (value * value) :=
  flat_map (fun p => match somes p with
                     | [] => []
                     | v :: r => [(fold_left (vmin k) r v, fold_left (vmax k) r v)]
                     end) pages.

(* ------------------------------------------------------------------ bloom filter *)
(* every written (non-null) value, hashed, tests positive in the stored bitset *)
Definition bloom_ok (bitset : bytes) (hashes : list N) : bool :=
  let f := sbbf_of_bytes bitset in
  match f with [] => false | _ => forallb (check_hash f) hashes end.
