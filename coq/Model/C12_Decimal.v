(* C12 — decimal arithmetic kernel (definitions only).
   Source: arrow-arith/src/numeric.rs `decimal_op` (Hive rules for result precision/scale, operand
   rescaling by powers of ten, equal-scale fast path), arrow-array/src/types.rs
   `validate_decimal_precision_and_scale`.

   The native type is the signed integer type with half-modulus H (2^31, 2^63, 2^127, 2^255);
   native checked operations are those of C12_Int (for Decimal256 the two-limb implementation of
   these operations is the subject of C12_I256).  Precision p is a u8, scale s an i8; the i8/u8
   expressions of the source are modelled with saturation / reinterpretation where the source has
   them and as plain integers elsewhere (the generators keep |s| small enough that the plain i8
   additions of the source cannot overflow, see checks/C12.json assumptions). *)
From Coq Require Import List ZArith Bool.
From AV Require Import Model.C12_Int Model.C12_Kernel.
Import ListNotations.
Local Open Scope Z_scope.

Inductive dop : Type := DAdd | DSub | DMul | DDiv | DRem.
Definition dop_of_code (c : Z) : dop :=
  if c =? 0 then DAdd else if c =? 1 then DSub else if c =? 2 then DMul else if c =? 3 then DDiv else DRem.

Inductive dres : Type := DOk (vals : list Z) (nulls : option (list bool)) (precision scale : Z) | DErr (kind : Z).

Definition sat_i8 (z : Z) : Z := Z.max (-128) (Z.min 127 z).     (* i8::saturating_add result *)
Definition sat_u8 (z : Z) : Z := Z.max 0 (Z.min 255 z).          (* u8::saturating_add result *)
Definition as_u8 (z : Z) : Z := z mod 256.                       (* `x as u8` for an i8 x *)

Definition rbind (r : res) (f : Z -> res) : res := match r with Ok z => f z | Err k => Err k end.

(* T::Native::usize_as(10).pow_checked(k) (square-and-multiply in the source; the
   intermediate powers of a base >= 1 never exceed the final power) *)
Definition pow10_checked (H : Z) (k : Z) : res := let z := 10 ^ k in if in_range true H z then Ok z else Err E_OVERFLOW.

(* validate_decimal_precision_and_scale *)
Definition validate_ps (maxp maxs p s : Z) : bool :=
  negb (p =? 0) && (p <=? maxp) && (s <=? maxs) && negb ((0 <? s) && (p <? as_u8 s)).

Definition finish (maxp maxs : Z) (r : ares) (p s : Z) : dres :=
  match r with
  | AErr k => DErr k
  | AOk v n => if validate_ps maxp maxs p s then DOk v n p s else DErr E_INVALID
  end.

(* the per-row closure handed to try_op!:
   add/sub with equal scales: l.add_checked(r);  otherwise l.mul_checked(l_mul)?.OP(r.mul_checked(r_mul)?) *)
Definition decimal_row (H : Z) (op : dop) (same_scale : bool) (l_mul r_mul : Z) (x y : Z) : res :=
  let mulc := mul_checked true H in
  let rescaled (k : Z -> Z -> res) := rbind (mulc x l_mul) (fun a => rbind (mulc y r_mul) (fun b => k a b)) in
  match op with
  | DAdd => if same_scale then add_checked true H x y else rescaled (add_checked true H)
  | DSub => if same_scale then sub_checked true H x y else rescaled (sub_checked true H)
  | DMul => mulc x y
  | DDiv => rescaled (div_checked true H)
  | DRem => rescaled (mod_checked true H)
  end.

Definition decimal_op (H maxp maxs : Z) (op : dop) (l_s r_s : bool) (p1 s1 p2 s2 : Z) (l r : parr) : dres :=
  match op with
  | DAdd | DSub =>
      let rs := Z.max s1 s2 in
      let rp := Z.min (sat_u8 (as_u8 (sat_i8 (rs + Z.max (p1 - s1) (p2 - s2))) + 1)) maxp in
      match pow10_checked H (rs - s1) with Err k => DErr k | Ok l_mul =>
      match pow10_checked H (rs - s2) with Err k => DErr k | Ok r_mul =>
        finish maxp maxs (try_op (decimal_row H op (s1 =? s2) l_mul r_mul) l_s r_s l r) rp rs
      end end
  | DMul =>
      let rp := Z.min (sat_u8 (p1 + (p2 + 1))) maxp in
      let rs := sat_i8 (s1 + s2) in
      if maxs <? rs then DErr E_INVALID
      else finish maxp maxs (try_op (decimal_row H op false 1 1) l_s r_s l r) rp rs
  | DDiv =>
      let rs := Z.min (sat_i8 (s1 + 4)) maxs in
      let mul_pow := rs - s1 + s2 in
      let rp := Z.min (as_u8 (sat_i8 (mul_pow + p1))) maxp in
      match (if 0 <? mul_pow then pow10_checked H mul_pow else Ok 1) with Err k => DErr k | Ok l_mul =>
      match (if mul_pow <? 0 then pow10_checked H (- mul_pow) else Ok 1) with Err k => DErr k | Ok r_mul =>
        finish maxp maxs (try_op (decimal_row H op false l_mul r_mul) l_s r_s l r) rp rs
      end end
  | DRem =>
      let rs := Z.max s1 s2 in
      let rp := Z.min (as_u8 (sat_i8 (rs + Z.min (p1 - s1) (p2 - s2)))) maxp in
      (* since /repo 9e1df4d (F17) the multipliers are computed with pow_checked(..)? as for add/sub *)
      match pow10_checked H (rs - s1) with Err k => DErr k | Ok l_mul =>
      match pow10_checked H (rs - s2) with Err k => DErr k | Ok r_mul =>
        finish maxp maxs (try_op (decimal_row H op false l_mul r_mul) l_s r_s l r) rp rs
      end end
  end.

(* ------------------------------------------------------------------ specification *)
(* A decimal (v, s) denotes the rational v * 10^-s.  Both operands are brought to a common scale
   with exact powers of ten; the kernel reports Overflow when a rescaled operand or the result does
   not fit the native type, DivideByZero for a zero divisor, and otherwise returns the exact
   (add, sub, mul), truncated (div) or remainder (rem) value at the documented result scale. *)
Definition fits (H : Z) (z : Z) (k : Z -> res) : res := if in_range true H z then k z else Err E_OVERFLOW.

(* documented result type *)
Definition spec_result_type (maxp maxs : Z) (op : dop) (p1 s1 p2 s2 : Z) : Z * Z :=
  match op with
  | DAdd | DSub => let rs := Z.max s1 s2 in (Z.min (rs + Z.max (p1 - s1) (p2 - s2) + 1) maxp, rs)
  | DMul => (Z.min (p1 + p2 + 1) maxp, s1 + s2)
  | DDiv => let rs := Z.min (s1 + 4) maxs in (Z.min (p1 - s1 + s2 + rs) maxp, rs)
  | DRem => let rs := Z.max s1 s2 in (Z.min (Z.min (p1 - s1) (p2 - s2) + rs) maxp, rs)
  end.
(* exponents of the powers of ten applied to the left / right operand *)
Definition spec_exponents (maxs : Z) (op : dop) (s1 s2 : Z) : Z * Z :=
  match op with
  | DAdd | DSub | DRem => let rs := Z.max s1 s2 in (rs - s1, rs - s2)
  | DMul => (0, 0)
  | DDiv => let e := Z.min (s1 + 4) maxs - s1 + s2 in (Z.max e 0, Z.max (- e) 0)
  end.
Definition spec_decimal_row (H : Z) (op : dop) (lm rm : Z) (x y : Z) : res :=
  fits H (x * lm) (fun a => fits H (y * rm) (fun b =>
    match op with
    | DAdd => fits H (a + b) Ok
    | DSub => fits H (a - b) Ok
    | DMul => fits H (a * b) Ok
    | DDiv => if b =? 0 then Err E_DIVZERO else fits H (Z.quot a b) Ok
    | DRem => if b =? 0 then Err E_DIVZERO else Ok (Z.rem a b)
    end)).

Definition spec_decimal (H maxp maxs : Z) (op : dop) (l_s r_s : bool) (p1 s1 p2 s2 : Z)
    (l r : list (option Z)) : (list (option Z) * (Z * Z)) + Z :=
  let '(rp, rs) := spec_result_type maxp maxs op p1 s1 p2 s2 in
  if maxs <? rs then inr E_INVALID else
  let '(el, er) := spec_exponents maxs op s1 s2 in
  if negb (in_range true H (10 ^ el) && in_range true H (10 ^ er)) then inr E_OVERFLOW else
  match spec_binary_kernel (spec_decimal_row H op (10 ^ el) (10 ^ er)) l_s r_s l r with
  | inr k => inr k
  | inl rows =>
      (* the documented type must itself be a valid decimal type (0 < precision, scale <= precision) *)
      if (1 <=? rp) && negb ((0 <? rs) && (rp <? rs)) then inl (rows, (rp, rs)) else inr E_INVALID
  end.
