(* C12 — i256 as two 128-bit limbs (definitions only).
   Source: arrow-buffer/src/bigint/mod.rs  (struct i256 { low: u128, high: i128 }):
   wrapping_add/sub/neg/abs/mul, overflowing_add/sub, checked_add/sub/neg/mul, mulx, cmp,
   div_rem sign handling (the unsigned long division of bigint/div.rs is abstracted as exact
   unsigned division, see `udivrem`).

   Parameters: B = 2^64 (half limb), H = 2^127 (so that B*B = 2H = W = 2^128).  The theorems are
   proved for every B, H with 0 < B, B*B = 2H.  u128 = (false,H), i128 = (true,H) in the
   vocabulary of C12_Int; i256 itself is the signed type with half-modulus H*W. *)
From Coq Require Import List ZArith Bool.
From AV Require Import Model.C12_Int.
Import ListNotations.
Local Open Scope Z_scope.

Record i256 : Type := mk256 { low : Z; high : Z }.

Section Limbs.
Variable B : Z.   (* 2^64  *)
Variable H : Z.   (* 2^127 *)
Let W := 2 * H.   (* 2^128 *)

Definition wrapu (z : Z) : Z := wrap false H z.   (* reduce into u128 *)
Definition wraps (z : Z) : Z := wrap true H z.    (* reduce into i128; also `x as i128` *)

(* mathematical value, and the two-limb form of a value in range *)
Definition val (a : i256) : Z := high a * W + low a.
Definition of_val (z : Z) : i256 := mk256 (z mod W) (z / W).
Definition H256 : Z := H * W.                     (* half-modulus of i256: 2^255 *)

Definition ZERO := mk256 0 0.
Definition ONE := mk256 1 0.
Definition MINUS_ONE := mk256 (W - 1) (-1).
Definition MIN := mk256 0 (- H).
Definition is_eq (a b : i256) : bool := (high a =? high b) && (low a =? low b).
Definition is_negative (a : i256) : bool := high a <? 0.

(* u128::overflowing_add / overflowing_sub *)
Definition u_overflowing_add (a b : Z) : Z * bool := (wrapu (a + b), W <=? a + b).
Definition u_overflowing_sub (a b : Z) : Z * bool := (wrapu (a - b), a - b <? 0).
Definition b2z (b : bool) : Z := if b then 1 else 0.

(* wrapping_add: low limbs with carry, high limbs with two wrapping i128 adds *)
Definition wrapping_add (a b : i256) : i256 :=
  let '(lo, carry) := u_overflowing_add (low a) (low b) in
  mk256 lo (wraps (wraps (high a + high b) + b2z carry)).
Definition wrapping_sub (a b : i256) : i256 :=
  let '(lo, borrow) := u_overflowing_sub (low a) (low b) in
  mk256 lo (wraps (wraps (high a - high b) - b2z borrow)).

(* overflowing_add: high limbs added as raw u128 bit patterns; signed overflow from the signs *)
Definition overflowing_add (a b : i256) : i256 * bool :=
  let '(lo, carry) := u_overflowing_add (low a) (low b) in
  let hi := wraps (wrapu (wrapu (wrapu (high a) + wrapu (high b)) + b2z carry)) in
  (mk256 lo hi,
   Bool.eqb (high a <? 0) (high b <? 0) && negb (Bool.eqb (hi <? 0) (high a <? 0))).
Definition overflowing_sub (a b : i256) : i256 * bool :=
  let '(lo, borrow) := u_overflowing_sub (low a) (low b) in
  let hi := wraps (wrapu (wrapu (wrapu (high a) - wrapu (high b)) - b2z borrow)) in
  (mk256 lo hi,
   negb (Bool.eqb (high a <? 0) (high b <? 0)) && negb (Bool.eqb (hi <? 0) (high a <? 0))).
Definition checked_add256 (a b : i256) : option i256 :=
  let '(r, o) := overflowing_add a b in if o then None else Some r.
Definition checked_sub256 (a b : i256) : option i256 :=
  let '(r, o) := overflowing_sub a b in if o then None else Some r.

(* wrapping_neg: from_parts(!low, !high).wrapping_add(ONE) *)
Definition not_u (x : Z) : Z := W - 1 - x.     (* !x on u128 *)
Definition not_s (x : Z) : Z := - 1 - x.       (* !x on i128 *)
Definition wrapping_neg256 (a : i256) : i256 := wrapping_add (mk256 (not_u (low a)) (not_s (high a))) ONE.
Definition checked_neg256 (a : i256) : option i256 :=
  if negb (is_eq a MIN) then Some (wrapping_neg256 a) else None.

(* wrapping_abs: sa = high >> 127 (all ones if negative); (self ^ sa) - sa *)
Definition wrapping_abs256 (a : i256) : i256 :=
  if high a <? 0
  then wrapping_sub (mk256 (not_u (low a)) (not_s (high a))) MINUS_ONE
  else wrapping_sub a ZERO.

(* mulx: 128 x 128 -> (low, high) through four 64 x 64 products; every intermediate is a u128
   (`+=`, `<<` on u128: the shifted-out bits are dropped, additions are reduced into u128) *)
Definition split (a : Z) : Z * Z := (a mod B, a / B).     (* (a & MASK, a >> 64) *)
Definition shl64 (x : Z) : Z := wrapu (x * B).           (* x << 64 on u128 *)
Definition mulx (a b : Z) : Z * Z :=
  let '(a_low, a_high) := split a in
  let '(b_low, b_high) := split b in
  let '(low0, carry0) := split (a_low * b_low) in
  let carry1 := wrapu (carry0 + a_high * b_low) in
  let low1 := wrapu (low0 + shl64 carry1) in
  let high1 := carry1 / B in
  let carry2 := low1 / B in
  let low2 := low1 mod B in
  let carry3 := wrapu (carry2 + b_high * a_low) in
  let low3 := wrapu (low2 + shl64 carry3) in
  let high2 := wrapu (high1 + carry3 / B) in
  let high3 := wrapu (high2 + a_high * b_high) in
  (low3, high3).

(* wrapping_mul *)
Definition wrapping_mul256 (a b : i256) : i256 :=
  let '(lo, hi) := mulx (low a) (low b) in
  let hl := wraps (high a * wraps (low b)) in
  let lh := wraps (wraps (low a) * high b) in
  mk256 lo (wraps (wraps (wraps hi + hl) + lh)).

(* u128::checked_mul / checked_add *)
Definition u_checked (z : Z) : option Z := if z <? W then Some z else None.
(* x ^ out_sa where out_sa is 0 or all ones *)
Definition xor_mask (m : bool) (x : Z) : Z := if m then not_u x else x.

(* checked_mul, in three steps (grouping of the straight-line source only):
   1. product of the magnitudes with overflow detection -> (low, high) as two u128 *)
Definition mul_magnitudes (l_abs r_abs : i256) : option (Z * Z) :=
  if negb (high l_abs =? 0) && negb (high r_abs =? 0) then None else
  let '(lo, hi) := mulx (low l_abs) (low r_abs) in
  match u_checked (wrapu (high l_abs) * low r_abs) with None => None | Some hl =>
  match u_checked (low l_abs * wrapu (high r_abs)) with None => None | Some lh =>
  match u_checked (hi + hl) with None => None | Some hi1 =>
  match u_checked (hi1 + lh) with None => None | Some hi2 => Some (lo, hi2)
  end end end end.
(* 2. "reverse absolute value, if necessary": (x ^ out_sa) - out_sa over both limbs with borrow *)
Definition restore_sign (out_neg : bool) (lo hi2 : Z) : i256 :=
  let out_sa := if out_neg then W - 1 else 0 in
  let '(lo', c) := u_overflowing_sub (xor_mask out_neg lo) out_sa in
  mk256 lo' (wraps (wrapu (wrapu (xor_mask out_neg hi2 - out_sa) - b2z c))).
(* 3. final sign check *)
Definition checked_mul256 (a b : i256) : option i256 :=
  if is_eq a ZERO || is_eq b ZERO then Some ZERO else
  let out_neg := xorb (high a <? 0) (high b <? 0) in          (* out_sa = (l_sa ^ r_sa) as u128 *)
  match mul_magnitudes (wrapping_abs256 a) (wrapping_abs256 b) with
  | None => None
  | Some (lo, hi2) =>
      let r := restore_sign out_neg lo hi2 in
      if Bool.eqb (high r <? 0) (xorb (is_negative a) (is_negative b)) then Some r else None
  end.

(* Ord::cmp: high.cmp(&other.high).then(low.cmp(&other.low)) *)
Definition cmp256 (a b : i256) : comparison :=
  match high a ?= high b with Eq => low a ?= low b | c => c end.

(* div_rem: sign handling around the unsigned long division of the magnitudes.
   as_digits reads the 256 bits as an unsigned number, from_digits reinterprets as signed. *)
Definition uval (a : i256) : Z := wrapu (high a) * W + low a.
Definition of_uval (z : Z) : i256 := mk256 (z mod W) (wraps (z / W)).
(* bigint/div.rs div_rem on [u64;4] digits — abstracted: exact unsigned quotient and remainder *)
Definition udivrem (n d : Z) : Z * Z := (n / d, n mod d).

(* Result: inl (q, r) | inr kind   (kind 2 = DivideByZero, 1 = DivideOverflow) *)
Definition div_rem256 (a b : i256) : (i256 * i256) + Z :=
  if is_eq b ZERO then inr E_DIVZERO
  else if is_eq b MINUS_ONE && is_eq a MIN then inr E_OVERFLOW
  else
    let a' := wrapping_abs256 a in
    let b' := wrapping_abs256 b in
    let '(q, r) := udivrem (uval a') (uval b') in
    let q := of_uval q in let r := of_uval r in
    inl (if Bool.eqb (is_negative a) (is_negative b) then q else wrapping_neg256 q,
         if is_negative a then wrapping_neg256 r else r).

Definition checked_div256 (a b : i256) : option i256 :=
  match div_rem256 a b with inl (q, _) => Some q | inr _ => None end.
Definition checked_rem256 (a b : i256) : option i256 :=
  match div_rem256 a b with inl (_, r) => Some r | inr _ => None end.
(* wrapping_div / wrapping_rem: panic on zero (kind 8), MIN / -1 -> MIN, MIN % -1 -> 0 *)
Definition wrapping_div256 (a b : i256) : i256 + Z :=
  match div_rem256 a b with inl (q, _) => inl q | inr k => if k =? E_DIVZERO then inr 8 else inl MIN end.
Definition wrapping_rem256 (a b : i256) : i256 + Z :=
  match div_rem256 a b with inl (_, r) => inl r | inr k => if k =? E_DIVZERO then inr 8 else inl ZERO end.

End Limbs.
