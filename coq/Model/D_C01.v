(* C01 dispatch: the extracted specification validator applied to arrays RETURNED by real kernels.
   Input (postcondition op): [validate_full verdict of the implementation] followed by the tree encoding
   of coq/Model/D_C09.v. *)
From Coq Require Import List Arith ZArith String Bool.
From AV Require Import Base.Codec Model.C09_Layout Model.D_C09.
Import ListNotations.
Local Open Scope string_scope.

Definition p_valid (a : args) : list (list Z) :=
  match decode_arr a with
  | Some p => [[zb (spec_valid p && negb (Z.eqb (hd 0%Z (hd [] a)) 0))]]
  | None => [[(-3)%Z]]
  end.

(* classifier for known finding F14: the specification accepts, ArrayData::validate_full rejects, and some
   node carries a validity bitmap (with its own bit offset) that is shorter than ceil((array offset + len)/8)
   bytes — the exact condition ArrayData::validate complains about *)
Fixpoint has_short_bitmap (a : parr) : bool :=
  match a with
  | PArr _ len off nulls _ kids =>
      match nulls with
      | Some nb => (List.length (nb_bytes nb) <? (off + len + 7) / 8)%nat
      | None => false
      end || existsb has_short_bitmap kids
  end.
Definition d_vfclass (a : args) : list (list Z) :=
  match decode_arr a with
  | Some p => [[zb (spec_valid p && Z.eqb (hd 0%Z (hd [] a)) 0 && has_short_bitmap p)]]
  | None => [[(-3)%Z]]
  end.

Definition ops_C01 : list (string * opfun) := [ ("c01.valid.post1", p_valid); ("c01.vfclass", d_vfclass) ].
