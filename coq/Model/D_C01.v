(* C01 dispatch: the extracted specification validator applied to arrays RETURNED by real kernels.
   Input (postcondition op): [validate_full verdict of the implementation] followed by the tree encoding
   of coq/Model/D_C09.v. *)
From Coq Require Import List ZArith String Bool.
From AV Require Import Base.Codec Model.C09_Layout Model.D_C09.
Import ListNotations.
Local Open Scope string_scope.

Definition p_valid (a : args) : list (list Z) :=
  match decode_arr a with
  | Some p => [[zb (spec_valid p && negb (Z.eqb (hd 0%Z (hd [] a)) 0))]]
  | None => [[(-3)%Z]]
  end.

Definition ops_C01 : list (string * opfun) := [ ("c01.valid.post1", p_valid) ].
