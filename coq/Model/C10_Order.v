(* C10 — the one total order.  Definitions only.
   S (spec): logical values [val], the value order [vcmp], the slot comparator [ocmp]/[cmp_opts]
             (null placement by nulls_first, value order reversed by descending, children under child_opts),
             IEEE-754 totalOrder on bit patterns by sign and magnitude [total_order].
   M (model of the Rust control flow): [compare_impl] with its four null-buffer cases
             (arrow-cmp/src/lib.rs), [child_opts], the list zip-loop [m_list_cmp], std's total_cmp key
             [float_key] (x ^ (((x >> (w-1)) as unsigned) >> 1)), the byte-view keys [inline_key] /
             [view_cmp] (arrow-array byte_view_array.rs: inline_key_fast, compare_unchecked; arrow-ord sort.rs
             cmp_mixed; cmp.rs is_lt), the 4-byte-prefix comparator of sort_bytes [cmp_bytes_prefix] and
             the view equality fast paths of cmp.rs [view_eq]. *)
From Coq Require Import List ZArith Bool.
Import ListNotations.
Local Open Scope Z_scope.

(* ------------------------------------------------------------------ generic pieces *)

Fixpoint lex_cmp {A} (c : A -> A -> comparison) (x y : list A) : comparison :=
  match x, y with
  | [], [] => Eq
  | [], _ :: _ => Lt
  | _ :: _, [] => Gt
  | a :: x', b :: y' => match c a b with Eq => lex_cmp c x' y' | r => r end
  end.

Definition rev_if (d : bool) (c : comparison) : comparison := if d then CompOpp c else c.

(* S: a slot comparator from a value comparator: nulls are equal to each other and placed before
   (nulls_first) or after every value; `descending` reverses the order of values only. *)
Definition ncmp {A} (nf desc : bool) (c : A -> A -> comparison) (p q : option A) : comparison :=
  match p, q with
  | None, None => Eq
  | None, Some _ => if nf then Lt else Gt
  | Some _, None => if nf then Gt else Lt
  | Some a, Some b => rev_if desc (c a b)
  end.

(* ------------------------------------------------------------------ floats *)

(* S: IEEE-754 totalOrder on a bit pattern x in [0, 2h), h = 2^(w-1) the weight of the sign bit:
   negative (sign set) below positive; positives by magnitude, negatives by reverse magnitude.
   (-NaN < -inf < ... < -0 < +0 < ... < +inf < +NaN, NaNs ordered by payload.) *)
Definition f_sign (h x : Z) : bool := h <=? x.
Definition f_mag (h x : Z) : Z := if f_sign h x then x - h else x.
Definition total_order (h x y : Z) : comparison :=
  match f_sign h x, f_sign h y with
  | false, false => f_mag h x ?= f_mag h y
  | true, true => f_mag h y ?= f_mag h x
  | true, false => Lt
  | false, true => Gt
  end.

(* M: f{16,32,64}::total_cmp:  let mut l = bits as iW;  l ^= (((l >> (W-1)) as uW) >> 1) as iW;  l.cmp(r) *)
Definition as_signed (w x : Z) : Z := if 2 ^ (w - 1) <=? x then x - 2 ^ w else x.
Definition as_unsigned (w x : Z) : Z := x mod 2 ^ w.
Definition float_key (w x : Z) : Z :=
  let s := as_signed w x in
  Z.lxor s (Z.shiftr (as_unsigned w (Z.shiftr s (w - 1))) 1).
Definition total_cmp_key (w x y : Z) : comparison := float_key w x ?= float_key w y.

(* ------------------------------------------------------------------ bytes *)

Definition bytes_cmp (a b : list Z) : comparison := lex_cmp Z.compare a b.

Definition be_val (l : list Z) : Z := fold_left (fun acc b => acc * 256 + b) l 0.
Definition pad (n : nat) (l : list Z) : list Z := firstn n l ++ repeat 0 (n - length l).
Definition prefix4 (l : list Z) : Z := be_val (pad 4 l).

(* M: sort_bytes' cmp_bytes on (prefix, len) tuples, sort.rs *)
Definition cmp_bytes_prefix (a b : list Z) : comparison :=
  match prefix4 a ?= prefix4 b with
  | Eq =>
      if (length a <? 4)%nat || (length b <? 4)%nat then
        match Nat.compare (length a) (length b) with
        | Eq => bytes_cmp a b
        | r => r
        end
      else bytes_cmp a b
  | r => r
  end.

(* M: GenericByteViewArray::inline_key_fast : (raw.swap_bytes() << 32) | (raw as u32)
   = big-endian value of the 12 zero-padded inline bytes, then the length in the low 32 bits *)
Definition inline_key (l : list Z) : Z := be_val (pad 12 l) * 2 ^ 32 + Z.of_nat (length l).

(* M: compare_unchecked / cmp_mixed / is_lt: both inline -> keys; else 4-byte prefix; else full compare *)
Definition view_cmp (a b : list Z) : comparison :=
  if (length a <=? 12)%nat && (length b <=? 12)%nat then inline_key a ?= inline_key b
  else match prefix4 a ?= prefix4 b with
       | Eq => bytes_cmp a b
       | r => r
       end.

Fixpoint list_eqb (a b : list Z) : bool :=
  match a, b with
  | [], [] => true
  | x :: a', y :: b' => (x =? y) && list_eqb a' b'
  | _, _ => false
  end.

(* M: cmp.rs ArrayOrd::is_eq for byte views, buffers present: same inline view; lengths; empty; prefix;
   both inline with equal prefix but different views; full compare. *)
Definition view_eq (a b : list Z) : bool :=
  let la := length a in let lb := length b in
  if (inline_key a =? inline_key b) && (la <=? 12)%nat && (lb <=? 12)%nat then true
  else if negb (la =? lb)%nat then false
  else if (la =? 0)%nat then true
  else if negb (prefix4 a =? prefix4 b) then false
  else if (la <=? 12)%nat then false
  else list_eqb a b.

(* ------------------------------------------------------------------ logical values *)

(* A logical slot value.  Integers, decimals, dates and booleans (0/1) are [VInt]; a float is its bit
   pattern with the weight h = 2^(w-1) of its sign bit; strings / binaries / fixed-size binaries are
   their bytes; lists, fixed-size lists and structs are the list of their (nullable) children. *)
Inductive val : Type :=
| VInt (z : Z)
| VFloat (h : Z) (bits : Z)
| VBytes (l : list Z)
| VList (l : list (option val)).
Notation oval := (option val).

Definition vtag (a : val) : Z :=
  match a with VInt _ => 0 | VFloat _ _ => 1 | VBytes _ => 2 | VList _ => 3 end.

(* S: the value order.  [cnf] = nulls_first of the child options; children are always compared
   ascending (child_opts), the parent reverses the whole value comparison when descending.
   Values of different constructors never meet in well-typed arrays; ordering them by constructor
   keeps the order total without a typing hypothesis. *)
Fixpoint vcmp (cnf : bool) (a b : val) {struct a} : comparison :=
  match a, b with
  | VInt x, VInt y => x ?= y
  | VFloat h x, VFloat h' y => match h ?= h' with Eq => total_order h x y | c => c end
  | VBytes x, VBytes y => bytes_cmp x y
  | VList x, VList y =>
      (fix lst (x y : list oval) {struct x} : comparison :=
         match x, y with
         | [], [] => Eq
         | [], _ :: _ => Lt
         | _ :: _, [] => Gt
         | p :: x', q :: y' =>
             match (match p, q with
                    | None, None => Eq
                    | None, Some _ => if cnf then Lt else Gt
                    | Some _, None => if cnf then Gt else Lt
                    | Some u, Some v => vcmp cnf u v
                    end) with
             | Eq => lst x' y'
             | r => r
             end
         end) x y
  | _, _ => vtag a ?= vtag b
  end.

(* S: slot comparator at one nesting level, and at the top level for SortOptions{descending, nulls_first}:
   children see child_opts = {descending: false, nulls_first: nulls_first != descending}. *)
Definition ocmp (nf desc cnf : bool) (p q : oval) : comparison := ncmp nf desc (vcmp cnf) p q.
Definition child_nf (nf desc : bool) : bool := xorb nf desc.
Definition cmp_opts (nf desc : bool) (p q : oval) : comparison := ocmp nf desc (child_nf nf desc) p q.

(* comparator on slot indices of two arrays (make_comparator(left, right, opts)(i, j)) *)
Definition slot (a : list oval) (i : nat) : oval := nth i a None.
Definition cmp_idx (nf desc : bool) (a b : list oval) (i j : nat) : comparison :=
  cmp_opts nf desc (slot a i) (slot b j).

(* ------------------------------------------------------------------ M: the comparator as built by arrow-cmp *)

(* compare_impl::<NULLS_FIRST, DESCENDING>(l, r, cmp): l / r are the null buffers kept only when
   null_count > 0 (None = no null buffer); is_null_l i / is_null_r j read them. *)
Definition compare_impl (nf desc : bool) (l r : option (nat -> bool)) (cmp : nat -> nat -> comparison)
    (i j : nat) : comparison :=
  let cmp' := fun i j => if desc then CompOpp (cmp i j) else cmp i j in
  let left_null := if nf then Lt else Gt in
  let right_null := if nf then Gt else Lt in
  match l, r with
  | None, None => cmp' i j
  | Some l, None => if l i then left_null else cmp' i j
  | None, Some r => if r j then right_null else cmp' i j
  | Some l, Some r =>
      match l i, r j with
      | true, true => Eq
      | true, false => left_null
      | false, true => right_null
      | false, false => cmp' i j
      end
  end.

Definition is_null (a : list oval) (i : nat) : bool :=
  match slot a i with None => true | Some _ => false end.
(* logical_nulls().filter(|x| x.null_count() > 0) *)
Definition null_buffer (a : list oval) : option (nat -> bool) :=
  if existsb (fun o : oval => match o with None => true | Some _ => false end) a
  then Some (is_null a) else None.

(* the list zip-loop of compare_list / compare_fixed_list / compare_struct / compare_map:
   first non-Equal element comparison, else the length comparison *)
Fixpoint first_non_eq {A} (c : A -> A -> comparison) (x y : list A) : option comparison :=
  match x, y with
  | a :: x', b :: y' => match c a b with Eq => first_non_eq c x' y' | r => Some r end
  | _, _ => None
  end.
Definition m_list_cmp {A} (c : A -> A -> comparison) (x y : list A) : comparison :=
  match first_non_eq c x y with
  | Some r => r
  | None => Nat.compare (length x) (length y)
  end.

(* M value comparison: [bc] is the byte comparison of the physical type (slice cmp for Utf8/Binary/
   FixedSizeBinary, [view_cmp] for the view types), floats through the integer key, lists through the
   zip loop, children wrapped like `compare` does under child_opts (descending = false). *)
Definition w_of_h (h : Z) : Z := Z.log2 h + 1.
Fixpoint m_vcmp (bc : list Z -> list Z -> comparison) (cnf : bool) (a b : val) {struct a} : comparison :=
  match a, b with
  | VInt x, VInt y => x ?= y
  | VFloat h x, VFloat h' y => match h ?= h' with Eq => total_cmp_key (w_of_h h) x y | c => c end
  | VBytes x, VBytes y => bc x y
  | VList x, VList y =>
      match (fix lst (x y : list oval) {struct x} : option comparison :=
         match x, y with
         | p :: x', q :: y' =>
             match (match p, q with
                    | None, None => Eq
                    | None, Some _ => if cnf then Lt else Gt
                    | Some _, None => if cnf then Gt else Lt
                    | Some u, Some v => m_vcmp bc cnf u v
                    end) with
             | Eq => lst x' y'
             | r => Some r
             end
         | _, _ => None
         end) x y with
      | Some r => r
      | None => Nat.compare (length x) (length y)
      end
  | _, _ => vtag a ?= vtag b
  end.

Definition val_of (a : list oval) (i : nat) : val := match slot a i with Some v => v | None => VInt 0 end.

(* make_comparator(left, right, opts)(i, j) *)
Definition m_cmp_idx (bc : list Z -> list Z -> comparison) (nf desc : bool) (a b : list oval) (i j : nat) : comparison :=
  compare_impl nf desc (null_buffer a) (null_buffer b)
    (fun i j => m_vcmp bc (child_nf nf desc) (val_of a i) (val_of b j)) i j.

(* LexicographicalComparator::compare over columns (pairs of slot lists with their options) *)
Notation column := (bool * bool * list oval)%type.   (* nulls_first, descending, slots *)
Fixpoint lex_idx (cols : list column) (i j : nat) : comparison :=
  match cols with
  | [] => Eq
  | (nf, desc, a) :: r => match cmp_idx nf desc a a i j with Eq => lex_idx r i j | c => c end
  end.
