(* C01 — address arithmetic of the (unchecked) typed accessors of arrow-array, as byte ranges read
   from the buffers of a node, and the child slots an accessor dereferences.  Definitions only. *)
From Coq Require Import List Arith NArith ZArith Bool.
From AV Require Import Base.Bytes Model.C09_Layout.
Import ListNotations.

(* a read: buffer index, first byte, number of bytes *)
Notation rd := (nat * nat * nat)%type.

(* bytes touched in the node's own buffers by value(i) / is_valid(i), following
   PrimitiveArray::value_unchecked, BooleanArray::value_unchecked, GenericByteArray::value_unchecked,
   FixedSizeBinaryArray::value, DictionaryArray::key, GenericListArray::value_offsets, UnionArray::type_id *)
Definition own_reads (a : parr) (i : nat) : list rd :=
  let off := p_off a in
  match p_ty a with
  | TNull => []
  | TBool => [(0, (off + i) / 8, 1)]
  | TFixed w => [(0, (off + i) * w, w)]
  | TFixedBin s => [(0, (off + i) * Z.to_nat s, Z.to_nat s)]
  | TBin large _ =>
      let w := offw large in
      let s := sle_at (buf a 0) w (off + i) in let e := sle_at (buf a 0) w (off + i + 1) in
      [(0, (off + i) * w, 2 * w); (1, Z.to_nat s, Z.to_nat (e - s))]
  | TList large _ _ => let w := offw large in [(0, (off + i) * w, 2 * w)]
  | TListView large _ _ => let w := offw large in [(0, (off + i) * w, w); (1, (off + i) * w, w)]
  | TDict kw _ _ => [(0, (off + i) * kw, kw)]
  | TView _ => [(0, (off + i) * 16, 16)]
  | TUnion dense _ => (0, off + i, 1) :: (if dense then [(1, (off + i) * 4, 4)] else [])
  | TFixedList _ _ _ | TStruct _ | TRee _ _ => []
  end.

Definition read_in_bounds (a : parr) (r : rd) : bool :=
  let '(b, start, n) := r in (start + n <=? length (buf a b))%nat.

(* validity-bitmap byte touched by is_valid(i) *)
Definition null_read_in_bounds (a : parr) (i : nat) : bool :=
  match p_nulls a with
  | None => true
  | Some nb => ((nb_off nb + i) / 8 <? length (nb_bytes nb))%nat
  end.

(* run ends of a run-end child, as the specification reads them *)
Definition ree_ends (r : parr) (rw : nat) : list Z :=
  map (fun k => sle_at (nth 0 (p_bufs r) []) rw (p_off r + k)) (seq 0 (p_len r)).

(* child slots dereferenced by value(i): (child index, first slot, number of slots) *)
Definition child_slots (a : parr) (i : nat) : list (nat * Z * Z) :=
  let off := p_off a in
  match p_ty a with
  | TList large _ _ =>
      let w := offw large in
      let s := sle_at (buf a 0) w (off + i) in let e := sle_at (buf a 0) w (off + i + 1) in
      [(0%nat, s, (e - s)%Z)]
  | TFixedList n _ _ => [(0%nat, (Z.of_nat (off + i) * n)%Z, n)]
  | TStruct fs => map (fun j => (j, Z.of_nat (off + i), 1%Z)) (seq 0 (length fs))
  | TDict kw ksigned _ =>
      if slot_valid a i then
        let k := if ksigned then sle_at (buf a 0) kw (off + i) else Z.of_N (le_at (buf a 0) kw (off + i)) in
        [(0%nat, k, 1%Z)]
      else []
  (* GenericListViewArray::value: child.slice(offsets[i], sizes[i]) *)
  | TListView large _ _ =>
      let w := offw large in
      [(0%nat, sle_at (buf a 0) w (off + i), sle_at (buf a 1) w (off + i))]
  (* UnionArray::value: child(type_ids[i]) at offsets[i] (dense) or at the same physical slot (sparse) *)
  | TUnion dense fs =>
      match index_of (sle_at (buf a 0) 1 (off + i)) (type_ids fs) 0 with
      | Some ci => [(ci, if dense then sle_at (buf a 1) 4 (off + i) else Z.of_nat (off + i), 1%Z)]
      | None => []
      end
  (* RunArray / TypedRunArray::value: RunEndBuffer::get_physical_index is a partition point over ALL run ends
     (x <= offset + i), then values[physical] *)
  | TRee rw _ =>
      match kid a 0 with
      | Some r =>
          [(0%nat, 0%Z, Z.of_nat (p_len r));
           (1%nat, Z.of_nat (length (filter (fun e => (e <=? Z.of_nat (off + i))%Z) (ree_ends r rw))), 1%Z)]
      | None => []
      end
  | _ => []
  end.

Definition child_slots_in_bounds (a : parr) (c : nat * Z * Z) : bool :=
  let '(j, s, n) := c in (0 <=? s)%Z && (0 <=? n)%Z && (s + n <=? Z.of_nat (kid_len a j))%Z.

(* an accessor chain: from logical slot i of node a, value(i) hands out child slots, on which value() is called
   again, and so on, to any depth; [reach a i b m] = some chain starting at slot i of a arrives at slot m of node b *)
Inductive reach : parr -> nat -> parr -> nat -> Prop :=
| reach_here a i : reach a i a i
| reach_step a i j s n c k b m :
    In (j, s, n) (child_slots a i) -> kid a j = Some c -> (s <= Z.of_nat k < s + n)%Z ->
    reach c k b m -> reach a i b m.
