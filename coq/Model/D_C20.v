(* C20 dispatch table.  Strings travel as groups of UTF-8 bytes; the harness only generates valid
   UTF-8 (Rust `String`s).  Row results: 0 false, 1 true, 2 null, 3 not determined by the spec
   (ILIKE rows with a non-ASCII pattern or haystack; masked on both sides).
   Layout order of the per-layout outputs: 0 Utf8, 1 LargeUtf8, 2 Utf8View, 3 Dictionary<Int32,Utf8>,
   4 Dictionary<Int8,Utf8View>. *)
From Coq Require Import List ZArith NArith String Bool Arith.
From AV Require Import Base.Codec Base.Utf8 Model.C20_Like Model.C20_Substr.
Import ListNotations.
Local Open Scope string_scope.

Definition rows (a : args) (from n : nat) : list (list N) := map bytes_of (firstn n (skipn from a)).
Definition code (b : bool) : Z := if b then 1%Z else 0%Z.
Definition nlayouts : nat := 5.
Definition is_view (layout : nat) : bool := (layout =? 2)%nat || (layout =? 4)%nat.

(* ---------------------------------------------------------------- like family
   likes: [family; mode] [haystack validity (n)] [pattern validity (m)] n haystacks, m patterns
     family 0: like, nlike   1: ilike, nilike   2: starts_with, ends_with, contains
     mode 0: scalar pattern (m = 1)   1: pattern array (m = n)   2: scalar haystack (n = 1), pattern array
   output: for each layout, for each kernel of the family: one group with a result per row. *)
Record pair := mkpair { ph : list N; phv : bool; pp : list N; ppv : bool }.
Definition pairs_of (a : args) : list pair :=
  let mode := Z.to_nat (nth 1 (arg 0 a) 0%Z) in
  let hv := bools_of (arg 1 a) in let pv := bools_of (arg 2 a) in
  let n := List.length hv in let m := List.length pv in
  let hs := rows a 3 n in let ps := rows a (3 + n) m in
  let h0 := nth 0 hs [] in let hv0 := nth 0 hv false in
  let p0 := nth 0 ps [] in let pv0 := nth 0 pv false in
  match mode with
  | O => map (fun x : list N * bool => mkpair (fst x) (snd x) p0 pv0) (combine hs hv)
  | S O => map (fun x : (list N * bool) * (list N * bool) => mkpair (fst (fst x)) (snd (fst x)) (fst (snd x)) (snd (snd x)))
             (combine (combine hs hv) (combine ps pv))
  | _ => map (fun x : list N * bool => mkpair h0 hv0 (fst x) (snd x)) (combine ps pv)
  end.
Definition row_result (f : list N -> list N -> Z) (x : pair) : Z :=
  if phv x then if ppv x then f (ph x) (pp x) else 2%Z else 2%Z.
Definition both_ascii (h p : list N) : bool := if is_ascii h then is_ascii p else false.

(* S *)
Definition s_kernels (family : nat) : list (list N -> list N -> Z) :=
  match family with
  | O => [ (fun h p => code (like_spec (cps_of p) (cps_of h)));
           (fun h p => code (negb (like_spec (cps_of p) (cps_of h)))) ]
  | S O => [ (fun h p => if both_ascii h p then code (ilike_ascii_spec (cps_of p) (cps_of h)) else 3%Z);
             (fun h p => if both_ascii h p then code (negb (ilike_ascii_spec (cps_of p) (cps_of h))) else 3%Z) ]
  | _ => [ (fun h n => code (starts_with_spec (cps_of h) (cps_of n)));
           (fun h n => code (ends_with_spec (cps_of h) (cps_of n)));
           (fun h n => code (contains_spec (cps_of h) (cps_of n))) ]
  end.
Definition s_likes (a : args) : list (list Z) :=
  let ps := pairs_of a in
  let one := map (fun f => map (row_result f) ps) (s_kernels (argn 0 a)) in
  List.concat (repeat one nlayouts).

(* M : scalar patterns go through Predicate::evaluate_array (view fast paths, `is_ascii` of the array),
   pattern arrays through op_binary / Predicate::evaluate *)
Definition m_kernels (family mode layout : nat) (hay_ascii : bool) : list (list N -> list N -> Z) :=
  let view := is_view layout in
  let scalar := (mode =? 0)%nat in
  match family with
  | O => if scalar then [ (fun h p => code (like_scalar_m view false p h)); (fun h p => code (like_scalar_m view true p h)) ]
         else [ (fun h p => code (like_m p h)); (fun h p => code (nlike_m p h)) ]
  | S O =>
      let f (neg : bool) := fun h p =>
        if both_ascii h p then
          code (if scalar then ilike_scalar_m view neg hay_ascii p h else xorb (ilike_m false p h) neg)
        else 3%Z in
      [ f false; f true ]
  | _ => [ (fun h n => code (starts_with_m (if scalar then view else false) h n));
           (fun h n => code (ends_with_m (if scalar then view else false) h n));
           (fun h n => code (contains_m h n)) ]
  end.
Definition m_likes (a : args) : list (list Z) :=
  let ps := pairs_of a in
  let family := argn 0 a in let mode := Z.to_nat (nth 1 (arg 0 a) 0%Z) in
  let hv := bools_of (arg 1 a) in
  let hs := rows a 3 (List.length hv) in
  let all_ascii := forallb is_ascii hs in
  let valid_ascii := forallb (fun x : list N * bool => if snd x then is_ascii (fst x) else true) (combine hs hv) in
  List.concat (map (fun layout =>
            let ha := if is_view layout then valid_ascii else all_ascii in
            map (fun f => map (row_result f) ps) (m_kernels family mode layout ha))
          (seq 0 nlayouts)).

(* likes_raw.post1: input = the unmasked per-layout outputs of family 1 (ilike, nilike alternating);
   all layouts must agree and nilike must be the negation of ilike *)
Definition zlist_eqb (x y : list Z) : bool :=
  (List.length x =? List.length y)%nat && forallb (fun p : Z * Z => Z.eqb (fst p) (snd p)) (combine x y).
Definition neg_code (z : Z) : Z := if Z.eqb z 0 then 1%Z else if Z.eqb z 1 then 0%Z else z.
Definition p_likes_raw (out : args) : list (list Z) :=
  match out with
  | i0 :: n0 :: rest =>
      let ok_neg := zlist_eqb n0 (map neg_code i0) in
      let fix go (l : list (list Z)) : bool :=
        match l with
        | i :: n :: r => if zlist_eqb i i0 then if zlist_eqb n n0 then go r else false else false
        | [] => true
        | _ => false
        end in
      [[code (if ok_neg then go rest else false)]]
  | _ => [[0%Z]]
  end.

(* ---------------------------------------------------------------- substring
   substring: [start; has_len; len] [validity] n strings (the bytes under a null row are what the
   Utf8/LargeUtf8 buffers hold there)
   output per layout: [-1;3] on error, else the validity group followed by n byte groups (empty for nulls) *)
Definition opt_len (a : args) : option Z := if Z.eqb (nth 1 (arg 0 a) 0%Z) 0 then None else Some (nth 2 (arg 0 a) 0%Z).
Definition out_strings (valid : list bool) (vals : list (list N)) : list (list Z) :=
  zs_of_bools valid :: map (fun x : list N * bool => if snd x then zs_of_bytes (fst x) else []) (combine vals valid).
Definition s_substring (a : args) : list (list Z) :=
  let start := argz 0 a in let len := opt_len a in
  let valid := bools_of (arg 1 a) in
  let vs := rows a 2 (List.length valid) in
  let one :=
    match mapM (fun x : list N * bool =>
                  if snd x then option_map utf8 (substring_spec (cps_of (fst x)) start len) else Some [])
               (combine vs valid) with
    | Some r => out_strings valid r
    | None => err_out 3
    end in
  List.concat (repeat one nlayouts).
Definition garbage_pre : list N := [195%N; 169%N].      (* "é": a non-zero first offset *)
Definition m_substring (a : args) : list (list Z) :=
  let start := argz 0 a in let len := opt_len a in
  let valid := bools_of (arg 1 a) in
  let vs := rows a 2 (List.length valid) in
  let bytearr (bits : Z) :=
    match byte_substring_m bits (layout_offsets garbage_pre vs) (layout_data garbage_pre vs [97%N]) start len with
    | Some r => out_strings valid r | None => err_out 3 end in
  let viewarr :=
    match mapM (fun x : list N * bool => if snd x then view_substring_elem (fst x) start len else Some [])
               (combine vs valid) with
    | Some r => out_strings valid r | None => err_out 3 end in
  (* dictionary: the kernel runs on the values array (here: the strings of the valid rows) *)
  let dictarr (bits : Z) :=
    match mapM (fun x : list N * bool =>
                  if snd x then byte_substring_elem (fst x) (wrap bits start) (option_map (wrap bits) len)
                                                    (0%Z, Z.of_nat (List.length (fst x))) else Some [])
               (combine vs valid) with
    | Some r => out_strings valid r | None => err_out 3 end in
  bytearr 32%Z ++ bytearr 64%Z ++ viewarr ++ dictarr 32%Z ++ viewarr.

(* substr_char: [start; has_len; len] [validity] n strings; output for Utf8 then LargeUtf8:
   validity group followed by n byte groups *)
Definition s_substr_char (a : args) : list (list Z) :=
  let valid := bools_of (arg 1 a) in
  let vs := rows a 2 (List.length valid) in
  let one := out_strings valid (map (fun v => utf8 (substring_by_char_spec (cps_of v) (argz 0 a) (opt_len a))) vs) in
  one ++ one.
Definition m_substr_char (a : args) : list (list Z) :=
  let valid := bools_of (arg 1 a) in
  let vs := rows a 2 (List.length valid) in
  let asc := forallb is_ascii vs in
  let one := out_strings valid (map (fun v => substring_by_char_m asc v (argz 0 a) (opt_len a)) vs) in
  one ++ one.

(* length: [validity] n strings; output per layout: validity, lengths, bit lengths (0 under nulls) *)
Definition out_ints (valid : list bool) (xs : list Z) : list Z :=
  map (fun x : Z * bool => if snd x then fst x else 0%Z) (combine xs valid).
Definition s_length (a : args) : list (list Z) :=
  let valid := bools_of (arg 0 a) in
  let vs := rows a 1 (List.length valid) in
  let one := [ zs_of_bools valid; out_ints valid (map (fun v => length_spec (cps_of v)) vs);
               out_ints valid (map (fun v => bit_length_spec (cps_of v)) vs) ] in
  List.concat (repeat one nlayouts).
Definition m_length (a : args) : list (list Z) :=
  let valid := bools_of (arg 0 a) in
  let vs := rows a 1 (List.length valid) in
  let offs := layout_offsets garbage_pre vs in
  let bytearr (bits : Z) := [ zs_of_bools valid; out_ints valid (length_m bits offs); out_ints valid (bit_length_m bits offs) ] in
  let viewarr := [ zs_of_bools valid; out_ints valid (map (fun v => wrap 32 (Z.of_nat (List.length v))) vs);
                   out_ints valid (map (fun v => wrap 32 (wrap 32 (Z.of_nat (List.length v)) * 8)) vs) ] in
  bytearr 32%Z ++ bytearr 64%Z ++ viewarr ++ bytearr 32%Z ++ viewarr.

(* concat: [left validity] [right validity] n left strings, n right strings;
   output for Utf8, LargeUtf8, Utf8View, then left++right++left (concat_elements_utf8_many): validity group
   followed by n byte groups *)
Definition opts (vs : list (list N)) (valid : list bool) : list (option (list N)) :=
  map (fun x : list N * bool => if snd x then Some (fst x) else None) (combine vs valid).
Definition out_opts (l : list (option (list N))) : list (list Z) :=
  zs_of_bools (map (fun o : option (list N) => match o with Some _ => true | None => false end) l)
  :: map (fun o : option (list N) => match o with Some v => zs_of_bytes v | None => [] end) l.
Definition s_concat (a : args) : list (list Z) :=
  let lv := bools_of (arg 0 a) in let rv := bools_of (arg 1 a) in
  let n := List.length lv in
  let ls := rows a 2 n in let rs := rows a (2 + n) n in
  let one := out_opts (map (fun x => option_map utf8 (concat_spec (option_map cps_of (fst x)) (option_map cps_of (snd x))))
                           (combine (opts ls lv) (opts rs rv))) in
  let many := out_opts (map (fun x => option_map utf8 (concat_spec (concat_spec (option_map cps_of (fst x)) (option_map cps_of (snd x)))
                                                                   (option_map cps_of (fst x))))
                            (combine (opts ls lv) (opts rs rv))) in
  one ++ one ++ one ++ many.
Definition m_concat (a : args) : list (list Z) :=
  let lv := bools_of (arg 0 a) in let rv := bools_of (arg 1 a) in
  let n := List.length lv in
  let ls := rows a 2 n in let rs := rows a (2 + n) n in
  let r := concat_elements_m (layout_offsets garbage_pre ls) (layout_data garbage_pre ls [97%N])
                             (layout_offsets [] rs) (layout_data [] rs []) in
  let one := out_strings (union_valid lv rv) (values_of (fst r) (snd r)) in
  (* concat_elements_utf8_many [l; r; l] : the two-array loop applied twice *)
  let r2 := concat_elements_m (fst r) (snd r) (layout_offsets garbage_pre ls) (layout_data garbage_pre ls [97%N]) in
  let many := out_strings (union_valid lv rv) (values_of (fst r2) (snd r2)) in
  one ++ one ++ one ++ many.

(* regexp: [mode; layout; n; k] [validity] n haystacks, k LIKE patterns, k regex source texts
   (the harness' transcription of regex_like); row i is matched against text (i mod k) with flag "s".
   output: [text i = rendering of the model's regex_like (pattern i) ? 1 : 0 ...] [row results] *)
Definition render_rx (r : rx) : list N := render (rx_astart r) (rx_toks r) ++ (if rx_aend r then [36%N] else []).
Definition s_regexp (a : args) : list (list Z) :=
  let n := Z.to_nat (nth 2 (arg 0 a) 0%Z) in let k := Z.to_nat (nth 3 (arg 0 a) 0%Z) in
  let valid := bools_of (arg 1 a) in
  let hs := rows a 2 n in let ps := rows a (2 + n) k in let ts := rows a (2 + n + k) k in
  [ map (fun x : list N * list N => code (eq_cp (cps_of (snd x)) (render_rx (regex_like (cps_of (fst x)))))) (combine ps ts);
    map (fun x : nat * (list N * bool) =>
           if snd (snd x) then code (like_spec (cps_of (nth (fst x mod k) ps [])) (cps_of (fst (snd x)))) else 2%Z)
        (combine (seq 0 n) (combine hs valid)) ].

(* regexp_flags: [layout; n; k] [value validity (n)] [pattern validity (n)] [flag code per row (n)]
   [pattern index per row (n)] n haystacks, k LIKE patterns, k regex source texts.
   flag codes: -1 null (no flags), 0 "" (the complete pattern "(?)..." does not compile: the call is an error),
   1 "i", 2 "s", 3 "is", 4 "m".  Row i: text (index i) under flags i against haystack i; null iff the value or
   the pattern is null (a null flag means no flags).  "i" rows are generated with ASCII text only.
   output: [text j = rendering of regex_like (pattern j)] then [row results] or [-1;3]. *)
Definition s_regexp_flags (a : args) : list (list Z) :=
  let n := Z.to_nat (nth 1 (arg 0 a) 0%Z) in let k := Z.to_nat (nth 2 (arg 0 a) 0%Z) in
  let vv := bools_of (arg 1 a) in let pv := bools_of (arg 2 a) in
  let fl := arg 3 a in let ix := map Z.to_nat (arg 4 a) in
  let hs := rows a 5 n in let ps := rows a (5 + n) k in let ts := rows a (5 + n + k) k in
  let rws := combine (combine hs (combine vv pv)) (combine fl ix) in
  let live (x : (list N * (bool * bool)) * (Z * nat)) := if fst (snd (fst x)) then snd (snd (fst x)) else false in
  let bad := existsb (fun x => if live x then Z.eqb (fst (snd x)) 0 else false) rws in
  [ map (fun x : list N * list N => code (eq_cp (cps_of (snd x)) (render_rx (regex_like (cps_of (fst x)))))) (combine ps ts) ]
  ++ (if bad then err_out 3 else
      [ map (fun x => if live x then
                        let f := fst (snd x) in
                        let ci := Z.eqb f 1 || Z.eqb f 3 in
                        let dotnl := Z.eqb f 2 || Z.eqb f 3 in
                        let ml := Z.eqb f 4 in
                        code (rx_is_match_f (if ci then ascii_ieq else N.eqb) dotnl ml
                                            (regex_like (cps_of (nth (snd (snd x)) ps []))) (cps_of (fst (fst x))))
                      else 2%Z) rws ]).

Definition ops_C20 : list (string * opfun) :=
  [ ("c20.likes", m_likes); ("c20.likes.spec", s_likes);
    ("c20.likes_raw.post1", p_likes_raw);
    ("c20.substring", m_substring); ("c20.substring.spec", s_substring);
    ("c20.substr_char", m_substr_char); ("c20.substr_char.spec", s_substr_char);
    ("c20.length", m_length); ("c20.length.spec", s_length);
    ("c20.concat", m_concat); ("c20.concat.spec", s_concat);
    ("c20.regexp.spec", s_regexp); ("c20.regexp_flags.spec", s_regexp_flags) ].
