(* C17 — JSON string text (definitions only).
   Writer: arrow-json/src/writer/encoder.rs encode_string = serde_json::Serializer::serialize_str
           (format_escaped_str: ESCAPE table: quote, backslash, \b \t \n \f \r as two-character escapes, other bytes < 0x20 as \u00XX with
            lower-case hex digits, every other byte - including 0x7F and all UTF-8 bytes - verbatim).
   Reader: arrow-json/src/reader/tape.rs TapeDecoder, states String / Escape / Unicode(high, low, idx),
           parse_hex, char_from_surrogate_pair, write_char; TapeDecoder::finish validates UTF-8.
   Text and strings are byte lists (N, 0..255); code points are N. *)
From Coq Require Import List NArith Bool.
From AV Require Import Base.Utf8.
Import ListNotations.
Local Open Scope N_scope.

(* ------------------------------------------------------------------ writer *)
Definition hex_digit (n : N) : N := if n <? 10 then 48 + n else 87 + n.      (* 0123456789abcdef *)
Definition escape_byte (b : N) : list N :=
  if b =? 34 then [92; 34]                 (* backslash quote *)
  else if b =? 92 then [92; 92]            (* backslash backslash *)
  else if b =? 8 then [92; 98]             (* \b *)
  else if b =? 9 then [92; 116]            (* \t *)
  else if b =? 10 then [92; 110]           (* \n *)
  else if b =? 12 then [92; 102]           (* \f *)
  else if b =? 13 then [92; 114]           (* \r *)
  else if b <? 32 then [92; 117; 48; 48; hex_digit (b / 16); hex_digit (b mod 16)]
  else [b].
Definition escape (s : list N) : list N := flat_map escape_byte s.

(* ------------------------------------------------------------------ reader *)
(* char::to_digit(16) *)
Definition parse_hex (b : N) : option N :=
  if (48 <=? b) && (b <=? 57) then Some (b - 48)
  else if (97 <=? b) && (b <=? 102) then Some (b - 87)
  else if (65 <=? b) && (b <=? 70) then Some (b - 55)
  else None.
(* four steps of  high = (high << 4) | digit *)
Definition hex4 (a b c d : N) : option N :=
  match parse_hex a, parse_hex b, parse_hex c, parse_hex d with
  | Some x, Some y, Some z, Some w =>
      Some (N.lor (N.shiftl (N.lor (N.shiftl (N.lor (N.shiftl x 4) y) 4) z) 4) w)
  | _, _, _, _ => None
  end.
(* char::from_u32 on a 16-bit value *)
Definition is_bmp_char (u : N) : bool := negb ((55296 <=? u) && (u <=? 57343)).

(* char_from_surrogate_pair as written in tape.rs (after the repair c21c3ff, which replaced `|` by `+`):
     n = ((high - 0xD800) << 10) + ((low - 0xDC00) + 0x1_0000)                                   *)
Definition sp_combine (high low : N) : N := N.shiftl (high - 55296) 10 + ((low - 56320) + 65536).
(* RFC 8259 section 7 / UTF-16: the code point of a surrogate pair *)
Definition sp_spec (high low : N) : N := 65536 + (high - 55296) * 1024 + (low - 56320).

Section Unescape.
Variable combine : N -> N -> N.

Definition surrogate_pair (low high : N) : option N :=
  if (56320 <=? low) && (low <=? 57343) && (55296 <=? high) && (high <=? 56319)
  then let n := combine high low in if scalar n then Some n else None
  else None.

(* the bytes after the opening quote; result: decoded bytes and the text after the closing quote.
   acc is reversed *)
Fixpoint unescape_go (bs : list N) (acc : list N) {struct bs} : option (list N * list N) :=
  match bs with
  | [] => None                                            (* truncated record *)
  | b :: r =>
    if b =? 34 then Some (rev acc, r)
    else if b =? 92 then
      match r with
      | [] => None
      | e :: r1 =>
        if e =? 117 then
          match r1 with
          | h1 :: h2 :: h3 :: h4 :: r2 =>
            match hex4 h1 h2 h3 h4 with
            | None => None
            | Some high =>
              if is_bmp_char high then unescape_go r2 (rev (encode high) ++ acc)
              else
                match r2 with
                | b1 :: b2 :: l1 :: l2 :: l3 :: l4 :: r3 =>
                  if (b1 =? 92) && (b2 =? 117) then
                    match hex4 l1 l2 l3 l4 with
                    | None => None
                    | Some low =>
                      match surrogate_pair low high with
                      | Some c => unescape_go r3 (rev (encode c) ++ acc)
                      | None => None
                      end
                    end
                  else None
                | _ => None
                end
            end
          | _ => None
          end
        else if e =? 34 then unescape_go r1 (34 :: acc)
        else if e =? 92 then unescape_go r1 (92 :: acc)
        else if e =? 47 then unescape_go r1 (47 :: acc)
        else if e =? 98 then unescape_go r1 (8 :: acc)
        else if e =? 102 then unescape_go r1 (12 :: acc)
        else if e =? 110 then unescape_go r1 (10 :: acc)
        else if e =? 114 then unescape_go r1 (13 :: acc)
        else if e =? 116 then unescape_go r1 (9 :: acc)
        else None
      end
    else unescape_go r (b :: acc)                          (* skip_chrs: every other byte is copied *)
  end.

Definition unescape (bs : list N) : option (list N * list N) := unescape_go bs [].

(* a complete string value: text up to the closing quote, then TapeDecoder::finish's UTF-8 check *)
Definition string_value (bs : list N) : option (list N) :=
  match unescape bs with
  | Some (s, _) => if valid_utf8 s then Some s else None
  | None => None
  end.
End Unescape.

(* the implementation (M) and the RFC reading (S) *)
Definition unescape_m := unescape sp_combine.
Definition unescape_s := unescape sp_spec.

(* an independent producer of \uXXXX escapes (what an ASCII-only JSON writer emits): BMP scalar values as
   one escape, others as a UTF-16 surrogate pair; upper-case hex *)
Definition hex_digit_uc (n : N) : N := if n <? 10 then 48 + n else 55 + n.
Definition u_escape16 (u : N) : list N :=
  [92; 117; hex_digit_uc (u / 4096); hex_digit_uc ((u / 256) mod 16); hex_digit_uc ((u / 16) mod 16); hex_digit_uc (u mod 16)].
Definition u_escape (c : N) : list N :=
  if c <? 65536 then u_escape16 c
  else u_escape16 (55296 + (c - 65536) / 1024) ++ u_escape16 (56320 + (c - 65536) mod 1024).
