(* C02 dispatch.  Arrays travel in the tree encoding of Model/D_C09.v ([parse_arr]).
   Every op starts with a header group; the header fields the models do not use (construction path,
   primitive flavour, accessor mode) only steer the harness.

   Logical column encoding (one group):  n  v_1 ... v_n   with
     v ::= 0 (null) | 1 b (bool) | 2 z (fixed-width bits) | 3 k byte*k | 4 k v*k (list) | 5 k v*k (struct)

   c02.logical.spec   [hdr] tree                      -> [column]
   c02.eq / .spec     [hdr] treeA treeB               -> [0|1]
   c02.slice / .spec  [path; flavour; mode; o; n] tree-> [column]
   c02.build / .spec  [kind; w; large; utf8] [column] -> [column]      (kind 0 prim, 1 bool, 2 bin, 3 fixedbin)
   c02.buildphys      same                            -> tree encoding of the array the builder returns
   c02.congr.post     [k; flavour; nreal; nin; npar] par*npar tree*(nreal*nin) | -7777 | outcome*nreal -> [1]
   c02.commute.post   [...] ... | -7777 | lhs rhs     -> [1] *)
From Coq Require Import List ZArith NArith String Bool.
From AV Require Import Base.Codec Base.Bytes Model.C09_Layout Model.D_C09 Model.C02_Logical Model.C02_Equal.
Import ListNotations.

Fixpoint enc_lval (v : lval) : list Z :=
  match v with
  | LNull => [0%Z]
  | LBool b => [1%Z; zb b]
  | LInt z => [2%Z; Z.of_N z]
  | LBytes l => 3%Z :: Z.of_nat (List.length l) :: map Z.of_N l
  | LList l => 4%Z :: Z.of_nat (List.length l) :: flat_map enc_lval l
  | LStruct l => 5%Z :: Z.of_nat (List.length l) :: flat_map enc_lval l
  end.
Definition enc_col (vs : list lval) : list Z := Z.of_nat (List.length vs) :: flat_map enc_lval vs.

(* flat columns only (the builder ops): null / bool / int / bytes *)
Fixpoint take_z (n : nat) (l : list Z) : list Z * list Z :=
  match n with O => ([], l) | S k => match l with x :: r => let '(a, b) := take_z k r in (x :: a, b) | [] => ([], []) end end.
Fixpoint dec_flat (fuel : nat) (l : list Z) : list lval :=
  match fuel with O => [] | S f =>
    match l with
    | 0%Z :: r => LNull :: dec_flat f r
    | 1%Z :: b :: r => LBool (zbool b) :: dec_flat f r
    | 2%Z :: z :: r => LInt (Z.to_N z) :: dec_flat f r
    | 3%Z :: k :: r => if (k <=? Z.of_nat (List.length r))%Z
                       then let '(bs, r') := take_z (Z.to_nat k) r in LBytes (map Z.to_N bs) :: dec_flat f r'
                       else []
    | _ => []
    end end.
Definition dec_col (l : list Z) : list lval := dec_flat (List.length l) (tl l).

(* tree encoding of a physical array (inverse of [parse_arr]) *)
Fixpoint enc_ty (t : dty) : list Z :=
  match t with
  | TNull => [0%Z] | TBool => [1%Z]
  | TFixed w => [2%Z; Z.of_nat w] | TFixedBin n => [3%Z; n]
  | TBin l u => [4%Z; zb l; zb u] | TView u => [5%Z; zb u]
  | TList l n c => 6%Z :: zb l :: zb n :: enc_ty c
  | TListView l n c => 7%Z :: zb l :: zb n :: enc_ty c
  | TFixedList s n c => 8%Z :: s :: zb n :: enc_ty c
  | TStruct fs => 9%Z :: Z.of_nat (List.length fs) ::
      (fix go (l : list (bool * dty)) : list Z := match l with [] => [] | (n, t) :: r => (zb n :: enc_ty t) ++ go r end) fs
  | TDict kw s v => 10%Z :: Z.of_nat kw :: zb s :: enc_ty v
  | TRee rw v => 11%Z :: Z.of_nat rw :: enc_ty v
  | TUnion d fs => 12%Z :: zb d :: Z.of_nat (List.length fs) ::
      (fix go (l : list (Z * dty)) : list Z := match l with [] => [] | (i, t) :: r => (i :: enc_ty t) ++ go r end) fs
  end.
Fixpoint enc_arr (a : parr) : args :=
  match a with
  | PArr ty len off nulls bufs kids =>
      [enc_ty ty; [Z.of_nat len; Z.of_nat off]] ++
      (match nulls with
       | Some nb => [[Z.of_nat (nb_off nb); Z.of_nat (nb_len nb); Z.of_nat (nb_count nb)]; zs_of_bytes (nb_bytes nb)]
       | None => [[]; []] end) ++
      [[Z.of_nat (List.length bufs); Z.of_nat (List.length kids)]] ++
      map zs_of_bytes bufs ++ flat_map enc_arr kids
  end.

Definition bad : list (list Z) := [[(-3)%Z]].

Definition parse1 (a : args) : option (parr * args) := parse_arr (S (List.length a)) (tl a).
Definition parse2 (a : args) : option (parr * parr) :=
  match parse1 a with
  | Some (x, r) => match parse_arr (S (List.length r)) r with Some (y, _) => Some (x, y) | None => None end
  | None => None
  end.

Definition s_logical (a : args) : list (list Z) :=
  match parse1 a with Some (p, _) => [enc_col (logical p)] | None => bad end.

Definition d_eq (a : args) : list (list Z) :=
  match parse2 a with Some (x, y) => [[zb (equal x y)]] | None => bad end.
Definition s_eq (a : args) : list (list Z) :=
  match parse2 a with Some (x, y) => [[zb (logically_equal x y)]] | None => bad end.

Definition is_struct (a : parr) : bool := match p_ty a with TStruct _ => true | _ => false end.
Definition d_slice (a : args) : list (list Z) :=
  let o := Z.to_nat (nth 3 (arg 0 a) 0%Z) in let n := Z.to_nat (nth 4 (arg 0 a) 0%Z) in
  match parse1 a with
  | Some (p, _) => [enc_col (logical (if is_struct p then slice_struct p o n else slice p o n))]
  | None => bad end.
Definition s_slice (a : args) : list (list Z) :=
  let o := Z.to_nat (nth 3 (arg 0 a) 0%Z) in let n := Z.to_nat (nth 4 (arg 0 a) 0%Z) in
  match parse1 a with Some (p, _) => [enc_col (firstn n (skipn o (logical p)))] | None => bad end.

Definition build_of (a : args) : option parr :=
  let h := arg 0 a in
  let kind := nth 0 h 0%Z in let w := Z.to_nat (nth 1 h 0%Z) in
  let vs := dec_col (arg 1 a) in
  if Z.eqb kind 0 then Some (build_prim w vs)
  else if Z.eqb kind 1 then Some (build_bool vs)
  else if Z.eqb kind 2 then Some (build_bin (zbool (nth 2 h 0%Z)) (zbool (nth 3 h 0%Z)) vs)
  else if Z.eqb kind 3 then Some (build_fixedbin w vs)
  else None.
Definition d_build (a : args) : list (list Z) :=
  match build_of a with Some p => [enc_col (logical p)] | None => bad end.
Definition s_build (a : args) : list (list Z) :=
  match a with _ :: col :: _ => [col] | _ => bad end.
(* builder call sequences: [hdr] ([step] [column])*  ->  the concatenation of the step columns
   (column encoding: n v_1 .. v_n, so the concatenation is  (sum of the n)  followed by the bodies) *)
Fixpoint seq_cols (l : args) : Z * list Z :=
  match l with
  | _ :: col :: r => let '(n, body) := seq_cols r in ((hd 0%Z col + n)%Z, (tl col ++ body)%list)
  | _ => (0%Z, [])
  end.
Definition s_buildseq (a : args) : list (list Z) :=
  match a with [] => bad | _ :: steps => let '(n, body) := seq_cols steps in [n :: body] end.

Definition d_buildphys (a : args) : list (list Z) :=
  match build_of a with Some p => enc_arr p | None => bad end.

(* ---- postconditions *)
Fixpoint parse_n (n : nat) (r : args) : option (list parr * args) :=
  match n with
  | O => Some ([], r)
  | S k => match parse_arr (S (List.length r)) r with
           | Some (p, r') => match parse_n k r' with Some (ps, r'') => Some (p :: ps, r'') | None => None end
           | None => None end
  end.
Fixpoint zs_eq (p q : list Z) : bool :=
  match p, q with [], [] => true | u :: p', v :: q' => Z.eqb u v && zs_eq p' q' | _, _ => false end.
Fixpoint chunks {A} (fuel n : nat) (l : list A) : list (list A) :=
  match fuel with O => [] | S f => match l with [] => [] | _ => firstn n l :: chunks f n (skipn n l) end end.
Definition all_same (gs : list (list Z)) : bool :=
  match gs with [] => true | g0 :: r => forallb (zs_eq g0) r end.

(* congruence: when every realisation of every input denotes the same column (checked here with
   [logically_equal], the relation of the theorems), the outcomes must coincide.
   2 = the realisations handed to the kernel were NOT logically equal (a real constructor / slice /
   concat / builder changed the column): also a violation of the property. *)
Definition p_congr (a : args) : list (list Z) :=
  let h := arg 0 a in
  let nreal := Z.to_nat (nth 2 h 0%Z) in let nin := Z.to_nat (nth 3 h 0%Z) in let npar := Z.to_nat (nth 4 h 0%Z) in
  match parse_n (nreal * nin) (skipn (S npar) a) with
  | Some (ps, rest) =>
      match rest with
      | [(-7777)%Z] :: outs =>
          let rows := chunks nreal nin ps in
          match rows with
          | [] => [[zb (all_same outs)]]
          | r0 :: rs =>
              if forallb (fun r => forallb (fun p : parr * parr => logically_equal (fst p) (snd p)) (List.combine r0 r)) rs
              then [[zb (Nat.eqb (List.length outs) nreal && all_same outs)]]
              else [[2%Z]]
          end
      | _ => bad
      end
  | None => bad
  end.

(* commutation: the two sides are already logical columns *)
Fixpoint after_sep (a : args) : args :=
  match a with [] => [] | [(-7777)%Z] :: r => r | _ :: r => after_sep r end.
Definition p_commute (a : args) : list (list Z) :=
  match after_sep a with
  | [l; r] => [[zb (zs_eq l r)]]
  | _ => bad
  end.

Definition ops_C02 : list (string * opfun) :=
  [ ("c02.logical.spec"%string, s_logical);
    ("c02.eq"%string, d_eq); ("c02.eq.spec"%string, s_eq);
    ("c02.slice"%string, d_slice); ("c02.slice.spec"%string, s_slice);
    ("c02.build"%string, d_build); ("c02.build.spec"%string, s_build); ("c02.buildphys"%string, d_buildphys);
    ("c02.buildseq.spec"%string, s_buildseq);
    ("c02.congr.post"%string, p_congr); ("c02.commute.post"%string, p_commute) ].
