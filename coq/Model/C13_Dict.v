(* C13 — Dictionary<K, Binary | LargeBinary | Utf8 | LargeUtf8> -> string / binary / view targets
   (arrow-cast/src/cast/dictionary.rs dictionary_cast and its sparse / dense paths): specification only.
   The cast of a dictionary array is the cast of its LOGICAL column: row i is null when the key is null
   or the selected dictionary value is null; otherwise it is the selected bytes, which must be valid
   UTF-8 when a binary dictionary is cast to a string type (strict: error, safe: null).  Unused
   dictionary values and the physical shape (sparse / dense) never matter. *)
From Coq Require Import List ZArith NArith Bool.
From AV Require Import Base.Utf8.
Import ListNotations.
Local Open Scope Z_scope.

Fixpoint split_lens (lens : list Z) (bytes : list Z) : list (list Z) :=
  match lens with
  | [] => []
  | n :: r => firstn (Z.to_nat n) bytes :: split_lens r (skipn (Z.to_nat n) bytes)
  end.

Definition dict_row (check : bool) (values : list (option (list Z))) (k : option Z) : option (option (list Z)) + unit :=
  match k with
  | None => inl (Some None)
  | Some i =>
      if i <? 0 then inr tt else
      match nth_error values (Z.to_nat i) with
      | None => inr tt                                   (* key out of range: outside the model *)
      | Some None => inl (Some None)
      | Some (Some bs) =>
          if check then (if valid_utf8 (map Z.to_N bs) then inl (Some (Some bs)) else inl None)   (* inl None = not representable *)
          else inl (Some (Some bs))
      end
  end.

(* result: inl rows | inr 0 = error (strict, some valid row not representable) | inr 1 = outside the model *)
Fixpoint dict_cast_spec (check safe : bool) (values : list (option (list Z))) (keys : list (option Z))
  : list (option (list Z)) + Z :=
  match keys with
  | [] => inl []
  | k :: r =>
      match dict_row check values k with
      | inr _ => inr 1
      | inl row =>
          match dict_cast_spec check safe values r with
          | inr 1 => inr 1
          | inr e => match row with None => if safe then inr e else inr 0 | Some _ => inr e end
          | inl rows => match row with
                        | Some x => inl (x :: rows)
                        | None => if safe then inl (None :: rows) else inr 0
                        end
          end
      end
  end.
