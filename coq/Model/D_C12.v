(* C12 dispatch table: wraps the C12 models in the uniform case interface. *)
From Coq Require Import List ZArith NArith String Bool.
From AV Require Import Base.Codec Model.C12_Int Model.C12_Kernel Model.C12_I256 Model.C12_Bool Model.C12_Agg Model.C12_Decimal.
Import ListNotations.
Local Open Scope string_scope.
Local Open Scope Z_scope.

Definition fld (i : nat) (a : args) : Z := nth i (arg 0 a) 0.
Definition fldb (i : nat) (a : args) : bool := negb (fld i a =? 0).
Definition half_of_bits (bits : Z) : Z := 2 ^ (bits - 1).

(* physical array from the case groups: values, validity (ignored unless `hasnulls`) *)
Definition mk_arr (hasnulls : bool) (vals valid : list Z) : parr :=
  mkarr vals (if hasnulls then Some (bools_of valid) else None).

(* canonical output of a kernel: [validity bits] [values, 0 under nulls]  |  [-1; kind] *)
Definition out_rows (r : list (option Z) + Z) : list (list Z) :=
  match r with
  | inl rows => [ map (fun o : option Z => match o with Some _ => 1 | None => 0 end) rows;
                  map (fun o : option Z => match o with Some z => z | None => 0 end) rows ]
  | inr k => err_out k
  end.

(* arith: [signed; bits; op; l_scalar; r_scalar; l_hasnulls; r_hasnulls; (layout: l_off; r_off)]
          [l values] [l validity] [r values] [r validity]
   op: 0 add_wrapping 1 add 2 sub_wrapping 3 sub 4 mul_wrapping 5 mul 6 div 7 rem *)
Definition arith_l (a : args) : parr := mk_arr (fldb 5 a) (arg 1 a) (arg 2 a).
Definition arith_r (a : args) : parr := mk_arr (fldb 6 a) (arg 3 a) (arg 4 a).
Definition d_arith (a : args) : list (list Z) :=
  out_rows (canon (integer_op (fldb 0 a) (half_of_bits (fld 1 a)) (aop_of_code (fld 2 a))
                     (fldb 3 a) (fldb 4 a) (arith_l a) (arith_r a))).
Definition s_arith (a : args) : list (list Z) :=
  out_rows (spec_binary_kernel (spec_scalar (fldb 0 a) (half_of_bits (fld 1 a)) (aop_of_code (fld 2 a)))
              (fldb 3 a) (fldb 4 a) (denote (arith_l a)) (denote (arith_r a))).

(* neg: [signed; bits; wrapping; hasnulls; (layout: off)] [values] [validity] *)
Definition neg_arr (a : args) : parr := mk_arr (fldb 3 a) (arg 1 a) (arg 2 a).
Definition d_neg (a : args) : list (list Z) :=
  let s := fldb 0 a in let H := half_of_bits (fld 1 a) in
  out_rows (canon (if fldb 2 a then neg_wrapping_kernel s H (neg_arr a) else neg_kernel s H (neg_arr a))).
Definition s_neg (a : args) : list (list Z) :=
  let s := fldb 0 a in let H := half_of_bits (fld 1 a) in
  out_rows (if fldb 2 a then spec_rows1 (spec_neg_wrapping s H) (denote (neg_arr a))
            else if s then spec_rows1 (spec_neg s H) (denote (neg_arr a))
            else inr E_INVALID).

(* i256: [op] [a] [b] -> [value] | [] (None) | [-1; 8] (panic)
   op: 0 wrapping_add 1 wrapping_sub 2 wrapping_mul 3 wrapping_neg 4 checked_add 5 checked_sub
       6 checked_mul 7 checked_neg 8 checked_div 9 checked_rem 10 wrapping_div 11 wrapping_rem
       12 cmp (-1/0/1) 13 wrapping_abs *)
Definition B64 : Z := 2 ^ 64.
Definition H127 : Z := 2 ^ 127.
Definition H255 : Z := 2 ^ 255.
Definition v256 (x : i256) : list (list Z) := [[val H127 x]].
Definition o256 (x : option i256) : list (list Z) := match x with Some r => v256 r | None => [[]] end.
Definition e256 (x : i256 + Z) : list (list Z) := match x with inl r => v256 r | inr k => err_out k end.
Definition zcmp (c : comparison) : Z := match c with Lt => -1 | Eq => 0 | Gt => 1 end.
Definition d_i256 (a : args) : list (list Z) :=
  let op := argz 0 a in
  let x := of_val H127 (argz 1 a) in let y := of_val H127 (argz 2 a) in
  if op =? 0 then v256 (wrapping_add H127 x y)
  else if op =? 1 then v256 (wrapping_sub H127 x y)
  else if op =? 2 then v256 (wrapping_mul256 B64 H127 x y)
  else if op =? 3 then v256 (wrapping_neg256 H127 x)
  else if op =? 4 then o256 (checked_add256 H127 x y)
  else if op =? 5 then o256 (checked_sub256 H127 x y)
  else if op =? 6 then o256 (checked_mul256 B64 H127 x y)
  else if op =? 7 then o256 (checked_neg256 H127 x)
  else if op =? 8 then o256 (checked_div256 H127 x y)
  else if op =? 9 then o256 (checked_rem256 H127 x y)
  else if op =? 10 then e256 (wrapping_div256 H127 x y)
  else if op =? 11 then e256 (wrapping_rem256 H127 x y)
  else if op =? 12 then [[zcmp (cmp256 x y)]]
  else v256 (wrapping_abs256 H127 x).
Definition zo (o : option Z) : list (list Z) := [zopt o].
Definition s_i256 (a : args) : list (list Z) :=
  let op := argz 0 a in let x := argz 1 a in let y := argz 2 a in
  let w := wrap true H255 in
  let chk (z : Z) := if in_range true H255 z then Some z else None in
  if op =? 0 then zo (Some (w (x + y)))
  else if op =? 1 then zo (Some (w (x - y)))
  else if op =? 2 then zo (Some (w (x * y)))
  else if op =? 3 then zo (Some (w (- x)))
  else if op =? 4 then zo (chk (x + y))
  else if op =? 5 then zo (chk (x - y))
  else if op =? 6 then zo (chk (x * y))
  else if op =? 7 then zo (chk (- x))
  else if op =? 8 then zo (if y =? 0 then None else chk (Z.quot x y))
  (* checked_rem follows Rust's checked_rem: None also for MIN % -1 *)
  else if op =? 9 then zo (if y =? 0 then None else if in_range true H255 (Z.quot x y) then Some (Z.rem x y) else None)
  else if op =? 10 then (if y =? 0 then err_out 8 else zo (Some (w (Z.quot x y))))
  else if op =? 11 then (if y =? 0 then err_out 8 else zo (Some (Z.rem x y)))
  else if op =? 12 then [[zcmp (x ?= y)]]
  else zo (Some (w (Z.abs x))).

(* decimal: [bits; op; l_scalar; r_scalar; l_hasnulls; r_hasnulls; p1; s1; p2; s2; (layout: l_off; r_off)]
            [l values] [l validity] [r values] [r validity]
   op: 0 add 1 sub 2 mul 3 div 4 rem ; output [validity] [values] [precision; scale] | [-1; kind] *)
Definition dec_max (bits : Z) : Z := if bits =? 32 then 9 else if bits =? 64 then 18 else if bits =? 128 then 38 else 76.
Definition dec_l (a : args) : parr := mk_arr (fldb 4 a) (arg 1 a) (arg 2 a).
Definition dec_r (a : args) : parr := mk_arr (fldb 5 a) (arg 3 a) (arg 4 a).
Definition d_decimal (a : args) : list (list Z) :=
  let m := dec_max (fld 0 a) in
  match decimal_op (half_of_bits (fld 0 a)) m m (dop_of_code (fld 1 a)) (fldb 2 a) (fldb 3 a)
          (fld 6 a) (fld 7 a) (fld 8 a) (fld 9 a) (dec_l a) (dec_r a) with
  | DErr k => err_out k
  | DOk v n p sc => out_rows (canon (AOk v n)) ++ [[p; sc]]
  end.
Definition s_decimal (a : args) : list (list Z) :=
  let m := dec_max (fld 0 a) in
  match spec_decimal (half_of_bits (fld 0 a)) m m (dop_of_code (fld 1 a)) (fldb 2 a) (fldb 3 a)
          (fld 6 a) (fld 7 a) (fld 8 a) (fld 9 a) (denote (dec_l a)) (denote (dec_r a)) with
  | inr k => err_out k
  | inl (rows, (p, sc)) => out_rows (inl rows) ++ [[p; sc]]
  end.

(* bool: [op; l_hasnulls; r_hasnulls; (layout: l_off; r_off)] [l values] [l validity] [r values] [r validity]
   op: 0 and_kleene 1 or_kleene 2 and 3 or 4 and_not 5 not 6 is_null 7 is_not_null
   output [validity] [values, 0 under nulls] | [-1; kind] *)
Definition mk_barr (hasnulls : bool) (vals valid : list Z) : barr :=
  mkb (bools_of vals) (if hasnulls then Some (bools_of valid) else None).
Definition out_brows (r : list (option bool) + nat) : list (list Z) :=
  match r with
  | inl rows => [ map (fun o : option bool => match o with Some _ => 1 | None => 0 end) rows;
                  map (fun o : option bool => match o with Some true => 1 | _ => 0 end) rows ]
  | inr k => err_out (Z.of_nat k)
  end.
Definition bool_l (a : args) : barr := mk_barr (fldb 1 a) (arg 1 a) (arg 2 a).
Definition bool_r (a : args) : barr := mk_barr (fldb 2 a) (arg 3 a) (arg 4 a).
Definition d_bool (a : args) : list (list Z) :=
  let op := fld 0 a in let l := bool_l a in let r := bool_r a in
  out_brows (bcanon (
    if op =? 0 then and_kleene l r else if op =? 1 then or_kleene l r
    else if op =? 2 then and_k l r else if op =? 3 then or_k l r else if op =? 4 then and_not_k l r
    else if op =? 5 then not_k l
    else if op =? 6 then is_null_k (blen l) (b_nulls l) else is_not_null_k (blen l) (b_nulls l))).
Definition s_bool (a : args) : list (list Z) :=
  let op := fld 0 a in let l := bdenote (bool_l a) in let r := bdenote (bool_r a) in
  out_brows (
    if op =? 0 then spec_bool2 k3_and l r else if op =? 1 then spec_bool2 k3_or l r
    else if op =? 2 then spec_bool2 (strict2 andb) l r else if op =? 3 then spec_bool2 (strict2 orb) l r
    else if op =? 4 then spec_bool2 (strict2 (fun x y => x && negb y)) l r
    else if op =? 5 then inl (map k3_not l)
    else if op =? 6 then inl (map (fun o : option bool => match o with None => Some true | Some _ => Some false end) l)
    else inl (map (fun o : option bool => match o with None => Some false | Some _ => Some true end) l)).

(* agg: [signed; bits; aggop; hasnulls; (layout: off); log2 lanes] [values] [validity]
   aggop: 0 sum 1 sum_checked 2 min 3 max 4 bit_and 5 bit_or 6 bit_xor ; output [] | [z] | [-1; kind] *)
Definition agg_arr (a : args) : parr := mk_arr (fldb 3 a) (arg 1 a) (arg 2 a).
Definition oz (o : option Z) : list (list Z) := [zopt o].
Definition d_agg (a : args) : list (list Z) :=
  let s := fldb 0 a in let H := half_of_bits (fld 1 a) in let op := fld 2 a in
  let L := Nat.pow 2 (Z.to_nat (fld 5 a)) in
  if op =? 0 then oz (aggregate (sum_acc s H) L (agg_arr a))
  else if op =? 1 then match sum_checked s H (agg_arr a) with inl o => oz o | inr k => err_out k end
  else if op =? 2 then oz (aggregate (min_acc s H) L (agg_arr a))
  else oz (aggregate (max_acc s H) L (agg_arr a)).
Definition s_agg (a : args) : list (list Z) :=
  let s := fldb 0 a in let H := half_of_bits (fld 1 a) in let op := fld 2 a in
  let rows := denote (agg_arr a) in
  if op =? 0 then oz (spec_sum s H rows)
  else if op =? 1 then match spec_sum_checked s H rows with inl o => oz o | inr k => err_out k end
  else if op =? 2 then oz (spec_min rows)
  else if op =? 3 then oz (spec_max rows)
  else oz (spec_bit s H (op - 4) rows).
(* boolagg: [op; hasnulls; (layout: off)] [values] [validity] ; op 0 bool_and 1 bool_or *)
Definition s_boolagg (a : args) : list (list Z) :=
  let rows := denote (mk_arr (fldb 1 a) (arg 1 a) (arg 2 a)) in
  if fld 0 a =? 0 then oz (spec_bool_and rows) else oz (spec_bool_or rows).

Definition ops_C12 : list (string * opfun) :=
  [ ("c12.arith", d_arith); ("c12.arith.spec", s_arith);
    ("c12.neg", d_neg); ("c12.neg.spec", s_neg);
    ("c12.i256", d_i256); ("c12.i256.spec", s_i256);
    ("c12.decimal", d_decimal); ("c12.decimal.spec", s_decimal);
    ("c12.bool", d_bool); ("c12.bool.spec", s_bool);
    ("c12.agg", d_agg); ("c12.agg.spec", s_agg);
    ("c12.boolagg.spec", s_boolagg) ].
