(* C15 — observable traces of a push-decoder (or async reader) run and the protocol predicate the
   property imposes on them.  Definitions only.

   A trace is the sequence of what the caller saw and did:
     TNeed rs     a decode call returned NeedsData(rs)
     TPush rs     the caller supplied the file's bytes of the ranges rs (one push_ranges call)
     TData n      a decode call returned a batch of n rows
     TReader n    try_next_reader / next_row_group returned a reader that yielded n rows
     TFinished    a decode call returned Finished
     TClear       the caller called clear_all_ranges
     TRebuild     the caller turned the decoder into a builder and rebuilt it (row-group boundary)
     TStall       the harness gave up (call budget exhausted)                                    *)
From Coq Require Import List NArith ZArith Bool.
From AV Require Import Model.C15_PushBuf.
Import ListNotations.
Local Open Scope N_scope.

Inductive tev :=
| TNeed (rs : list range) | TPush (rs : list range) | TData (n : N) | TReader (n : N)
| TFinished | TClear | TRebuild | TStall.

Definition in_file (file_len : N) (r : range) : bool := (fst r <=? snd r) && (snd r <=? file_len).
(* r is contained in ONE of the supplied ranges *)
Definition covered (supplied : list range) (r : range) : bool :=
  existsb (fun p : range => (fst p <=? fst r) && (snd r <=? snd p)) supplied.
Definition is_whole (file_len : N) (p : range) : bool := (fst p =? 0) && (file_len <=? snd p).

(* Safety part (prefix closed).  [fresh] = ranges supplied since the last decode call or clear;
   [whole] = a range containing the whole file was supplied since the last clear.
   * every requested range lies within the file, and a NeedsData is never empty;
   * sufficiency: a NeedsData never asks for a range that the caller supplied (inside one supplied
     range) since the previous decode call — so after supplying what was asked, the next call cannot
     ask for any of it again, in particular it cannot return the same NeedsData;
   * once the whole file has been supplied nothing can be requested at all. *)
Fixpoint trace_safe (file_len : N) (fresh : list range) (whole : bool) (t : list tev) : bool :=
  match t with
  | [] => true
  | TNeed rs :: t' =>
      negb whole && (match rs with [] => false | _ => true end)
      && forallb (fun r => in_file file_len r && negb (covered fresh r)) rs
      && trace_safe file_len [] whole t'
  | TPush rs :: t' => trace_safe file_len (fresh ++ rs) (whole || existsb (is_whole file_len) rs) t'
  | TData _ :: t' | TReader _ :: t' => trace_safe file_len [] whole t'
  | TFinished :: t' => trace_safe file_len [] whole t'
  | TClear :: t' => trace_safe file_len [] false t'
  | TRebuild :: t' => trace_safe file_len fresh whole t'
  | TStall :: _ => false
  end.

(* Completion: the run ended with Finished. *)
Definition trace_complete (t : list tev) : bool :=
  match last t TStall with TFinished => true | _ => false end.

Definition trace_rows (t : list tev) : N :=
  fold_right (fun e acc => match e with TData n | TReader n => n + acc | _ => acc end) 0 t.

(* ------------------------------------------------------------------ wire format
   A trace is one flat group of integers:
     1,bb,k,st1,en1,..,stk,enk   TNeed        (bb = decoder.buffered_bytes() after the call, -1 if not observed)
     2,bb,k,st1,en1,..,stk,enk   TPush
     3,bb,n                      TData
     4                           TFinished
     5,bb                        TClear
     6,bb                        TRebuild
     7,bb,n                      TReader
     9                           TStall                                                         *)
Fixpoint take_ranges (k : nat) (l : list Z) : option (list range * list Z) :=
  match k with
  | O => Some ([], l)
  | S k' => match l with
            | st :: en :: l' => match take_ranges k' l' with
                                | Some (rs, rest) => Some ((Z.to_N st, Z.to_N en) :: rs, rest)
                                | None => None
                                end
            | _ => None
            end
  end.

(* parsed events keep the observed buffered_bytes next to the event *)
Fixpoint parse_trace (fuel : nat) (l : list Z) : option (list (tev * Z)) :=
  match fuel with
  | O => match l with [] => Some [] | _ => None end
  | S f =>
      match l with
      | [] => Some []
      | 1%Z :: bb :: k :: l' =>
          if (1048576 <=? k)%Z then None else
          match take_ranges (Z.to_nat k) l' with
          | Some (rs, rest) => option_map (cons (TNeed rs, bb)) (parse_trace f rest) | None => None end
      | 2%Z :: bb :: k :: l' =>
          if (1048576 <=? k)%Z then None else
          match take_ranges (Z.to_nat k) l' with
          | Some (rs, rest) => option_map (cons (TPush rs, bb)) (parse_trace f rest) | None => None end
      | 3%Z :: bb :: n :: l' => option_map (cons (TData (Z.to_N n), bb)) (parse_trace f l')
      | 4%Z :: l' => option_map (cons (TFinished, (-1)%Z)) (parse_trace f l')
      | 5%Z :: bb :: l' => option_map (cons (TClear, bb)) (parse_trace f l')
      | 6%Z :: bb :: l' => option_map (cons (TRebuild, bb)) (parse_trace f l')
      | 7%Z :: bb :: n :: l' => option_map (cons (TReader (Z.to_N n), bb)) (parse_trace f l')
      | 9%Z :: l' => option_map (cons (TStall, (-1)%Z)) (parse_trace f l')
      | _ => None
      end
  end.

(* The postcondition of a reader run, evaluated on what the harness observed:
   [file_len] [rows of the sync reader] [rows of the reader under test] [trace]
   -> rows agree, the trace is safe and complete, and the trace accounts for exactly the rows. *)
Definition run_ok (file_len : N) (sync other : list Z) (t : list tev) : bool :=
  (if list_eq_dec Z.eq_dec sync other then true else false)
  && trace_safe file_len [] false t && trace_complete t
  && (trace_rows t =? nlen other).
