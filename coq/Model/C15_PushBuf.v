(* C15 — model of parquet/src/util/push_buffers.rs (PushBuffers), definitions only.

   A PushBuffers is a list of (range, bytes) entries in push order, a virtual read offset and the
   file length.  Ranges are half-open [st, en) over u64 (modelled as unbounded N; the harness only
   produces values far below 2^64, see checks/C15.json assumptions).  The buffer does NOT coalesce:
   a request is satisfied only by ONE entry that contains it. *)
From Coq Require Import List NArith Bool.
Import ListNotations.
Local Open Scope N_scope.

Notation range := (N * N)%type.

Record entry := { e_st : N; e_en : N; e_data : list N }.
Record pushbuf := { pb_offset : N; pb_file_len : N; pb_entries : list entry }.

Definition pb_new (file_len : N) : pushbuf := {| pb_offset := 0; pb_file_len := file_len; pb_entries := [] |}.
Definition pb_with_entries (pb : pushbuf) (es : list entry) : pushbuf :=
  {| pb_offset := pb_offset pb; pb_file_len := pb_file_len pb; pb_entries := es |}.

Definition nlen {A} (l : list A) : N := N.of_nat (length l).

(* push_range: `expected = range.end.saturating_sub(range.start)` (N subtraction is truncated, like
   saturating_sub); reject when it differs from the buffer length, otherwise append. *)
Definition push_range (pb : pushbuf) (st en : N) (data : list N) : option pushbuf :=
  if (en - st) =? nlen data
  then Some (pb_with_entries pb (pb_entries pb ++ [{| e_st := st; e_en := en; e_data := data |}]))
  else None.

(* push_ranges: count check, then `for (range, buffer) in zip { self.push_range(..)? }` — entries
   pushed before the first failing one stay in the buffer. *)
Fixpoint push_all (pb : pushbuf) (rs : list range) (bs : list (list N)) : pushbuf * bool :=
  match rs, bs with
  | (st, en) :: rs', b :: bs' =>
      match push_range pb st en b with
      | Some pb' => push_all pb' rs' bs'
      | None => (pb, false)
      end
  | _, _ => (pb, true)
  end.
Definition push_ranges (pb : pushbuf) (rs : list range) (bs : list (list N)) : pushbuf * bool :=
  if Nat.eqb (length rs) (length bs) then push_all pb rs bs else (pb, false).

(* has_range: `self.ranges.iter().any(|r| r.start <= range.start && r.end >= range.end)` *)
Definition covers (e : entry) (r : range) : bool := (e_st e <=? fst r) && (snd r <=? e_en e).
Definition has_range (pb : pushbuf) (r : range) : bool := existsb (fun e => covers e r) (pb_entries pb).

(* data.slice(start_offset .. start_offset + length) *)
Definition bslice (data : list N) (off len : N) : list N := firstn (N.to_nat len) (skipn (N.to_nat off) data).

(* ChunkReader::get_bytes: first entry with `range.start <= start && range.end >= start + length`;
   otherwise Err(NeedMoreDataRange(start .. start+length)) (None here, the range is recomputed by the
   caller of the model). The conversions to nat happen under the guard only. *)
Fixpoint find_bytes (es : list entry) (start len : N) : option (list N) :=
  match es with
  | [] => None
  | e :: es' => if (e_st e <=? start) && (start + len <=? e_en e)
                then Some (bslice (e_data e) (start - e_st e) len)
                else find_bytes es' start len
  end.
Definition get_bytes (pb : pushbuf) (start len : N) : option (list N) := find_bytes (pb_entries pb) start len.

(* ChunkReader::get_read(start): clone with offset := offset + start *)
Definition get_read (pb : pushbuf) (start : N) : pushbuf :=
  {| pb_offset := pb_offset pb + start; pb_file_len := pb_file_len pb; pb_entries := pb_entries pb |}.

(* std::io::Read::read(buf) with buf.len() = n: the whole buffer must come from one entry that
   contains [offset, offset+n); on success the offset advances by n, otherwise UnexpectedEof. *)
Definition read (pb : pushbuf) (n : N) : option (list N) * pushbuf :=
  match find_bytes (pb_entries pb) (pb_offset pb) n with
  | Some x => (Some x, {| pb_offset := pb_offset pb + n; pb_file_len := pb_file_len pb; pb_entries := pb_entries pb |})
  | None => (None, pb)
  end.

(* clear_ranges: drop every entry whose range is exactly equal to one of ranges_to_clear *)
Definition range_eqb (r : range) (e : entry) : bool := (fst r =? e_st e) && (snd r =? e_en e).
Definition clear_ranges (pb : pushbuf) (rs : list range) : pushbuf :=
  pb_with_entries pb (filter (fun e => negb (existsb (fun r => range_eqb r e) rs)) (pb_entries pb)).
Definition clear_all_ranges (pb : pushbuf) : pushbuf := pb_with_entries pb [].

(* buffered_bytes: sum of (end - start) over the entries *)
Definition buffered_bytes (pb : pushbuf) : N := fold_right (fun e acc => (e_en e - e_st e) + acc) 0 (pb_entries pb).

(* ------------------------------------------------------------------ specification side *)
(* The file and its slices: what a reader with direct access to the file sees. *)
Definition fslice (file : list N) (start len : N) : list N := bslice file start len.

(* An entry is consistent with the file when it carries exactly the file's bytes of its range. *)
Definition consistent (file : list N) (e : entry) : Prop :=
  e_st e <= e_en e /\ e_en e <= nlen file /\ e_data e = fslice file (e_st e) (e_en e - e_st e).

(* S for get_bytes on a history of accepted pushes of file ranges: the file's bytes iff ONE pushed
   range contains the request. *)
Definition get_bytes_spec (file : list N) (pushed : list range) (start len : N) : option (list N) :=
  if existsb (fun p : range => (fst p <=? start) && (start + len <=? snd p)) pushed
  then Some (fslice file start len) else None.
