(* C03 dispatch table: wraps the C03 models and specifications in the uniform case interface.

   Column encoding (shared by all ops).  A column is three groups
       [pre; post; seed; nonull]   layout: the harness builds pre+len+post rows (junk rows drawn from seed)
                                   and slices [pre, pre+len); nonull=1: drop the validity buffer if all valid.
                                   Only [nonull] is visible to the models: results may not depend on the rest.
       vals                        one integer id per row (the payload, also under null slots)
       valid                       one 0/1 per row
   The harness maps ids injectively to values of the data type named in the cfg group (which the
   models ignore: the result is the same for every type) and decodes results back to ids.
   Output rows: one group, id per row, -1 for a null row.  Errors: [-1; kind]. *)
From Coq Require Import List ZArith NArith String Bool Arith.
From AV Require Import Base.Codec Model.C03_Select Model.C03_Coalesce.
Import ListNotations.
Local Open Scope string_scope.

Definition zbools (l : list Z) : list bool := bools_of l.
Definition pcol_of (lay vals valid : list Z) : pcol Z :=
  let nonull := negb (Z.eqb (nth 3 lay 0%Z) 0) in
  let n := zbools valid in
  (vals, if nonull && all_true n then None else Some n).
Definition pmask_of (lay vals valid : list Z) : pcol bool :=
  let c := pcol_of lay vals valid in (zbools (fst c), snd c).
(* column starting at argument position i *)
Definition col_at (i : nat) (a : args) : pcol Z := pcol_of (arg i a) (arg (i + 1) a) (arg (i + 2) a).
Definition mask_at (i : nat) (a : args) : pcol bool := pmask_of (arg i a) (arg (i + 1) a) (arg (i + 2) a).
Fixpoint cols_at (k : nat) (i : nat) (a : args) : list (pcol Z) :=
  match k with O => [] | S k' => col_at i a :: cols_at k' (i + 3) a end.

Definition zrow (r : option Z) : Z := match r with Some v => v | None => (-1)%Z end.
Definition zrows (c : list (option Z)) : list Z := map zrow c.
Definition cfgn (i : nat) (a : args) : nat := Z.to_nat (nth i (arg 0 a) 0%Z).
Definition cfgz (i : nat) (a : args) : Z := nth i (arg 0 a) 0%Z.
(* record-batch forms return the id column twice (two columns carrying the same ids) *)
Definition dup (twice : bool) (g : list Z) : list (list Z) := if twice then [g; g] else [g].

(* ---- filter: [ty; w; mode] col mask.  mode 3 = filter_record_batch (two columns) *)
Definition d_filter_with (f : pcol Z -> pcol bool -> pcol Z) (a : args) : list (list Z) :=
  dup (Nat.eqb (cfgn 2 a) 3) (zrows (logical (f (col_at 1 a) (mask_at 4 a)))).
Definition d_filter := d_filter_with (filter_M 0%Z).
(* forced strategies; when the forced strategy is not applicable (all / none selected) use the default *)
Definition forced (s : strategy) (c : pcol Z) (m : pcol bool) : pcol Z :=
  match p_strategy (build_predicate m) with
  | SNone | SAll => filter_M 0%Z c m
  | _ => filter_with s 0%Z c m
  end.
Definition d_filter_slices := d_filter_with (forced SSlices).
Definition d_filter_indices := d_filter_with (forced SIndices).
Definition s_filter (a : args) : list (list Z) :=
  dup (Nat.eqb (cfgn 2 a) 3) (zrows (filter_spec (logical (col_at 1 a)) (logical_mask (mask_at 4 a)))).

(* ---- take: [ty; w; mode; ity; check_bounds] col idx.  mode 1 = take_record_batch *)
Definition d_take (a : args) : list (list Z) :=
  match take_M 0%Z (negb (Z.eqb (cfgz 4 a) 0)) (col_at 1 a) (col_at 4 a) with
  | Some c => dup (Nat.eqb (cfgn 2 a) 1) (zrows (logical c))
  | None => err_out 4
  end.
Definition s_take (a : args) : list (list Z) :=
  match take_spec (logical (col_at 1 a)) (logical_idx (col_at 4 a)) with
  | Some c => dup (Nat.eqb (cfgn 2 a) 1) (zrows c)
  | None => err_out 4
  end.

(* ---- concat: [ty; w; mode; k] k columns.  mode 1 = concat_batches *)
Definition d_concat (a : args) : list (list Z) :=
  dup (Nat.eqb (cfgn 2 a) 1) (zrows (logical (concat_M (cols_at (cfgn 3 a) 1 a)))).
Definition s_concat (a : args) : list (list Z) :=
  dup (Nat.eqb (cfgn 2 a) 1) (zrows (concat_spec (map logical (cols_at (cfgn 3 a) 1 a)))).

(* ---- interleave: [ty; w; mode; k] k columns [a0; i0; a1; i1; ...].  mode 1 = interleave_record_batch *)
Fixpoint pairs_of (l : list Z) : list (nat * nat) :=
  match l with x :: y :: r => (Z.to_nat x, Z.to_nat y) :: pairs_of r | _ => [] end.
Definition d_interleave (a : args) : list (list Z) :=
  let k := cfgn 3 a in
  match interleave_M (cols_at k 1 a) (pairs_of (arg (1 + 3 * k) a)) with
  | Some c => dup (Nat.eqb (cfgn 2 a) 1) (zrows (logical c))
  | None => err_out 8
  end.
Definition s_interleave (a : args) : list (list Z) :=
  let k := cfgn 3 a in
  match interleave_spec (map logical (cols_at k 1 a)) (pairs_of (arg (1 + 3 * k) a)) with
  | Some c => dup (Nat.eqb (cfgn 2 a) 1) (zrows c)
  | None => err_out 8
  end.

(* ---- zip / merge: [ty; w; mode; truthy_scalar; falsy_scalar] mask truthy falsy *)
Definition d_zip (a : args) : list (list Z) :=
  [ zrows (zip_M (mask_at 1 a) (negb (Z.eqb (cfgz 3 a) 0)) (logical (col_at 4 a))
                 (negb (Z.eqb (cfgz 4 a) 0)) (logical (col_at 7 a))) ].
Definition s_zip (a : args) : list (list Z) :=
  [ zrows (zip_spec (logical_mask (mask_at 1 a)) (negb (Z.eqb (cfgz 3 a) 0)) (logical (col_at 4 a))
                    (negb (Z.eqb (cfgz 4 a) 0)) (logical (col_at 7 a))) ].
Definition d_merge (a : args) : list (list Z) :=
  [ zrows (merge_M (mask_at 1 a) (negb (Z.eqb (cfgz 3 a) 0)) (logical (col_at 4 a))
                   (negb (Z.eqb (cfgz 4 a) 0)) (logical (col_at 7 a))) ].
Definition s_merge (a : args) : list (list Z) :=
  [ zrows (merge_spec (logical_mask (mask_at 1 a)) (negb (Z.eqb (cfgz 3 a) 0)) (logical (col_at 4 a))
                      (negb (Z.eqb (cfgz 4 a) 0)) (logical (col_at 7 a))) ].
(* merge_n: [ty; w; mode; k] k columns [indices, -1 = None] *)
Definition s_merge_n (a : args) : list (list Z) :=
  let k := cfgn 3 a in
  [ zrows (merge_n_spec (map logical (cols_at k 1 a))
             (map (fun z => if (z <? 0)%Z then None else Some (Z.to_nat z)) (arg (1 + 3 * k) a))) ].

(* ---- nullif: [ty; w] col mask *)
Definition d_nullif (a : args) : list (list Z) := [ zrows (logical (nullif_M (col_at 1 a) (mask_at 4 a))) ].
Definition s_nullif (a : args) : list (list Z) :=
  [ zrows (nullif_spec (logical (col_at 1 a)) (logical_mask (mask_at 4 a))) ].

(* ---- shift: [ty; w; offset] col ;  slice: [ty; w; off; len] col *)
Definition d_shift (a : args) : list (list Z) := [ zrows (logical (shift_M 0%Z (col_at 1 a) (cfgz 2 a))) ].
Definition s_shift (a : args) : list (list Z) := [ zrows (shift_spec (logical (col_at 1 a)) (cfgz 2 a)) ].
Definition d_slice (a : args) : list (list Z) := [ zrows (logical (slice_M (col_at 1 a) (cfgn 2 a) (cfgn 3 a))) ].
Definition s_slice (a : args) : list (list Z) := [ zrows (slice_spec (logical (col_at 1 a)) (cfgn 2 a) (cfgn 3 a)) ].

(* ---- dictionary gc: [kty] keys-column [dictionary value ids]  ->  rows ; [values not referenced by a valid key] *)
Definition unreferenced (keys : pcol Z) (nvalues : nat) : Z :=
  Z.of_nat (nvalues - count_true (occupancy keys nvalues)).
Definition d_gc (a : args) : list (list Z) :=
  let '(k, v) := gc_M (col_at 1 a) (arg 4 a) in
  [ zrows (dict_logical k v); [unreferenced k (List.length v)] ].
Definition s_gc (a : args) : list (list Z) := [ zrows (dict_logical (col_at 1 a) (arg 4 a)); [0%Z] ].

(* ---- coalescer: [target; limit (-1 = none); nonspec; ...types] then the history:
        [0; pre; post; seed; nonull] vals valid                       push_batch
        [1; pre; post; seed; nonull] vals valid mlay mvals mvalid     push_batch_with_filter
        [2; pre; post; seed; nonull] vals valid ilay ivals ivalid     push_batch_with_indices
        [3] finish_buffered_batch   [4] next_completed_batch   [5] drain (next_completed_batch until None)
   observation after every op: [buffered_rows; has_completed]; pop / drain add one group per batch
   [1; rows...] and [0] for "no batch". *)
Inductive dop := Op (o : cop Z) | Drain.
Definition hdr_lay (h : list Z) : list Z := tl h.
Fixpoint parse_ops (fuel : nat) (a : args) : list dop :=
  match fuel with
  | O => []
  | S fuel' =>
    match a with
    | [] => []
    | h :: r =>
      let kind := Z.to_nat (hd 0%Z h) in
      let rows := logical (pcol_of (hdr_lay h) (nth 0 r []) (nth 1 r [])) in
      match kind with
      | 0 => Op (Push rows) :: parse_ops fuel' (skipn 2 r)
      | 1 => Op (PushFilter rows (pmask_of (nth 2 r []) (nth 3 r []) (nth 4 r []))) :: parse_ops fuel' (skipn 5 r)
      | 2 => Op (PushIdx rows (pcol_of (nth 2 r []) (nth 3 r []) (nth 4 r []))) :: parse_ops fuel' (skipn 5 r)
      | 3 => Op Finish :: parse_ops fuel' r
      | 4 => Op Pop :: parse_ops fuel' r
      | _ => Drain :: parse_ops fuel' r
      end
    end
  end.
Definition history (a : args) : list dop := parse_ops (List.length a) (tl a).
Definition ccfg (a : args) : cfg :=
  {| target := cfgn 0 a;
     limit := if (cfgz 1 a <? 0)%Z then None else Some (cfgn 1 a);
     nonspec := negb (Z.eqb (cfgz 2 a) 0) |}.

Definition status (s : cst Z) : list Z :=
  [Z.of_nat (List.length (buf s)); match done s with [] => 0%Z | _ => 1%Z end].
Definition batch_group (b : list (option Z)) : list Z := 1%Z :: zrows b.
Fixpoint observe (step : cst Z -> cop Z -> cst Z) (s : cst Z) (ops : list dop) : list (list Z) :=
  match ops with
  | [] => []
  | Op o :: r =>
    let s' := step s o in
    match o with
    | Pop => status s' :: (match done s with b :: _ => batch_group b | [] => [0%Z] end) :: observe step s' r
    | _ => status s' :: observe step s' r
    end
  | Drain :: r =>
    let s' := Nat.iter (List.length (done s)) pop s in
    status s' :: map batch_group (done s) ++ [0%Z] :: observe step s' r
  end.
Definition d_coalesce (a : args) : list (list Z) := observe (cstep (ccfg a)) cinit (history a).
Definition s_coalesce (a : args) : list (list Z) := observe (sstep (target (ccfg a))) cinit (history a).
(* rows only: the concatenation of everything emitted (histories end with drain; finish; drain) *)
Definition cops (ops : list dop) : list (cop Z) :=
  flat_map (fun d => match d with Op o => [o] | Drain => [] end) ops.
Definition s_coalesce_rows (a : args) : list (list Z) := [ zrows (rows_out (cops (history a))) ].

Definition ops_C03 : list (string * opfun) :=
  [ ("c03.filter", d_filter); ("c03.filter.slices", d_filter_slices); ("c03.filter.indices", d_filter_indices);
    ("c03.filter.spec", s_filter);
    ("c03.take", d_take); ("c03.take.spec", s_take);
    ("c03.concat", d_concat); ("c03.concat.spec", s_concat);
    ("c03.interleave", d_interleave); ("c03.interleave.spec", s_interleave);
    ("c03.zip", d_zip); ("c03.zip.spec", s_zip);
    ("c03.merge", d_merge); ("c03.merge.spec", s_merge); ("c03.merge_n.spec", s_merge_n);
    ("c03.nullif", d_nullif); ("c03.nullif.spec", s_nullif);
    ("c03.shift", d_shift); ("c03.shift.spec", s_shift);
    ("c03.slice", d_slice); ("c03.slice.spec", s_slice);
    ("c03.gc", d_gc); ("c03.gc.spec", s_gc);
    ("c03.coalesce", d_coalesce); ("c03.coalesce.spec", s_coalesce);
    ("c03.coalesce_lim", d_coalesce);
    ("c03.coalesce_rows.spec", s_coalesce_rows) ].
