(* C04 — layout walk: which field nodes, buffers and variadic counts every data type contributes
   to an IPC RecordBatch on write (arrow-ipc/src/writer.rs [write_array_data],
   [append_variadic_buffer_counts], [has_validity_bitmap]) and consumes on read
   (arrow-ipc/src/reader.rs [RecordBatchDecoder::create_array]) and on projection skip
   ([RecordBatchDecoder::skip_field]).  Types are C09's [dty] (Map = List of Struct).
   Field nodes, buffers and variadic counts are three separate flatbuffer vectors, each consumed
   front to back: a walk is a token list whose per-stream projections are what matters.
   Definitions only. *)
From Coq Require Import List Arith Bool.
From AV Require Import Model.C09_Layout.
Import ListNotations.

Inductive bkind := BValidity | BOffsets | BData | BValues | BBits | BViews | BVariadic | BSizes
                 | BTypeIds | BUOffsets | BKeys.
Inductive token := TokNode | TokBuf (k : bkind) | TokVar (n : nat).

Definition is_node (t : token) : bool := match t with TokNode => true | _ => false end.
Definition nodes_of (l : list token) : nat := length (filter is_node l).
Fixpoint bufs_of (l : list token) : list bkind :=
  match l with [] => [] | TokBuf k :: r => k :: bufs_of r | _ :: r => bufs_of r end.
Fixpoint vars_of (l : list token) : list nat :=
  match l with [] => [] | TokVar n :: r => n :: vars_of r | _ :: r => vars_of r end.

(* fn has_validity_bitmap(data_type, write_options): V4: all but Null; V5: all but Null, Union, RunEndEncoded *)
Definition has_validity (t : dty) (v5 : bool) : bool :=
  if v5 then match t with TNull | TUnion _ _ | TRee _ _ => false | _ => true end
  else match t with TNull => false | _ => true end.

(* children are visited left to right, threading the remaining supply / queue *)
Definition thread {A} (f : A -> list nat -> list token * list nat) : list A -> list nat -> list token * list nat :=
  fix go (l : list A) (sup : list nat) : list token * list nat :=
  match l with
  | [] => ([], sup)
  | x :: r => let '(a, s1) := f x sup in let '(b, s2) := go r s1 in (a ++ b, s2)
  end.
Definition thread_opt {A} (f : A -> list nat -> option (list token * list nat)) : list A -> list nat -> option (list token * list nat) :=
  fix go (l : list A) (q : list nat) : option (list token * list nat) :=
  match l with
  | [] => Some ([], q)
  | x :: r => match f x q with
              | None => None
              | Some (a, q1) => match go r q1 with None => None | Some (b, q2) => Some (a ++ b, q2) end
              end
  end.

(* ---- writer: write_array_data.  [sup] = number of variadic data buffers (buffers().len() - 1) of
   the view arrays still to be visited, in the order the arrays are visited; dictionary values are
   not visited (they travel in their own DictionaryBatch). *)
Fixpoint w_walk (t : dty) (v5 : bool) (sup : list nat) {struct t} : list token * list nat :=
  let pre := TokNode :: (if has_validity t v5 then [TokBuf BValidity] else []) in
  match t with
  | TNull => (pre, sup)
  | TBool => (pre ++ [TokBuf BBits], sup)
  | TFixed _ | TFixedBin _ => (pre ++ [TokBuf BValues], sup)
  | TBin _ _ => (pre ++ [TokBuf BOffsets; TokBuf BData], sup)
  | TView _ =>
      match sup with
      | c :: r => (pre ++ TokBuf BViews :: repeat (TokBuf BVariadic) c, r)
      | [] => (pre ++ [TokBuf BViews], [])
      end
  | TList _ _ c => let '(tc, r) := w_walk c v5 sup in (pre ++ TokBuf BOffsets :: tc, r)
  | TListView _ _ c => let '(tc, r) := w_walk c v5 sup in (pre ++ TokBuf BOffsets :: TokBuf BSizes :: tc, r)
  | TFixedList _ _ c => let '(tc, r) := w_walk c v5 sup in (pre ++ tc, r)
  | TStruct fs => let '(tc, r) := thread (fun p => w_walk (snd p) v5) fs sup in (pre ++ tc, r)
  | TDict _ _ _ => (pre ++ [TokBuf BKeys], sup)
  | TRee rw v =>
      (* unslice_run_array, then both children: run ends (a primitive array) and values *)
      let '(tv, r) := w_walk v v5 sup in
      (pre ++ (TokNode :: TokBuf BValidity :: [TokBuf BValues]) ++ tv, r)
  | TUnion dense fs =>
      (* "else" branch: every buffer of the array (type ids; dense: + offsets), then the children *)
      let '(tc, r) := thread (fun p => w_walk (snd p) v5) fs sup in
      (pre ++ TokBuf BTypeIds :: (if dense then [TokBuf BUOffsets] else []) ++ tc, r)
  end.

(* fn append_variadic_buffer_counts(counts, array): a second traversal of the same array after
   write_array_data; views push their count, dictionaries stop the descent, everything else
   recurses into child_data (run ends + values for RunEndEncoded).  Result: counts pushed, rest of supply. *)
Definition thread_var {A} (f : A -> list nat -> list nat * list nat) : list A -> list nat -> list nat * list nat :=
  fix go (l : list A) (sup : list nat) : list nat * list nat :=
  match l with
  | [] => ([], sup)
  | x :: r => let '(a, s1) := f x sup in let '(b, s2) := go r s1 in (a ++ b, s2)
  end.
Fixpoint w_var (t : dty) (sup : list nat) {struct t} : list nat * list nat :=
  match t with
  | TView _ => match sup with c :: r => ([c], r) | [] => ([], []) end
  | TDict _ _ _ => ([], sup)
  | TList _ _ c | TListView _ _ c | TFixedList _ _ c => w_var c sup
  | TStruct fs => thread_var (fun p => w_var (snd p)) fs sup
  | TUnion _ fs => thread_var (fun p => w_var (snd p)) fs sup
  | TRee _ v => w_var v sup
  | _ => ([], sup)
  end.

(* ---- reader: create_array.  [q] = the variadicBufferCounts queue (pop_front at each view).
   None = Err (missing variadic count).  The view case reads its buffers before its node. *)
Fixpoint r_walk (t : dty) (v5 : bool) (q : list nat) {struct t} : option (list token * list nat) :=
  match t with
  | TBin _ _ => Some ([TokNode; TokBuf BValidity; TokBuf BOffsets; TokBuf BData], q)
  | TView _ =>
      match q with
      | c :: r => Some (TokBuf BValidity :: TokBuf BViews :: repeat (TokBuf BVariadic) c ++ [TokNode], r)
      | [] => None
      end
  | TFixedBin _ => Some ([TokNode; TokBuf BValidity; TokBuf BValues], q)
  | TList _ _ c =>
      match r_walk c v5 q with
      | Some (tc, r) => Some (TokNode :: TokBuf BValidity :: TokBuf BOffsets :: tc, r) | None => None end
  | TListView _ _ c =>
      match r_walk c v5 q with
      | Some (tc, r) => Some (TokNode :: TokBuf BValidity :: TokBuf BOffsets :: TokBuf BSizes :: tc, r) | None => None end
  | TFixedList _ _ c =>
      match r_walk c v5 q with
      | Some (tc, r) => Some (TokNode :: TokBuf BValidity :: tc, r) | None => None end
  | TStruct fs =>
      match thread_opt (fun p => r_walk (snd p) v5) fs q with
      | Some (tc, r) => Some (TokNode :: TokBuf BValidity :: tc, r) | None => None end
  | TRee rw v =>
      (* next_node; create_array(run_ends_field) (a primitive: node + 2 buffers); create_array(values_field).
         No validity buffer is consumed for the run array itself, whatever the metadata version. *)
      match r_walk v v5 q with
      | Some (tv, r) => Some (TokNode :: (TokNode :: TokBuf BValidity :: [TokBuf BValues]) ++ tv, r) | None => None end
  | TDict _ _ _ => Some ([TokNode; TokBuf BValidity; TokBuf BKeys], q)
  | TUnion dense fs =>
      match thread_opt (fun p => r_walk (snd p) v5) fs q with
      | Some (tc, r) =>
          Some (TokNode :: (if v5 then [] else [TokBuf BValidity]) ++ TokBuf BTypeIds ::
                (if dense then [TokBuf BUOffsets] else []) ++ tc, r)
      | None => None end
  | TNull => Some ([TokNode], q)
  | TBool => Some ([TokNode; TokBuf BValidity; TokBuf BBits], q)
  | TFixed _ => Some ([TokNode; TokBuf BValidity; TokBuf BValues], q)
  end.

(* ---- projection: skip_field consumes the same vectors without decoding; tokens carry no kind *)
Inductive stoken := SNode | SBuf.
Definition erase (l : list token) : list stoken :=
  flat_map (fun t => match t with TokNode => [SNode] | TokBuf _ => [SBuf] | TokVar _ => [] end) l.
Definition snodes_of (l : list stoken) : nat := length (filter (fun t => match t with SNode => true | _ => false end) l).
Definition sbufs_of (l : list stoken) : nat := length (filter (fun t => match t with SBuf => true | _ => false end) l).

Definition thread_s {A} (f : A -> list nat -> option (list stoken * list nat)) : list A -> list nat -> option (list stoken * list nat) :=
  fix go (l : list A) (q : list nat) : option (list stoken * list nat) :=
  match l with
  | [] => Some ([], q)
  | x :: r => match f x q with
              | None => None
              | Some (a, q1) => match go r q1 with None => None | Some (b, q2) => Some (a ++ b, q2) end
              end
  end.
Fixpoint s_walk (t : dty) (v5 : bool) (q : list nat) {struct t} : option (list stoken * list nat) :=
  match t with
  | TBin _ _ => Some ([SNode; SBuf; SBuf; SBuf], q)
  | TView _ => match q with c :: r => Some (SNode :: repeat SBuf (c + 2), r) | [] => None end
  | TFixedBin _ => Some ([SNode; SBuf; SBuf], q)
  | TList _ _ c => match s_walk c v5 q with Some (tc, r) => Some (SNode :: SBuf :: SBuf :: tc, r) | None => None end
  | TListView _ _ c => match s_walk c v5 q with Some (tc, r) => Some (SNode :: SBuf :: SBuf :: SBuf :: tc, r) | None => None end
  | TFixedList _ _ c => match s_walk c v5 q with Some (tc, r) => Some (SNode :: SBuf :: tc, r) | None => None end
  | TStruct fs =>
      match thread_s (fun p => s_walk (snd p) v5) fs q with Some (tc, r) => Some (SNode :: SBuf :: tc, r) | None => None end
  | TRee rw v =>
      match s_walk v v5 q with Some (tv, r) => Some (SNode :: [SNode; SBuf; SBuf] ++ tv, r) | None => None end
  | TDict _ _ _ => Some ([SNode; SBuf; SBuf], q)
  | TUnion dense fs =>
      match thread_s (fun p => s_walk (snd p) v5) fs q with
      | Some (tc, r) => Some (SNode :: (if v5 then [] else [SBuf]) ++ SBuf :: (if dense then [SBuf] else []) ++ tc, r)
      | None => None end
  | TNull => Some ([SNode], q)
  | TBool | TFixed _ => Some ([SNode; SBuf; SBuf], q)
  end.

(* number of view arrays visited (not crossing dictionaries) *)
Fixpoint views (t : dty) : nat :=
  match t with
  | TView _ => 1
  | TList _ _ c | TListView _ _ c | TFixedList _ _ c => views c
  | TStruct fs => fold_right (fun p acc => views (snd p) + acc) 0 fs
  | TUnion _ fs => fold_right (fun p acc => views (snd p) + acc) 0 fs
  | TRee _ v => views v
  | _ => 0
  end.

(* types for which the V4 writer and the reader agree: no RunEndEncoded outside dictionaries *)
Fixpoint ree_free (t : dty) : bool :=
  match t with
  | TRee _ _ => false
  | TList _ _ c | TListView _ _ c | TFixedList _ _ c => ree_free c
  | TStruct fs => forallb (fun p => ree_free (snd p)) fs
  | TUnion _ fs => forallb (fun p => ree_free (snd p)) fs
  | _ => true
  end.

(* a whole record batch: the columns in schema order *)
Definition w_batch (cols : list dty) (v5 : bool) (sup : list nat) : list token * list nat :=
  thread (fun t => w_walk t v5) cols sup.
Definition w_batch_var (cols : list dty) (sup : list nat) : list nat * list nat :=
  thread_var (fun t => w_var t) cols sup.
Definition r_batch (cols : list dty) (v5 : bool) (q : list nat) : option (list token * list nat) :=
  thread_opt (fun t => r_walk t v5) cols q.
