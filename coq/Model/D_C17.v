(* C17 dispatch table: wraps the C17 models in the uniform case interface.

   Schema code (one group, prefix notation; shared with harness/src/c17.rs):
     0 null | 1 boolean | 2 int | 3 long | 4 float | 5 double | 6 bytes | 7 string | 8 n fixed(n) | 9 n enum(n symbols)
     10 w p s decimal(bytes), decoded into w bytes | 11 w n p s decimal(fixed(n)) | 12 S array | 13 S map
     14 o S nullable union (o = 1: null second) | 15 k S1..Sk union | 16 k S1..Sk record
     logical types (only the physical type matters to the datum codec):
     20 date, 21 time-millis : int | 22 time-micros, 23..26 (local-)timestamp-millis/micros, 29 30 (local-)timestamp-nanos : long
     27 uuid : string | 28 duration : fixed(12) | 31 bytes held in a BinaryView array | 32 string held in a Utf8View array
   Value tokens (schema directed, one group per row):
     null: nothing | boolean: 0/1 | int long enum decimal: the integer | float double: IEEE bit pattern
     bytes string: len, bytes | fixed: bytes | array: n, items | map: n, (klen, key bytes, value)*
     nullable: 0 | 1, value | union: branch, value | record: fields                                              *)
From Coq Require Import List ZArith NArith String Bool.
From AV Require Import Base.Codec Base.Utf8 Model.C17_Avro Model.C17_Json Model.C17_Csv.
Import ListNotations.
Local Open Scope string_scope.
Local Open Scope Z_scope.

(* ------------------------------------------------------------------ schema code *)
Fixpoint parse_schema (fuel : nat) (l : list Z) {struct fuel} : option (schema * list Z) :=
  match fuel with
  | O => None
  | S f =>
    match l with
    | [] => None
    | c :: r =>
      if c =? 0 then Some (SNull, r) else if c =? 1 then Some (SBool, r)
      else if (c =? 2) || (c =? 20) || (c =? 21) then Some (SInt, r)
      else if (c =? 3) || ((22 <=? c) && (c <=? 26)) || (c =? 29) || (c =? 30) then Some (SLong, r)
      else if c =? 4 then Some (SFloat, r) else if c =? 5 then Some (SDouble, r)
      else if (c =? 6) || (c =? 31) then Some (SBytes, r) else if (c =? 7) || (c =? 27) || (c =? 32) then Some (SString, r)
      else if c =? 28 then Some (SFixed 12, r)
      else if c =? 8 then match r with n :: r' => Some (SFixed (Z.to_nat n), r') | _ => None end
      else if c =? 9 then match r with n :: r' => Some (SEnum (Z.to_nat n), r') | _ => None end
      else if c =? 10 then match r with w :: _ :: _ :: r' => Some (SDecBytes (Z.to_nat w), r') | _ => None end
      else if c =? 11 then match r with w :: n :: _ :: _ :: r' => Some (SDecFixed (Z.to_nat w) (Z.to_nat n), r') | _ => None end
      else if c =? 12 then match parse_schema f r with Some (s, r') => Some (SArray s, r') | None => None end
      else if c =? 13 then match parse_schema f r with Some (s, r') => Some (SMap s, r') | None => None end
      else if c =? 14 then
        match r with
        | o :: r1 => match parse_schema f r1 with Some (s, r') => Some (SNullable (negb (o =? 0)) s, r') | None => None end
        | _ => None
        end
      else if (c =? 15) || (c =? 16) then
        match r with
        | k :: r1 =>
          match (fix many (n : nat) (l : list Z) {struct n} : option (list schema * list Z) :=
                   match n with
                   | O => Some ([], l)
                   | S n' => match parse_schema f l with
                             | Some (s, l') => match many n' l' with Some (ss, l'') => Some (s :: ss, l'') | None => None end
                             | None => None
                             end
                   end) (Z.to_nat k) r1 with
          | Some (ss, r') => Some ((if c =? 15 then SUnion ss else SRecord ss), r')
          | None => None
          end
        | _ => None
        end
      else None
    end
  end.
Definition schema_of (g : list Z) : option schema :=
  match parse_schema (S (List.length g)) g with Some (s, _) => Some s | None => None end.

(* ------------------------------------------------------------------ value tokens *)
Definition take_tok (n : Z) (l : list Z) : option (list N * list Z) :=
  if (n <? 0) || (Z.of_nat (List.length l) <? n) then None
  else Some (map Z.to_N (firstn (Z.to_nat n) l), skipn (Z.to_nat n) l).

Fixpoint rep_parse {A} (n : nat) (p : list Z -> option (A * list Z)) (l : list Z) : option (list A * list Z) :=
  match n with
  | O => Some ([], l)
  | S n' => match p l with
            | Some (a, l') => match rep_parse n' p l' with Some (r, l'') => Some (a :: r, l'') | None => None end
            | None => None
            end
  end.

Fixpoint parse_tok (s : schema) (l : list Z) {struct s} : option (datum * list Z) :=
  match s with
  | SNull => Some (DNull, l)
  | SBool => match l with b :: r => Some (DBool (negb (b =? 0)), r) | _ => None end
  | SInt => match l with v :: r => Some (DInt v, r) | _ => None end
  | SLong => match l with v :: r => Some (DLong v, r) | _ => None end
  | SFloat => match l with v :: r => Some (DFloat (Z.to_N v), r) | _ => None end
  | SDouble => match l with v :: r => Some (DDouble (Z.to_N v), r) | _ => None end
  | SBytes => match l with n :: r => match take_tok n r with Some (b, r') => Some (DBytes b, r') | None => None end | _ => None end
  | SString => match l with n :: r => match take_tok n r with Some (b, r') => Some (DString b, r') | None => None end | _ => None end
  | SFixed n => match take_tok (Z.of_nat n) l with Some (b, r') => Some (DFixed b, r') | None => None end
  | SEnum _ => match l with v :: r => Some (DEnum v, r) | _ => None end
  | SDecBytes _ => match l with v :: r => Some (DDec v, r) | _ => None end
  | SDecFixed _ _ => match l with v :: r => Some (DDec v, r) | _ => None end
  | SArray it =>
    match l with
    | n :: r => if (n <? 0) || (1000000 <? n) then None
                else match rep_parse (Z.to_nat n) (parse_tok it) r with Some (ds, r') => Some (DArray ds, r') | None => None end
    | _ => None
    end
  | SMap vt =>
    match l with
    | n :: r =>
      if (n <? 0) || (1000000 <? n) then None
      else match rep_parse (Z.to_nat n)
                   (fun l0 => match l0 with
                              | kl :: r0 => match take_tok kl r0 with
                                            | Some (k, r1) => match parse_tok vt r1 with Some (d, r2) => Some ((k, d), r2) | None => None end
                                            | None => None
                                            end
                              | _ => None
                              end) r with
           | Some (kvs, r') => Some (DMap kvs, r')
           | None => None
           end
    | _ => None
    end
  | SNullable _ t =>
    match l with
    | f :: r => if f =? 0 then Some (DOpt None, r)
                else match parse_tok t r with Some (d, r') => Some (DOpt (Some d), r') | None => None end
    | _ => None
    end
  | SUnion brs =>
    match l with
    | k :: r =>
      if k <? 0 then None
      else (fix pick (bl : list schema) (i : nat) (idx : Z) {struct bl} : option (datum * list Z) :=
              match bl with
              | [] => None
              | t :: bl' => if idx =? 0 then match parse_tok t r with Some (d, r') => Some (DUnion i d, r') | None => None end
                            else pick bl' (S i) (idx - 1)
              end) brs O k
    | _ => None
    end
  | SRecord fs =>
    match (fix fields (fl : list schema) (l0 : list Z) {struct fl} : option (list datum * list Z) :=
             match fl with
             | [] => Some ([], l0)
             | t :: fl' => match parse_tok t l0 with
                           | Some (d, l1) => match fields fl' l1 with Some (ds, l2) => Some (d :: ds, l2) | None => None end
                           | None => None
                           end
             end) fs l with
    | Some (ds, r') => Some (DRecord ds, r')
    | None => None
    end
  end.

Definition zs (l : list N) : list Z := map Z.of_N l.
Fixpoint print_tok (d : datum) : list Z :=
  match d with
  | DNull => []
  | DBool b => [zb b]
  | DInt v | DLong v | DEnum v | DDec v => [v]
  | DFloat x | DDouble x => [Z.of_N x]
  | DBytes l | DString l => Z.of_nat (List.length l) :: zs l
  | DFixed l => zs l
  | DArray l => Z.of_nat (List.length l) :: flat_map print_tok l
  | DMap l => Z.of_nat (List.length l) ::
              flat_map (fun kv : list N * datum => Z.of_nat (List.length (fst kv)) :: zs (fst kv) ++ print_tok (snd kv)) l
  | DOpt None => [0]
  | DOpt (Some x) => 1 :: print_tok x
  | DUnion k x => Z.of_nat k :: print_tok x
  | DRecord l => flat_map print_tok l
  end.

(* ------------------------------------------------------------------ Avro ops *)
(* avro_write: [schema][format (ignored)] then one token group per row -> one group of datum bytes per row *)
Definition d_avro_write (a : args) : list (list Z) :=
  match schema_of (arg 0 a) with
  | None => err_out 3
  | Some s =>
    let rows := skipn 2 a in
    match (fix go (rs : list (list Z)) : option (list (list Z)) :=
             match rs with
             | [] => Some []
             | r :: rs' => match parse_tok s r with
                           | Some (d, []) => match go rs' with Some o => Some (zs (encode_w s d) :: o) | None => None end
                           | _ => None
                           end
             end) rows with
    | Some o => o
    | None => err_out 3
    end
  end.

(* avro_read: [schema][info (ignored)] then one group of datum bytes per row -> one token group per row, or error *)
Definition d_avro_read (a : args) : list (list Z) :=
  match schema_of (arg 0 a) with
  | None => err_out 3
  | Some s =>
    match (fix go (rs : list (list Z)) : option (list (list Z)) :=
             match rs with
             | [] => Some []
             | r :: rs' => match decode s (bytes_of r) with
                           | Some (d, []) => match go rs' with Some o => Some (print_tok d :: o) | None => None end
                           | _ => None
                           end
             end) (skipn 2 a) with
    | Some o => o
    | None => err_out 3
    end
  end.

(* avro_blocked: [schema][bk; sized] then one token group per row -> [datum bytes] [tokens decoded from those bytes]
   per row: the harness' block-splitting encoder must equal the model encoder, and the real reader the model decoder *)
Definition d_avro_blocked (a : args) : list (list Z) :=
  match schema_of (arg 0 a) with
  | None => err_out 3
  | Some s =>
    let bk := Z.to_nat (nth 0 (arg 1 a) 0) in
    let sized := negb (nth 1 (arg 1 a) 0 =? 0) in
    match (fix go (rs : list (list Z)) : option (list (list Z)) :=
             match rs with
             | [] => Some []
             | r :: rs' =>
               match parse_tok s r with
               | Some (d, []) =>
                 let bytes := encode bk sized s d in
                 match decode s bytes with
                 | Some (d', []) => match go rs' with Some o => Some (zs bytes :: print_tok d' :: o) | None => None end
                 | _ => None
                 end
               | _ => None
               end
             end) (skipn 2 a) with
    | Some o => o
    | None => err_out 3
    end
  end.

(* identity on the row groups: the specification of every write-then-read operation *)
Definition s_rows (a : args) : list (list Z) := skipn 2 a.

(* postcondition used by comparisons that are computed inside the harness against an independent
   implementation (serde_json): the implementation's verdict group must be [1] *)
Definition p_agree (a : args) : list (list Z) :=
  match a with [[1]] => [[1]] | _ => [[0]] end.

(* ------------------------------------------------------------------ JSON ops *)
(* json_escape: [utf-8 bytes] -> [escaped text between the quotes] *)
Definition d_json_escape (a : args) : list (list Z) := [ zs (escape (bytes_of (arg 0 a))) ].

(* json_unescape: [body] : the text between the quotes of a string value, as generated (no bare quote);
   the implementation sees {"a":"body"} . -> [1][bytes] or error *)
Definition json_value (u : list N -> option (list N * list N)) (a : args) : list (list Z) :=
  match u (bytes_of (arg 0 a) ++ [34%N; 125%N])%list with
  | Some (s, [125%N]) => if valid_utf8 s then [[1]; zs s] else err_out 3
  | _ => err_out 3
  end.
Definition d_json_unescape (a : args) : list (list Z) := json_value unescape_m a.
Definition s_json_unescape (a : args) : list (list Z) := json_value unescape_s a.

(* ------------------------------------------------------------------ CSV ops *)
(* rows: one group per record: nfields, then (len, bytes) per field *)
Fixpoint parse_fields (n : nat) (l : list Z) : list (list N) :=
  match n with
  | O => []
  | S n' => match l with
            | len :: r => map Z.to_N (firstn (Z.to_nat len) r) :: parse_fields n' (skipn (Z.to_nat len) r)
            | [] => []
            end
  end.
Definition row_of (g : list Z) : list (list N) :=
  match g with n :: r => parse_fields (Z.to_nat n) r | [] => [] end.
Definition print_row (r : list (list N)) : list Z :=
  Z.of_nat (List.length r) :: flat_map (fun f => Z.of_nat (List.length f) :: zs f) r.

(* csv_write: [delim; quote; escape; double_quote; crlf] rows... -> [file bytes] *)
Definition d_csv_write (a : args) : list (list Z) :=
  let o := arg 0 a in
  let c := {| w_delim := Z.to_N (nth 0 o 0); w_quote := Z.to_N (nth 1 o 0); w_escape := Z.to_N (nth 2 o 0);
              w_double := negb (nth 3 o 0 =? 0); w_crlf := negb (nth 4 o 0 =? 0) |} in
  [ zs (write_rows c (map row_of (tl a))) ].

(* csv_split: [delim; quote; escape or -1; terminator or -1; ncols] [file bytes] -> rows or error *)
Definition d_csv_split (a : args) : list (list Z) :=
  let o := arg 0 a in
  let opt (z : Z) := if z <? 0 then None else Some (Z.to_N z) in
  let c := {| r_delim := Z.to_N (nth 0 o 0); r_quote := Z.to_N (nth 1 o 0);
              r_escape := opt (nth 2 o 0); r_term := opt (nth 3 o 0) |} in
  match split_checked c (Z.to_nat (nth 4 o 0)) (bytes_of (arg 1 a)) with
  | Some rows => map print_row rows
  | None => err_out 3
  end.

Definition ops_C17 : list (string * opfun) :=
  [ ("c17.avro_write", d_avro_write); ("c17.avro_read", d_avro_read); ("c17.avro_blocked", d_avro_blocked);
    ("c17.avro_rt.spec", s_rows); ("c17.json_rt.spec", s_rows); ("c17.csv_rt.spec", s_rows);
    ("c17.json_doc.post1", p_agree); ("c17.agree.post1", p_agree);
    ("c17.json_escape", d_json_escape);
    ("c17.json_unescape", d_json_unescape); ("c17.json_unescape.spec", s_json_unescape);
    ("c17.csv_write", d_csv_write); ("c17.csv_split", d_csv_split) ].
