(* C09/C01 dispatch: decode a physical array tree from the uniform case interface.
   Pre-order; per node the groups
     [type encoding] [len; off] [nulls: empty | bitoff; bitlen; null_count] [nulls bytes] [nbufs; nkids]
     nbufs buffer groups, then the kids.
   Type encoding (prefix code): 0 Null | 1 Bool | 2 w Fixed | 3 n FixedBin | 4 large utf8 Bin | 5 utf8 View
     | 6 large nullable <c> List | 7 large nullable <c> ListView | 8 n nullable <c> FixedList
     | 9 k (nullable <t>)*k Struct | 10 kw signed <v> Dict | 11 rw <v> Ree | 12 dense k (id <t>)*k Union *)
From Coq Require Import List ZArith NArith String Bool.
From AV Require Import Base.Codec Base.Bytes Model.C09_Layout Model.C09_Validate Model.C09_Gaps.
Import ListNotations.
Local Open Scope string_scope.

Definition zbool (z : Z) : bool := negb (Z.eqb z 0).

Fixpoint parse_ty (fuel : nat) (l : list Z) : option (dty * list Z) :=
  match fuel with O => None | S f =>
  match l with
  | 0%Z :: r => Some (TNull, r)
  | 1%Z :: r => Some (TBool, r)
  | 2%Z :: w :: r => Some (TFixed (Z.to_nat w), r)
  | 3%Z :: n :: r => Some (TFixedBin n, r)
  | 4%Z :: lg :: u :: r => Some (TBin (zbool lg) (zbool u), r)
  | 5%Z :: u :: r => Some (TView (zbool u), r)
  | 6%Z :: lg :: nb :: r => match parse_ty f r with Some (c, r') => Some (TList (zbool lg) (zbool nb) c, r') | None => None end
  | 7%Z :: lg :: nb :: r => match parse_ty f r with Some (c, r') => Some (TListView (zbool lg) (zbool nb) c, r') | None => None end
  | 8%Z :: n :: nb :: r => match parse_ty f r with Some (c, r') => Some (TFixedList n (zbool nb) c, r') | None => None end
  | 9%Z :: k :: r =>
      match (fix fields (n : nat) (r : list Z) : option (list (bool * dty) * list Z) :=
               match n with
               | O => Some ([], r)
               | S n' => match r with
                         | nb :: r1 => match parse_ty f r1 with
                                       | Some (t, r2) => match fields n' r2 with
                                                         | Some (fs, r3) => Some ((zbool nb, t) :: fs, r3)
                                                         | None => None end
                                       | None => None end
                         | [] => None end
               end) (Z.to_nat k) r with
      | Some (fs, r') => Some (TStruct fs, r') | None => None end
  | 10%Z :: kw :: sg :: r => match parse_ty f r with Some (v, r') => Some (TDict (Z.to_nat kw) (zbool sg) v, r') | None => None end
  | 11%Z :: rw :: r => match parse_ty f r with Some (v, r') => Some (TRee (Z.to_nat rw) v, r') | None => None end
  | 12%Z :: d :: k :: r =>
      match (fix fields (n : nat) (r : list Z) : option (list (Z * dty) * list Z) :=
               match n with
               | O => Some ([], r)
               | S n' => match r with
                         | id :: r1 => match parse_ty f r1 with
                                       | Some (t, r2) => match fields n' r2 with
                                                         | Some (fs, r3) => Some ((id, t) :: fs, r3)
                                                         | None => None end
                                       | None => None end
                         | [] => None end
               end) (Z.to_nat k) r with
      | Some (fs, r') => Some (TUnion (zbool d) fs, r') | None => None end
  | _ => None
  end end.

Fixpoint take_groups (n : nat) (l : args) : list (list Z) * args :=
  match n with O => ([], l) | S k => match l with g :: r => let '(gs, r') := take_groups k r in (g :: gs, r') | [] => ([], []) end end.

Fixpoint parse_arr (fuel : nat) (l : args) : option (parr * args) :=
  match fuel with O => None | S f =>
  match l with
  | gty :: glo :: gn :: gnb :: gcnt :: r =>
      match parse_ty (S (List.length gty)) gty with
      | Some (ty, _) =>
          let len := Z.to_nat (nth 0 glo 0%Z) in let off := Z.to_nat (nth 1 glo 0%Z) in
          let nulls := match gn with
                       | bo :: bl :: cnt :: _ => Some {| nb_bytes := bytes_of gnb; nb_off := Z.to_nat bo; nb_len := Z.to_nat bl; nb_count := Z.to_nat cnt |}
                       | _ => None end in
          let nbufs := Z.to_nat (nth 0 gcnt 0%Z) in let nkids := Z.to_nat (nth 1 gcnt 0%Z) in
          let '(bgs, r1) := take_groups nbufs r in
          match (fix kidsf (n : nat) (r : args) : option (list parr * args) :=
                   match n with
                   | O => Some ([], r)
                   | S n' => match parse_arr f r with
                             | Some (k, r2) => match kidsf n' r2 with Some (ks, r3) => Some (k :: ks, r3) | None => None end
                             | None => None end
                   end) nkids r1 with
          | Some (kids, r2) => Some (PArr ty len off nulls (map bytes_of bgs) kids, r2)
          | None => None end
      | None => None end
  | _ => None
  end end.

(* the first group is the construction path used by the harness (ignored by the models) *)
Definition decode_arr (a0 : args) : option parr :=
  let a := tl a0 in
  match parse_arr (S (List.length a)) a with Some (p, _) => Some p | None => None end.

Definition d_validate (a : args) : list (list Z) :=
  match decode_arr a with Some p => [[zb (impl_validate_full p)]] | None => [[(-3)%Z]] end.
Definition s_accepts (a : args) : list (list Z) :=
  match decode_arr a with Some p => [[zb (spec_valid p)]] | None => [[(-3)%Z]] end.

(* classifier used by known_findings.json: the distinct kinds of gap nodes of the tree *)
Definition d_gapclass (a : args) : list (list Z) :=
  match decode_arr a with Some p => [dedup (gap_kinds p)] | None => [[(-3)%Z]] end.

(* postcondition of the accessor/kernel panel: the harness reports [1] when no safe call panicked *)
Definition p_panel (a : args) : list (list Z) := [[zb (Z.eqb (hd 0%Z (hd [] a)) 1)]].

Definition ops_C09 : list (string * opfun) :=
  [ ("c09.validate", d_validate); ("c09.accepts.spec", s_accepts); ("c09.gapclass", d_gapclass);
    ("c09.panel.post1", p_panel) ].
