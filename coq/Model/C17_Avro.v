(* C17 — Avro binary datum codec (definitions only).
   M follows arrow-avro:
     writer/encoder.rs : write_long (zig-zag + 7-bit groups), write_len_prefixed, write_bool,
                         minimal_twos_complement, write_sign_extended, union_value_branch_byte,
                         encode_blocked_range (single positive block + 0 terminator), Struct/Union/Map/List encoders
     reader/vlq.rs     : read_varint (one-byte fast path, 10-byte array path, slow path; 10th byte < 2)
     reader/cursor.rs  : get_int (u32 range check), get_long, get_bytes, get_fixed, get_bool, get_float/double
     reader/record.rs  : Decoder::decode per codec, NullablePlan::ReadTag (raw varint compared with 0),
                         UnionDecoder::read_tag, process_blockwise / process_block_items (negative count + byte
                         size, running total capped at i32::MAX), sign_cast_to (decimal)
   Bytes are N (0..255).  Errors are None (messages / kinds are not modelled). *)
From Coq Require Import List NArith ZArith Bool Arith.
From AV Require Import Base.Utf8.
Import ListNotations.
Local Open Scope N_scope.

(* ------------------------------------------------------------------ schemas and data *)
Inductive schema : Type :=
| SNull | SBool | SInt | SLong | SFloat | SDouble | SBytes | SString
| SFixed (n : nat)
| SEnum (nsym : nat)
| SDecBytes (w : nat)              (* decimal over bytes, decoded into a w-byte two's complement integer (16 / 32) *)
| SDecFixed (w n : nat)            (* decimal over fixed(n) *)
| SArray (item : schema)
| SMap (value : schema)
| SNullable (null_second : bool) (t : schema)   (* ["null",T] (false) or [T,"null"] (true) *)
| SUnion (branches : list schema)
| SRecord (fields : list schema).

Inductive datum : Type :=
| DNull
| DBool (b : bool)
| DInt (v : Z) | DLong (v : Z)
| DFloat (bits : N) | DDouble (bits : N)
| DBytes (l : list N) | DString (l : list N) | DFixed (l : list N)
| DEnum (i : Z)
| DDec (v : Z)
| DArray (l : list datum)
| DMap (l : list (list N * datum))
| DOpt (o : option datum)
| DUnion (k : nat) (d : datum)
| DRecord (l : list datum).

(* ------------------------------------------------------------------ little helpers *)
Fixpoint le_bytes (n : nat) (x : N) : list N :=
  match n with O => [] | S n' => x mod 256 :: le_bytes n' (x / 256) end.
Fixpoint le_value (l : list N) : N :=
  match l with [] => 0 | b :: r => b + 256 * le_value r end.
Definition be_value (l : list N) : N := le_value (rev l).

Fixpoint at_least {A} (n : nat) (l : list A) : bool :=
  match n with O => true | S n' => match l with [] => false | _ :: r => at_least n' r end end.

(* split off n bytes; None when fewer are available *)
Fixpoint take (n : nat) (bs : list N) : option (list N * list N) :=
  match n with
  | O => Some ([], bs)
  | S n' => match bs with
            | [] => None
            | b :: r => match take n' r with Some (h, t) => Some (b :: h, t) | None => None end
            end
  end.
(* untrusted length: compared in Z before it is converted *)
Definition take_z (len : Z) (bs : list N) : option (list N * list N) :=
  if (len <? 0)%Z then None
  else if (Z.of_nat (length bs) <? len)%Z then None
  else take (Z.to_nat len) bs.

(* ------------------------------------------------------------------ writer: long / int *)
(* ((value << 1) ^ (value >> 63)) as u64 : computed in Z, then truncated to 64 bits *)
Definition zz_enc64 (v : Z) : N := Z.to_N ((Z.lxor (Z.shiftl v 1) (Z.shiftr v 63)) mod 2^64)%Z.

(* while (zz & !0x7F) != 0 { push (zz & 0x7F) | 0x80; zz >>= 7 } push zz & 0x7F   (at most 10 bytes) *)
Fixpoint write_vlq (fuel : nat) (zz : N) : list N :=
  match fuel with
  | O => []
  | S f => if N.ldiff zz 127 =? 0 then [N.land zz 127]
           else N.lor (N.land zz 127) 128 :: write_vlq f (N.shiftr zz 7)
  end.
Definition write_long (v : Z) : list N := write_vlq 10 (zz_enc64 v).
Definition write_len_prefixed (l : list N) : list N := write_long (Z.of_nat (length l)) ++ l.

(* ------------------------------------------------------------------ reader: varint *)
(* read_varint_array: the next 10 bytes are available *)
Fixpoint rv_array (n : nat) (idx : N) (bs : list N) (acc : N) : option (N * list N) :=
  match bs with
  | [] => None
  | b :: r =>
    match n with
    | O => if b <? 2 then Some (acc + b * 2^63, r) else None          (* tenth byte *)
    | S n' => let acc' := acc + b * 2^(7 * idx) in
              if b <? 128 then Some (acc', r) else rv_array n' (idx + 1) r (acc' - 128 * 2^(7 * idx))
    end
  end.
(* read_varint_slow: fewer than 10 bytes are available; at most 10 are inspected *)
Fixpoint rv_slow (n : nat) (count : N) (bs : list N) (value : N) : option (N * list N) :=
  match n with
  | O => None
  | S n' =>
    match bs with
    | [] => None
    | b :: r =>
      let value' := N.lor value (N.shiftl (N.land b 127) (count * 7)) in
      if b <=? 127 then (if negb (count =? 9) || (b <? 2) then Some (value', r) else None)
      else rv_slow n' (count + 1) r value'
    end
  end.
Definition read_varint (bs : list N) : option (N * list N) :=
  match bs with
  | [] => None
  | b0 :: r0 => if b0 <? 128 then Some (b0, r0)
                else if at_least 10 bs then rv_array 9 0 bs 0 else rv_slow 10 0 bs 0
  end.

(* (val >> 1) as i64 ^ -((val & 1) as i64) *)
Definition zz_dec (val : N) : Z := Z.lxor (Z.of_N (N.shiftr val 1)) (- Z.of_N (N.land val 1)).
Definition get_long (bs : list N) : option (Z * list N) :=
  match read_varint bs with Some (v, r) => Some (zz_dec v, r) | None => None end.
Definition get_int (bs : list N) : option (Z * list N) :=
  match read_varint bs with
  | Some (v, r) => if v <? 2^32 then Some (zz_dec v, r) else None
  | None => None
  end.
Definition get_bytes (bs : list N) : option (list N * list N) :=
  match get_long bs with Some (len, r) => take_z len r | None => None end.

(* ------------------------------------------------------------------ decimals *)
Definition be_bytes (w : nat) (z : Z) : list N := rev (le_bytes w (Z.to_N (z mod 2^(8 * Z.of_nat w))%Z)).
Definition from_be (l : list N) : Z :=
  let u := Z.of_N (be_value l) in
  let bits := (8 * Z.of_nat (length l))%Z in
  if (bits =? 0)%Z then 0%Z else if (2^(bits - 1) <=? u)%Z then (u - 2^bits)%Z else u.

Definition sign_byte_of (l : list N) : N :=
  match l with b :: _ => if N.land b 128 =? 0 then 0 else 255 | [] => 0 end.
Fixpoint count_lead (sb : N) (l : list N) : nat :=
  match l with b :: r => if b =? sb then S (count_lead sb r) else O | [] => O end.
(* writer/encoder.rs minimal_twos_complement *)
Definition minimal_twos (be : list N) : list N :=
  match be with
  | [] => []
  | _ =>
    let sb := sign_byte_of be in
    let k := count_lead sb be in
    if (k =? 0)%nat then be
    else if (k =? length be)%nat then skipn (length be - 1) be
    else let drop := if N.land (N.lxor (nth k be 0) sb) 128 =? 0 then k else (k - 1)%nat in
         skipn drop be
  end.
(* shared shape of write_sign_extended (writer) and sign_cast_to (reader): fit big-endian two's
   complement bytes into exactly n bytes, or fail when truncation would change the value *)
Definition sign_fit (n : nat) (src : list N) : option (list N) :=
  let len := length src in
  if (len =? n)%nat then Some src
  else
    let sb := sign_byte_of src in
    if (n <? len)%nat then
      let extra := (len - n)%nat in
      if forallb (fun b => b =? sb) (firstn extra src) then
        if (n =? 0)%nat then Some []
        else if N.land (N.lxor (nth extra src 0) sb) 128 =? 0 then Some (skipn extra src) else None
      else None
    else Some (repeat sb (n - len) ++ src).

(* ------------------------------------------------------------------ block framing *)
(* encode_blocked_range generalised: blocks of at most bk items (bk = 0: one block, what the writer
   does), optionally in the "negative count + byte size" form; the items are already encoded *)
Fixpoint enc_blocks (fuel : nat) (bk : nat) (sized : bool) (items : list (list N)) : list N :=
  match items with
  | [] => write_long 0
  | _ :: _ =>
    match fuel with
    | O => []
    | S f =>
      let n := match bk with O => length items | _ => Nat.min bk (length items) end in
      let body := concat (firstn n items) in
      (if sized then write_long (- Z.of_nat n) ++ write_long (Z.of_nat (length body))
       else write_long (Z.of_nat n))
      ++ body ++ enc_blocks f bk sized (skipn n items)
    end
  end.

(* `for _ in 0..count { on_item(buf)? }` with a binary count: early exit on the first failing item *)
Fixpoint iter_pos {A} (p : positive) (f : A -> option A) (x : A) : option A :=
  match p with
  | xH => f x
  | xO q => match iter_pos q f x with Some y => iter_pos q f y | None => None end
  | xI q => match f x with
            | Some y => match iter_pos q f y with Some z => iter_pos q f z | None => None end
            | None => None
            end
  end.
Definition iter_n {A} (n : N) (f : A -> option A) (x : A) : option A :=
  match n with N0 => Some x | Npos p => iter_pos p f x end.

Definition item_step {A} (item : list N -> option (A * list N)) (st : list A * list N) : option (list A * list N) :=
  match item (snd st) with Some (d, r) => Some (d :: fst st, r) | None => None end.

(* process_blockwise with NegativeBlockBehavior::ProcessItems; acc is reversed *)
Fixpoint read_blocks {A} (fuel : nat) (item : list N -> option (A * list N)) (bs : list N)
         (total : Z) (acc : list A) : option (list A * list N) :=
  match fuel with
  | O => None
  | S f =>
    match get_long bs with
    | None => None
    | Some (c, r) =>
      if (c =? 0)%Z then Some (rev acc, r)
      else
        match (if (c <? 0)%Z
               then match get_long r with
                    | Some (sz, r') => if (sz <? 0)%Z then None else Some r'
                    | None => None
                    end
               else Some r) with
        | None => None
        | Some r1 =>
          let total' := (total + Z.abs c)%Z in
          if (2147483647 <? total')%Z then None
          else match iter_n (Z.to_N (Z.abs c)) (item_step item) (acc, r1) with
               | None => None
               | Some (acc', r2) => read_blocks f item r2 total' acc'
               end
        end
    end
  end.

(* ------------------------------------------------------------------ encoder *)
Section Enc.
Variable bk : nat.
Variable sized : bool.
Definition blocks (items : list (list N)) : list N := enc_blocks (length items) bk sized items.

Fixpoint encode (s : schema) (d : datum) {struct s} : list N :=
  match s, d with
  | SNull, _ => []
  | SBool, DBool b => [if b then 1 else 0]
  | SInt, DInt v => write_long v
  | SLong, DLong v => write_long v
  | SFloat, DFloat x => le_bytes 4 x
  | SDouble, DDouble x => le_bytes 8 x
  | SBytes, DBytes l => write_len_prefixed l
  | SString, DString l => write_len_prefixed l
  | SFixed _, DFixed l => l
  | SEnum _, DEnum i => write_long i
  | SDecBytes w, DDec v => write_len_prefixed (minimal_twos (be_bytes w v))
  | SDecFixed w n, DDec v => match sign_fit n (be_bytes w v) with Some l => l | None => [] end
  | SArray it, DArray l => blocks (map (encode it) l)
  | SMap vt, DMap l => blocks (map (fun kv : list N * datum => write_len_prefixed (fst kv) ++ encode vt (snd kv)) l)
  | SNullable ns t, DOpt o =>
    match o with
    | None => [if ns then 2 else 0]
    | Some x => (if ns then 0 else 2) :: encode t x
    end
  | SUnion brs, DUnion k x =>
    write_long (Z.of_nat k) ++
    (fix pick (l : list schema) (i : nat) {struct l} : list N :=
       match l with
       | [] => []
       | t :: l' => match i with O => encode t x | S i' => pick l' i' end
       end) brs k
  | SRecord fs, DRecord ds =>
    (fix fields (l : list schema) (vs : list datum) {struct l} : list N :=
       match l, vs with
       | t :: l', v :: vs' => encode t v ++ fields l' vs'
       | _, _ => []
       end) fs ds
  | _, _ => []
  end.
End Enc.

(* what arrow-avro's writer emits: a single positive block per array / map *)
Definition encode_w := encode 0 false.

(* ------------------------------------------------------------------ decoder *)
Definition map_res {A B} (f : A -> B) (o : option (A * list N)) : option (B * list N) :=
  match o with Some (a, r) => Some (f a, r) | None => None end.

Fixpoint decode (s : schema) (bs : list N) {struct s} : option (datum * list N) :=
  match s with
  | SNull => Some (DNull, bs)
  | SBool => match bs with b :: r => Some (DBool (negb (b =? 0)), r) | [] => None end
  | SInt => map_res DInt (get_int bs)
  | SLong => map_res DLong (get_long bs)
  | SFloat => map_res (fun l => DFloat (le_value l)) (take 4 bs)
  | SDouble => map_res (fun l => DDouble (le_value l)) (take 8 bs)
  | SBytes => map_res DBytes (get_bytes bs)
  | SString => match get_bytes bs with
               | Some (l, r) => if valid_utf8 l then Some (DString l, r) else None
               | None => None
               end
  | SFixed n => map_res DFixed (take n bs)
  | SEnum nsym => match get_int bs with
                  | Some (i, r) => if (0 <=? i)%Z && (i <? Z.of_nat nsym)%Z then Some (DEnum i, r) else None
                  | None => None
                  end
  | SDecBytes w => match get_bytes bs with
                   | Some (raw, r) => match sign_fit w raw with Some l => Some (DDec (from_be l), r) | None => None end
                   | None => None
                   end
  | SDecFixed w n => match take n bs with
                     | Some (raw, r) => match sign_fit w raw with Some l => Some (DDec (from_be l), r) | None => None end
                     | None => None
                     end
  | SArray it => map_res DArray (read_blocks (S (length bs)) (decode it) bs 0 [])
  | SMap vt =>
    map_res DMap (read_blocks (S (length bs))
      (fun b => match get_bytes b with
                | Some (k, r) => if valid_utf8 k
                                 then match decode vt r with Some (d, r') => Some ((k, d), r') | None => None end
                                 else None
                | None => None
                end) bs 0 [])
  | SNullable ns t =>
    match read_varint bs with
    | None => None
    | Some (br, r) =>
      if (if ns then br =? 0 else negb (br =? 0))
      then map_res (fun d => DOpt (Some d)) (decode t r)
      else Some (DOpt None, r)
    end
  | SUnion brs =>
    match get_long bs with
    | None => None
    | Some (i, r) =>
      if (i <? 0)%Z then None
      else (fix pick (l : list schema) (k : nat) (idx : Z) {struct l} : option (datum * list N) :=
              match l with
              | [] => None
              | t :: l' => if (idx =? 0)%Z then map_res (DUnion k) (decode t r) else pick l' (S k) (idx - 1)%Z
              end) brs O i
    end
  | SRecord fs =>
    map_res DRecord
      ((fix fields (l : list schema) (b : list N) {struct l} : option (list datum * list N) :=
          match l with
          | [] => Some ([], b)
          | t :: l' => match decode t b with
                       | None => None
                       | Some (d, b') => match fields l' b' with
                                         | None => None
                                         | Some (ds, b'') => Some (d :: ds, b'')
                                         end
                       end
          end) fs bs)
  end.

(* ------------------------------------------------------------------ well-formed data (what the writer accepts) *)
Definition byte_list (l : list N) : Prop := Forall (fun b => b < 256) l.
Definition i64 (v : Z) : Prop := (- 2^63 <= v < 2^63)%Z.
Definition i32 (v : Z) : Prop := (- 2^31 <= v < 2^31)%Z.
Definition max_items : Z := 2147483647.
Definition len_ok (l : list N) : Prop := (Z.of_nat (length l) < 2^63)%Z.   (* `len as i64` does not wrap *)

Fixpoint wf (s : schema) (d : datum) {struct s} : Prop :=
  match s, d with
  | SNull, DNull => True
  | SBool, DBool _ => True
  | SInt, DInt v => i32 v
  | SLong, DLong v => i64 v
  | SFloat, DFloat x => x < 2^32
  | SDouble, DDouble x => x < 2^64
  | SBytes, DBytes l => byte_list l /\ len_ok l
  | SString, DString l => byte_list l /\ len_ok l /\ valid_utf8 l = true
  | SFixed n, DFixed l => byte_list l /\ length l = n
  | SEnum nsym, DEnum i => (0 <= i < Z.of_nat nsym)%Z /\ i32 i
  | SDecBytes w, DDec v => (0 < w <= 32)%nat /\ (- 2^(8 * Z.of_nat w - 1) <= v < 2^(8 * Z.of_nat w - 1))%Z
  | SDecFixed w n, DDec v =>
      (* the value fits the Arrow integer, and the writer's write_sign_extended accepts it for fixed(n) *)
      (0 < w <= 32)%nat /\ (0 < n)%nat /\ (- 2^(8 * Z.of_nat w - 1) <= v < 2^(8 * Z.of_nat w - 1))%Z /\
      sign_fit n (be_bytes w v) <> None
  | SArray it, DArray l => (Z.of_nat (length l) <= max_items)%Z /\ Forall (wf it) l
  | SMap vt, DMap l => (Z.of_nat (length l) <= max_items)%Z /\
                       Forall (fun kv : list N * datum => byte_list (fst kv) /\ len_ok (fst kv) /\ valid_utf8 (fst kv) = true /\ wf vt (snd kv)) l
  | SNullable _ t, DOpt o => match o with None => True | Some x => wf t x end
  | SUnion brs, DUnion k x =>
      (Z.of_nat k < 2^31)%Z /\
      (fix pick (l : list schema) (i : nat) {struct l} : Prop :=
         match l with
         | [] => False
         | t :: l' => match i with O => wf t x | S i' => pick l' i' end
         end) brs k
  | SRecord fs, DRecord ds =>
      (fix fields (l : list schema) (vs : list datum) {struct l} : Prop :=
         match l, vs with
         | [], [] => True
         | t :: l', v :: vs' => wf t v /\ fields l' vs'
         | _, _ => False
         end) fs ds
  | _, _ => False
  end.
