(* C13 — casts: machine integers, columns, the three array combinators used by arrow-cast
   (unary / unary_opt / try_unary), integer<->integer, bool<->integer and temporal kernels.
   Definitions only.  Source: arrow-cast/src/cast/mod.rs (cast_with_options, cast_numeric_arrays,
   numeric_cast / try_numeric_cast, the temporal arms), arrow-array/src/array/primitive_array.rs. *)
From Coq Require Import List ZArith Bool.
From AV Require Import Gen.Consts.
Import ListNotations.
Local Open Scope Z_scope.

(* ---------------------------------------------------------------- machine integers *)
Definition imin (bits : Z) (signed : bool) : Z := if signed then - 2 ^ (bits - 1) else 0.
Definition imax (bits : Z) (signed : bool) : Z := if signed then 2 ^ (bits - 1) - 1 else 2 ^ bits - 1.
Definition fits (bits : Z) (signed : bool) (v : Z) : bool := (imin bits signed <=? v) && (v <=? imax bits signed).

(* num_traits::cast::<I, O> between integer types: Some iff the value is in the range of O *)
Definition num_cast (bits : Z) (signed : bool) (v : Z) : option Z := if fits bits signed v then Some v else None.

(* checked_mul / mul_checked on a signed native of the given width *)
Definition checked_mul (bits : Z) (a b : Z) : option Z := let r := a * b in if fits bits true r then Some r else None.
(* Rust `as iN` / wrapping arithmetic: two's complement wrap *)
Definition wrap_signed (bits : Z) (v : Z) : Z :=
  let h := 2 ^ (bits - 1) in
  if (- h <=? v) && (v <? h) then v            (* already in range (also keeps the extracted model fast) *)
  else (v + h) mod 2 ^ bits - h.

Definition is_some {A} (o : option A) : bool := match o with Some _ => true | None => false end.
Definition obind {A B} (o : option A) (f : A -> option B) : option B := match o with Some a => f a | None => None end.

(* ---------------------------------------------------------------- columns
   A physical column: per slot the validity bit and the raw native value; the value of a null
   slot is arbitrary (whatever bytes happen to be in the buffer). *)
Notation slot := (bool * Z)%type.
Notation column := (list (bool * Z)).

Inductive res :=
| ROk (c : column)      (* Ok(array) *)
| RErr                  (* Err(ArrowError) *)
| RPanic.               (* the kernel panics (unwrap of None inside an "infallible" closure) *)

(* PrimitiveArray::unary: the closure is applied to EVERY slot, null slots included; nulls kept *)
Definition unary (g : Z -> Z) (c : column) : column := map (fun s : slot => (fst s, g (snd s))) c.
(* PrimitiveArray::unary_opt: valid slots only; None becomes a null *)
Definition unary_opt (f : Z -> option Z) (c : column) : column :=
  map (fun s : slot => if fst s then match f (snd s) with Some r => (true, r) | None => (false, 0) end else (false, 0)) c.
(* PrimitiveArray::try_unary: valid slots only; the first None aborts with Err *)
Fixpoint try_unary (f : Z -> option Z) (c : column) : option column :=
  match c with
  | [] => Some []
  | (true, v) :: r => match f v with
                      | None => None
                      | Some x => match try_unary f r with Some r' => Some ((true, x) :: r') | None => None end
                      end
  | (false, _) :: r => match try_unary f r with Some r' => Some ((false, 0) :: r') | None => None end
  end.
(* unary (|x| f(x).unwrap()) *)
Definition unary_unwrap (f : Z -> option Z) (c : column) : res :=
  if forallb (fun s : slot => is_some (f (snd s))) c
  then ROk (map (fun s : slot => (fst s, match f (snd s) with Some r => r | None => 0 end)) c)
  else RPanic.

(* values of null slots are not observable: printed as 0 *)
Definition norm (c : column) : column := map (fun s : slot => if fst s then s else (false, 0)) c.

(* The shapes of kernel that cast_with_options uses for the modelled pairs *)
Inductive kernel :=
| KOpt (f : Z -> option Z)     (* safe: unary_opt f; strict: try_unary f *)
| KTotal (g : Z -> Z)          (* unary g in both modes *)
| KUnwrap (f : Z -> option Z)  (* unary (unwrap . f) in both modes ("infallible" decimal fast path) *)
| KTry (f : Z -> option Z)     (* try_unary f in BOTH modes *)
| KFail                        (* Err for every input, even an empty one *)
| KNone.                       (* pair not modelled *)

Definition run_kernel (k : kernel) (safe : bool) (c : column) : res :=
  match k with
  | KOpt f => if safe then ROk (unary_opt f c) else match try_unary f c with Some r => ROk r | None => RErr end
  | KTotal g => ROk (unary g c)
  | KUnwrap f => unary_unwrap f c
  | KTry f => match try_unary f c with Some r => ROk r | None => RErr end
  | KFail => RErr
  | KNone => RErr
  end.

(* per-value readings of a kernel.  value_fn: the function whose safe / strict runs the kernel is
   (kernels with both readings); kernel_value: what the kernel does with ONE raw value — None when
   the kernel refuses every input, is not modelled, or panics on this value *)
Definition value_fn (k : kernel) : option (Z -> option Z) :=
  match k with
  | KOpt f => Some f
  | KTotal g => Some (fun v => Some (g v))
  | _ => None
  end.
Definition kernel_value (k : kernel) (x : Z) : option (option Z) :=
  match k with
  | KOpt f | KTry f => Some (f x)
  | KTotal g => Some (Some (g x))
  | KUnwrap f => match f x with Some r => Some (Some r) | None => None end
  | KFail | KNone => None
  end.

(* ---------------------------------------------------------------- specification side
   Logical column: list (option Z).  Per value a partial conversion conv : Z -> option Z
   (None = not representable in the target type). *)
Definition logical (c : column) : list (option Z) := map (fun s : slot => if fst s then Some (snd s) else None) c.
Definition spec_safe (conv : Z -> option Z) (xs : list (option Z)) : list (option Z) :=
  map (fun x => match x with Some v => conv v | None => None end) xs.
Definition spec_fails (conv : Z -> option Z) (xs : list (option Z)) : bool :=
  existsb (fun x => match x with Some v => negb (is_some (conv v)) | None => false end) xs.
Definition spec_strict (conv : Z -> option Z) (xs : list (option Z)) : option (list (option Z)) :=
  if spec_fails conv xs then None else Some (spec_safe conv xs).
Definition spec_cast (conv : Z -> option Z) (safe : bool) (xs : list (option Z)) : option (list (option Z)) :=
  if safe then Some (spec_safe conv xs) else spec_strict conv xs.

(* ---------------------------------------------------------------- time units *)
(* unit codes: 0 s, 1 ms, 2 us, 3 ns; time_unit_multiple *)
Definition unit_mult (u : Z) : Z :=
  if u =? 0 then 1 else if u =? 1 then arrow_array_temporal_conversions__MILLISECONDS
  else if u =? 2 then arrow_array_temporal_conversions__MICROSECONDS else arrow_array_temporal_conversions__NANOSECONDS.
Definition MS_DAY := arrow_array_temporal_conversions__MILLISECONDS_IN_DAY.
Definition S_DAY := arrow_array_temporal_conversions__SECONDS_IN_DAY.
Definition US_DAY := arrow_array_temporal_conversions__MICROSECONDS_IN_DAY.
Definition NS_DAY := arrow_array_temporal_conversions__NANOSECONDS_IN_DAY.
Definition units_per_day (u : Z) : Z := S_DAY * unit_mult u.

(* Timestamp / Duration unit change on the i64 payload (mod.rs: from_size.cmp(&to_size)):
   to a coarser unit: truncating division; same: identity; to a finer unit: checked_mul *)
Definition rescale_time (ufrom uto : Z) (v : Z) : option Z :=
  let fs := unit_mult ufrom in let ts := unit_mult uto in
  if ts <? fs then Some (Z.quot v (Z.quot fs ts))
  else if ts =? fs then Some v
  else checked_mul 64 v (Z.quot ts fs).

(* the value range chrono's NaiveDateTime covers, in seconds since the epoch, is far larger than
   what the model claims; the None -> "UTC" adjustment (adjust_timestamp_to_timezone with a zero
   offset) is modelled as the identity on |seconds| <= TS_SAFE_SECONDS only (generator precondition) *)
Definition TS_SAFE_SECONDS : Z := 100000000000.
