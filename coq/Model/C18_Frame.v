(* C18 - end-of-data logic of the readers.

   * IPC stream (arrow-ipc/src/reader.rs, MessageReader::read_meta_len / maybe_next and
     StreamReader::try_new / maybe_next): framing of encapsulated messages; a clean end is reported
     only when fewer than 4 bytes remain at a message boundary or an explicit end-of-stream marker is
     read; a cut anywhere else is an error.
   * Parquet footer (parquet/src/file/metadata/reader.rs parse_metadata, footer_tail.rs) and IPC file
     footer (arrow-ipc/src/reader.rs read_footer_length, FileReaderBuilder::build): the conditions
     checked on the LAST bytes of the input before the metadata is decoded.

   Bytes are [list Z] with values 0..255.  Definitions only. *)
From Coq Require Import List Arith ZArith Bool Lia.
Import ListNotations.
Local Open Scope Z_scope.

(* ------------------------------------------------------------------ little-endian fields *)
Fixpoint le (bs : list Z) : Z :=
  match bs with [] => 0 | b :: r => b + 256 * le r end.
Definition signed (bits : Z) (v : Z) : Z := if v <? 2 ^ (bits - 1) then v else v - 2 ^ bits.

(* take exactly n bytes, or fail when fewer are available (read_exact / take(n).read_to_end) *)
Definition split_at (n : nat) (l : list Z) : option (list Z * list Z) :=
  if (length l <? n)%nat then None else Some (firstn n l, skipn n l).

Definition marker : list Z := [255; 255; 255; 255].           (* CONTINUATION_MARKER *)

(* ------------------------------------------------------------------ IPC stream framing *)
Inductive tail := End | Err.
Notation msg := (list Z * list Z)%type.                      (* metadata flatbuffer, body *)

Section Stream.
  (* message.bodyLength() of a metadata flatbuffer; None = the flatbuffer does not verify or the
     length is negative.  The theorems hold for every such function; the extracted instance is
     [fb_body_len] below. *)
  Variable body_len : list Z -> option Z.

  (* one call of MessageReader::maybe_next; on success the message and the remaining input *)
  Inductive step := SEnd | SErr | SMsg (m : msg) (rest : list Z).

  Definition next_message (bs : list Z) : step :=
    match split_at 4 bs with
    | None => SEnd                                  (* read_exact: UnexpectedEof on the first read => Ok(None) *)
    | Some (w, r) =>
      let after_marker :=
        if list_eq_dec Z.eq_dec w marker
        then split_at 4 r                           (* continuation marker: the length follows; EOF here is an error *)
        else Some (w, r) in
      match after_marker with
      | None => SErr
      | Some (w, r) =>
        let meta_len := signed 32 (le w) in
        if meta_len =? 0 then SEnd                  (* end-of-stream marker *)
        else if meta_len <? 0 then SErr
        else if Z.of_nat (length r) <? meta_len then SErr          (* short metadata *)
        else
          let n := Z.to_nat meta_len in
          let meta := firstn n r in
          let r := skipn n r in
          match body_len meta with
          | None => SErr
          | Some bl =>
            if Z.of_nat (length r) <? bl then SErr                 (* short body *)
            else let b := Z.to_nat bl in SMsg (meta, firstn b r) (skipn b r)
          end
      end
    end.

  Fixpoint decode (fuel : nat) (bs : list Z) : list msg * tail :=
    match fuel with
    | O => ([], Err)
    | S f =>
      match next_message bs with
      | SEnd => ([], End)
      | SErr => ([], Err)
      | SMsg m rest => let '(ms, t) := decode f rest in (m :: ms, t)
      end
    end.

  (* every message consumes at least 4 bytes, so this fuel is never exhausted (Proofs/C18_Frame.v) *)
  Definition decode_all (bs : list Z) : list msg * tail := decode (S (length bs)) bs.

  (* what the writer emits: continuation marker, metadata length, metadata (already padded), body *)
  Definition le32 (n : Z) : list Z := [n mod 256; (n / 256) mod 256; (n / 65536) mod 256; (n / 16777216) mod 256].
  Definition frame (m : msg) : list Z := marker ++ le32 (Z.of_nat (length (fst m))) ++ fst m ++ snd m.
  Definition eos : list Z := marker ++ [0; 0; 0; 0].
  Definition encode (ms : list msg) (with_eos : bool) : list Z :=
    concat (map frame ms) ++ (if with_eos then eos else []).

  Definition wf_msg (m : msg) : Prop :=
    (0 < length (fst m))%nat /\ Z.of_nat (length (fst m)) < 2 ^ 31 /\
    body_len (fst m) = Some (Z.of_nat (length (snd m))).
End Stream.

(* ------------------------------------------------------------------ flatbuffer field access
   (enough of the format to read Message.header_type and Message.bodyLength) *)
Definition u_at (n : nat) (bs : list Z) (off : Z) : option Z :=
  if (0 <=? off) && (off + Z.of_nat n <=? Z.of_nat (length bs))
  then Some (le (firstn n (skipn (Z.to_nat off) bs))) else None.

(* position of table field number idx of the root table, None = malformed, Some None = absent (default) *)
Definition fb_field (meta : list Z) (idx : Z) : option (option Z) :=
  match u_at 4 meta 0 with
  | None => None
  | Some root =>
    match u_at 4 meta root with
    | None => None
    | Some so =>
      let vt := root - signed 32 so in
      match u_at 2 meta vt with
      | None => None
      | Some vtlen =>
        let slot := 4 + 2 * idx in
        if slot + 2 <=? vtlen then
          match u_at 2 meta (vt + slot) with
          | None => None
          | Some o => if o =? 0 then Some None else Some (Some (root + o))
          end
        else Some None
      end
    end
  end.

(* Message { version:0, header_type:1, header:2, bodyLength:3, custom_metadata:4 } *)
Definition fb_body_len (meta : list Z) : option Z :=
  match fb_field meta 3 with
  | None => None
  | Some None => Some 0
  | Some (Some p) =>
    match u_at 8 meta p with
    | None => None
    | Some v => let s := signed 64 v in if s <? 0 then None else Some s
    end
  end.
Definition fb_header_type (meta : list Z) : Z :=
  match fb_field meta 1 with
  | Some (Some p) => match u_at 1 meta p with Some v => v | None => 0 end
  | _ => 0
  end.

(* StreamReader on a byte string: try_new consumes the schema message, then every RecordBatch
   message is one batch, dictionary messages are consumed silently, anything else is an error.
   Result: None = try_new failed; Some (number of batches, how the iteration ended). *)
Fixpoint count_batches (ms : list msg) (t : tail) : nat * tail :=
  match ms with
  | [] => (O, t)
  | m :: r =>
    let h := fb_header_type (fst m) in
    if h =? 3 then let '(n, t') := count_batches r t in (S n, t')
    else if h =? 2 then count_batches r t
    else (O, Err)
  end.
Definition stream_read (bs : list Z) : option (nat * tail) :=
  match decode_all fb_body_len bs with
  | ([], _) => None
  | (m :: r, t) => if fb_header_type (fst m) =? 1 then Some (count_batches r t) else None
  end.

(* StreamDecoder (push based, arrow-ipc/src/reader/stream.rs): the same framing, but `finish` accepts the
   end of the input only exactly at a message boundary or right after an end-of-stream marker, and
   input after the marker is an error.  [decode_rest] = the bytes left where the framing loop stops. *)
Fixpoint decode_rest (fuel : nat) (bs : list Z) : list Z :=
  match fuel with
  | O => bs
  | S f => match next_message fb_body_len bs with
           | SMsg _ rest => decode_rest f rest
           | _ => bs
           end
  end.
Definition clean_rest (rest : list Z) : tail :=
  if list_eq_dec Z.eq_dec rest [] then End
  else if list_eq_dec Z.eq_dec rest eos then End
  else if list_eq_dec Z.eq_dec rest [0; 0; 0; 0] then End
  else Err.
(* A message without body is completed by the decoder only when the NEXT byte arrives (the loop
   `while !buffer.is_empty()` is left before the Body state is processed): if the input ends right
   after the metadata of a body-less message, that message is still pending - it is not delivered and
   `finish` reports an error. *)
Definition push_read (bs : list Z) : nat * tail :=
  let rest := decode_rest (S (length bs)) bs in
  let '(ms, _) := decode_all fb_body_len bs in
  let pending := match rest, rev ms with
                 | [], m :: _ => match snd m with [] => true | _ :: _ => false end
                 | _, _ => false
                 end in
  let ms' := if pending then removelast ms else ms in
  let fin := if pending then Err else clean_rest rest in
  match ms' with
  | [] => (O, fin)
  | m :: r =>
      if fb_header_type (fst m) =? 1
      then let '(n, t) := count_batches r End in (n, match t with Err => Err | End => fin end)
      else (O, Err)
  end.

(* ------------------------------------------------------------------ footers *)
Definition last_n (n : nat) (l : list Z) : list Z := skipn (length l - n) l.

Definition par1 : list Z := [80; 65; 82; 49].                (* "PAR1" *)
Definition pare : list Z := [80; 65; 82; 69].                (* "PARE" (encrypted footer) *)
Definition arrow1 : list Z := [65; 82; 82; 79; 87; 49].      (* "ARROW1" *)

(* FooterTail::try_new on 8 bytes: Some (metadata length, encrypted) *)
Definition pq_tail (t : list Z) : option (Z * bool) :=
  let magic := skipn 4 t in
  if list_eq_dec Z.eq_dec magic pare then Some (le (firstn 4 t), true)
  else if list_eq_dec Z.eq_dec magic par1 then Some (le (firstn 4 t), false)
  else None.

(* parse_metadata up to the point where the thrift metadata is decoded: the file is at least
   FOOTER_SIZE long, ends in a magic, and the declared metadata fits in front of the footer *)
Definition pq_footer_ok (file : list Z) : bool :=
  if (length file <? 8)%nat then false
  else match pq_tail (last_n 8 file) with
       | None => false
       | Some (mlen, _) => mlen + 8 <=? Z.of_nat (length file)
       end.

(* read_footer_length on 10 bytes *)
Definition ipc_footer_len (t : list Z) : option Z :=
  if list_eq_dec Z.eq_dec (skipn 4 t) arrow1
  then let n := signed 32 (le (firstn 4 t)) in if n <? 0 then None else Some n
  else None.

(* FileReaderBuilder::build up to the flatbuffer verification of the footer: seek(End(-10)) succeeds,
   trailing magic, non-negative footer length, seek(End(-10 - footer_len)) succeeds *)
Definition ipc_footer_ok (file : list Z) : bool :=
  if (length file <? 10)%nat then false
  else match ipc_footer_len (last_n 10 file) with
       | None => false
       | Some n => n + 10 <=? Z.of_nat (length file)
       end.

(* The coincidence sets, stated on the ORIGINAL file: a cut at k can only be accepted when the bytes
   of the original file just before position k already look like a footer tail. *)
Definition sub (file : list Z) (from len : nat) : list Z := firstn len (skipn from file).

Definition pq_coincidence (file : list Z) (k : nat) : Prop :=
  (8 <= k)%nat /\
  (sub file (k - 4) 4 = par1 \/ sub file (k - 4) 4 = pare) /\
  le (sub file (k - 8) 4) + 8 <= Z.of_nat k.

Definition ipc_coincidence (file : list Z) (k : nat) : Prop :=
  (10 <= k)%nat /\
  sub file (k - 6) 6 = arrow1 /\
  0 <= signed 32 (le (sub file (k - 10) 4)) /\
  signed 32 (le (sub file (k - 10) 4)) + 10 <= Z.of_nat k.
