(* C18 - Avro object container file: block framing as read by arrow-avro
   (reader/vlq.rs VLQDecoder::long, reader/block.rs BlockDecoder, reader/mod.rs Reader::read).

   A block is  long(count) long(size) data[size] sync[16].  The reader decodes rows only from
   complete blocks whose sync marker equals the header's; when the input ends inside a block the
   partial block is dropped and the iteration ends cleanly (Reader::read: `buf.is_empty()` =>
   finished).  Definitions only. *)
From Coq Require Import List Arith ZArith Bool Lia.
From AV Require Import Model.C18_Frame.
Import ListNotations.
Local Open Scope Z_scope.

Definition zz_dec (v : Z) : Z := if Z.even v then v / 2 else - ((v + 1) / 2).
Definition zz_enc (z : Z) : Z := if 0 <=? z then 2 * z else - 2 * z - 1.

(* VLQDecoder::long over the bytes available: VMore = input exhausted inside the varint *)
Inductive vres := VMore | VErr | VOk (v : Z) (rest : list Z).
Fixpoint vlq (bs : list Z) (shift acc : Z) : vres :=
  match bs with
  | [] => VMore
  | b :: r =>
    if (shift =? 63) && (2 <=? b) then VErr                (* more than 64 bits *)
    else let acc' := acc + (b mod 128) * 2 ^ shift in
         if b <? 128 then VOk (zz_dec acc') r else vlq r (shift + 7) acc'
  end.

(* the writer side (writer/encoder.rs write_long): zig-zag then base-128, at most 10 bytes *)
Fixpoint venc (fuel : nat) (v : Z) : list Z :=
  match fuel with
  | O => []
  | S f => if v <? 128 then [v] else (v mod 128 + 128) :: venc f (v / 128)
  end.
Definition long_enc (z : Z) : list Z := venc 10 (zz_enc z).

Notation block := (Z * list Z)%type.                          (* row count, (possibly compressed) data *)
Inductive bstep := BEnd | BErr | BBlock (b : block) (rest : list Z).

Definition next_block (sync : list Z) (bs : list Z) : bstep :=
  match vlq bs 0 0 with
  | VMore => BEnd
  | VErr => BErr
  | VOk c r1 =>
    if c <? 0 then BErr
    else match vlq r1 0 0 with
         | VMore => BEnd
         | VErr => BErr
         | VOk sz r2 =>
           if sz <? 0 then BErr
           else if Z.of_nat (length r2) <? sz + 16 then BEnd         (* data or sync marker incomplete at EOF *)
           else let n := Z.to_nat sz in
                if list_eq_dec Z.eq_dec (firstn 16 (skipn n r2)) sync
                then BBlock (c, firstn n r2) (skipn 16 (skipn n r2))
                else BErr
         end
  end.

Fixpoint read_blocks (fuel : nat) (sync : list Z) (bs : list Z) : list block * tail :=
  match fuel with
  | O => ([], Err)
  | S f =>
    match next_block sync bs with
    | BEnd => ([], End)
    | BErr => ([], Err)
    | BBlock b rest => let '(bl, t) := read_blocks f sync rest in (b :: bl, t)
    end
  end.
Definition read_all_blocks (sync bs : list Z) : list block * tail := read_blocks (S (length bs)) sync bs.

Definition enc_block (sync : list Z) (b : block) : list Z :=
  long_enc (fst b) ++ long_enc (Z.of_nat (length (snd b))) ++ snd b ++ sync.
Definition enc_blocks (sync : list Z) (bl : list block) : list Z := concat (map (enc_block sync) bl).

Definition wf_block (b : block) : Prop := 0 <= fst b < 2 ^ 62 /\ Z.of_nat (length (snd b)) < 2 ^ 62.

(* the reader on a container file whose header occupies the first [hlen] bytes (the last 16 of which
   are the sync marker): None = the header is incomplete (build fails), Some (rows, tail) *)
Definition avro_read (hlen : nat) (file : list Z) : option (Z * tail) :=
  if (length file <? hlen)%nat then None
  else
    let sync := firstn 16 (skipn (hlen - 16) file) in
    let '(bl, t) := read_all_blocks sync (skipn hlen file) in
    Some (fold_right (fun b acc => fst b + acc) 0 bl, t).
