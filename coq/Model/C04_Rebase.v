(* C04 — slice re-basing on write: arrow-ipc/src/writer.rs [reencode_offsets],
   [get_byte_array_buffers] / [get_list_array_buffers] (the offsets of a sliced variable-size array are
   re-based to start at 0 and the values buffer / child array is cut to the addressed range), and
   [get_or_truncate_buffer] (fixed-width values are cut to [offset, offset+len)).
   Offsets are the decoded integers of the offsets buffer; values are a list of elements (bytes for
   Binary/Utf8, child slots for List/Map).  Definitions only. *)
From Coq Require Import List Arith ZArith Bool.
Import ListNotations.

(* fn reencode_offsets<O>(offsets, data) -> (new offsets, original start offset, length of the value range) *)
Definition reencode_offsets (offs : list Z) (off len : nat) : list Z * nat * nat :=
  let sl := firstn (len + 1) (skipn off offs) in
  let start := hd 0%Z sl in
  let end_ := last sl 0%Z in
  ((if Z.eqb start 0 then sl else map (fun x => (x - start)%Z) sl), Z.to_nat start, Z.to_nat (end_ - start)).

(* get_byte_array_buffers / get_list_array_buffers: an empty array is written with the single offset 0 *)
Definition rebase {A} (offs : list Z) (values : list A) (off len : nat) : list Z * list A :=
  if Nat.eqb len 0 then ([0%Z], [])
  else let '(o', start, n) := reencode_offsets offs off len in (o', firstn n (skipn start values)).

(* the reader: slot i of a variable-size array with offsets [o] over [values] *)
Definition var_slot {A} (offs : list Z) (values : list A) (i : nat) : list A :=
  let s := Z.to_nat (nth i offs 0%Z) in let e := Z.to_nat (nth (S i) offs 0%Z) in
  firstn (e - s) (skipn s values).

(* get_or_truncate_buffer for a fixed-width layout of [w] bytes per element:
   buffer_need_truncate = offset != 0 || len*w < buffer.len(); the cut is [offset*w, offset*w + min(len*w, rest)) *)
Definition truncate_fixed (b : list N) (w off len : nat) : list N :=
  let min_length := len * w in
  if negb (Nat.eqb off 0) || (min_length <? length b) then
    firstn (Nat.min min_length (length b - off * w)) (skipn (off * w) b)
  else b.
Definition fixed_slot (b : list N) (w i : nat) : list N := firstn w (skipn (i * w) b).

Fixpoint monotone (prev : Z) (l : list Z) : Prop :=
  match l with [] => True | x :: r => (prev <= x)%Z /\ monotone x r end.
