(* C09 — functional transcription of arrow-data/src/data.rs validation:
   ArrayData::validate (cheap), validate_nulls, validate_values, validate_full, and
   byte_view.rs validate_view_impl, over the same [parr] as the specification.
   Ok/Err is a boolean (true = accepted); error messages are not modelled.  usize
   arithmetic is explicit: checked_add / checked_mul / saturating_mul on 64 bits. *)
From Coq Require Import List Arith NArith ZArith Bool.
From AV Require Import Base.ListX Base.Bits Base.Bytes Base.Utf8 Model.C19_Bits Model.C09_Layout.
Import ListNotations.

Definition checked_add (a b : N) : option N := if (a + b <=? usize_max)%N then Some (a + b)%N else None.
Definition checked_mul (a b : N) : option N := if (a * b <=? usize_max)%N then Some (a * b)%N else None.
Definition saturating_mul (a b : N) : N := N.min (a * b) usize_max.

(* layout(): buffer specs (FixedWidth byte width | BitMap | VariableWidth), null mask allowed, variadic *)
Inductive bspec := BFixed (w : N) | BBitmap | BVar.
Definition layout_of (t : dty) : list bspec * bool * bool :=
  match t with
  | TNull => ([], false, false)
  | TBool => ([BBitmap], true, false)
  | TFixed w => ([BFixed (N.of_nat w)], true, false)
  | TFixedBin n => ([BFixed (Z.to_N n)], true, false)          (* size.try_into().unwrap() : negative sizes panic *)
  | TBin large _ => ([BFixed (N.of_nat (offw large)); BVar], true, false)
  | TView _ => ([BFixed 16], true, true)
  | TList large _ _ => ([BFixed (N.of_nat (offw large))], true, false)
  | TListView large _ _ => ([BFixed (N.of_nat (offw large)); BFixed (N.of_nat (offw large))], true, false)
  | TFixedList _ _ _ => ([], true, false)
  | TStruct _ => ([], true, false)
  | TDict kw _ _ => ([BFixed (N.of_nat kw)], true, false)
  | TRee _ _ => ([], false, false)
  | TUnion dense _ => (if dense then [BFixed 1; BFixed 4] else [BFixed 1], false, false)
  end.

Definition blen (b : list N) : N := N.of_nat (length b).
Definition nceil8 (x : N) : N := ((x + 7) / 8)%N.

(* typed_buffer(idx, len): Some (first element index, one-past-last) when buffers[idx] holds
   (len + self.offset) elements of width w *)
Definition typed_buffer_ok (a : parr) (idx : nat) (len : N) (w : nat) : bool :=
  match checked_add len (N.of_nat (p_off a)) with
  | None => false
  | Some req => match checked_mul req (N.of_nat w) with
                | None => false
                | Some bytes => (bytes <=? blen (buf a idx))%N
                end
  end.

(* typed_offsets: empty slice for (len = 0, empty buffer); else len+1 offsets *)
Definition typed_offsets (a : parr) (w : nat) : option (list Z) :=
  if (Nat.eqb (p_len a) 0 && Nat.eqb (length (buf a 0)) 0)%bool then Some [] else
  match checked_add (N.of_nat (p_len a)) 1 with
  | None => None
  | Some l => if typed_buffer_ok a 0 l w then Some (offsets_of a w) else None
  end.

(* validate_offsets: first and last offset convertible to usize and within values_length, first <= last *)
Definition validate_offsets (a : parr) (w : nat) (values_length : nat) : bool :=
  match typed_offsets a w with
  | None => false
  | Some [] => true
  | Some offs =>
      let first := hd 0%Z offs in let last_ := nth (p_len a) offs 0%Z in
      (0 <=? first)%Z && (0 <=? last_)%Z &&
      (first <=? Z.of_nat values_length)%Z && (last_ <=? Z.of_nat values_length)%Z && (first <=? last_)%Z
  end.

Definition validate_offsets_and_sizes (a : parr) (w : nat) (values_length : nat) : bool :=
  typed_buffer_ok a 0 (N.of_nat (p_len a)) w && typed_buffer_ok a 1 (N.of_nat (p_len a)) w &&
  forallb (fun i =>
    let s := sle_at (buf a 1) w (p_off a + i) in let o := sle_at (buf a 0) w (p_off a + i) in
    (0 <=? s)%Z && (0 <=? o)%Z && (s + o <=? Z.of_nat values_length)%Z) (seq 0 (p_len a)).

(* get_valid_child_data: child i exists and has the expected type (its own validate() is the
   tree recursion) *)
Definition child_ok (a : parr) (i : nat) (t : dty) : bool := kid_is a i t.
Definition num_children (a : parr) (n : nat) : bool := Nat.eqb (length (p_kids a)) n.

Definition validate_child_data (a : parr) : bool :=
  match p_ty a with
  | TList large _ c => num_children a 1 && child_ok a 0 c && validate_offsets a (offw large) (kid_len a 0)
  | TListView large _ c => num_children a 1 && child_ok a 0 c && validate_offsets_and_sizes a (offw large) (kid_len a 0)
  | TFixedList s _ c =>
      num_children a 1 && child_ok a 0 c && (0 <=? s)%Z &&
      (* repaired code (/repo commit 54de74e): (offset + len) * list_size; before: len * list_size *)
      match checked_add (N.of_nat (p_len a)) (N.of_nat (p_off a)) with
      | None => false
      | Some lpo =>
          match checked_mul lpo (Z.to_N s) with
          | None => false    (* .expect("integer overflow ...") : panic = rejection *)
          | Some expected => (expected <=? N.of_nat (kid_len a 0))%N
          end
      end
  | TStruct fs =>
      num_children a (length fs) &&
      forallb (fun p : (bool * dty) * parr => dty_eqb (p_ty (snd p)) (snd (fst p)) && (p_len a <=? p_len (snd p))%nat)
              (List.combine fs (p_kids a))
  | TRee rw v =>
      num_children a 2 && child_ok a 0 (TFixed rw) && child_ok a 1 v &&
      Nat.eqb (kid_len a 0) (kid_len a 1) &&
      match kid a 0 with Some r => match p_nulls r with None => true | Some _ => false end | None => false end
  | TUnion dense fs =>
      num_children a (length fs) &&
      forallb (fun p : (Z * dty) * parr =>
                 dty_eqb (p_ty (snd p)) (snd (fst p)) &&
                 (dense || (p_off a + p_len a <=? p_len (snd p))%nat))
              (List.combine fs (p_kids a))
  | TDict _ _ v => num_children a 1 && child_ok a 0 v
  | _ => num_children a 0
  end.

(* ArrayData::validate, without the recursion into children *)
Definition node_validate (a : parr) : bool :=
  match checked_add (N.of_nat (p_len a)) (N.of_nat (p_off a)) with
  | None => false
  | Some lpo =>
      let '(specs, can_null, variadic) := layout_of (p_ty a) in
      (can_null || match p_nulls a with None => true | Some _ => false end) &&
      (length specs <=? length (p_bufs a))%nat && (variadic || Nat.eqb (length (p_bufs a)) (length specs)) &&
      forallb (fun p : list N * bspec =>
                 match snd p with
                 | BFixed w => (saturating_mul lpo w <=? blen (fst p))%N
                 | BBitmap => (nceil8 lpo <=? blen (fst p))%N
                 | BVar => true
                 end) (List.combine (p_bufs a) specs) &&
      match p_nulls a with
      | None => true
      | Some nb =>
          (nb_count nb <=? p_len a)%nat && (nceil8 lpo <=? blen (nb_bytes nb))%N && Nat.eqb (nb_len nb) (p_len a) &&
          (* type invariant of BooleanBuffer (asserted by its safe constructor) *)
          (nb_off nb + nb_len nb <=? 8 * length (nb_bytes nb))%nat
      end &&
      validate_child_data a &&
      match p_ty a with
      | TFixedBin n => (0 <=? n)%Z
      | TBin large _ => validate_offsets a (offw large) (length (buf a 1))
      | TRee rw _ => (Nat.eqb rw 2 || Nat.eqb rw 4 || Nat.eqb rw 8)
      | TDict kw _ _ => (Nat.eqb kw 1 || Nat.eqb kw 2 || Nat.eqb kw 4 || Nat.eqb kw 8)
      | _ => true
      end
  end.

(* validate_non_nullable(mask, child) *)
Definition contains_bits (mask other : list bool) : bool :=
  forallb (fun p : bool * bool => negb (fst p) || snd p) (List.combine mask other).
Definition validate_non_nullable (mask : option (list bool)) (k : parr) : bool :=
  match mask with
  | None => match p_nulls k with None => true | Some nb => Nat.eqb (nb_count nb) 0 end
  | Some m => match p_nulls k with
              | None => true
              | Some nb => Nat.eqb (nb_count nb) 0 || contains_bits m (nb_bits nb)
              end
  end.

Definition node_nulls (a : parr) : bool :=
  match p_nulls a with
  | None => true
  | Some nb => Nat.eqb (count_false (nb_bits nb)) (nb_count nb)
  end &&
  match p_ty a with
  | TList _ false _ => match kid a 0 with Some k => validate_non_nullable None k | None => false end
  | TFixedList s false _ =>
      match kid a 0 with
      | Some k => validate_non_nullable
                    (match p_nulls a with None => None
                     | Some nb => Some (flat_map (fun b => repeat b (Z.to_nat s)) (nb_bits nb)) end) k
      | None => false end
  | TStruct fs =>
      forallb (fun p : (bool * dty) * parr =>
                 fst (fst p) || validate_non_nullable (match p_nulls a with None => None | Some nb => Some (nb_bits nb) end) (snd p))
              (List.combine fs (p_kids a))
  | _ => true
  end.

(* validate_each_offset: every offset in [0, limit], monotone (scan from 0), then per-range check *)
(* NB: extracted [andb] is strict, so everything expensive or partial sits under an [if] *)
Fixpoint each_offset (limit : Z) (check : Z -> Z -> bool) (start : Z) (first : bool) (offs : list Z) : bool :=
  match offs with
  | [] => true
  | x :: r =>
      if ((0 <=? x)%Z && (x <=? limit)%Z && (start <=? x)%Z)%bool
      then (if first then true else check start x) && each_offset limit check x false r
      else false
  end.
Definition validate_each_offset (a : parr) (w : nat) (limit : nat) (check : Z -> Z -> bool) : bool :=
  match typed_offsets a w with
  | None => false
  | Some offs => each_offset (Z.of_nat limit) check 0 true offs
  end.

(* validate_view_impl: every view (null slots included) *)
Definition impl_view (utf8 : bool) (data : list (list N)) (v : N) : bool :=
  let len := view_len v in
  if (len <=? max_inline_view_len)%N then
    ((max_inline_view_len <=? len)%N || N.eqb (N.shiftr v (32 + len * 8)) 0) &&
    (negb utf8 || valid_utf8 (view_inline_bytes v))
  else
    if (view_bufidx v <? N.of_nat (length data))%N then
      match nth_error data (N.to_nat (view_bufidx v)) with
      | None => false
      | Some d =>
          if (view_offset v + len <=? N.of_nat (length d))%N then
            let b := firstn (N.to_nat len) (skipn (N.to_nat (view_offset v)) d) in
            starts_with b (map (fun k => N.land (N.shiftr (view_prefix v) (N.of_nat (8 * k))) 255) (seq 0 4)) &&
            (negb utf8 || valid_utf8 b)
          else false
      end
    else false.

Definition check_bounds (a : parr) (w : nat) (signed : bool) (dict_len : nat) : bool :=
  forallb (fun i =>
    negb (slot_valid a i) ||
    let k := if signed then sle_at (buf a 0) w (p_off a + i) else Z.of_N (le_at (buf a 0) w (p_off a + i)) in
    (0 <=? k)%Z && (k <=? Z.of_nat dict_len - 1)%Z) (seq 0 (p_len a)).

(* check_run_ends(logical_end), invoked by validate_values on the run-ends CHILD [r] of array [a]
   with the parent's checked offset + len (repaired code, /repo commit ad5b739; before it the last
   run end was compared with the child's own len + offset: known finding F1, fixed). *)
Fixpoint run_ends_ok (prev : Z) (first : bool) (l : list Z) : bool * Z :=
  match l with
  | [] => (true, prev)
  | x :: r => if ((0 <? x)%Z && (first || (prev <? x)%Z))%bool then run_ends_ok x false r else (false, prev)
  end.
Definition check_run_ends (a r : parr) (rw : nat) : bool :=
  typed_buffer_ok r 0 (N.of_nat (p_len r)) rw &&
  let ends := map (fun i => sle_at (nth 0 (p_bufs r) []) rw (p_off r + i)) (seq 0 (p_len r)) in
  let '(ok, last_) := run_ends_ok 0 true ends in
  ok &&
  (Z.of_nat (p_off a + p_len a) <=? last_)%Z.

(* str::is_char_boundary *)
Definition is_char_boundary (data : list N) (i : Z) : bool :=
  Z.eqb i 0 || Z.eqb i (Z.of_nat (length data)) ||
  match nth_error data (Z.to_nat i) with
  | Some b => (b <? 128)%N || (192 <=? b)%N
  | None => false
  end.
(* validate_utf8: when the whole values buffer is valid UTF-8 only char boundaries are checked,
   otherwise each value is validated on its own *)
Definition utf8_range_check (data : list N) : Z -> Z -> bool :=
  if valid_utf8 data then (fun s e => is_char_boundary data s && is_char_boundary data e)
  else (fun s e => valid_utf8 (slice_bytes data s e)).

Definition node_values (a : parr) : bool :=
  match p_ty a with
  | TBin large utf8 =>
      validate_each_offset a (offw large) (length (buf a 1))
        (if utf8 then utf8_range_check (buf a 1) else (fun _ _ => true))
  | TView utf8 =>
      typed_buffer_ok a 0 (N.of_nat (p_len a)) 16 &&
      forallb (fun i => impl_view utf8 (tl (p_bufs a)) (view_at a i)) (seq 0 (p_len a))
  | TList large _ _ => validate_each_offset a (offw large) (kid_len a 0) (fun _ _ => true)
  | TDict kw ksigned _ => check_bounds a kw ksigned (kid_len a 0)
  | TRee rw _ => match kid a 0 with Some r => check_run_ends a r rw | None => false end
  | _ => true
  end.

(* validate_data on every node = validate_full *)
Definition node_ok (a : parr) : bool := node_validate a && node_nulls a && node_values a.
Definition impl_validate_full (a : parr) : bool := tree_all node_ok a.
