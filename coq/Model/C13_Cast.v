(* C13 — the modelled part of cast_with_options: which kernel the first matching arm of
   arrow-cast/src/cast/mod.rs runs for a pair of leaf types (M), and the per-value specification
   conversion (S).  Definitions only. *)
From Coq Require Import List ZArith Bool.
From AV Require Import Gen.Consts Model.C13_Num Model.C13_Decimal.
Import ListNotations.
Local Open Scope Z_scope.

Inductive mty :=
| TInt (bits : Z) (signed : bool)
| TBool
| TDec (w p s : Z)
| TDate32 | TDate64
| TTime32 (u : Z) | TTime64 (u : Z)
| TTs (u : Z) (tz : bool)          (* tz: false = None, true = "UTC" *)
| TDur (u : Z).

Definition mty_eqb (a b : mty) : bool :=
  match a, b with
  | TInt b1 s1, TInt b2 s2 => (b1 =? b2) && Bool.eqb s1 s2
  | TBool, TBool => true
  | TDec w1 p1 s1, TDec w2 p2 s2 => (w1 =? w2) && (p1 =? p2) && (s1 =? s2)
  | TDate32, TDate32 => true | TDate64, TDate64 => true
  | TTime32 u1, TTime32 u2 => u1 =? u2 | TTime64 u1, TTime64 u2 => u1 =? u2
  | TTs u1 z1, TTs u2 z2 => (u1 =? u2) && Bool.eqb z1 z2
  | TDur u1, TDur u2 => u1 =? u2
  | _, _ => false
  end.

(* native width / signedness of the values of a type *)
Definition native_bits (t : mty) : Z :=
  match t with TInt b _ => b | TBool => 1 | TDec w _ _ => w | TDate32 | TTime32 _ => 32 | _ => 64 end.
Definition native_signed (t : mty) : bool := match t with TInt _ s => s | TBool => false | _ => true end.

Definition idk : kernel := KTotal (fun v => v).
Definition mulk (k : Z) : kernel := KTotal (fun v => v * k).
Definition quotk (k : Z) : kernel := KTotal (fun v => Z.quot v k).
Definition quot_as_i32 (k : Z) : kernel := KTotal (fun v => wrap_signed 32 (Z.quot v k)).   (* (x / k) as i32 *)

(* adjust_timestamp_to_timezone for the zone "UTC" (offset 0): as_datetime -> minus zero offset ->
   from_naive_datetime: the identity on every instant chrono can represent; modelled on
   |seconds| <= TS_SAFE_SECONDS (beyond: not modelled, never generated) *)
Definition adj_utc (u : Z) (v : Z) : option Z :=
  if Z.abs (v / unit_mult u) <=? TS_SAFE_SECONDS then Some v else None.
Definition then_adj (k : kernel) (u : Z) (tz : bool) : kernel :=
  if negb tz then k else
  match k with
  | KOpt f => KOpt (fun v => obind (f v) (adj_utc u))
  | KTotal g => KOpt (fun v => adj_utc u (g v))
  | k' => k'
  end.

(* i64 payload -> target numeric type (the `(Timestamp|Duration, numeric)` arms: reinterpret as
   Int64, then the Int64 arm) *)
Definition from_i64_kernel (b : mty) : kernel :=
  match b with
  | TInt bits sg => KOpt (num_cast bits sg)
  | TDec w p s => int_dec_kernel 64 true w p s
  | _ => KNone
  end.
(* numeric source -> i64 payload (`(numeric, Timestamp|Duration)` arms: cast to Int64 first) *)
Definition to_i64_kernel (a : mty) : kernel :=
  match a with
  | TInt _ _ => KOpt (num_cast 64 true)
  | TDec w _ s => dec_int_kernel w s 64 true
  | _ => KNone
  end.

(* time of day of a timestamp in unit u, expressed in unit t (chrono: floor semantics) *)
Definition ts_time (u t : Z) (v : Z) : option Z :=
  if Z.abs (v / unit_mult u) <=? TS_SAFE_SECONDS then
    let tod := v mod units_per_day u in
    Some (if unit_mult u <=? unit_mult t then tod * (unit_mult t / unit_mult u) else tod / (unit_mult u / unit_mult t))
  else None.
Definition ts_date32 (u : Z) (v : Z) : option Z :=
  if Z.abs (v / unit_mult u) <=? TS_SAFE_SECONDS then Some (v / units_per_day u) else None.

Definition is_i32 (bits : Z) (sg : bool) : bool := (bits =? 32) && sg.
Definition is_i64 (bits : Z) (sg : bool) : bool := (bits =? 64) && sg.
Definition MILLIS := arrow_array_temporal_conversions__MILLISECONDS.

(* unit change of an i64 payload (Timestamp -> Timestamp, Duration -> Duration) *)
Definition unit_change_kernel (u1 u2 : Z) : kernel :=
  if unit_mult u2 <? unit_mult u1 then quotk (Z.quot (unit_mult u1) (unit_mult u2))
  else if unit_mult u2 =? unit_mult u1 then idk
  else KOpt (fun v => checked_mul 64 v (Z.quot (unit_mult u2) (unit_mult u1))).

(* nested matches and boolean tests only (no literal patterns), so that the table reduces on
   symbolic widths and units *)
Definition kernel_of (a b : mty) : kernel :=
  if mty_eqb a b then idk else
  match a with
  | TInt bits sg =>
      match b with
      | TInt bits2 sg2 => KOpt (num_cast bits2 sg2)
      | TBool => KTotal (fun v => if v =? 0 then 0 else 1)
      | TDec w p s => int_dec_kernel bits sg w p s
      | TDate32 => if is_i32 bits sg then idk else if is_i64 bits sg then KOpt (num_cast 32 true) else KNone
      | TDate64 => if is_i32 bits sg then mulk MS_DAY else if is_i64 bits sg then idk else KNone
      | TTime32 _ => if is_i32 bits sg then idk else KNone
      | TTime64 _ => if is_i64 bits sg then idk else KNone
      | TTs _ _ | TDur _ => KOpt (num_cast 64 true)
      end
  | TBool => match b with TInt _ _ => KOpt (fun v => Some v) | _ => KNone end
  | TDec w1 p1 s1 =>
      match b with
      | TDec w2 p2 s2 => dec_dec_kernel w1 p1 s1 w2 p2 s2
      | TInt bits sg => dec_int_kernel w1 s1 bits sg
      | TTs _ _ | TDur _ => dec_int_kernel w1 s1 64 true
      | _ => KNone
      end
  | TDate32 =>
      match b with
      | TInt bits sg => if is_i32 bits sg then idk else if is_i64 bits sg then KOpt (num_cast 64 true) else KNone
      | TDate64 => mulk MS_DAY
      | TTs u z => if u =? 0 then then_adj (mulk S_DAY) 0 z
                   else if u =? 1 then then_adj (mulk MS_DAY) 1 z
                   else if u =? 2 then then_adj (KOpt (fun v => checked_mul 64 v US_DAY)) 2 z
                   else then_adj (KOpt (fun v => checked_mul 64 v NS_DAY)) u z
      | _ => KNone
      end
  | TDate64 =>
      match b with
      | TInt bits sg => if is_i64 bits sg then idk else if is_i32 bits sg then KOpt (num_cast 32 true) else KNone
      | TDate32 => KOpt (fun v => num_cast 32 true (Z.quot v MS_DAY))
      | TTs u z => if u =? 0 then then_adj (quotk MILLIS) 0 z
                   else if u =? 1 then then_adj idk 1 z
                   else then_adj (mulk (Z.quot (unit_mult u) MILLIS)) u z       (* unchecked x * 1000 / x * 1000000 *)
      | _ => KNone
      end
  | TTime32 u =>
      match b with
      | TInt bits sg => if is_i32 bits sg then idk else if is_i64 bits sg then KOpt (num_cast 64 true) else KNone
      | TTime32 t => if (u =? 0) && (t =? 1) then KOpt (fun v => checked_mul 32 v MILLIS)
                     else if (u =? 1) && (t =? 0) then quotk MILLIS else KNone
      | TTime64 t => mulk (Z.quot (unit_mult t) (unit_mult u))
      | _ => KNone
      end
  | TTime64 u =>
      match b with
      | TInt bits sg => if is_i64 bits sg then idk else KNone
      | TTime32 t => quot_as_i32 (Z.quot (unit_mult u) (unit_mult t))
      | TTime64 t => if (u =? 2) && (t =? 3) then mulk (Z.quot (unit_mult 3) (unit_mult 2))      (* unchecked x * 1000 *)
                     else if (u =? 3) && (t =? 2) then quotk (Z.quot (unit_mult 3) (unit_mult 2)) else KNone
      | _ => KNone
      end
  | TTs u1 z1 =>
      match b with
      | TInt _ _ | TDec _ _ _ => from_i64_kernel b
      | TTs u2 z2 => then_adj (unit_change_kernel u1 u2) u2 (negb z1 && z2)
      | TDate32 => KTry (ts_date32 u1)
      | TDate64 => if u1 =? 0 then KOpt (fun v => checked_mul 64 v MILLIS)
                   else if u1 =? 1 then idk else quotk (Z.quot (unit_mult u1) MILLIS)
      | TTime32 t | TTime64 t => KTry (ts_time u1 t)
      | _ => KNone
      end
  | TDur u1 =>
      match b with
      | TInt _ _ | TDec _ _ _ => from_i64_kernel b
      | TDur u2 => unit_change_kernel u1 u2
      | _ => KNone
      end
  end.

Definition modelled (a b : mty) : bool := match kernel_of a b with KNone => false | _ => true end.

(* the cast as cast_with_options runs it on a physical column *)
Definition cast_model (a b : mty) (safe : bool) (c : column) : res := run_kernel (kernel_of a b) safe c.

(* ---------------------------------------------------------------- specification S
   Per-value conversion: the exact mathematical conversion of the logical value followed by
   "representable in the target type"; lossy directions use the documented rule (decimals: round
   half away from zero; decimal -> integer and unit reduction: truncation toward zero; timestamp ->
   date32 / time of day: calendar day / time of day, i.e. floor). *)
Definition repr (b : mty) : Z -> option Z :=
  match b with
  | TDec _ p _ => let ok := in_prec p in fun v => if ok v then Some v else None
  | TBool => fun v => Some (if v =? 0 then 0 else 1)
  | _ => num_cast (native_bits b) (native_signed b)
  end.

(* nanoseconds per tick of the temporal types (None: not a scaled quantity) *)
Definition tick_ns (t : mty) : option Z :=
  match t with
  | TDate32 => Some NS_DAY
  | TDate64 => Some 1000000
  | TTime32 u | TTime64 u | TTs u _ | TDur u => Some (1000000000 / unit_mult u)
  | _ => None
  end.

Definition spec_conv (a b : mty) : option (Z -> option Z) :=
  if negb (modelled a b) then None else
  if mty_eqb a b then Some (fun v => Some v) else
  match a, b with
  | TDec _ _ s1, TDec _ p2 s2 => Some (dec_dec_spec s1 p2 s2)
  | TDec _ _ s, TInt bits sg => Some (dec_int_spec s bits sg)
  | TDec _ _ s, (TTs _ _ | TDur _) => Some (dec_int_spec s 64 true)
  | (TInt _ _ | TTs _ _ | TDur _), TDec _ p s => Some (int_dec_spec p s)
  | TInt bits sg, TDate64 => if is_i32 bits sg then Some (fun v => Some (v * MS_DAY)) else Some (repr b)   (* Int32 counts days *)
  | TTs u _, TDate32 => Some (fun v => Some (v / units_per_day u))
  | TTs u _, (TTime32 t | TTime64 t) => Some (fun v => Some ((v mod units_per_day u) * unit_mult t / unit_mult u))
  | _, _ =>
      match tick_ns a, tick_ns b with
      | Some ta, Some tb => Some (let r := repr b in fun v => r (Z.quot (v * ta) tb))
      | _, _ => Some (repr b)           (* integers, bool and reinterpretations of the backing integer *)
      end
  end.

(* preconditions under which S is claimed for a value of the SOURCE type:
   decimals within their declared precision; time-of-day values within a day; timestamps that go
   through the calendar within TS_SAFE_SECONDS *)
Definition value_ok (a b : mty) (v : Z) : bool :=
  match a with
  | TDec _ p _ => in_prec p v
  | TTime32 u | TTime64 u => (0 <=? v) && (v <? units_per_day u)
  | TTs u z => match b with
               | TDate32 | TTime32 _ | TTime64 _ => Z.abs (v / unit_mult u) <=? TS_SAFE_SECONDS
               | TTs _ z2 => if negb z && z2 then Z.abs (v / unit_mult u) <=? TS_SAFE_SECONDS else true
               | _ => true
               end
  | TDate32 | TDate64 => match b with TTs _ true => (match tick_ns a with Some t => Z.abs (v * t / 1000000000) <=? TS_SAFE_SECONDS | None => true end) | _ => true end
  | _ => true
  end.
