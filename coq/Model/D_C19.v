(* C19 dispatch table: wraps the C19 models in the uniform case interface. *)
From Coq Require Import List ZArith NArith String Bool.
From AV Require Import Base.Codec Base.Bytes Model.C19_Bits.
Import ListNotations.
Local Open Scope string_scope.

(* bitchunks: [bytes] [off] [len] -> [chunks...] [remainder_bits] [chunk_len; remainder_len] *)
Definition d_bitchunks (a : args) : list (list Z) :=
  let c := bitchunks_new (bytes_of (arg 0 a)) (argn 1 a) (argn 2 a) in
  [ zs_of_bytes (bitchunks_iter c); [Z.of_N (remainder_bits c)];
    [Z.of_nat (bc_chunk_len c); Z.of_nat (bc_rem_len c);
     Z.of_nat (bc_chunk_len c + (if Nat.eqb (bc_rem_len c) 0 then 0 else 1));
     Z.of_nat ((bc_chunk_len c * 64 + bc_rem_len c + 7) / 8)] ].

(* spec form of the same observables, computed from the list-of-bool denotation *)
Fixpoint word_of_bits (l : list bool) : N :=
  match l with [] => 0%N | b :: r => ((if b then 1 else 0) + 2 * word_of_bits r)%N end.
Fixpoint words_of_bits (fuel : nat) (l : list bool) : list N :=
  match fuel with O => [] | S f => word_of_bits (firstn 64 l) :: words_of_bits f (skipn 64 l) end.
Definition s_bitchunks (a : args) : list (list Z) :=
  let bs := bytes_of (arg 0 a) in let off := argn 1 a in let len := argn 2 a in
  let bits := bits_range bs off len in
  [ zs_of_bytes (words_of_bits (len / 64) bits);
    [Z.of_N (word_of_bits (skipn (64 * (len / 64)) bits))];
    [Z.of_nat (len / 64); Z.of_nat (len mod 64); Z.of_nat ((len + 63) / 64); Z.of_nat ((len + 7) / 8)] ].

(* unaligned: [bytes] [align] [off] [len] -> [lead;trail] [prefix?] [chunks] [suffix?] [count_ones] *)
Definition d_unaligned (a : args) : list (list Z) :=
  let u := ubc_new (bytes_of (arg 0 a)) (argn 1 a) (argn 2 a) (argn 3 a) in
  [ [Z.of_N (u_lead u); Z.of_N (u_trail u)]; zs_of_bytes (opt_list (u_prefix u));
    zs_of_bytes (u_chunks u); zs_of_bytes (opt_list (u_suffix u)); [Z.of_nat (ubc_count_ones u)] ].

(* index_iter / slice_iter: [bytes] [align] [off] [len] *)
Definition d_index_iter (a : args) : list (list Z) :=
  [ bit_index_iter (bytes_of (arg 0 a)) (argn 1 a) (argn 2 a) (argn 3 a) ].
Definition s_index_iter (a : args) : list (list Z) :=
  [ zs_of_nats (positions (bits_range (bytes_of (arg 0 a)) (argn 2 a) (argn 3 a))) ].
Definition d_slice_iter (a : args) : list (list Z) :=
  [ flat_map (fun p : Z * Z => [fst p; snd p]) (bit_slice_iter (bytes_of (arg 0 a)) (argn 1 a) (argn 2 a) (argn 3 a)) ].
Definition s_slice_iter (a : args) : list (list Z) :=
  [ flat_map (fun p : nat * nat => [Z.of_nat (fst p); Z.of_nat (snd p)])
      (runs (bits_range (bytes_of (arg 0 a)) (argn 2 a) (argn 3 a))) ].

(* set_bits: [write_data] [data] [offset_write] [offset_read] [len] -> [write_data'] [zero count] *)
Definition d_set_bits (a : args) : list (list Z) :=
  let '(wd, n) := set_bits (bytes_of (arg 0 a)) (bytes_of (arg 1 a)) (argn 2 a) (argn 3 a) (argn 4 a) in
  [ zs_of_bytes wd; [Z.of_nat n] ].
Definition s_set_bits (a : args) : list (list Z) :=
  let wd := bytes_of (arg 0 a) in
  let '(bits, n) := set_bits_spec wd (bytes_of (arg 1 a)) (argn 2 a) (argn 3 a) (argn 4 a) in
  [ zs_of_bytes (bytes_of_bits (List.length wd) bits); [Z.of_nat n] ].

(* pure list-of-bool specs used as oracles for whole-API operations:
   [bytes] [off] [len] -> bits ; count ; etc. *)
Definition s_bits (a : args) : list (list Z) :=
  [ zs_of_bools (bits_range (bytes_of (arg 0 a)) (argn 1 a) (argn 2 a)) ].
Definition s_count (a : args) : list (list Z) :=
  [ [Z.of_nat (count_true (bits_range (bytes_of (arg 0 a)) (argn 1 a) (argn 2 a)))] ].

Definition ops_C19a : list (string * opfun) :=
  [ ("c19.bitchunks", d_bitchunks); ("c19.bitchunks.spec", s_bitchunks);
    ("c19.unaligned", d_unaligned);
    ("c19.index_iter", d_index_iter); ("c19.index_iter.spec", s_index_iter);
    ("c19.slice_iter", d_slice_iter); ("c19.slice_iter.spec", s_slice_iter);
    ("c19.set_bits", d_set_bits); ("c19.set_bits.spec", s_set_bits);
    ("c19.bits.spec", s_bits); ("c19.count.spec", s_count) ].

(* ------------------------------------------------------------------ whole-API specs *)
From AV Require Import Model.C19_Spec.

(* unop: [bytes][off][len][api path (ignored)][fn code] -> [bits] *)
Definition s_unop (a : args) : list (list Z) :=
  [ zs_of_bools (map (bfun1 (argn 4 a)) (bits_range (bytes_of (arg 0 a)) (argn 1 a) (argn 2 a))) ].
(* binop: [lbytes][loff][rbytes][roff][len][api][fn] -> [bits] *)
Definition s_binop (a : args) : list (list Z) :=
  let len := argn 4 a in
  [ zs_of_bools (map2 (bfun2 (argn 6 a)) (bits_range (bytes_of (arg 0 a)) (argn 1 a) len)
                                         (bits_range (bytes_of (arg 2 a)) (argn 3 a) len)) ].
(* quaternary: [a][ao][b][bo][c][co][d][do][len][fn] -> bits *)
Definition s_quat (a : args) : list (list Z) :=
  let len := argn 8 a in
  let r i o := bits_range (bytes_of (arg i a)) (argn o a) len in
  [ zs_of_bools (map4 (bfun4 (argn 9 a)) (r 0 1)%nat (r 2 3)%nat (r 4 5)%nat (r 6 7)%nat) ].
(* in-place unary: [buf][off][len][fn] -> [buf'] *)
Definition s_unop_inplace (a : args) : list (list Z) :=
  let buf := bytes_of (arg 0 a) in
  [ zs_of_bytes (inplace buf (argn 1 a) (map (bfun1 (argn 3 a)) (bits_range buf (argn 1 a) (argn 2 a)))) ].
(* in-place binary: [left][loff][right][roff][len][fn] -> [left'] *)
Definition s_binop_inplace (a : args) : list (list Z) :=
  let l := bytes_of (arg 0 a) in let len := argn 4 a in
  [ zs_of_bytes (inplace l (argn 1 a)
      (map2 (bfun2 (argn 5 a)) (bits_range l (argn 1 a) len) (bits_range (bytes_of (arg 2 a)) (argn 3 a) len))) ].
(* count / has_true / has_false: [bytes][off][len][api] *)
Definition s_has (a : args) : list (list Z) :=
  let bits := bits_range (bytes_of (arg 0 a)) (argn 1 a) (argn 2 a) in
  [ [zb (existsb (fun b => b) bits); zb (existsb negb bits)] ].
(* find_nth: [bytes][off][len][start][n] *)
Definition s_find_nth (a : args) : list (list Z) :=
  [ [Z.of_nat (find_nth (bits_range (bytes_of (arg 0 a)) (argn 1 a) (argn 2 a)) (argn 3 a) (argn 4 a))] ].
(* iter: [bytes][off][len][mode] -> sequence as produced: mode 0 forward, 1 reversed *)
Definition s_iter (a : args) : list (list Z) :=
  let bits := bits_range (bytes_of (arg 0 a)) (argn 1 a) (argn 2 a) in
  [ zs_of_bools (if (argn 3 a =? 0)%nat then bits else rev bits) ].
(* equality: [a][ao][b][bo][lena][lenb] *)
Definition s_eq (a : args) : list (list Z) :=
  let x := bits_range (bytes_of (arg 0 a)) (argn 1 a) (argn 4 a) in
  let y := bits_range (bytes_of (arg 2 a)) (argn 3 a) (argn 5 a) in
  [ [zb (if list_eq_dec Bool.bool_dec x y then true else false)] ].

Definition optbits (present : bool) (bs : list N) (off len : nat) : option (list bool) :=
  if present then Some (bits_range bs off len) else None.
Definition out_optbits (o : option (list bool)) : list (list Z) :=
  match o with Some l => [[1%Z]; zs_of_bools l] | None => [[0%Z]; []] end.
(* union: [pa][a][ao][pb][b][bo][len] *)
Definition s_union (a : args) : list (list Z) :=
  let len := argn 6 a in
  out_optbits (union_spec (optbits (argb 0 a) (bytes_of (arg 1 a)) (argn 2 a) len)
                          (optbits (argb 3 a) (bytes_of (arg 4 a)) (argn 5 a) len)).
(* union_many: [len] then triples [p][bytes][off] *)
Fixpoint many_args (fuel : nat) (len : nat) (l : args) : list (option (list bool)) :=
  match fuel with O => [] | S f =>
    match l with
    | p :: b :: o :: r => optbits (negb (Z.eqb (hd 0%Z p) 0)) (bytes_of b) (Z.to_nat (hd 0%Z o)) len :: many_args f len r
    | _ => []
    end end.
Definition s_union_many (a : args) : list (list Z) :=
  out_optbits (union_many_spec (many_args (List.length a) (argn 0 a) (tl a))).
(* contains: [a][ao][b][bo][len] *)
Definition s_contains (a : args) : list (list Z) :=
  let len := argn 4 a in
  [ [zb (contains_spec (bits_range (bytes_of (arg 0 a)) (argn 1 a) len) (bits_range (bytes_of (arg 2 a)) (argn 3 a) len))] ].
(* expand: [a][ao][len][count] *)
Definition s_expand (a : args) : list (list Z) :=
  [ zs_of_bools (expand_spec (bits_range (bytes_of (arg 0 a)) (argn 1 a) (argn 2 a)) (argn 3 a)) ].

(* builder: each group one op: [code; params...] ; bits inline as 0/1 *)
Definition bop_of (g : list Z) : option bop :=
  match g with
  | 0%Z :: b :: _ => Some (BAppend (negb (Z.eqb b 0)))
  | 1%Z :: n :: b :: _ => Some (BAppendN (Z.to_nat n) (negb (Z.eqb b 0)))
  | 2%Z :: l => Some (BAppendSlice (bools_of l))
  | 3%Z :: l => Some (BAppendPacked (bools_of l))
  | 4%Z :: i :: b :: _ => Some (BSetBit (Z.to_nat i) (negb (Z.eqb b 0)))
  | 5%Z :: n :: _ => Some (BTruncate (Z.to_nat n))
  | 6%Z :: n :: _ => Some (BResize (Z.to_nat n))
  | 7%Z :: n :: _ => Some (BAdvance (Z.to_nat n))
  | 8%Z :: l => Some (BAppendWord (bools_of l))
  | _ => None
  end.
Definition s_builder (a : args) : list (list Z) :=
  [ zs_of_bools (builder_spec (flat_map (fun g => match bop_of g with Some o => [o] | None => [] end) a)) ].

Definition ops_C19b : list (string * opfun) :=
  [ ("c19.unop.spec", s_unop); ("c19.binop.spec", s_binop); ("c19.quat.spec", s_quat);
    ("c19.unop_inplace.spec", s_unop_inplace); ("c19.binop_inplace.spec", s_binop_inplace);
    ("c19.has.spec", s_has); ("c19.find_nth.spec", s_find_nth); ("c19.iter.spec", s_iter);
    ("c19.eq.spec", s_eq); ("c19.union.spec", s_union); ("c19.union_many.spec", s_union_many);
    ("c19.contains.spec", s_contains); ("c19.expand.spec", s_expand); ("c19.builder.spec", s_builder) ].



(* iter_script: [bytes][off][len][codes][ks] *)
Definition s_iter_script (a : args) : list (list Z) :=
  [ iter_script (bits_range (bytes_of (arg 0 a)) (argn 1 a) (argn 2 a))
      (List.combine (arg 3 a) (map Z.to_nat (arg 4 a))) ].
Definition ops_C19c : list (string * opfun) := [ ("c19.iter_script.spec", s_iter_script) ].
Definition ops_C19 : list (string * opfun) := ops_C19a ++ ops_C19b ++ ops_C19c.
