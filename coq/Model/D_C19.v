(* C19 dispatch table: wraps the C19 models in the uniform case interface. *)
From Coq Require Import List ZArith NArith String Bool.
From AV Require Import Base.Codec Base.Bytes Model.C19_Bits.
Import ListNotations.
Local Open Scope string_scope.

(* bitchunks: [bytes] [off] [len] -> [chunks...] [remainder_bits] [chunk_len; remainder_len] *)
Definition d_bitchunks (a : args) : list (list Z) :=
  let c := bitchunks_new (bytes_of (arg 0 a)) (argn 1 a) (argn 2 a) in
  [ zs_of_bytes (bitchunks_iter c); [Z.of_N (remainder_bits c)];
    [Z.of_nat (bc_chunk_len c); Z.of_nat (bc_rem_len c)] ].

(* spec form of the same observables, computed from the list-of-bool denotation *)
Fixpoint word_of_bits (l : list bool) : N :=
  match l with [] => 0%N | b :: r => ((if b then 1 else 0) + 2 * word_of_bits r)%N end.
Fixpoint words_of_bits (fuel : nat) (l : list bool) : list N :=
  match fuel with O => [] | S f => word_of_bits (firstn 64 l) :: words_of_bits f (skipn 64 l) end.
Definition s_bitchunks (a : args) : list (list Z) :=
  let bs := bytes_of (arg 0 a) in let off := argn 1 a in let len := argn 2 a in
  let bits := bits_range bs off len in
  [ zs_of_bytes (words_of_bits (len / 64) bits);
    [Z.of_N (word_of_bits (skipn (64 * (len / 64)) bits))];
    [Z.of_nat (len / 64); Z.of_nat (len mod 64)] ].

(* unaligned: [bytes] [align] [off] [len] -> [lead;trail] [prefix?] [chunks] [suffix?] [count_ones] *)
Definition d_unaligned (a : args) : list (list Z) :=
  let u := ubc_new (bytes_of (arg 0 a)) (argn 1 a) (argn 2 a) (argn 3 a) in
  [ [Z.of_N (u_lead u); Z.of_N (u_trail u)]; zs_of_bytes (opt_list (u_prefix u));
    zs_of_bytes (u_chunks u); zs_of_bytes (opt_list (u_suffix u)); [Z.of_nat (ubc_count_ones u)] ].

(* index_iter / slice_iter: [bytes] [align] [off] [len] *)
Definition d_index_iter (a : args) : list (list Z) :=
  [ bit_index_iter (bytes_of (arg 0 a)) (argn 1 a) (argn 2 a) (argn 3 a) ].
Definition s_index_iter (a : args) : list (list Z) :=
  [ zs_of_nats (positions (bits_range (bytes_of (arg 0 a)) (argn 2 a) (argn 3 a))) ].
Definition d_slice_iter (a : args) : list (list Z) :=
  [ flat_map (fun p : Z * Z => [fst p; snd p]) (bit_slice_iter (bytes_of (arg 0 a)) (argn 1 a) (argn 2 a) (argn 3 a)) ].
Definition s_slice_iter (a : args) : list (list Z) :=
  [ flat_map (fun p : nat * nat => [Z.of_nat (fst p); Z.of_nat (snd p)])
      (runs (bits_range (bytes_of (arg 0 a)) (argn 2 a) (argn 3 a))) ].

(* set_bits: [write_data] [data] [offset_write] [offset_read] [len] -> [write_data'] [zero count] *)
Definition d_set_bits (a : args) : list (list Z) :=
  let '(wd, n) := set_bits (bytes_of (arg 0 a)) (bytes_of (arg 1 a)) (argn 2 a) (argn 3 a) (argn 4 a) in
  [ zs_of_bytes wd; [Z.of_nat n] ].
Definition s_set_bits (a : args) : list (list Z) :=
  let wd := bytes_of (arg 0 a) in
  let '(bits, n) := set_bits_spec wd (bytes_of (arg 1 a)) (argn 2 a) (argn 3 a) (argn 4 a) in
  [ zs_of_bytes (bytes_of_bits (List.length wd) bits); [Z.of_nat n] ].

(* pure list-of-bool specs used as oracles for whole-API operations:
   [bytes] [off] [len] -> bits ; count ; etc. *)
Definition s_bits (a : args) : list (list Z) :=
  [ zs_of_bools (bits_range (bytes_of (arg 0 a)) (argn 1 a) (argn 2 a)) ].
Definition s_count (a : args) : list (list Z) :=
  [ [Z.of_nat (count_true (bits_range (bytes_of (arg 0 a)) (argn 1 a) (argn 2 a)))] ].

Definition ops_C19 : list (string * opfun) :=
  [ ("c19.bitchunks", d_bitchunks); ("c19.bitchunks.spec", s_bitchunks);
    ("c19.unaligned", d_unaligned);
    ("c19.index_iter", d_index_iter); ("c19.index_iter.spec", s_index_iter);
    ("c19.slice_iter", d_slice_iter); ("c19.slice_iter.spec", s_slice_iter);
    ("c19.set_bits", d_set_bits); ("c19.set_bits.spec", s_set_bits);
    ("c19.bits.spec", s_bits); ("c19.count.spec", s_count) ].
