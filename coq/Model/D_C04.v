(* C04 dispatch.  Case arguments (harness/src/c04.rs):
     g0 options [kind; alignment; v5; legacy; compression; ipc dict handling; flight max; flight dict handling; ...]
     g1 projection   g2 [ncols; nbatches; schema metadata code]
     g3 derived type-level view of the batches:
          nb, then per batch: rows, nv, v1..vnv, nd, then per dictionary (encode order = dictionary id order):
          len, value ids (len of them; equal ids = logically equal values), nvd, vd1..
     then per column [type code] [field decoration], then the batches as physical trees (not used here). *)
From Coq Require Import List ZArith NArith String Bool Arith.
From AV Require Import Base.Codec Model.C09_Layout Model.D_C09 Model.C04_Dict Model.C04_Walk Model.C04_Frame Model.C04_Flight Model.C04_Rebase Model.C04_Write.
Import ListNotations.
Local Open Scope string_scope.
Local Open Scope list_scope.

Definition zn (z : Z) : nat := Z.to_nat z.
Definition takeZ (n : nat) (l : list Z) : list Z * list Z := (firstn n l, skipn n l).

Record dbatch := { db_rows : nat; db_views : list nat; db_dicts : list (list Z * list nat) }.

Fixpoint parse_dicts (nd : nat) (l : list Z) : list (list Z * list nat) * list Z :=
  match nd with
  | O => ([], l)
  | S k =>
    match l with
    | len :: r =>
      let '(ids, r1) := takeZ (zn len) r in
      match r1 with
      | nv :: r2 =>
        let '(vs, r3) := takeZ (zn nv) r2 in
        let '(ds, r4) := parse_dicts k r3 in ((ids, map zn vs) :: ds, r4)
      | [] => ([], [])
      end
    | [] => ([], [])
    end
  end.
Fixpoint parse_batches (nb : nat) (l : list Z) : list dbatch :=
  match nb with
  | O => []
  | S k =>
    match l with
    | rows :: nv :: r =>
      let '(vs, r1) := takeZ (zn nv) r in
      match r1 with
      | nd :: r2 =>
        let '(ds, r3) := parse_dicts (zn nd) r2 in
        {| db_rows := zn rows; db_views := map zn vs; db_dicts := ds |} :: parse_batches k r3
      | [] => []
      end
    | _ => []
    end
  end.
Definition derived (a : args) : list dbatch :=
  match arg 3 a with nb :: r => parse_batches (zn nb) r | [] => [] end.

Definition col_types (a : args) : list dty :=
  let ncols := zn (nth 0 (arg 2 a) 0%Z) in
  flat_map (fun i => match parse_ty (S (List.length (arg (4 + 2 * i) a))) (arg (4 + 2 * i) a) with Some (t, _) => [t] | None => [] end)
           (seq 0 ncols).

(* value types of the dictionaries of a schema in dictionary-id order: ids are assigned depth first,
   the dictionaries nested in the values of a dictionary before the dictionary itself
   (convert.rs build_field / writer.rs encode_dictionaries) *)
Fixpoint dict_types_of (t : dty) : list dty :=
  match t with
  | TDict _ _ v => dict_types_of v ++ [v]
  | TList _ _ c | TListView _ _ c | TFixedList _ _ c => dict_types_of c
  | TStruct fs => flat_map (fun p => dict_types_of (snd p)) fs
  | TUnion _ fs => flat_map (fun p => dict_types_of (snd p)) fs
  | TRee _ v => dict_types_of v
  | _ => []
  end.
Definition dict_types (cols : list dty) : list dty := flat_map dict_types_of cols.

Definition o_kind (a : args) : Z := nth 0 (arg 0 a) 0%Z.
Definition opts_of (a : args) : wopts :=
  {| o_align := zn (nth 1 (arg 0 a) 0%Z); o_legacy := zbool (nth 3 (arg 0 a) 0%Z); o_v5 := zbool (nth 2 (arg 0 a) 0%Z) |}.
Definition handling_of (a : args) : handling := if Z.eqb (nth 5 (arg 0 a) 0%Z) 1 then Delta else Resend.

(* one observed message: [kind; isDelta; dict id; #nodes; #buffers; rows; prefix; 0; 0; variadic counts] *)
Definition msg_line (kind isdelta id : Z) (toks : list token) (vars : list nat) (rows prefix : nat) : list Z :=
  [kind; isdelta; id; Z.of_nat (nodes_of toks); Z.of_nat (List.length (bufs_of toks)); Z.of_nat rows; Z.of_nat prefix; 0%Z; 0%Z]
  ++ map Z.of_nat vars.

Definition dict_line (v5 : bool) (prefix : nat) (dtys : list dty) (b : dbatch) (e : Z * dmsg Z) : list Z :=
  let '(id, m) := e in
  let vt := nth (zn id) dtys TNull in
  let sup := snd (nth (zn id) (db_dicts b) ([], [])) in
  let toks := fst (w_walk vt v5 sup) in
  let vars := fst (w_var vt sup) in
  match m with
  | Full d => msg_line 2 0 id toks vars (List.length d) prefix
  | DeltaMsg s => msg_line 2 1 id toks vars (List.length s) prefix
  end.

Fixpoint batch_lines (eor : bool) (h : handling) (v5 : bool) (prefix : nat) (cols dtys : list dty)
         (t : list (Z * list Z)) (bs : list dbatch) : option (list (list Z)) :=
  match bs with
  | [] => Some []
  | b :: rest =>
    let ds := combine (map Z.of_nat (seq 0 (List.length (db_dicts b)))) (map fst (db_dicts b)) in
    match track_batch Z Z.eqb eor h t ds with
    | None => None
    | Some (t', emitted) =>
      let toks := fst (w_batch cols v5 (db_views b)) in
      let vars := fst (w_batch_var cols (db_views b)) in
      match batch_lines eor h v5 prefix cols dtys t' rest with
      | None => None
      | Some r => Some (map (dict_line v5 prefix dtys b) emitted ++ msg_line 3 0 0 toks vars (db_rows b) prefix :: r)
      end
    end
  end.

(* stream / file / encoder kinds: schema message, then per batch its dictionary messages and the record batch, then EOS *)
Definition m_messages (a : args) : list (list Z) :=
  let o := opts_of a in
  let cols := col_types a in
  let eor := Z.eqb (o_kind a) 0 in
  let prefix := List.length (write_continuation o 0) in
  match batch_lines eor (handling_of a) (o_v5 o) prefix cols (dict_types cols) [] (derived a) with
  | None => err_out 3
  | Some ls => msg_line 1 0 0 [] [] 0 prefix :: ls ++ [[1%Z]]
  end.

(* the property itself: the round trip is the identity ([1]), except that the FILE writer must reject a
   history that replaces a dictionary (documented: one dictionary per field in the file format) *)
Definition s_roundtrip (a : args) : list (list Z) :=
  let cols := col_types a in
  if Z.eqb (o_kind a) 0 then
    match batch_lines true (handling_of a) true 8 cols (dict_types cols) [] (derived a) with
    | None => [[(-1)%Z; 3%Z; 1%Z]]
    | Some _ => [[1%Z]]
    end
  else [[1%Z]].

(* ---- file layout postcondition: [align; header; legacy] [frames: start, header len, body len, kind ...]
   [dictionary blocks: offset, meta, body ...] [record blocks] [eos end; trailer ok] *)
Fixpoint quads (l : list Z) : list (Z * Z * Z * Z) :=
  match l with a :: b :: c :: d :: r => (a, b, c, d) :: quads r | _ => [] end.
Fixpoint triples (l : list Z) : list (Z * Z * Z) :=
  match l with a :: b :: c :: r => (a, b, c) :: triples r | _ => [] end.
Fixpoint contiguous (start : Z) (fs : list (Z * Z * Z * Z)) : bool :=
  match fs with
  | [] => true
  | (s, h, b, _) :: r => Z.eqb s start && contiguous (start + h + b) r
  end.
Definition frames_end (start : Z) (fs : list (Z * Z * Z * Z)) : Z :=
  fold_left (fun acc f => let '(_, h, b, _) := f in (acc + h + b)%Z) fs start.
Definition blocks_of_kind (k : Z) (fs : list (Z * Z * Z * Z)) : list (Z * Z * Z) :=
  flat_map (fun f => let '(s, h, b, kd) := f in if Z.eqb kd k then [(s, h, b)] else []) fs.
Definition triple_eqb (x y : Z * Z * Z) : bool :=
  let '(a, b, c) := x in let '(d, e, f) := y in Z.eqb a d && Z.eqb b e && Z.eqb c f.
Fixpoint list_eqb_with {A} (eq : A -> A -> bool) (x y : list A) : bool :=
  match x, y with [], [] => true | a :: x', b :: y' => eq a b && list_eqb_with eq x' y' | _, _ => false end.

Definition p_file_layout (a : args) : list (list Z) :=
  let al := nth 0 (arg 0 a) 0%Z in
  let o := {| o_align := zn al; o_legacy := zbool (nth 2 (arg 0 a) 0%Z); o_v5 := negb (zbool (nth 2 (arg 0 a) 0%Z)) |} in
  let start := nth 1 (arg 0 a) 0%Z in
  let fs := quads (arg 1 a) in
  let ok :=
    Z.eqb start (Z.of_nat (file_header_size o)) &&
    contiguous start fs &&
    forallb (fun f => let '(_, h, b, _) := f in Z.eqb (h mod al) 0 && Z.eqb (b mod al) 0) fs &&
    list_eqb_with triple_eqb (triples (arg 2 a)) (blocks_of_kind 2 fs) &&
    list_eqb_with triple_eqb (triples (arg 3 a)) (blocks_of_kind 3 fs) &&
    Z.eqb (nth 0 (arg 4 a) 0%Z) (frames_end start fs + Z.of_nat (List.length (eos o))) &&
    Z.eqb (nth 1 (arg 4 a) 0%Z) 1 in
  [[zb ok]].

(* ---- Flight split: args [rows; max size], output [size; piece rows...] *)
Definition p_flight_split (a : args) : list (list Z) :=
  (* .post: args ++ [[-7777]] ++ output *)
  let rows := zn (nth 0 (arg 0 a) 0%Z) in
  let max := Z.to_N (nth 1 (arg 0 a) 0%Z) in
  let size := Z.to_N (nth 0 (arg 2 a) 0%Z) in
  let pieces := map zn (tl (arg 2 a)) in
  [[zb (list_eqb_with Nat.eqb pieces (map snd (split rows size max)))]].

(* ---- byte-level postcondition on a single-column stream:
     [v5; alignment] <physical tree of array.to_data()> [-7777]
     then per message [kind; isDelta; dict id; rows; nbufs] [nodes: len, null_count, ...] [variadic counts] nbufs buffer groups.
   Expected: one dictionary batch per dictionary of the column (encode order, ids 0,1,..) with the body of its
   values array, then the record batch with the body of the column. *)
Notation omsg := (list Z * list Z * list Z * list (list Z))%type.
Fixpoint parse_msgs (fuel : nat) (l : args) : list omsg :=
  match fuel with O => [] | S f =>
    match l with
    | h :: nodes :: vars :: r =>
        let '(bufs, r') := take_groups (zn (nth 4 h 0%Z)) r in (h, nodes, vars, bufs) :: parse_msgs f r'
    | _ => []
    end
  end.
Definition lz_eqb (x y : list Z) : bool := list_eqb_with Z.eqb x y.
Definition omsg_eqb (x y : omsg) : bool :=
  let '(h1, n1, v1, b1) := x in let '(h2, n2, v2, b2) := y in
  lz_eqb h1 h2 && lz_eqb n1 n2 && lz_eqb v1 v2 && list_eqb_with lz_eqb b1 b2.
Definition expect_msg (align : nat) (kind id : Z) (v5 : bool) (a : parr) : omsg :=
  let '(nodes, bufs) := w_column v5 a in
  (* Message.bodyLength = every buffer padded to the alignment (+ the tail padding, proved to be 0) *)
  let body := batch_offset align bufs + pad_to_alignment align (batch_offset align bufs) in
  ([kind; 0%Z; id; Z.of_nat (p_len a); Z.of_nat (List.length bufs); Z.of_nat body],
   flat_map (fun p => [Z.of_nat (fst p); Z.of_nat (snd p)]) nodes,
   map Z.of_nat (var_counts a), map zs_of_bytes bufs).
Fixpoint first_diff (i : Z) (x y : list omsg) : Z :=
  match x, y with
  | [], [] => (-1)%Z
  | a :: x', b :: y' => if omsg_eqb a b then first_diff (i + 1) x' y' else i
  | _, _ => i
  end.
Fixpoint split_at_sep (l : args) : args * args :=
  match l with
  | [] => ([], [])
  | g :: r => match g with
              | [z] => if Z.eqb z (-7777) then ([], r) else let '(a, b) := split_at_sep r in (g :: a, b)
              | _ => let '(a, b) := split_at_sep r in (g :: a, b)
              end
  end.
Definition p_encode (a : args) : list (list Z) :=
  let v5 := zbool (nth 0 (arg 0 a) 0%Z) in
  let al := zn (nth 1 (arg 0 a) 0%Z) in
  let '(tree, obs) := split_at_sep (tl a) in
  match parse_arr (S (List.length tree)) tree with
  | Some (p, _) =>
      let ds := dict_values p in
      let want := map (fun q => expect_msg al 2 (Z.of_nat (fst q)) v5 (snd q)) (combine (seq 0 (List.length ds)) ds)
                  ++ [expect_msg al 3 0 v5 p] in
      let got := parse_msgs (S (List.length obs)) obs in
      let d := first_diff 0 want got in
      if Z.eqb d (-1) then [[1%Z]] else [[0%Z; d]]
  | None => [[(-3)%Z]]
  end.

(* diagnostic: the expected messages of [p_encode] in the observed format *)
Definition p_encode_want (a : args) : list (list Z) :=
  let v5 := zbool (nth 0 (arg 0 a) 0%Z) in
  let al := zn (nth 1 (arg 0 a) 0%Z) in
  let '(tree, obs) := split_at_sep (tl a) in
  match parse_arr (S (List.length tree)) tree with
  | Some (p, _) =>
      let ds := dict_values p in
      let want := map (fun q => expect_msg al 2 (Z.of_nat (fst q)) v5 (snd q)) (combine (seq 0 (List.length ds)) ds)
                  ++ [expect_msg al 3 0 v5 p] in
      flat_map (fun m => let '(h, n, v, b) := m in h :: n :: v :: b) want
  | None => [[(-3)%Z]]
  end.

Definition ops_C04 : list (string * opfun) :=
  [ ("c04.roundtrip.spec", s_roundtrip);
    ("c04.messages", m_messages);
    ("c04.file_layout.post1", p_file_layout);
    ("c04.flight_split.post", p_flight_split);
    ("c04.encode.post1", p_encode);
    ("c04.encode.want.post1", p_encode_want) ].
