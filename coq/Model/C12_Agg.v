(* C12 — aggregation kernels (definitions only).
   Source: arrow-arith/src/aggregate.rs: NumericAccumulator (Sum/Min/Max), aggregate,
   aggregate_nullable_lanes, aggregate_nonnull_simple, reduce_accumulators, sum_checked,
   bit_and/bit_or/bit_xor, min_boolean/max_boolean (bool_and/bool_or).

   Lane structure: LANES independent accumulators; value number p of the array goes to lane
   p mod LANES (the 64-value validity words are consumed LANES bits at a time and 64 mod LANES = 0,
   so the nesting "chunks of 64, then chunks of LANES, then remainders" visits LANES-aligned chunks
   in order — modelled as one loop over LANES-wide chunks whose last chunk may be partial); the
   accumulators are then merged by the halving tree of reduce_accumulators. *)
From Coq Require Import List ZArith Bool Arith.
From AV Require Import Model.C12_Int Model.C12_Kernel.
Import ListNotations.
Local Open Scope Z_scope.

(* NumericAccumulator *)
Record accum : Type := mkacc {
  acc_default : Z;
  acc_accumulate : Z -> Z -> Z;          (* state -> value -> state *)
  acc_merge : Z -> Z -> Z }.
(* accumulate_nullable = select(valid, accumulate(..), state)  [for Min/Max: the comparison & valid] *)
Definition accumulate_nullable (A : accum) (st v : Z) (valid : bool) : Z :=
  if valid then acc_accumulate A st v else st.

Definition sum_acc (s : bool) (H : Z) : accum :=
  mkacc 0 (wrapping_add s H) (wrapping_add s H).
Definition min_acc (s : bool) (H : Z) : accum :=
  mkacc (tmax s H) (fun st v => if v <? st then v else st) (fun a b => if b <? a then b else a).
Definition max_acc (s : bool) (H : Z) : accum :=
  mkacc (tmin s H) (fun st v => if v >? st then v else st) (fun a b => if b >? a then b else a).

(* one LANES-wide chunk (possibly partial): lane i takes value i *)
Fixpoint chunk_step (A : accum) (acc : list Z) (vals : list Z) (valid : list bool) : list Z :=
  match acc, vals, valid with
  | a :: acc', v :: vals', b :: valid' => accumulate_nullable A a v b :: chunk_step A acc' vals' valid'
  | _, _, _ => acc
  end.
Fixpoint lanes_loop (fuel : nat) (A : accum) (L : nat) (acc : list Z) (vals : list Z) (valid : list bool) : list Z :=
  match fuel with
  | O => acc
  | S k => match vals with
           | [] => acc
           | _ => lanes_loop k A L (chunk_step A acc (firstn L vals) (firstn L valid)) (skipn L vals) (skipn L valid)
           end
  end.
(* reduce_accumulators: while len >= 2 { h[i].merge(t[i]) for i < len/2 ; len /= 2 } ; acc[0] *)
Fixpoint reduce_tree (fuel : nat) (A : accum) (acc : list Z) : list Z :=
  match fuel with
  | O => acc
  | S k => if (2 <=? length acc)%nat
           then let mid := (length acc / 2)%nat in
                reduce_tree k A (map2 (acc_merge A) (firstn mid acc) (firstn mid (skipn mid acc)))
           else acc
  end.
Definition aggregate_nullable_lanes (A : accum) (L : nat) (vals : list Z) (valid : list bool) : Z :=
  let acc := lanes_loop (S (length vals)) A L (repeat (acc_default A) L) vals valid in
  hd (acc_default A) (reduce_tree (S L) A acc).
Definition aggregate_nonnull_simple (A : accum) (vals : list Z) : Z :=
  fold_left (acc_accumulate A) vals (acc_default A).

(* aggregate (integer element types) *)
Definition aggregate (A : accum) (L : nat) (a : parr) : option Z :=
  if (null_count a =? arr_len a)%nat then None
  else match a_nulls a with
       | Some n => if (0 <? null_count a)%nat then Some (aggregate_nullable_lanes A L (a_vals a) n)
                   else Some (aggregate_nonnull_simple A (a_vals a))
       | None => Some (aggregate_nonnull_simple A (a_vals a))
       end.

(* sum_checked: try_fold / try_for_each_valid_idx with add_checked; result Ok(None|Some) | Err *)
Fixpoint checked_fold (s : bool) (H : Z) (st : Z) (vals : list Z) (valid : list bool) : res :=
  match vals, valid with
  | v :: vals', b :: valid' =>
      if b then match add_checked s H st v with Ok st' => checked_fold s H st' vals' valid' | Err k => Err k end
      else checked_fold s H st vals' valid'
  | _, _ => Ok st
  end.
Definition sum_checked (s : bool) (H : Z) (a : parr) : option Z + Z :=
  if (null_count a =? arr_len a)%nat then inl None
  else match checked_fold s H 0 (a_vals a)
               (match a_nulls a with Some n => n | None => repeat true (arr_len a) end) with
       | Ok z => inl (Some z) | Err k => inr k end.

(* ------------------------------------------------------------------ specification *)
Fixpoint valid_values (rows : list (option Z)) : list Z :=
  match rows with [] => [] | Some x :: r => x :: valid_values r | None :: r => valid_values r end.
Definition zsum (l : list Z) : Z := fold_right Z.add 0 l.

(* sum: None iff there is no non-null value, else the exact sum reduced into the type *)
Definition spec_sum (s : bool) (H : Z) (rows : list (option Z)) : option Z :=
  match valid_values rows with [] => None | vs => Some (wrap s H (zsum vs)) end.
(* sum_checked: left-to-right; Overflow as soon as a partial sum is unrepresentable *)
Fixpoint spec_checked_fold (s : bool) (H : Z) (st : Z) (vs : list Z) : res :=
  match vs with
  | [] => Ok st
  | v :: r => if in_range s H (st + v) then spec_checked_fold s H (st + v) r else Err E_OVERFLOW
  end.
Definition spec_sum_checked (s : bool) (H : Z) (rows : list (option Z)) : option Z + Z :=
  match valid_values rows with
  | [] => inl None
  | vs => match spec_checked_fold s H 0 vs with Ok z => inl (Some z) | Err k => inr k end
  end.
Definition spec_min (rows : list (option Z)) : option Z :=
  match valid_values rows with [] => None | v :: vs => Some (fold_left Z.min vs v) end.
Definition spec_max (rows : list (option Z)) : option Z :=
  match valid_values rows with [] => None | v :: vs => Some (fold_left Z.max vs v) end.
(* bit_and / bit_or / bit_xor: fold of the two's-complement bitwise operation over the non-null
   values, starting from all-ones (and) or zero (or, xor) *)
Definition spec_bit (s : bool) (H : Z) (which : Z) (rows : list (option Z)) : option Z :=
  match valid_values rows with
  | [] => None
  | vs => Some (if which =? 0 then fold_left Z.land vs (wrap s H (-1))
                else if which =? 1 then fold_left Z.lor vs 0
                else fold_left Z.lxor vs 0)
  end.

(* boolean aggregates on rows of option bool (encoded 0/1) *)
Definition spec_bool_and (rows : list (option Z)) : option Z :=
  match valid_values rows with [] => None | vs => Some (if forallb (fun x => negb (x =? 0)) vs then 1 else 0) end.
Definition spec_bool_or (rows : list (option Z)) : option Z :=
  match valid_values rows with [] => None | vs => Some (if existsb (fun x => negb (x =? 0)) vs then 1 else 0) end.
