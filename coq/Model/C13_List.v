(* C13 — List / LargeList -> FixedSizeList(n) (arrow-cast/src/cast/list.rs cast_list_to_fixed_size_list).
   Definitions only.  The list column is given physically: the offsets of the (possibly sliced) list array
   into its child, the list validity bits, and the child as a logical sequence of optional values. *)
From Coq Require Import List ZArith Bool.
Import ListNotations.
Local Open Scope Z_scope.

Notation elem := (option Z).
Definition range {A} (l : list A) (a b : Z) : list A := firstn (Z.to_nat (b - a)) (skipn (Z.to_nat a) l).
Definition windows (offs : list Z) : list (Z * Z) := combine offs (tl offs).

(* ---- M: the loop over offsets().windows(2) with the MutableArrayData `mutable`, last_pos and padded *)
Record l2f_state := mk_l2f { l2f_out : list elem; l2f_last : Z; l2f_padded : bool; l2f_bits : list bool }.
Fixpoint l2f_loop (safe : bool) (n : Z) (child : list elem) (rows : list ((Z * Z) * bool)) (st : l2f_state) : option l2f_state :=
  match rows with
  | [] => Some st
  | ((s, e), v) :: r =>
      if (e - s) =? n then l2f_loop safe n child r (mk_l2f (l2f_out st) (l2f_last st) (l2f_padded st) (l2f_bits st ++ [v]))
      else if safe || negb v then
        let out := if l2f_last st =? s then l2f_out st else l2f_out st ++ range child (l2f_last st) s in
        l2f_loop safe n child r (mk_l2f (out ++ repeat None (Z.to_nat n)) e true (l2f_bits st ++ [false]))
      else None
  end.
Definition chunk_rows (n : Z) (values : list elem) (bits : list bool) : list (option (list elem)) :=
  map (fun ib : nat * bool => if snd ib then Some (range values (Z.of_nat (fst ib) * n) (Z.of_nat (fst ib) * n + n)) else None)
      (combine (seq 0 (length bits)) bits).
Definition list_to_fsl (safe : bool) (n : Z) (child : list elem) (offs : list Z) (valid : list bool) : option (list (option (list elem))) :=
  let first_pos := hd 0 offs in
  let cap := Z.of_nat (length valid) * n in
  match l2f_loop safe n child (combine (windows offs) valid) (mk_l2f [] first_pos false []) with
  | None => None
  | Some st =>
      let values :=
        if negb (l2f_padded st) then range child first_pos (first_pos + cap)
        else let have := Z.of_nat (length (l2f_out st)) in
             if have =? cap then l2f_out st
             else l2f_out st ++ range child (l2f_last st) (l2f_last st + (cap - have)) in
      Some (chunk_rows n values (l2f_bits st))
  end.

(* ---- S: row by row on the logical lists: a null list stays null; a list of exactly n elements is kept;
   any other valid list is not representable (strict: error, safe: null) *)
Definition list_to_fsl_spec (safe : bool) (n : Z) (child : list elem) (offs : list Z) (valid : list bool) : option (list (option (list elem))) :=
  let rows := combine (windows offs) valid in
  let bad := existsb (fun r : (Z * Z) * bool => snd r && negb ((snd (fst r) - fst (fst r)) =? n)) rows in
  if negb safe && bad then None
  else Some (map (fun r : (Z * Z) * bool =>
                    if snd r && ((snd (fst r) - fst (fst r)) =? n) then Some (range child (fst (fst r)) (snd (fst r))) else None) rows).
