(* C07 — what the column writer stores for one column chunk, given the rows of each page:
   parquet/src/column/writer/mod.rs  add_data_page (1348), update_column_offset_index (1115),
   can_truncate_value (1209), truncate_statistics (1295), close (803: boundary order),
   build_column_metadata (1532).  The page layout (rows per page) is an input.
   Definitions only. *)
From Coq Require Import List ZArith NArith Bool Arith.
From AV Require Import Model.C07_Trunc Model.C07_Stats.
Import ListNotations.

(* ------------------------------------------------------------------ column kinds *)
Inductive kind :=
| KI32 | KI64 | KU32 | KU64           (* INT32 / INT64, signed and unsigned logical types *)
| KF32 | KF64 | KF16                  (* FLOAT, DOUBLE, FLBA(2)+Float16: IEEE 754 total order *)
| KD32 | KD64 | KDF | KDBA            (* DECIMAL on INT32 / INT64 / FLBA(n) / BYTE_ARRAY *)
| KUTF8 | KBIN                        (* BYTE_ARRAY with / without String, arrow byte-array encoder *)
| KBOOL
| KFSB                                (* FLBA(n) without logical type (truncatable) *)
| KIVL.                               (* FLBA(12) INTERVAL: undefined order, no min/max *)

Definition kind_of_nat (n : nat) : kind :=
  match n with
  | 0 => KI32 | 1 => KI64 | 2 => KU32 | 3 => KU64 | 4 => KF32 | 5 => KF64 | 6 => KF16
  | 7 => KD32 | 8 => KD64 | 9 => KDF | 10 => KUTF8 | 11 => KBIN | 12 => KBOOL | 13 => KFSB
  | 15 => KDBA
  | _ => KIVL
  end%nat.

(* physical representation in the writer: Z for INT32/INT64/FLOAT/DOUBLE/BOOLEAN (floats by
   their bit pattern), bytes for BYTE_ARRAY / FIXED_LEN_BYTE_ARRAY *)
Definition phys_bytes (k : kind) : bool :=
  match k with KF16 | KDF | KDBA | KUTF8 | KBIN | KFSB | KIVL => true | _ => false end.

Definition is_float_kind (k : kind) : bool := match k with KF32 | KF64 | KF16 => true | _ => false end.

(* compare_greater / is_nan on Z-physical kinds *)
Definition gt_z (k : kind) (a b : Z) : bool :=
  match k with
  | KU32 | KU64 => gt_unsigned a b
  | KF32 => gt_total 32 a b
  | KF64 => gt_total 64 a b
  | _ => gt_signed a b
  end.
Definition nan_z (k : kind) (v : Z) : bool :=
  match k with KF32 => nan_bits 32 v | KF64 => nan_bits 64 v | _ => false end.
(* ... and on byte-physical kinds *)
Definition gt_b (k : kind) (a b : bytes) : bool :=
  match k with
  | KF16 => gt_f16_bytes a b
  | KDF | KDBA => gt_decimal_bytes a b
  | _ => lex_gtb a b
  end.
Definition nan_b (k : kind) (v : bytes) : bool :=
  match k with KF16 => nan_f16_bytes v | _ => false end.

(* logical -> physical Z: UInt32/UInt64 are reinterpreted as i32/i64 *)
Local Open Scope Z_scope.
Definition wrap_signed (W : Z) (v : Z) : Z := let m := v mod 2^W in if m <? 2^(W-1) then m else m - 2^W.
Definition phys_of_logical (k : kind) (v : Z) : Z :=
  match k with KU32 => wrap_signed 32 v | KU64 => wrap_signed 64 v | _ => v end.

(* little-endian / big-endian two's complement plain encodings *)
Fixpoint le_bytes (n : nat) (v : Z) : bytes :=
  match n with O => [] | S m => Z.to_N (v mod 256) :: le_bytes m (v / 256) end.
Definition be_bytes (n : nat) (v : Z) : bytes := rev (le_bytes n v).
Definition enc_z (k : kind) (v : Z) : bytes :=
  match k with
  | KI32 | KU32 | KF32 | KD32 => le_bytes 4 v
  | KBOOL => le_bytes 1 v
  | _ => le_bytes 8 v
  end.
(* logical row value -> physical bytes for F16 (bits) and FLBA decimals (i128 value, n bytes) *)
Definition bytes_of_logical (k : kind) (n : nat) (v : Z) : bytes :=
  match k with KF16 => le_bytes 2 v | _ => be_bytes n v end.

(* ------------------------------------------------------------------ per-page accumulation *)
Fixpoint chunks {A} (fuel : nat) (bs : nat) (l : list A) : list (list A) :=
  match fuel with
  | O => []
  | S f => match l with [] => [] | _ => firstn bs l :: chunks f bs (skipn bs l) end
  end.
Fixpoint somes {A} (l : list (option A)) : list A :=
  match l with [] => [] | Some x :: r => x :: somes r | None :: r => somes r end.
Definition count_none {A} (l : list (option A)) : nat := length l - length (somes l).

Section FileM.
  Variable T : Type.
  Variable gt : T -> T -> bool.
  Variable nan : T -> bool.
  Variable enc : T -> bytes.
  Variable float : bool.            (* is_floating_point_column *)
  Variable has_order : bool.        (* false for INTERVAL: write_slice skips min/max *)
  Variable bapath : option (list T -> (option T * option T) -> (option T * option T)).
                                    (* Some ba_write for the arrow byte-array encoder *)
  Variable can_trunc : bool.        (* can_truncate_value *)
  Variable utf8 : bool.             (* is_utf8 *)

  (* values of one page arrive in mini-batches of [bs] rows (levels); nulls carry no value *)
  Definition page_minmax (bs : nat) (rows : list (option T)) : option T * option T * option nat :=
    let batches := map somes (chunks (length rows) (Nat.max bs 1) rows) in
    if negb has_order then (None, None, None) else
    match bapath with
    | Some w => let '(mn, mx) := fold_left (fun st s => w s st) batches (None, None) in (mn, mx, None)
    | None => fold_left (fun st s => write_slice gt nan float s st) batches (None, None, None)
    end.

  Record colidx := {
    ci_null_pages : list bool; ci_mins : list bytes; ci_maxs : list bytes;
    ci_null_counts : list nat; ci_nan_counts : list (option nat) }.
  Record wstate := {
    w_cmin : option T; w_cmax : option T; w_nulls : nat; w_nans : option nat;
    w_valid : bool; w_ci : colidx;
    w_last : option (T * T); w_asc : bool; w_desc : bool }.

  Definition ci_push (c : colidx) np mn mx nc nan_c : colidx :=
    {| ci_null_pages := ci_null_pages c ++ [np]; ci_mins := ci_mins c ++ [mn]; ci_maxs := ci_maxs c ++ [mx];
       ci_null_counts := ci_null_counts c ++ [nc]; ci_nan_counts := ci_nan_counts c ++ [nan_c] |}.

  (* add_data_page + update_column_offset_index for one page *)
  Definition add_page (page_level : bool) (tl_index : option nat) (bs : nat)
             (w : wstate) (rows : list (option T)) : wstate :=
    let nulls := count_none rows in
    let '(pmin, pmax, pnan) := page_minmax bs rows in
    let nan_entry := if float then Some (match pnan with Some n => n | None => 0%nat end) else None in
    let w_nans' := match pnan with
                   | Some n => Some (n + match w_nans w with Some m => m | None => 0 end)%nat
                   | None => w_nans w end in
    let stats := match pmin, pmax with Some mn, Some mx => Some (mn, mx) | _, _ => None end in
    let cmin' := match stats with Some (mn, _) => update_min gt nan mn (w_cmin w) | None => w_cmin w end in
    let cmax' := match stats with Some (_, mx) => update_max gt nan mx (w_cmax w) | None => w_cmax w end in
    let page_stats := if page_level then stats else None in
    let null_page := (length rows =? nulls)%nat in
    let base := {| w_cmin := cmin'; w_cmax := cmax'; w_nulls := (w_nulls w + nulls)%nat; w_nans := w_nans';
                   w_valid := w_valid w; w_ci := w_ci w; w_last := w_last w; w_asc := w_asc w; w_desc := w_desc w |} in
    if negb (w_valid w) then base
    else if null_page then
      {| w_cmin := cmin'; w_cmax := cmax'; w_nulls := w_nulls base; w_nans := w_nans';
         w_valid := true; w_ci := ci_push (w_ci w) true [] [] nulls nan_entry;
         w_last := w_last w; w_asc := w_asc w; w_desc := w_desc w |}
    else match page_stats with
    | None =>
      {| w_cmin := cmin'; w_cmax := cmax'; w_nulls := w_nulls base; w_nans := w_nans';
         w_valid := false; w_ci := w_ci w; w_last := w_last w; w_asc := w_asc w; w_desc := w_desc w |}
    | Some (mn, mx) =>
      let '(asc, desc) :=
        match w_last w with
        | Some (lmn, lmx) =>
          (if w_asc w then negb (gt lmn mn || gt lmx mx) else false,
           if w_desc w then negb (gt mn lmn || gt mx lmx) else false)
        | None => (w_asc w, w_desc w)
        end in
      let emin := if can_trunc then fst (truncate_min_value utf8 tl_index (enc mn)) else enc mn in
      let emax := if can_trunc then fst (truncate_max_value utf8 tl_index (enc mx)) else enc mx in
      {| w_cmin := cmin'; w_cmax := cmax'; w_nulls := w_nulls base; w_nans := w_nans';
         w_valid := true; w_ci := ci_push (w_ci w) false emin emax nulls nan_entry;
         w_last := Some (mn, mx); w_asc := asc; w_desc := desc |}
    end.

  (* GenericColumnWriter::new: the column index builder starts invalid unless page statistics are on *)
  Definition w_init (page_level : bool) : wstate :=
    {| w_cmin := None; w_cmax := None; w_nulls := 0; w_nans := None; w_valid := page_level;
       w_ci := {| ci_null_pages := []; ci_mins := []; ci_maxs := []; ci_null_counts := []; ci_nan_counts := [] |};
       w_last := None; w_asc := true; w_desc := true |}.

  Definition run_pages (page_level : bool) (tl_index : option nat) (bs : nat)
             (pages : list (list (option T))) : wstate :=
    fold_left (add_page page_level tl_index bs) pages (w_init page_level).

  (* close(): boundary order 1 = ASCENDING, 2 = DESCENDING, 0 = UNORDERED *)
  Definition boundary_order (w : wstate) : nat :=
    if w_asc w then 1 else if w_desc w then 2 else 0.

  (* build_column_metadata + truncate_statistics: (min bytes, exact) (max bytes, exact) *)
  Definition chunk_min (tl_stats : option nat) (w : wstate) : option (bytes * bool) :=
    match w_cmin w with
    | None => None
    | Some m => if can_trunc then
                  let '(t, did) := truncate_min_value utf8 tl_stats (enc m) in Some (t, negb did)
                else Some (enc m, true)
    end.
  Definition chunk_max (tl_stats : option nat) (w : wstate) : option (bytes * bool) :=
    match w_cmax w with
    | None => None
    | Some m => if can_trunc then
                  let '(t, did) := truncate_max_value utf8 tl_stats (enc m) in Some (t, negb did)
                else Some (enc m, true)
    end.
End FileM.
