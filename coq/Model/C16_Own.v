(* C16 — ownership state machine of arrow-buffer / arrow-array / FFI sharing (definitions only).

   Nodes (append-only, id = position): memory regions (one per Arc<Bytes> / MutableBuffer / Vec
   allocation) and exported C-Data-Interface structures (one per top-level FFI_ArrowArray).
   Slots (append-only, id = position): the objects a program holds: Buffer, MutableBuffer, Vec<T>,
   Int32Array, BooleanBuffer, BooleanArray, PrimitiveBuilder, exported FFI pair, FFI stream.
   The strong count of a node is DERIVED: the number of references to it from live slots and from
   live (unreleased) nodes (an export holds the exported buffers; an imported region holds its
   export, arrow-array/src/ffi.rs create_buffer).  Release is an explicit EVENT: after every
   operation [settle] increments [released] of each node whose count went from >0 to 0 (what
   Arc::drop does; a node created and dropped inside one operation counts as such a transition), newest node first so that cascades (last imported buffer -> release callback
   -> exported buffers -> custom owner) are followed.  Nothing in [settle] looks at [released]:
   that a node is never released twice is a theorem (Proofs/C16_Inv.v), not a guard.

   Sources followed: arrow-buffer/src/buffer/immutable.rs (into_mutable, into_vec, slice, bit_slice,
   claim), buffer/mutable.rs (from_bytes, into_buffer, truncate, claim), buffer/boolean.rs
   (bitwise_bin_op_assign, from_bitwise_binary_op result offset, slice, sliced), bytes.rs (claim),
   pool.rs (Tracker), arrow-array primitive_array.rs (into_builder, unary_mut, try_unary_mut),
   builder/primitive_builder.rs (new_from_buffer, finish), arrow-data/src/ffi.rs (FFI_ArrowArray::new,
   align_nulls, release_array), arrow-array/src/ffi.rs (from_ffi, ImportedArrowArray::consume),
   ffi_stream.rs (get_next / ArrowArrayStreamReader::next). *)
From Coq Require Import List Arith ZArith Bool Lia.
Import ListNotations.

(* ------------------------------------------------------------------ data *)
Inductive owner :=
| OStd (align : nat)      (* Deallocation::Standard(layout); layout.align *)
| OCust (cuid : nat)      (* Deallocation::Custom(user owner) *)
| OImp (e : nat).         (* Deallocation::Custom(Arc<FFI_ArrowArray>) : node id of the export *)

Record region := mkR {
  r_bytes : list Z;          (* visible content (length = Bytes::len / MutableBuffer::len) *)
  r_owner : owner;
  r_cap : nat;               (* Bytes::capacity() *)
  r_capk : bool;             (* capacity fixed by the API contract (false: allocation-heuristic) *)
  r_resv : option nat;       (* memory-pool reservation (size) *)
  r_rel : nat }.             (* how many times the region was released (dealloc / owner dropped) *)

Record handle := mkH { hreg : nat; hoff : nat; hlen : nat; hbo : nat; hbl : nat }.
(* Buffer = (hreg, hoff, hlen) in bytes; BooleanBuffer adds bit offset hbo and bit length hbl
   relative to the Buffer start. *)

Record export := mkE {
  e_kind : nat;              (* 4 = Int32 array, 6 = Boolean array *)
  e_len : nat; e_off : nat;  (* FFI_ArrowArray.length / .offset *)
  e_bufs : list handle;      (* exported buffers: values, then validity if exported non-null *)
  e_cnt : bool;              (* release callback observable by the harness (false: created inside the stream reader) *)
  e_rel : nat }.             (* how many times the release callback ran *)

Inductive node := NReg (r : region) | NExp (e : export).

Record obj := mkO { okind : nat; ohs : list handle; oaux : list nat }.
(* kinds: 1 Buffer [h]; 2 MutableBuffer [h]; 3 Vec<T> [h] aux [size_of T]; 4 Int32Array [v] / [v;n];
   5 BooleanBuffer [h]; 6 BooleanArray [v] / [v;n]; 7 PrimitiveBuilder<Int32> [v] / [v;n];
   8 exported (FFI_ArrowArray, FFI_ArrowSchema) [handle whose hreg is the export node];
   9 FFI_ArrowArrayStream: handles of the pending batches' columns, aux = handles per batch *)

Record state := mkS { nodes : list node; slots : list (option obj); pool : Z }.

Definition init : state := mkS [] [] 0%Z.

(* ------------------------------------------------------------------ reference counting *)
Definition obj_refs (o : obj) : list nat := map hreg (ohs o).
Definition slot_refs (so : option obj) : list nat := match so with Some o => obj_refs o | None => [] end.
Definition node_rel (n : node) : nat := match n with NReg r => r_rel r | NExp e => e_rel e end.
Definition node_refs (n : node) : list nat :=
  match n with
  | NReg r => match r_rel r with
              | O => match r_owner r with OImp e => [e] | _ => [] end
              | S _ => [] end
  | NExp e => match e_rel e with O => map hreg (e_bufs e) | S _ => [] end
  end.
Definition all_refs (s : state) : list nat := flat_map slot_refs (slots s) ++ flat_map node_refs (nodes s).
Definition cnt (s : state) (id : nat) : nat := count_occ Nat.eq_dec (all_refs s) id.

(* ------------------------------------------------------------------ release events *)
Definition release_node (n : node) : node * Z :=
  match n with
  | NReg r => (NReg (mkR (r_bytes r) (r_owner r) (r_cap r) (r_capk r) None (S (r_rel r))),
               match r_resv r with Some k => Z.of_nat k | None => 0%Z end)
  | NExp e => (NExp (mkE (e_kind e) (e_len e) (e_off e) (e_bufs e) (e_cnt e) (S (e_rel e))), 0%Z)
  end.

Fixpoint upd_nth {A} (i : nat) (x : A) (l : list A) : list A :=
  match l, i with
  | [], _ => []
  | _ :: t, O => x :: t
  | h :: t, S i' => h :: upd_nth i' x t
  end.

Definition release (id : nat) (s : state) : state :=
  match nth_error (nodes s) id with
  | Some n => let '(n', freed) := release_node n in
              mkS (upd_nth id n' (nodes s)) (slots s) (pool s - freed)%Z
  | None => s
  end.

(* newest node first: a node only ever refers to older nodes *)
Fixpoint settle_from (k : nat) (pre cur : state) : state :=
  match k with
  | O => cur
  | S k' => settle_from k' pre
              (if (cnt cur k' =? 0) && ((0 <? cnt pre k') || (length (nodes pre) <=? k'))
               then release k' cur else cur)
  end.
Definition settle (pre cur : state) : state := settle_from (length (nodes cur)) pre cur.

(* ------------------------------------------------------------------ accessors *)
Definition get_slot (s : state) (i : nat) : option obj :=
  match nth_error (slots s) i with Some (Some o) => Some o | _ => None end.
Definition get_reg (s : state) (id : nat) : option region :=
  match nth_error (nodes s) id with Some (NReg r) => Some r | _ => None end.
Definition get_exp (s : state) (id : nat) : option export :=
  match nth_error (nodes s) id with Some (NExp e) => Some e | _ => None end.
Definition reg_bytes (s : state) (id : nat) : list Z :=
  match get_reg s id with Some r => r_bytes r | None => [] end.

Definition set_slot (i : nat) (o : option obj) (s : state) : state :=
  mkS (nodes s) (upd_nth i o (slots s)) (pool s).
Definition push_slot (o : option obj) (s : state) : state :=
  mkS (nodes s) (slots s ++ [o]) (pool s).
Definition add_node (n : node) (s : state) : state :=
  mkS (nodes s ++ [n]) (slots s) (pool s).
Definition set_reg (id : nat) (r : region) (s : state) : state :=
  mkS (upd_nth id (NReg r) (nodes s)) (slots s) (pool s).
Definition next_id (s : state) : nat := length (nodes s).

Definition with_bytes (r : region) (b : list Z) : region :=
  mkR b (r_owner r) (r_cap r) (r_capk r) (r_resv r) (r_rel r).
Definition with_owner (r : region) (o : owner) : region :=
  mkR (r_bytes r) o (r_cap r) (r_capk r) (r_resv r) (r_rel r).
Definition with_resv (r : region) (v : option nat) : region :=
  mkR (r_bytes r) (r_owner r) (r_cap r) (r_capk r) v (r_rel r).

(* the only way region content is changed *)
Definition write_reg (id : nat) (b : list Z) (s : state) : state :=
  match get_reg s id with Some r => set_reg id (with_bytes r b) s | None => s end.

Definition resv_z (v : option nat) : Z := match v with Some k => Z.of_nat k | None => 0%Z end.
(* replace the reservation of a region: the pool counter moves by the difference
   (pool.rs Tracker: reserve adds, drop subtracts, resize adjusts) *)
Definition set_resv (id : nat) (v : option nat) (s : state) : state :=
  match get_reg s id with
  | Some r => mkS (upd_nth id (NReg (with_resv r v)) (nodes s)) (slots s)
                  (pool s + resv_z v - resv_z (r_resv r))%Z
  | None => s end.

Definition fresh_region (b : list Z) (o : owner) (cap : nat) (capk : bool) : region :=
  mkR b o cap capk None 0.

(* ------------------------------------------------------------------ bytes and bits *)
Definition hbytes (s : state) (h : handle) : list Z := firstn (hlen h) (skipn (hoff h) (reg_bytes s (hreg h))).
Definition bit_of (bs : list Z) (i : nat) : bool := Z.testbit (nth (i / 8) bs 0%Z) (Z.of_nat (i mod 8)).
Definition bits_of (bs : list Z) (off len : nat) : list bool := map (fun i => bit_of bs (off + i)) (seq 0 len).
Definition hbits (s : state) (h : handle) : list bool := bits_of (hbytes s h) (hbo h) (hbl h).

Definition set_bit (bs : list Z) (i : nat) (b : bool) : list Z :=
  let byte := nth (i / 8) bs 0%Z in
  let m := Z.shiftl 1 (Z.of_nat (i mod 8)) in
  let byte' := if b then Z.lor byte m else Z.land byte (Z.lxor 255 m) in
  upd_nth (i / 8) byte' bs.
Fixpoint set_bits (bs : list Z) (off : nat) (l : list bool) : list Z :=
  match l with [] => bs | b :: t => set_bits (set_bit bs off b) (S off) t end.
Definition ceil8 (n : nat) : nat := (n + 7) / 8.
(* bit-packed buffer whose bit [off + i] is [nth i l] and all other bits are 0 *)
Definition pack_at (off : nat) (l : list bool) : list Z := set_bits (repeat 0%Z (ceil8 (off + length l))) off l.
Definition count_false (l : list bool) : nat := length (filter negb l).

(* little-endian i32 lanes *)
Definition le32 (b0 b1 b2 b3 : Z) : Z := (b0 + 256 * b1 + 65536 * b2 + 16777216 * b3)%Z.
Definition wrap32 (z : Z) : Z := (z mod 4294967296)%Z.          (* value as u32 bit pattern *)
Definition bytes32 (z : Z) : list Z :=
  [(z mod 256)%Z; ((z / 256) mod 256)%Z; ((z / 65536) mod 256)%Z; ((z / 16777216) mod 256)%Z].
Fixpoint lanes (fuel : nat) (bs : list Z) : list Z :=
  match fuel, bs with
  | S f, b0 :: b1 :: b2 :: b3 :: t => le32 b0 b1 b2 b3 :: lanes f t
  | _, _ => []
  end.
Definition unlanes (l : list Z) : list Z := flat_map bytes32 l.

(* ------------------------------------------------------------------ observation of an object *)
Definition zs_bools (l : list bool) : list Z := map (fun b : bool => if b then 1%Z else 0%Z) l.
Definition view (s : state) (o : obj) : list Z :=
  match okind o, ohs o with
  | 1, [h] | 2, [h] | 3, [h] => hbytes s h
  | 4, [v] | 7, [v] => hbytes s v
  | 4, [v; n] | 7, [v; n] => hbytes s v ++ (-1)%Z :: zs_bools (hbits s n)
  | 5, [h] => zs_bools (hbits s h)
  | 6, [v] => zs_bools (hbits s v)
  | 6, [v; n] => zs_bools (hbits s v) ++ (-1)%Z :: zs_bools (hbits s n)
  | _, _ => []
  end.

(* ------------------------------------------------------------------ the Rust conditions *)
Definition is_std (s : state) (id : nat) : bool :=
  match get_reg s id with Some r => match r_owner r with OStd _ => true | _ => false end | None => false end.
Definition std_align (s : state) (id : nat) : nat :=
  match get_reg s id with Some r => match r_owner r with OStd a => a | _ => 0 end | None => 0 end.
Definition reg_cap (s : state) (id : nat) : nat := match get_reg s id with Some r => r_cap r | None => 0 end.

(* Buffer::into_mutable (immutable.rs): Err when ptr_offset > 0; Arc::try_unwrap needs strong = 1
   (c = the strong count at the moment of the call); MutableBuffer::from_bytes refuses Custom *)
Definition into_mutable_ok (s : state) (h : handle) (c : nat) : bool :=
  (hoff h =? 0) && (c =? 1) && is_std s (hreg h).

(* Buffer::into_vec::<T> with size_of T = align_of T = esz: Custom -> Err; offset -> Err;
   layout != Layout::array::<T>(cap / esz) -> Err; then Arc::try_unwrap *)
Definition into_vec_ok (s : state) (h : handle) (esz c : nat) : bool :=
  is_std s (hreg h) && (hoff h =? 0) && (std_align s (hreg h) =? esz)
  && (reg_cap s (hreg h) mod esz =? 0) && (c =? 1).

Definition round64 (n : nat) : nat := ((n + 63) / 64) * 64.

(* Buffer::bit_slice (BooleanBuffer::sliced): zero-copy when the bit offset is a multiple of 8,
   otherwise the bits are copied to a new buffer.  Returns (state with possibly a new region, handle). *)
Definition sliced (s : state) (n : handle) : state * handle :=
  if hbo n mod 8 =? 0 then (s, mkH (hreg n) (hoff n + hbo n / 8) (ceil8 (hbl n)) 0 (hbl n))
  else let id := next_id s in
       (add_node (NReg (fresh_region (pack_at 0 (hbits s n)) (OStd 8) 0 false)) s,
        mkH id 0 (ceil8 (hbl n)) 0 (hbl n)).

(* ArrayDataBuilder::build keeps a validity buffer only when null_count != 0 *)
Definition has_nulls (s : state) (n : handle) : bool := negb (count_false (hbits s n) =? 0).
Definition filter_nulls (s : state) (hs : list handle) : list handle :=
  match hs with
  | [v; n] => if has_nulls s n then [v; n] else [v]
  | _ => hs
  end.

(* ------------------------------------------------------------------ export / import *)
(* FFI_ArrowArray::new(&array.to_data()) for kind 4 (Int32: data.offset = 0) and kind 6 (Boolean:
   data.offset = values.offset()), with align_nulls.  hs = handles of the array (unfiltered). *)
Definition export_arr (s : state) (kind : nat) (counted : bool) (hs : list handle) : state * nat :=
  match filter_nulls s hs with
  | [v] =>
      let off := if kind =? 6 then hbo v else 0 in
      let len := if kind =? 6 then hbl v else hlen v / 4 in
      let e := next_id s in
      (add_node (NExp (mkE kind len off [mkH (hreg v) (hoff v) (hlen v) 0 0] counted 0)) s, e)
  | [v; n] =>
      let off := if kind =? 6 then hbo v else 0 in
      let len := if kind =? 6 then hbl v else hlen v / 4 in
      let '(s1, nb) :=
        if off =? hbo n then (s, mkH (hreg n) (hoff n) (hlen n) 0 0)          (* already aligned: clone *)
        else if off =? 0 then sliced s n                                      (* nulls.inner().sliced() *)
        else let id := next_id s in                                            (* new_null + set_bits *)
             (add_node (NReg (fresh_region (pack_at off (hbits s n)) (OStd 64) 0 false)) s,
              mkH id 0 (ceil8 (off + hbl n)) 0 0) in
      let e := next_id s1 in
      (add_node (NExp (mkE kind len off [mkH (hreg v) (hoff v) (hlen v) 0 0; nb] counted 0)) s1, e)
  | _ => (add_node (NExp (mkE kind 0 0 [] counted 0)) s, next_id s)      (* not an array: nothing exported *)
  end.

(* from_ffi: every non-empty imported buffer is a Buffer::from_custom_allocation whose owner is the
   Arc<FFI_ArrowArray>; an empty data buffer is replaced by MutableBuffer::new(0).  The bytes of the
   imported region are those the exported pointer points at. *)
Definition import_buf (s : state) (e : nat) (src : handle) (nbytes : nat) : state * handle :=
  let id := next_id s in
  (add_node (NReg (fresh_region (firstn nbytes (skipn (hoff src) (reg_bytes s (hreg src)))) (OImp e) nbytes true)) s,
   mkH id 0 nbytes 0 0).
Definition import_arr (s : state) (e : nat) : state * option obj :=
  match get_exp s e with
  | None => (s, None)
  | Some ex =>
      let kind := e_kind ex in let len := e_len ex in let off := e_off ex in
      let vbytes := if kind =? 6 then ceil8 (len + off) else 4 * len in
      let nbytes := ceil8 (len + off) in
      match e_bufs ex with
      | v :: rest =>
          let '(s1, hv) :=
            if vbytes =? 0
            then let id := next_id s in
                 (add_node (NReg (fresh_region [] (OStd 64) 0 true)) s, mkH id 0 0 0 0)
            else import_buf s e v vbytes in
          let hv' := if kind =? 6 then mkH (hreg hv) 0 (hlen hv) off len else hv in
          match rest with
          | n :: _ =>
              let '(s2, hn) := import_buf s1 e n nbytes in
              (s2, Some (mkO (if kind =? 6 then 6 else 4) [hv'; mkH (hreg hn) 0 nbytes off len] []))
          | [] => (s1, Some (mkO (if kind =? 6 then 6 else 4) [hv'] []))
          end
      | [] => (s, None)
      end
  end.

(* ------------------------------------------------------------------ PrimitiveArray::into_builder *)
Inductive ib_result :=
| IbOk (s : state) (hs : list handle)      (* builder: values handle, then validity handle *)
| IbErr (s : state) (hs : list handle).    (* Err(array) rebuilt from the buffers *)

Definition truncate_reg (s : state) (id len : nat) : state := write_reg id (firstn len (reg_bytes s id)) s.

Definition into_builder (s : state) (hs0 : list handle) : ib_result :=
  let hs := filter_nulls s hs0 in                      (* self.into_data() *)
  match hs with
  | v :: rest =>
      let len := hlen v / 4 in
      let dropped_n_on_v :=                             (* refs to v's region released so far *)
        match hs0, rest with
        | [_; n0], [] => if hreg n0 =? hreg v then 1 else 0
        | _, _ => 0 end in
      match rest with
      | [] =>
          (* no validity: only the values buffer *)
          if into_mutable_ok s v (cnt s (hreg v) - dropped_n_on_v)
          then IbOk s [v] else IbErr s [v]
      | n :: _ =>
          let copied := negb (hbo n mod 8 =? 0) in
          let '(s1, nb) := sliced s n in            (* data.nulls().map(|b| b.inner().sliced()); drop(data) *)
          let ok_n := if copied then true else into_mutable_ok s nb (cnt s (hreg n)) in
          if negb ok_n then IbErr s1 [v; nb]
          else
            let s2 := truncate_reg s1 (hreg nb) (hlen nb) in
            let cv := cnt s (hreg v) - (if copied && (hreg n =? hreg v) then 1 else 0) in
            if into_mutable_ok s v cv then IbOk s2 [v; nb] else IbErr s2 [v; nb]
      end
  | [] => IbErr s hs0
  end.

(* PrimitiveBuilder::new_from_buffer: values MutableBuffer -> ScalarBuffer -> Vec<i32>
   (Buffer::into_vec, else a copy into a new Vec and the old allocation is dropped) *)
Definition builder_values (s : state) (v : handle) : state * handle :=
  let s1 := truncate_reg s (hreg v) (hlen v) in
  if (std_align s (hreg v) =? 4) && (reg_cap s (hreg v) mod 4 =? 0)
  then (s1, mkH (hreg v) 0 (hlen v) 0 0)
  else let id := next_id s1 in
       (add_node (NReg (fresh_region (hbytes s v) (OStd 4) (hlen v) true)) s1, mkH id 0 (hlen v) 0 0).

(* values -> values' for unary_mut / try_unary_mut on i32 lanes *)
Definition map_lanes (f : Z -> Z) (bs : list Z) : list Z := unlanes (map f (lanes (length bs) bs)).
Fixpoint try_lanes (k trig : Z) (vals : list Z) (valid : list bool) : option (list Z) :=
  match vals with
  | [] => Some []
  | x :: t =>
      let b := match valid with [] => true | b :: _ => b end in
      let vt := match valid with [] => [] | _ :: r => r end in
      if b then (if Z.eqb x trig then None
                 else match try_lanes k trig t vt with Some r => Some (wrap32 (x + k) :: r) | None => None end)
      else match try_lanes k trig t vt with Some r => Some (x :: r) | None => None end
  end.

(* PrimitiveBuilder::finish: values Vec -> Buffer, validity kept only when it contains a null *)
Definition finish_handles (s : state) (hs : list handle) : list handle :=
  match hs with
  | [v; n] => filter_nulls s [v; mkH (hreg n) 0 (hlen n) 0 (hlen v / 4)]
  | _ => hs
  end.

(* ------------------------------------------------------------------ operations *)
(* an operation is (code, a, b, c, payload); flags: 0 done, 1 Ok / in place, 2 Err / declined / copied,
   3 not applicable (wrong kind, dead slot, precondition of the API not met: nothing happens),
   4 try_unary_mut consumed the array and returned the closure's error *)
Record op := mkOp { o_code : nat; o_a : nat; o_b : nat; o_c : nat; o_tid : nat; o_data : list Z;
                    o_zb : Z; o_zc : Z }.   (* b and c as integers (lane values may not fit a unary nat) *)

Definition appends (code : nat) : nat :=
  match code with 0 | 1 | 2 | 3 | 4 | 20 | 23 | 24 => 1 | _ => 0 end.

Definition bitop (w : nat) (x y : bool) : bool :=
  match w with 0 => andb x y | 1 => orb x y | _ => xorb x y end.

Definition is_shared_kind (k : nat) : bool := (k =? 1) || (k =? 4) || (k =? 5) || (k =? 6).

(* slot i holds an object of kind k: its handles *)
Definition slot_k (s : state) (i k : nat) : option (list handle) :=
  match get_slot s i with
  | Some o => if okind o =? k then Some (ohs o) else None
  | None => None end.
(* ... with exactly one handle *)
Definition slot_1 (s : state) (i k : nat) : option handle :=
  match slot_k s i k with Some [h] => Some h | _ => None end.

Definition na0 (s : state) : state * Z := (s, 3%Z).
Definition na1 (s : state) : state * Z := (push_slot None s, 3%Z).

Definition claim_regs (ids : list nat) (s : state) : state :=
  fold_left (fun st id => set_resv id (Some (reg_cap st id)) st) ids s.
Definition all_capk (s : state) (ids : list nat) : bool :=
  forallb (fun id => match get_reg s id with Some r => r_capk r | None => false end) ids.

(* 0: Buffer::from_vec(Vec<T>) with size_of T = esz, exact capacity *)
Definition ex_new_std (s : state) (esz : nat) (data : list Z) : state * Z :=
  let n := length data in
  if ((esz =? 1) || (esz =? 4) || (esz =? 8)) && (n mod esz =? 0) && negb (n =? 0) then
    let id := next_id s in
    (push_slot (Some (mkO 1 [mkH id 0 n 0 0] [])) (add_node (NReg (fresh_region data (OStd esz) n true)) s), 0%Z)
  else na1 s.
(* 1: Buffer::from_custom_allocation(ptr, len, owner number cuid) *)
Definition ex_new_cust (s : state) (cuid : nat) (data : list Z) : state * Z :=
  let n := length data in
  let id := next_id s in
  (push_slot (Some (mkO 1 [mkH id 0 n 0 0] [])) (add_node (NReg (fresh_region data (OCust cuid) n true)) s), 0%Z).
(* 2: MutableBuffer::new(capreq) + extend_from_slice, no reallocation *)
Definition ex_new_mut (s : state) (capreq : nat) (data : list Z) : state * Z :=
  let n := length data in
  if n <=? round64 capreq then
    let id := next_id s in
    (push_slot (Some (mkO 2 [mkH id 0 n 0 0] [])) (add_node (NReg (fresh_region data (OStd 64) (round64 capreq) true)) s), 0%Z)
  else na1 s.
(* 3: clone *)
Definition ex_clone (s : state) (i : nat) : state * Z :=
  match get_slot s i with
  | Some o => if is_shared_kind (okind o) then (push_slot (Some o) s, 0%Z) else na1 s
  | None => na1 s end.
(* 4: slice(a, b): bytes for Buffer, elements for Int32Array, bits for BooleanBuffer / BooleanArray *)
Definition slice_bits (a b : nat) (n : handle) : handle := mkH (hreg n) (hoff n) (hlen n) (hbo n + a) b.
Definition ex_slice (s : state) (i a b : nat) : state * Z :=
  match get_slot s i with
  | Some o =>
      match okind o, ohs o with
      | 1, [h] =>
          if a + b <=? hlen h then (push_slot (Some (mkO 1 [mkH (hreg h) (hoff h + a) b 0 0] [])) s, 0%Z) else na1 s
      | 4, v :: rest =>
          if a + b <=? hlen v / 4 then
            (push_slot (Some (mkO 4 (mkH (hreg v) (hoff v + 4 * a) (4 * b) 0 0 :: map (slice_bits a b) rest) [])) s, 0%Z)
          else na1 s
      | 5, [h] =>
          if a + b <=? hbl h then (push_slot (Some (mkO 5 [slice_bits a b h] [])) s, 0%Z) else na1 s
      | 6, v :: rest =>
          if a + b <=? hbl v then (push_slot (Some (mkO 6 (map (slice_bits a b) (v :: rest)) [])) s, 0%Z) else na1 s
      | _, _ => na1 s
      end
  | None => na1 s end.
(* 5: drop *)
Definition ex_drop (s : state) (i : nat) : state * Z :=
  match get_slot s i with
  | Some _ => (set_slot i None s, 0%Z)
  | None => na0 s end.
(* 6: Buffer::into_mutable *)
Definition ex_into_mutable (s : state) (i : nat) : state * Z :=
  match slot_1 s i 1 with
  | Some h =>
      if into_mutable_ok s h (cnt s (hreg h))
      then (set_slot i (Some (mkO 2 [mkH (hreg h) 0 (hlen h) 0 0] [])) (truncate_reg s (hreg h) (hlen h)), 1%Z)
      else (s, 2%Z)
  | None => na0 s end.
(* 7: MutableBuffer -> Buffer ; 10: Buffer::from_vec(vec) *)
Definition ex_freeze (s : state) (i k : nat) : state * Z :=
  match slot_1 s i k with
  | Some h => (set_slot i (Some (mkO 1 [h] [])) s, 0%Z)
  | None => na0 s end.
(* 8: write one byte through a MutableBuffer / Vec ; 18: through builder.values_slice_mut() *)
Definition ex_write (s : state) (i k pos v : nat) : state * Z :=
  match slot_k s i k with
  | Some (h :: _) =>
      if pos <? hlen h then (write_reg (hreg h) (upd_nth pos (Z.of_nat v) (reg_bytes s (hreg h))) s, 0%Z) else na0 s
  | _ => na0 s end.
(* 9: Buffer::into_vec::<T>, size_of T = esz.  The reservation of the region is dropped here
   (the Vec cannot carry it); see the KNOWN-FINDING candidate in harness/src/c16.rs. *)
Definition ex_into_vec (s : state) (i esz : nat) : state * Z :=
  match slot_1 s i 1 with
  | Some h =>
      if (esz =? 1) || (esz =? 4) || (esz =? 8) then
        if into_vec_ok s h esz (cnt s (hreg h)) then
          let n := (hlen h / esz) * esz in
          (set_slot i (Some (mkO 3 [mkH (hreg h) 0 n 0 0] [esz]))
             (set_resv (hreg h) None (truncate_reg s (hreg h) n)), 1%Z)
        else (s, 2%Z)
      else na0 s
  | None => na0 s end.
(* 11: Int32Array::new(ScalarBuffer::new(buf, 0, len/4), nulls = BooleanBuffer of slot a when b = 1)
   13: BooleanArray::new(values, nulls likewise) *)
Definition ex_wrap_arr (s : state) (i a b : nat) : state * Z :=
  match slot_1 s i 1 with
  | Some h =>
      if (hoff h mod 4 =? 0) && (hlen h mod 4 =? 0) then
        if b =? 1 then
          match slot_1 s a 5 with
          | Some n =>
              if (hbl n =? hlen h / 4) && negb (a =? i)
              then (set_slot a None (set_slot i (Some (mkO 4 [h; n] [])) s), 0%Z) else na0 s
          | None => na0 s end
        else (set_slot i (Some (mkO 4 [h] [])) s, 0%Z)
      else na0 s
  | None => na0 s end.
Definition ex_wrap_barr (s : state) (i a b : nat) : state * Z :=
  match slot_1 s i 5 with
  | Some h =>
      if b =? 1 then
        match slot_1 s a 5 with
        | Some n =>
            if (hbl n =? hbl h) && negb (a =? i)
            then (set_slot a None (set_slot i (Some (mkO 6 [h; n] [])) s), 0%Z) else na0 s
        | None => na0 s end
      else (set_slot i (Some (mkO 6 [h] [])) s, 0%Z)
  | None => na0 s end.
(* 12: BooleanBuffer::new(buf, a, b) *)
Definition ex_wrap_bits (s : state) (i a b : nat) : state * Z :=
  match slot_1 s i 1 with
  | Some h =>
      if a + b <=? 8 * hlen h then (set_slot i (Some (mkO 5 [mkH (hreg h) (hoff h) (hlen h) a b] [])) s, 0%Z) else na0 s
  | None => na0 s end.
(* 14 unary_mut(|x| x + a) / 15 try_unary_mut(+a, Err on value b) / 16 into_builder *)
Definition rebuilt (hs : list handle) : list handle :=
  match hs with [v; n] => [v; mkH (hreg n) (hoff n) (hlen n) 0 (hlen v / 4)] | _ => hs end.
Definition ex_unary (s : state) (code i : nat) (a b : Z) : state * Z :=
  match slot_k s i 4 with
  | Some hs =>
      match into_builder s hs with
      | IbErr s1 hs1 => (set_slot i (Some (mkO 4 (rebuilt hs1) [])) s1, 2%Z)
      | IbOk s1 hs1 =>
          match hs1 with
          | v :: rest =>
              let '(s2, v') := builder_values s1 v in
              let hs2 := v' :: rest in
              if code =? 16 then (set_slot i (Some (mkO 7 hs2 [])) s2, 1%Z)
              else
                let vals := lanes (hlen v') (hbytes s2 v') in
                if code =? 14 then
                  let s3 := write_reg (hreg v') (unlanes (map (fun x => wrap32 (x + a)) vals)) s2 in
                  (set_slot i (Some (mkO 4 (finish_handles s3 hs2) [])) s3, 1%Z)
                else
                  let valid := match rest with n :: _ => bits_of (hbytes s2 n) 0 (hlen v' / 4) | [] => [] end in
                  match try_lanes a b vals valid with
                  | Some vals' =>
                      let s3 := write_reg (hreg v') (unlanes vals') s2 in
                      (set_slot i (Some (mkO 4 (finish_handles s3 hs2) [])) s3, 1%Z)
                  | None => (set_slot i None s2, 4%Z)
                  end
          | [] => na0 s
          end
      end
  | None => na0 s end.
(* 17: PrimitiveBuilder::finish *)
Definition ex_finish (s : state) (i : nat) : state * Z :=
  match slot_k s i 7 with
  | Some hs => (set_slot i (Some (mkO 4 (finish_handles s hs) [])) s, 0%Z)
  | None => na0 s end.
(* 19: BooleanBuffer  &= / |= / ^=  (w selects) with the BooleanBuffer of slot a *)
Definition ex_bit_assign (s : state) (i a w : nat) : state * Z :=
  match slot_1 s i 5, slot_1 s a 5 with
  | Some h, Some r =>
      if (hbl h =? hbl r) && negb (a =? i) && negb (hbl h =? 0) then
        let res := map (fun p : bool * bool => bitop w (fst p) (snd p)) (combine (hbits s h) (hbits s r)) in
        if into_mutable_ok s h (cnt s (hreg h)) then
          let s1 := truncate_reg s (hreg h) (hlen h) in
          (write_reg (hreg h) (set_bits (reg_bytes s1 (hreg h)) (hbo h) res) s1, 1%Z)
        else
          let o := if hbo h mod 64 =? hbo r mod 64 then hbo h mod 64 else 0 in
          let id := next_id s in
          (set_slot i (Some (mkO 5 [mkH id 0 (ceil8 (o + hbl h)) o (hbl h)] []))
             (add_node (NReg (fresh_region (pack_at o res) (OStd 8) 0 false)) s), 2%Z)
      else na0 s
  | _, _ => na0 s end.
(* 20: to_ffi(&array.to_data()) *)
Definition ex_export (s : state) (i : nat) : state * Z :=
  match get_slot s i with
  | Some o =>
      if (okind o =? 4) || (okind o =? 6) then
        let '(s1, e) := export_arr s (okind o) true (ohs o) in
        (push_slot (Some (mkO 8 [mkH e 0 0 0 0] [])) s1, 0%Z)
      else na1 s
  | None => na1 s end.
(* 21: from_ffi(array, &schema) *)
Definition ex_import (s : state) (i : nat) : state * Z :=
  match slot_1 s i 8 with
  | Some h => let '(s1, o) := import_arr s (hreg h) in (set_slot i o s1, 0%Z)
  | None => na0 s end.
(* 22: claim: Buffer / MutableBuffer / BooleanBuffer ::claim, ArrayData::claim of array.to_data() *)
Definition ex_claim (s : state) (i : nat) : state * Z :=
  match get_slot s i with
  | Some o =>
      let k := okind o in
      if (k =? 1) || (k =? 2) || (k =? 4) || (k =? 5) || (k =? 6) then
        let ids := map hreg (if (k =? 4) || (k =? 6) then filter_nulls s (ohs o) else ohs o) in
        if all_capk s ids then (claim_regs ids s, 0%Z) else na0 s
      else na0 s
  | None => na0 s end.
(* 23: FFI_ArrowArrayStream over one batch (column = Int32Array of slot i) or two (second: slot a, b = 1) *)
Definition ex_stream_new (s : state) (i a b : nat) : state * Z :=
  match slot_k s i 4 with
  | Some hs =>
      if b =? 1 then
        match slot_k s a 4 with
        | Some hs2 => (push_slot (Some (mkO 9 (hs ++ hs2) [length hs; length hs2])) s, 0%Z)
        | None => na1 s end
      else (push_slot (Some (mkO 9 hs [length hs])) s, 0%Z)
  | None => na1 s end.
(* 24: ArrowArrayStreamReader::next: export the next batch, import it, keep its column *)
Definition ex_stream_next (s : state) (i : nat) : state * Z :=
  match get_slot s i with
  | Some o =>
      if okind o =? 9 then
        match oaux o with
        | k :: ks =>
            let '(s1, e) := export_arr s 4 false (firstn k (ohs o)) in
            let '(s2, o2) := import_arr s1 e in
            (push_slot o2 (set_slot i (Some (mkO 9 (skipn k (ohs o)) ks)) s2), 1%Z)
        | [] => (push_slot None s, 2%Z)
        end
      else na1 s
  | None => na1 s end.
(* 25: MutableBuffer::truncate(a): the reservation is resized to the new length *)
Definition ex_truncate (s : state) (i a : nat) : state * Z :=
  match slot_1 s i 2 with
  | Some h =>
      if a <=? hlen h then
        let s1 := truncate_reg s (hreg h) a in
        let s2 := match get_reg s1 (hreg h) with
                  | Some r => match r_resv r with Some _ => set_resv (hreg h) (Some a) s1 | None => s1 end
                  | None => s1 end in
        (set_slot i (Some (mkO 2 [mkH (hreg h) 0 a 0 0] [])) s2, 0%Z)
      else (s, 0%Z)
  | None => na0 s end.

(* 26: keep only the validity BooleanBuffer of an array (into_parts, the rest is dropped)
   27: keep only the values (Int32Array -> Buffer, BooleanArray -> BooleanBuffer) *)
Definition ex_take (s : state) (i : nat) (nulls : bool) : state * Z :=
  match get_slot s i with
  | Some o =>
      if (okind o =? 4) || (okind o =? 6) then
        match ohs o with
        | [v; n] => if nulls then (set_slot i (Some (mkO 5 [n] [])) s, 0%Z)
                    else (set_slot i (Some (if okind o =? 4 then mkO 1 [mkH (hreg v) (hoff v) (hlen v) 0 0] [] else mkO 5 [v] [])) s, 0%Z)
        | [v] => if nulls then na0 s
                 else (set_slot i (Some (if okind o =? 4 then mkO 1 [mkH (hreg v) (hoff v) (hlen v) 0 0] [] else mkO 5 [v] [])) s, 0%Z)
        | _ => na0 s
        end
      else na0 s
  | None => na0 s end.

Definition exec (s : state) (p : op) : state * Z :=
  let i := o_a p in let a := o_b p in let b := o_c p in
  match o_code p with
  | 0 => ex_new_std s i (o_data p)
  | 1 => ex_new_cust s i (o_data p)
  | 2 => ex_new_mut s i (o_data p)
  | 3 => ex_clone s i
  | 4 => ex_slice s i a b
  | 5 => ex_drop s i
  | 6 => ex_into_mutable s i
  | 7 => ex_freeze s i 2
  | 8 => match slot_k s i 2 with Some _ => ex_write s i 2 a b | None => ex_write s i 3 a b end
  | 9 => ex_into_vec s i a
  | 10 => ex_freeze s i 3
  | 11 => ex_wrap_arr s i a b
  | 12 => ex_wrap_bits s i a b
  | 13 => ex_wrap_barr s i a b
  | 14 => ex_unary s 14 i (o_zb p) (o_zc p)
  | 15 => ex_unary s 15 i (o_zb p) (o_zc p)
  | 16 => ex_unary s 16 i (o_zb p) (o_zc p)
  | 17 => ex_finish s i
  | 18 => ex_write s i 7 a b
  | 19 => ex_bit_assign s i a b
  | 20 => ex_export s i
  | 21 => ex_import s i
  | 22 => ex_claim s i
  | 23 => ex_stream_new s i a b
  | 24 => ex_stream_next s i
  | 25 => ex_truncate s i a
  | 26 => ex_take s i true
  | 27 => ex_take s i false
  | _ => na0 s
  end.

Definition step (s : state) (p : op) : state := settle s (fst (exec s p)).
Definition step_flag (s : state) (p : op) : Z := snd (exec s p).
Definition run (ops : list op) (s : state) : state := fold_left step ops s.

(* ------------------------------------------------------------------ observables *)
Definition cust_counters (s : state) : list Z :=
  flat_map (fun n => match n with
                     | NReg r => match r_owner r with OCust _ => [Z.of_nat (r_rel r)] | _ => [] end
                     | NExp _ => [] end) (nodes s).
Definition exp_counters (s : state) : list Z :=
  flat_map (fun n => match n with NExp e => if e_cnt e then [Z.of_nat (e_rel e)] else [] | NReg _ => [] end) (nodes s).

(* spec side of the pool: total size of the reservations of live regions *)
Definition live_resv (s : state) : Z :=
  fold_right (fun n acc => match n with
                           | NReg r => match r_rel r with O => (resv_z (r_resv r) + acc)%Z | S _ => acc end
                           | NExp _ => acc end) 0%Z (nodes s).

(* Arc strong counts seen through the live shareable objects (Buffer::strong_count) *)
Definition strong_counts (s : state) : list Z :=
  flat_map (fun so => match so with
                      | Some o => if is_shared_kind (okind o) then map (fun h => Z.of_nat (cnt s (hreg h))) (ohs o) else []
                      | None => [] end) (slots s).

Definition slot_view (s : state) (so : option obj) : option (list Z) :=
  match so with Some o => Some (view s o) | None => None end.
Definition views (s : state) : list (option (list Z)) := map (slot_view s) (slots s).

Definition opt_list_eqb (x y : option (list Z)) : bool :=
  match x, y with
  | None, None => true
  | Some a, Some b => if list_eq_dec Z.eq_dec a b then true else false
  | _, _ => false
  end.
(* changed slots since the previous observation: [idx; -1] for a slot that died,
   [idx; n; v_1 .. v_n] for a new or changed one *)
Fixpoint delta (i : nat) (prev cur : list (option (list Z))) : list Z :=
  match cur with
  | [] => []
  | c :: ct =>
      let p := match prev with [] => None | p :: _ => p end in
      let pt := match prev with [] => [] | _ :: t => t end in
      (if opt_list_eqb p c then []
       else match c with
            | None => [Z.of_nat i; (-1)%Z]
            | Some v => Z.of_nat i :: Z.of_nat (length v) :: v
            end) ++ delta (S i) pt ct
  end.
