(* C12 — row machinery of the arithmetic kernels (definitions only).
   Source: arrow-arith/src/arity.rs (binary, try_binary, try_binary_no_nulls),
   arrow-array/src/array/primitive_array.rs (unary, try_unary, new_null),
   arrow-buffer/src/buffer/null.rs (NullBuffer::union, try_for_each_valid_idx),
   arrow-arith/src/numeric.rs (macros op!, try_op! : scalar / array dispatch).

   M works on the physical layout: a value vector (with arbitrary values under null slots) and
   an optional validity vector.  S works on `list (option Z)`. *)
From Coq Require Import List ZArith Bool Arith.
From AV Require Import Model.C12_Int.
Import ListNotations.

(* physical primitive array: values + optional null buffer (true = valid) *)
Record parr : Type := mkarr { a_vals : list Z; a_nulls : option (list bool) }.
Definition arr_len (a : parr) : nat := length (a_vals a).
Fixpoint count_false (l : list bool) : nat :=
  match l with [] => O | b :: r => (if b then 0 else 1) + count_false r end.
Definition null_count (a : parr) : nat :=
  match a_nulls a with None => O | Some n => count_false n end.

(* kernel result: array | error kind *)
Inductive ares : Type := AOk (vals : list Z) (nulls : option (list bool)) | AErr (kind : Z).

Fixpoint map2 {A B C} (f : A -> B -> C) (a : list A) (b : list B) : list C :=
  match a, b with x :: a', y :: b' => f x y :: map2 f a' b' | _, _ => [] end.

(* NullBuffer::union *)
Definition nb_union (a b : option (list bool)) : option (list bool) :=
  match a, b with
  | Some x, Some y => Some (map2 andb x y)
  | Some x, None | None, Some x => Some x
  | None, None => None
  end.

Definition cons_ok (z : Z) (r : list Z + Z) : list Z + Z :=
  match r with inl t => inl (z :: t) | inr k => inr k end.

(* try_binary_no_nulls: `for idx in 0..len { buffer.push(op(a[idx], b[idx])?) }` *)
Fixpoint try_zip (f : Z -> Z -> res) (a b : list Z) : list Z + Z :=
  match a, b with
  | x :: a', y :: b' =>
      match f x y with Err k => inr k | Ok z => cons_ok z (try_zip f a' b') end
  | _, _ => inl []
  end.

(* zeroed buffer + `nulls.try_for_each_valid_idx(|idx| slice[idx] = op(a[idx], b[idx])?)` *)
Fixpoint try_zip_valid (f : Z -> Z -> res) (valid : list bool) (a b : list Z) : list Z + Z :=
  match valid, a, b with
  | v :: valid', x :: a', y :: b' =>
      if v then match f x y with Err k => inr k | Ok z => cons_ok z (try_zip_valid f valid' a' b') end
      else cons_ok 0%Z (try_zip_valid f valid' a' b')
  | _, _, _ => inl []
  end.

Definition try_binary_no_nulls (f : Z -> Z -> res) (a b : parr) : ares :=
  match try_zip f (a_vals a) (a_vals b) with inl v => AOk v None | inr k => AErr k end.

Definition try_binary (f : Z -> Z -> res) (a b : parr) : ares :=
  if negb (arr_len a =? arr_len b)%nat then AErr E_INVALID
  else if (arr_len a =? 0)%nat then AOk [] None
  else if (null_count a =? 0)%nat && (null_count b =? 0)%nat then try_binary_no_nulls f a b
  else match nb_union (a_nulls a) (a_nulls b) with
       | None => try_binary_no_nulls f a b
       | Some n => match try_zip_valid f n (a_vals a) (a_vals b) with
                   | inl v => AOk v (Some n) | inr k => AErr k end
       end.

(* infallible `binary`: every row is computed (also under nulls), nulls = union *)
Definition binary (f : Z -> Z -> Z) (a b : parr) : ares :=
  if negb (arr_len a =? arr_len b)%nat then AErr E_INVALID
  else if (arr_len a =? 0)%nat then AOk [] None
  else AOk (map2 f (a_vals a) (a_vals b)) (nb_union (a_nulls a) (a_nulls b)).

Fixpoint try_map (f : Z -> res) (a : list Z) : list Z + Z :=
  match a with
  | x :: a' => match f x with Err k => inr k | Ok z => cons_ok z (try_map f a') end
  | [] => inl []
  end.
Fixpoint try_map_valid (f : Z -> res) (valid : list bool) (a : list Z) : list Z + Z :=
  match valid, a with
  | v :: valid', x :: a' =>
      if v then match f x with Err k => inr k | Ok z => cons_ok z (try_map_valid f valid' a') end
      else cons_ok 0%Z (try_map_valid f valid' a')
  | _, _ => inl []
  end.

(* PrimitiveArray::try_unary *)
Definition try_unary (f : Z -> res) (a : parr) : ares :=
  match (match a_nulls a with
         | Some n => try_map_valid f n (a_vals a)
         | None => try_map f (a_vals a) end) with
  | inl v => AOk v (a_nulls a) | inr k => AErr k end.
(* PrimitiveArray::unary *)
Definition unary (f : Z -> Z) (a : parr) : ares := AOk (map f (a_vals a)) (a_nulls a).
(* PrimitiveArray::new_null *)
Definition new_null (len : nat) : ares := AOk (repeat 0%Z len) (Some (repeat false len)).

Definition value0 (a : parr) : Z := hd 0%Z (a_vals a).

(* macro try_op!(l, l_s, r, r_s, op) *)
Definition try_op (f : Z -> Z -> res) (l_s r_s : bool) (l r : parr) : ares :=
  match l_s, r_s with
  | true, true | false, false => try_binary f l r
  | true, false => if (null_count l =? 0)%nat then try_unary (fun y => f (value0 l) y) r
                   else new_null (arr_len r)
  | false, true => if (null_count r =? 0)%nat then try_unary (fun x => f x (value0 r)) l
                   else new_null (arr_len l)
  end.
(* macro op!(l, l_s, r, r_s, op) *)
Definition inf_op (f : Z -> Z -> Z) (l_s r_s : bool) (l r : parr) : ares :=
  match l_s, r_s with
  | true, true | false, false => binary f l r
  | true, false => if (null_count l =? 0)%nat then unary (fun y => f (value0 l) y) r
                   else new_null (arr_len r)
  | false, true => if (null_count r =? 0)%nat then unary (fun x => f x (value0 r)) l
                   else new_null (arr_len l)
  end.

(* integer_op: wrapping ops go through op!, the others through try_op! *)
Definition unwrap_ok (r : res) : Z := match r with Ok z => z | Err _ => 0%Z end.
Definition integer_op (s : bool) (H : Z) (op : aop) (l_s r_s : bool) (l r : parr) : ares :=
  if is_wrapping op then inf_op (fun x y => unwrap_ok (integer_op_elem s H op x y)) l_s r_s l r
  else try_op (integer_op_elem s H op) l_s r_s l r.

(* neg (checked; signed types only — unsigned types are rejected with InvalidArgumentError)
   and neg_wrapping (all integer types) *)
Definition neg_kernel (s : bool) (H : Z) (a : parr) : ares :=
  if s then try_unary (neg_checked s H) a else AErr E_INVALID.
Definition neg_wrapping_kernel (s : bool) (H : Z) (a : parr) : ares := unary (wrapping_neg s H) a.

(* ------------------------------------------------------------------ specification *)
Notation rows := (list (option Z)).

(* logical content of a physical array: the value under a null slot is erased *)
Definition denote (a : parr) : rows :=
  match a_nulls a with
  | None => map Some (a_vals a)
  | Some n => map2 (fun (v : bool) x => if v then Some x else None) n (a_vals a)
  end.

Definition cons_row (o : option Z) (r : rows + Z) : rows + Z :=
  match r with inl t => inl (o :: t) | inr k => inr k end.

(* S: row-wise; a row is null iff an input row is null; null rows are never evaluated;
   the kernel fails iff some valid row fails (reporting the first such row) *)
Fixpoint spec_rows2 (f : Z -> Z -> res) (l r : rows) : rows + Z :=
  match l, r with
  | x :: l', y :: r' =>
      match x, y with
      | Some a, Some b => match f a b with Err k => inr k | Ok z => cons_row (Some z) (spec_rows2 f l' r') end
      | _, _ => cons_row None (spec_rows2 f l' r')
      end
  | _, _ => inl []
  end.
Fixpoint spec_rows1 (f : Z -> res) (l : rows) : rows + Z :=
  match l with
  | Some a :: l' => match f a with Err k => inr k | Ok z => cons_row (Some z) (spec_rows1 f l') end
  | None :: l' => cons_row None (spec_rows1 f l')
  | [] => inl []
  end.

(* a scalar operand is broadcast to the length of the other side *)
Definition broadcast (is_scalar other_scalar : bool) (x other : rows) : rows :=
  if is_scalar && negb other_scalar then repeat (hd None x) (length other) else x.

Definition spec_binary_kernel (f : Z -> Z -> res) (l_s r_s : bool) (l r : rows) : rows + Z :=
  let l' := broadcast l_s r_s l r in
  let r' := broadcast r_s l_s r l in
  if negb (length l' =? length r')%nat then inr E_INVALID else spec_rows2 f l' r'.

(* canonical observable form of a kernel result: validity bits, values with 0 under nulls *)
Definition canon (a : ares) : rows + Z :=
  match a with
  | AOk v n => inl (denote (mkarr v n))
  | AErr k => inr k
  end.
