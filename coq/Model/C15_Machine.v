(* C15 — the push decoder protocol (parquet/src/arrow/push_decoder/{mod.rs, remaining.rs,
   reader_builder/mod.rs, reader_builder/data.rs}) as a state machine over an ABSTRACT planner, and
   the synchronous reader as the specification.  Definitions only.

   The planner is a Section variable.  Per row group it is a *strategy tree* [phase]:
     PNeed req k   the decoder needs the byte ranges [req] (DataRequest.ranges of a filter phase or
                   of the data phase) and continues with [k chunks] where [chunks] are the bytes it
                   obtained for exactly those ranges;
     PFinish u     the row group ends without a reader (everything filtered / cut by offset+limit);
     PData bs u    the row group's reader, as the list of batches it will yield.
   The type of [k] IS the hypothesis of DESIGN.md "the decoder reads the file only through get_bytes
   on ranges it requested for the current phase": nothing else of the file can influence planning
   or decoding.  The cross-row-group state (RowBudget + global RowSelection cursor) is the abstract
   [B], updated by [upd] with the [u] a row group reports (update_budget_after_row_group). *)
From Coq Require Import List NArith Bool.
From AV Require Import Model.C15_PushBuf.
Import ListNotations.
Local Open Scope N_scope.

Section Machine.
Variables (Rw B U R : Type).       (* row, frontier state, per-row-group budget report, work item *)
Notation batch := (list Rw).
Notation chunks := (list (list N)).

Inductive phase :=
| PNeed (req : list range) (k : chunks -> phase)
| PFinish (u : U)
| PData (bs : list batch) (u : U).

(* RowGroupFrontier::next_readable_row_group, one queue element *)
Inductive fstep := FStop | FSkip (b : B) | FRead (r : R) (b : B).
Variable fr_step : nat -> B -> fstep.
Variable plan : R -> phase.
Variable upd : B -> U -> B.

(* ------------------------------------------------------------------ specification: sync reader *)
Section Sync.
Variable file : list N.
Definition file_chunks (req : list range) : chunks := map (fun r : range => fslice file (fst r) (snd r - fst r)) req.
Fixpoint sync_phase (p : phase) : list batch * U :=
  match p with
  | PNeed req k => sync_phase (k (file_chunks req))
  | PFinish u => ([], u)
  | PData bs u => (bs, u)
  end.
Fixpoint sync_read (q : list nat) (b : B) : list batch :=
  match q with
  | [] => []
  | g :: q' =>
      match fr_step g b with
      | FStop => []
      | FSkip b' => sync_read q' b'
      | FRead r b' => let '(bs, u) := sync_phase (plan r) in bs ++ sync_read q' (upd b' u)
      end
  end.
Definition sync_rows (q : list nat) (b : B) : list Rw := concat (sync_read q b).
End Sync.

(* ------------------------------------------------------------------ the push decoder *)
(* RowGroupDecoderState: Finished (between row groups) or waiting for the ranges of a phase
   (WaitingOnFilterData / WaitingOnData); Start/Filters/StartData are transient. *)
Inductive rgst := RGIdle | RGWait (req : list range) (k : chunks -> phase).
(* ParquetDecoderState *)
Inductive dst := DReading | DDecoding (bs : list batch) | DFinished.
Record mach := { m_queue : list nat; m_b : B; m_rg : rgst; m_buf : pushbuf; m_dec : dst }.

(* DataRequest::get_chunks *)
Fixpoint get_chunks (pb : pushbuf) (req : list range) : option chunks :=
  match req with
  | [] => Some []
  | r :: req' =>
      match get_bytes pb (fst r) (snd r - fst r) with
      | None => None
      | Some x => match get_chunks pb req' with Some xs => Some (x :: xs) | None => None end
      end
  end.
(* DataRequest::needed_ranges *)
Definition needed_ranges (pb : pushbuf) (req : list range) : list range :=
  filter (fun r => negb (has_range pb r)) req.

Inductive bres := BNeed (rs : list range) | BFinish (u : U) | BData (bs : list batch) (u : U) | BError.

(* RowGroupReaderBuilder::try_build: advance through the phases while their ranges are buffered;
   a satisfied request is turned into chunks (try_into_in_memory_row_group) and its ranges are
   cleared from the buffer (exact match). *)
Fixpoint run_phase (p : phase) (pb : pushbuf) : bres * rgst * pushbuf :=
  match p with
  | PNeed req k =>
      match needed_ranges pb req with
      | (_ :: _) as needed => (BNeed needed, RGWait req k, pb)
      | [] =>
          match get_chunks pb req with
          | Some cs => run_phase (k cs) (clear_ranges pb req)
          | None => (BError, RGIdle, pb)      (* "Internal Error missing data for range" *)
          end
      end
  | PFinish u => (BFinish u, RGIdle, pb)
  | PData bs u => (BData bs u, RGIdle, pb)
  end.

Inductive nres := NNeed (rs : list range) | NData (bs : list batch) | NFinished | NError.

Notation rstate := (list nat * B * rgst * pushbuf)%type.

(* RemainingRowGroups::try_next_reader, after try_build of the active row group returned [x]:
   NeedsData is handed to the caller, a reader is handed out (budget updated), and a row group that
   finished without a reader — or, for try_next_batch ([skip_empty]), with a reader that yields
   nothing — makes the loop continue with [next], the rest of the frontier. *)
Definition after_phase (skip_empty : bool) (q : list nat) (b : B) (next : B -> pushbuf -> nres * rstate)
  (x : bres * rgst * pushbuf) : nres * rstate :=
  match x with
  | (BNeed rs, st, pb') => (NNeed rs, (q, b, st, pb'))
  | (BFinish u, _, pb') => next (upd b u) pb'
  | (BData bs u, _, pb') =>
      match bs, skip_empty with
      | [], true => next (upd b u) pb'
      | _, _ => (NData bs, (q, upd b u, RGIdle, pb'))
      end
  | (BError, _, pb') => (NError, (q, b, RGIdle, pb'))
  end.

(* RemainingRowGroups::try_next_reader with no active row group: pop row groups off the frontier
   until one yields a reader, needs data, or the queue ends. *)
Fixpoint next_reader (skip_empty : bool) (q : list nat) (b : B) (pb : pushbuf) : nres * rstate :=
  match q with
  | [] => (NFinished, ([], b, RGIdle, pb))
  | g :: q' =>
      match fr_step g b with
      | FStop => (NFinished, ([], b, RGIdle, pb))                 (* clear_remaining *)
      | FSkip b' => next_reader skip_empty q' b' pb
      | FRead r b' => after_phase skip_empty q' b' (next_reader skip_empty q') (run_phase (plan r) pb)
      end
  end.

(* the same, entered with whatever row group is active *)
Definition resume_reader (skip_empty : bool) (m : mach) : nres * rstate :=
  match m_rg m with
  | RGIdle => next_reader skip_empty (m_queue m) (m_b m) (m_buf m)
  | RGWait req k =>
      after_phase skip_empty (m_queue m) (m_b m) (next_reader skip_empty (m_queue m))
                  (run_phase (PNeed req k) (m_buf m))
  end.

Definition with_parts (s : rstate) (d : dst) : mach :=
  let '(q, b, st, pb) := s in {| m_queue := q; m_b := b; m_rg := st; m_buf := pb; m_dec := d |}.
Definition with_dec (m : mach) (d : dst) : mach :=
  {| m_queue := m_queue m; m_b := m_b m; m_rg := m_rg m; m_buf := m_buf m; m_dec := d |}.
Definition with_buf (m : mach) (pb : pushbuf) : mach :=
  {| m_queue := m_queue m; m_b := m_b m; m_rg := m_rg m; m_buf := pb; m_dec := m_dec m |}.

Inductive dres := RNeed (rs : list range) | RData (b : batch) | RReader (bs : list batch) | RFinished | RError.

(* ParquetPushDecoder::try_decode (ParquetDecoderState::try_next_batch).  An Err leaves the decoder
   Finished (the state was replaced by Finished before `?`). *)
Definition pump (m : mach) : mach * dres :=
  match resume_reader true m with
  | (NNeed rs, s) => (with_parts s DReading, RNeed rs)
  | (NData (b :: bs), s) => (with_parts s (DDecoding bs), RData b)
  | (NData [], s) => (with_parts s DFinished, RFinished)      (* unreachable: skip_empty = true *)
  | (NFinished, s) => (with_parts s DFinished, RFinished)
  | (NError, s) => (with_parts s DFinished, RError)
  end.
Definition try_decode (m : mach) : mach * dres :=
  match m_dec m with
  | DFinished => (m, RFinished)
  | DDecoding (b :: bs) => (with_dec m (DDecoding bs), RData b)
  | DDecoding [] => pump (with_dec m DReading)
  | DReading => pump m
  end.

(* ParquetPushDecoder::try_next_reader: hands out the whole reader of the next row group (or the
   rest of the active one) and goes back to ReadingRowGroup. *)
Definition try_next_reader (m : mach) : mach * dres :=
  match m_dec m with
  | DFinished => (m, RFinished)
  | DDecoding bs => (with_dec m DReading, RReader bs)
  | DReading =>
      match resume_reader false m with
      | (NNeed rs, s) => (with_parts s DReading, RNeed rs)
      | (NData bs, s) => (with_parts s DReading, RReader bs)
      | (NFinished, s) => (with_parts s DFinished, RFinished)
      | (NError, s) => (with_parts s DFinished, RError)
      end
  end.

(* ParquetPushDecoder::push_ranges (None = Err: finished decoder, or a length mismatch, which
   leaves the decoder Finished as well). *)
Definition push_data (m : mach) (rs : list range) (bs : chunks) : option mach :=
  match m_dec m with
  | DFinished => None
  | _ => match push_ranges (m_buf m) rs bs with
         | (pb, true) => Some (with_buf m pb)
         | (_, false) => None
         end
  end.
Definition clear_all (m : mach) : mach :=
  match m_dec m with DFinished => m | _ => with_buf m (clear_all_ranges (m_buf m)) end.
Definition decoder_buffered_bytes (m : mach) : N :=
  match m_dec m with DFinished => 0 | _ => buffered_bytes (m_buf m) end.

(* is_at_row_group_boundary / into_builder / build: at a boundary the decoder is decomposed into the
   remaining row groups, the remaining budget/selection and the buffered bytes, and rebuilt. *)
Definition at_boundary (m : mach) : bool :=
  match m_dec m, m_rg m with DReading, RGIdle => true | _, _ => false end.
Record builder := { bd_row_groups : list nat; bd_b : B; bd_buffers : pushbuf }.
Definition into_builder (m : mach) : option builder :=
  if at_boundary m then Some {| bd_row_groups := m_queue m; bd_b := m_b m; bd_buffers := m_buf m |} else None.
Definition build (bd : builder) : mach :=
  {| m_queue := bd_row_groups bd; m_b := bd_b bd; m_rg := RGIdle; m_buf := bd_buffers bd; m_dec := DReading |}.
Definition init (q : list nat) (b : B) : mach := build {| bd_row_groups := q; bd_b := b; bd_buffers := pb_new 0 |}.

(* ------------------------------------------------------------------ schedules *)
(* What the I/O layer / caller may do between two results. *)
Inductive action :=
| APush (rs : list range)      (* supply the file's bytes of these ranges (any ranges, any order) *)
| ADecode                      (* try_decode *)
| ANextReader                  (* try_next_reader *)
| AClear                       (* clear_all_ranges *)
| ARebuild.                    (* into_builder().build() (ignored when not at a boundary) *)

Inductive event :=
| ENeed (rs : list range) | EPush (rs : list range) | EData (b : batch) | EReader (bs : list batch)
| EFinished | EClear | ERebuild | EError.

Definition ev_of (r : dres) : event :=
  match r with RNeed rs => ENeed rs | RData b => EData b | RReader bs => EReader bs
             | RFinished => EFinished | RError => EError end.

Section Run.
Variable file : list N.
Definition step (m : mach) (a : action) : mach * list event :=
  match a with
  | APush rs => match push_data m rs (file_chunks file rs) with
                | Some m' => (m', [EPush rs])
                | None => (m, [])                  (* rejected: finished decoder *)
                end
  | ADecode => let '(m', r) := try_decode m in (m', [ev_of r])
  | ANextReader => let '(m', r) := try_next_reader m in (m', [ev_of r])
  | AClear => (clear_all m, [EClear])
  | ARebuild => match into_builder m with Some bd => (build bd, [ERebuild]) | None => (m, []) end
  end.
Fixpoint run (m : mach) (sched : list action) : mach * list event :=
  match sched with
  | [] => (m, [])
  | a :: sched' => let '(m1, e1) := step m a in let '(m2, e2) := run m1 sched' in (m2, e1 ++ e2)
  end.
End Run.

Definition rows_of (evs : list event) : list Rw :=
  flat_map (fun e => match e with EData b => b | EReader bs => concat bs | _ => [] end) evs.

(* A responsive driver: decode; answer the i-th NeedsData(rs) with the file's bytes of the ranges
   [sup i rs] chosen by an arbitrary supplier (exact, supersets, duplicates, any order, additional
   ranges ...).  [drive] is the canonical one that supplies exactly the requested ranges. *)
Section Drive.
Variable file : list N.
Variable sup : nat -> list range -> list range.
Fixpoint drive_with (fuel : nat) (i : nat) (m : mach) : list Rw * bool :=
  match fuel with
  | O => ([], false)
  | S f =>
      match try_decode m with
      | (m', RNeed rs) =>
          match push_data m' (sup i rs) (file_chunks file (sup i rs)) with
          | Some m'' => drive_with f (S i) m''
          | None => ([], false)
          end
      | (m', RData b) => let '(rows, fin) := drive_with f i m' in (b ++ rows, fin)
      | (m', RReader bs) => ([], false)
      | (_, RFinished) => ([], true)
      | (_, RError) => ([], false)
      end
  end.
End Drive.
Definition drive (file : list N) (fuel : nat) (m : mach) : list Rw * bool :=
  drive_with file (fun _ rs => rs) fuel O m.

(* ------------------------------------------------------------------ the async stream
   parquet/src/arrow/async_reader/mod.rs: ParquetRecordBatchStream = RequestState + the push decoder.
   One [sstep] is one iteration of the `loop` in poll_next_inner:
     None        -> try_decode; NeedsData(ranges) begins a request (get_byte_ranges(ranges), whose
                    future will return Pending [delay] times), a batch / end of stream is returned
     Outstanding -> poll the future: Pending is returned to the executor; when ready the fetched
                    bytes are pushed under exactly the requested ranges
     Done        -> end of stream
   [SWork] marks the iterations after which the loop continues without returning to the executor. *)
Inductive rq_state := QNone | QOutstanding (rs : list range) (delay : nat) | QDone.
Record stream := { s_req : rq_state; s_dec : mach }.
Inductive sout := SPending | SBatch (b : batch) | SEnd | SWork | SFail.

Section Async.
Variable file : list N.
Definition sstep (delay : nat) (s : stream) : stream * sout :=
  match s_req s with
  | QNone =>
      match try_decode (s_dec s) with
      | (m', RNeed rs) => ({| s_req := QOutstanding rs delay; s_dec := m' |}, SWork)
      | (m', RData b) => ({| s_req := QNone; s_dec := m' |}, SBatch b)
      | (m', RFinished) => ({| s_req := QDone; s_dec := m' |}, SEnd)
      | (m', _) => ({| s_req := QDone; s_dec := m' |}, SFail)
      end
  | QOutstanding rs (S d) => ({| s_req := QOutstanding rs d; s_dec := s_dec s |}, SPending)
  | QOutstanding rs O =>
      match push_data (s_dec s) rs (file_chunks file rs) with
      | Some m' => ({| s_req := QNone; s_dec := m' |}, SWork)
      | None => ({| s_req := QDone; s_dec := s_dec s |}, SFail)
      end
  | QDone => (s, SEnd)
  end.

(* the executor: polls until the stream ends; [delays] = how many times the i-th request's future
   returns Pending before it is ready (0 once the list is exhausted) *)
Fixpoint stream_collect (fuel : nat) (delays : list nat) (s : stream) : list Rw * bool :=
  match fuel with
  | O => ([], false)
  | S f =>
      match sstep (hd O delays) s with
      | (s', SBatch b) => let '(rows, fin) := stream_collect f delays s' in (b ++ rows, fin)
      | (_, SEnd) => ([], true)
      | (_, SFail) => ([], false)
      | (s', SPending) => stream_collect f delays s'
      | (s', SWork) => stream_collect f (match s_req s with QNone => tl delays | _ => delays end) s'
      end
  end.
End Async.

End Machine.

Arguments PNeed {Rw U}.
Arguments PFinish {Rw U}.
Arguments PData {Rw U}.
Arguments FStop {B R}.
Arguments FSkip {B R}.
Arguments FRead {B R}.
Arguments BNeed {Rw U}.
Arguments BFinish {Rw U}.
Arguments BData {Rw U}.
Arguments BError {Rw U}.
Arguments NNeed {Rw}.
Arguments NData {Rw}.
Arguments NFinished {Rw}.
Arguments NError {Rw}.
Arguments RGIdle {Rw U}.
Arguments RGWait {Rw U}.
Arguments DReading {Rw}.
Arguments DDecoding {Rw}.
Arguments DFinished {Rw}.
Arguments SPending {Rw}.
Arguments SBatch {Rw}.
Arguments SEnd {Rw}.
Arguments SWork {Rw}.
Arguments SFail {Rw}.
Arguments RNeed {Rw}.
Arguments RData {Rw}.
Arguments RReader {Rw}.
Arguments RFinished {Rw}.
Arguments RError {Rw}.
Arguments ENeed {Rw}.
Arguments EPush {Rw}.
Arguments EData {Rw}.
Arguments EReader {Rw}.
Arguments EFinished {Rw}.
Arguments EClear {Rw}.
Arguments ERebuild {Rw}.
Arguments EError {Rw}.
