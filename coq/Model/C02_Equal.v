(* C02 — model M of arrow-data's logical equality (arrow-data/src/equal/*.rs), following the Rust
   control flow: base_equal, null-count comparison, equal_nulls, then the per-type comparators with
   their fast paths (whole-slice comparison when the range holds no null, the 0.4 selectivity
   threshold between the per-slot loop and the valid-run loop, the byte-aligned fast path of booleans,
   the first-offset-zero shortcut of lengths_equal, offset-relative comparison of variable-size
   values, recursion into list / fixed-size list / struct children, dictionaries through keys, views,
   run-end encoded arrays through the stepping loop).
   The bit iterators the Rust code calls are represented by their list-of-bool specifications of
   property C19 (Model/C19_Bits.v: [runs] = BitSliceIterator, [positions] = BitIndexIterator,
   [bits_range] equality = BitChunks::iter_padded comparison), which C19 ties to the real iterators.
   Definitions only. *)
From Coq Require Import List Arith NArith ZArith Bool.
From AV Require Import Base.ListX Base.Bits Base.Bytes Model.C19_Bits Model.C09_Layout Model.C02_Logical.
Import ListNotations.

Fixpoint bits_eqb (p q : list bool) : bool :=
  match p, q with [], [] => true | u :: p', v :: q' => Bool.eqb u v && bits_eqb p' q' | _, _ => false end.
Fixpoint bytes_eqb (p q : list N) : bool :=
  match p, q with [], [] => true | u :: p', v :: q' => N.eqb u v && bytes_eqb p' q' | _, _ => false end.
Fixpoint zs_eqb (p q : list Z) : bool :=
  match p, q with [], [] => true | u :: p', v :: q' => Z.eqb u v && zs_eqb p' q' | _, _ => false end.

(* ------------------------------------------------------------------ utils.rs *)
(* validity bits of the range [start, start+len) of an array's null buffer (which has its own offset) *)
Definition nulls_bits (nb : nullbuf) (start len : nat) : list bool := bits_range (nb_bytes nb) (nb_off nb + start) len.
Definition is_null_at (nb : nullbuf) (i : nat) : bool := negb (nb_valid nb i).

(* equal_bits: BitChunks::iter_padded of both sides, zipped and compared *)
Definition equal_bits (l r : list N) (ls rs len : nat) : bool := bits_eqb (bits_range l ls len) (bits_range r rs len).

(* data.rs contains_nulls: the first maximal run of valid slots must cover the whole range *)
Definition contains_nulls (nulls : option nullbuf) (offset len : nat) : bool :=
  match nulls with
  | Some nb =>
      match runs (nulls_bits nb offset len) with
      | (s, e) :: _ => negb (Nat.eqb s 0) || negb (Nat.eqb e len)
      | [] => negb (Nat.eqb len 0)
      end
  | None => false
  end.
(* data.rs count_nulls *)
Definition count_nulls (nulls : option nullbuf) (offset len : nat) : nat :=
  match nulls with Some nb => count_false (nulls_bits nb offset len) | None => 0 end.

Definition equal_nulls (a b : parr) (ls rs len : nat) : bool :=
  match p_nulls a, p_nulls b with
  | Some ln, Some rn => equal_bits (nb_bytes ln) (nb_bytes rn) (nb_off ln + ls) (nb_off rn + rs) len
  | Some ln, None => negb (contains_nulls (Some ln) ls len)
  | None, Some rn => negb (contains_nulls (Some rn) rs len)
  | None, None => true
  end.

Definition null_count (a : parr) : nat := match p_nulls a with Some nb => nb_count nb | None => 0 end.
Definition base_equal (a b : parr) : bool := dty_eqb (p_ty a) (p_ty b) && Nat.eqb (p_len a) (p_len b).

(* equal_len: lhs[ls .. ls+len] == rhs[rs .. rs+len] (byte slices; Rust panics when out of range) *)
Definition equal_len (l r : list N) (ls rs len : nat) : bool :=
  bytes_eqb (firstn len (skipn ls l)) (firstn len (skipn rs r)).

(* ------------------------------------------------------------------ primitive.rs / fixed_binary.rs *)
(* NULL_SLICES_SELECTIVITY_THRESHOLD = 0.4 :  null_count / len >= 0.4  <=>  5 null_count >= 2 len *)
Definition selective (a : parr) : bool := (2 * p_len a <=? 5 * null_count a)%nat.

Definition primitive_equal (w : nat) (a b : parr) (ls rs len : nat) : bool :=
  let lv := skipn (p_off a * w) (buf a 0) in
  let rv := skipn (p_off b * w) (buf b 0) in
  if negb (contains_nulls (p_nulls a) ls len) then equal_len lv rv (ls * w) (rs * w) (len * w)
  else
    match p_nulls a, p_nulls b with
    | Some ln, Some rn =>
        if selective a then
          forallb (fun i =>
                     let lnull := is_null_at ln (ls + i) in
                     let rnull := is_null_at rn (rs + i) in
                     lnull || (Bool.eqb lnull rnull && equal_len lv rv ((ls + i) * w) ((rs + i) * w) w))
                  (seq 0 len)
        else
          forallb (fun p : (nat * nat) * (nat * nat) =>
                     let '((l_s, l_e), (r_s, r_e)) := p in
                     Nat.eqb l_s r_s && Nat.eqb l_e r_e &&
                     equal_len lv rv ((ls + l_s) * w) ((rs + r_s) * w) ((l_e - l_s) * w))
                  (List.combine (runs (nulls_bits ln ls len)) (runs (nulls_bits rn rs len)))
    | _, _ => false      (* rhs.nulls().unwrap(): not reachable after equal_nulls *)
    end.

(* ------------------------------------------------------------------ boolean.rs *)
Definition boolean_equal (a b : parr) (ls rs len : nat) : bool :=
  let lv := buf a 0 in
  let rv := buf b 0 in
  if negb (contains_nulls (p_nulls a) ls len) then
    if Nat.eqb (ls mod 8) 0 && Nat.eqb (rs mod 8) 0 && Nat.eqb (p_off a mod 8) 0 && Nat.eqb (p_off b mod 8) 0 then
      let quot := (len / 8)%nat in
      if (0 <? quot)%nat && negb (equal_len lv rv (ls / 8 + p_off a / 8) (rs / 8 + p_off b / 8) quot) then false
      else
        let rem := (len mod 8)%nat in
        if Nat.eqb rem 0 then true
        else let al := (len - rem)%nat in equal_bits lv rv (ls + al + p_off a) (rs + al + p_off b) rem
    else equal_bits lv rv (ls + p_off a) (rs + p_off b) len
  else
    match p_nulls a with
    | Some ln =>
        forallb (fun i => Bool.eqb (bit_at lv (ls + p_off a + i)) (bit_at rv (rs + p_off b + i)))
                (positions (nulls_bits ln ls len))
    | None => false
    end.

(* ------------------------------------------------------------------ variable_size.rs / list.rs *)
(* typed offsets slice  lhs.buffer::<T>(0)  starts at the array offset *)
Definition off_at (a : parr) (w i : nat) : Z := sle_at (buf a 0) w (p_off a + i).
Definition offs_range (a : parr) (w start n : nat) : list Z := map (fun i => off_at a w (start + i)) (seq 0 n).

Fixpoint diffs (l : list Z) : list Z :=
  match l with x :: ((y :: _) as r) => (y - x)%Z :: diffs r | _ => [] end.

Definition lengths_equal (l r : list Z) : bool :=
  match l with
  | [] => true
  | l0 :: _ =>
      if Z.eqb l0 0 && Z.eqb (hd 0%Z r) 0 then zs_eqb l r
      else forallb (fun p : Z * Z => Z.eqb (fst p) (snd p)) (List.combine (diffs l) (diffs r))
  end.

(* equal_len on positions taken from offsets; conversions to nat are guarded by the buffer length *)
Definition equal_len_z (l r : list N) (ls rs len : Z) : bool :=
  if (0 <=? ls)%Z then if (0 <=? rs)%Z then if (0 <=? len)%Z then
    if (ls + len <=? Z.of_nat (length l))%Z then if (rs + len <=? Z.of_nat (length r))%Z then
      equal_len l r (Z.to_nat ls) (Z.to_nat rs) (Z.to_nat len)
    else false else false else false else false else false.

Definition offset_value_equal (lv rv : list N) (a b : parr) (w lpos rpos len : nat) : bool :=
  let l_start := off_at a w lpos in
  let r_start := off_at b w rpos in
  let l_len := (off_at a w (lpos + len) - l_start)%Z in
  let r_len := (off_at b w (rpos + len) - r_start)%Z in
  if Z.eqb l_len 0 && Z.eqb r_len 0 then true
  else if Z.eqb l_len r_len then equal_len_z lv rv l_start r_start l_len else false.

Definition variable_sized_equal (w : nat) (a b : parr) (ls rs len : nat) : bool :=
  let lv := buf a 1 in
  let rv := buf b 1 in
  if negb (contains_nulls (p_nulls a) ls len) then
    if lengths_equal (offs_range a w ls (len + 1)) (offs_range b w rs (len + 1))
    then offset_value_equal lv rv a b w ls rs len else false
  else
    forallb (fun i =>
               let lnull := match p_nulls a with Some nb => is_null_at nb (ls + i) | None => false end in
               let rnull := match p_nulls b with Some nb => is_null_at nb (rs + i) | None => false end in
               lnull || (Bool.eqb lnull rnull && offset_value_equal lv rv a b w (ls + i) (rs + i) 1))
            (seq 0 len).

(* ------------------------------------------------------------------ byte_view.rs *)
(* NB the Rust loop tests  lhs.is_null(idx)  with idx relative to the compared range, not lhs_start+idx:
   transcribed as written *)
Definition byte_view_equal (a b : parr) (ls rs len : nat) : bool :=
  forallb (fun idx =>
             let l := le_at (buf a 0) 16 (p_off a + ls + idx) in
             let r := le_at (buf b 0) 16 (p_off b + rs + idx) in
             if negb (slot_valid a idx) then true
             else if negb (N.eqb (N.land l (N.ones 64)) (N.land r (N.ones 64))) then false
             else if (view_len l <=? 12)%N then N.eqb l r
             else bytes_eqb (skipn 4 (view_bytes (tl (p_bufs a)) l)) (skipn 4 (view_bytes (tl (p_bufs b)) r)))
          (seq 0 len).

(* ------------------------------------------------------------------ run.rs *)
Definition zmin (x y : Z) : Z := if (x <=? y)%Z then x else y.

Fixpoint run_loop (fuel : nat) (cmp1 : nat -> nat -> bool) (lends rends : list Z) (lo ro : Z)
         (lphys rphys : nat) (processed len : Z) : bool :=
  match fuel with
  | O => true
  | S f =>
      if (len <=? processed)%Z then true
      else if negb (cmp1 lphys rphys) then false
      else
        let l_run_end := nth lphys lends 0%Z in
        let r_run_end := nth rphys rends 0%Z in
        let step := zmin (zmin (l_run_end - (lo + processed)) (r_run_end - (ro + processed))) (len - processed) in
        let processed' := (processed + step)%Z in
        run_loop f cmp1 lends rends lo ro
                 (if Z.eqb (lo + processed') l_run_end then S lphys else lphys)
                 (if Z.eqb (ro + processed') r_run_end then S rphys else rphys)
                 processed' len
  end.

(* RunEndBuffer::sliced_values *)
Definition sliced_values (ends : list Z) (sp ep : nat) (off len : nat) : list Z :=
  map (fun e => zmin (Z.max (e - Z.of_nat off) 0) (Z.of_nat len)) (firstn (S ep - sp) (skipn sp ends)).

(* ------------------------------------------------------------------ mod.rs: equal_values / equal_range *)
(* run ends of a RunEndEncoded array as equal/run.rs reads them: the WHOLE run-ends buffer (the
   child's own offset is added to the logical offset instead) *)
Definition raw_run_ends (r : parr) (rw : nat) : list Z :=
  map (fun j => sle_at (nth 0 (p_bufs r) []) rw j) (seq 0 (length (nth 0 (p_bufs r) []) / rw)).

Fixpoint equal_values (a b : parr) (ls rs len : nat) {struct a} : bool :=
  match a with
  | PArr ty alen aoff anulls abufs akids =>
    match ty with
    | TNull => true
    | TBool => boolean_equal a b ls rs len
    | TFixed w => primitive_equal w a b ls rs len
    | TFixedBin n => primitive_equal (Z.to_nat n) a b ls rs len      (* fixed_binary.rs: same control flow *)
    | TBin large _ => variable_sized_equal (offw large) a b ls rs len
    | TView _ => byte_view_equal a b ls rs len
    | TList large _ _ =>
        let w := offw large in
        if Nat.eqb len 0 then true else
        let l_child_len := (off_at a w (ls + len) - off_at a w ls)%Z in
        let r_child_len := (off_at b w (rs + len) - off_at b w rs)%Z in
        if Z.eqb l_child_len 0 && Z.eqb l_child_len r_child_len then true else
        match akids, p_kids b with
        | ka :: _, kb :: _ =>
            let range := fun (s1 s2 n : Z) =>
              if (0 <=? s1)%Z then if (0 <=? s2)%Z then if (0 <=? n)%Z then
                if (s1 + n <=? Z.of_nat (p_len ka))%Z then if (s2 + n <=? Z.of_nat (p_len kb))%Z then
                  equal_nulls ka kb (Z.to_nat s1) (Z.to_nat s2) (Z.to_nat n) &&
                  equal_values ka kb (Z.to_nat s1) (Z.to_nat s2) (Z.to_nat n)
                else false else false else false else false else false in
            let lnc := count_nulls anulls ls len in
            let rnc := count_nulls (p_nulls b) rs len in
            if negb (Nat.eqb lnc rnc) then false
            else if Nat.eqb lnc 0 then
              if Z.eqb l_child_len r_child_len then
                if lengths_equal (offs_range a w ls len) (offs_range b w rs len)
                then range (off_at a w ls) (off_at b w rs) l_child_len else false
              else false
            else
              match anulls, p_nulls b with
              | Some ln, Some rn =>
                  forallb (fun i =>
                             let lnull := is_null_at ln (ls + i) in
                             let rnull := is_null_at rn (rs + i) in
                             if negb (Bool.eqb lnull rnull) then false else
                             let los := off_at a w (ls + i) in let loe := off_at a w (ls + i + 1) in
                             let ros := off_at b w (rs + i) in let roe := off_at b w (rs + i + 1) in
                             lnull || (if Z.eqb (loe - los)%Z (roe - ros)%Z then range los ros (loe - los)%Z else false))
                          (seq 0 len)
              | _, _ => false
              end
        | _, _ => false
        end
    | TFixedList n _ _ =>
        let size := Z.to_nat n in
        match akids, p_kids b with
        | ka :: _, kb :: _ =>
            let range := fun (s1 s2 m : nat) => equal_nulls ka kb s1 s2 m && equal_values ka kb s1 s2 m in
            if negb (contains_nulls anulls ls len) then range ((ls + aoff) * size) ((rs + p_off b) * size) (size * len)
            else
              match anulls, p_nulls b with
              | Some ln, Some rn =>
                  forallb (fun i =>
                             let lnull := is_null_at ln (ls + i) in
                             let rnull := is_null_at rn (rs + i) in
                             lnull || (Bool.eqb lnull rnull && range ((ls + i + aoff) * size) ((rs + i + p_off b) * size) size))
                          (seq 0 len)
              | _, _ => false
              end
        | _, _ => false
        end
    | TStruct _ =>
        (* equal_child_values: zip of the children, each compared by equal_range at the SAME positions
           (the struct's own offset is not added: ArrayData of a StructArray has offset 0) *)
        let children := fun (s1 s2 m : nat) =>
          (fix go (xs ys : list parr) : bool :=
             match xs, ys with
             | ka :: xs', kb :: ys' => equal_nulls ka kb s1 s2 m && equal_values ka kb s1 s2 m && go xs' ys'
             | _, _ => true
             end) akids (p_kids b) in
        if negb (contains_nulls anulls ls len) then children ls rs len
        else
          match anulls, p_nulls b with
          | Some ln, Some rn =>
              forallb (fun i =>
                         let lnull := is_null_at ln (ls + i) in
                         let rnull := is_null_at rn (rs + i) in
                         if negb (Bool.eqb lnull rnull) then false else lnull || children (ls + i) (rs + i) 1)
                      (seq 0 len)
          | _, _ => false
          end
    | TDict kw signed _ =>
        match akids, p_kids b with
        | ka :: _, kb :: _ =>
            let one := fun (i : nat) =>
              let lk := key_at (buf a 0) kw signed (aoff + ls + i) in
              let rk := key_at (buf b 0) kw signed (p_off b + rs + i) in
              if (0 <=? lk)%Z then if (0 <=? rk)%Z then
                if (lk <? Z.of_nat (p_len ka))%Z then if (rk <? Z.of_nat (p_len kb))%Z then
                  equal_nulls ka kb (Z.to_nat lk) (Z.to_nat rk) 1 && equal_values ka kb (Z.to_nat lk) (Z.to_nat rk) 1
                else false else false else false else false in
            if negb (contains_nulls anulls ls len) then forallb one (seq 0 len)
            else
              match anulls, p_nulls b with
              | Some ln, Some rn =>
                  forallb (fun i =>
                             let lnull := is_null_at ln (ls + i) in
                             let rnull := is_null_at rn (rs + i) in
                             lnull || (Bool.eqb lnull rnull && one i))
                          (seq 0 len)
              | _, _ => false
              end
        | _, _ => false
        end
    | TRee rw _ =>
        if Nat.eqb len 0 then true else
        match akids, p_kids b with
        | ra :: va :: _, rb :: vb :: _ =>
            let lends := raw_run_ends ra rw in
            let rends := raw_run_ends rb rw in
            let lo := (p_off ra + aoff + ls)%nat in
            let ro := (p_off rb + p_off b + rs)%nat in
            let range := fun (s1 s2 m : nat) => equal_nulls va vb s1 s2 m && equal_values va vb s1 s2 m in
            let lsp := phys_index lends lo in let lep := phys_index lends (lo + len - 1) in
            let rsp := phys_index rends ro in let rep := phys_index rends (ro + len - 1) in
            let l_runs := (lep - lsp + 1)%nat in let r_runs := (rep - rsp + 1)%nat in
            if Nat.eqb l_runs r_runs && zs_eqb (sliced_values lends lsp lep lo len) (sliced_values rends rsp rep ro len)
            then range lsp rsp l_runs
            else run_loop (S len) (fun p q => range p q 1) lends rends (Z.of_nat lo) (Z.of_nat ro) lsp rsp 0%Z (Z.of_nat len)
        | _, _ => false
        end
    | TListView _ _ _ | TUnion _ _ => false        (* not modelled (tier B) *)
    end
  end.

Definition equal_range (a b : parr) (ls rs len : nat) : bool :=
  equal_nulls a b ls rs len && equal_values a b ls rs len.

(* pub fn equal *)
Definition equal (a b : parr) : bool :=
  base_equal a b && Nat.eqb (null_count a) (null_count b) &&
  equal_nulls a b 0 0 (p_len a) && equal_values a b 0 0 (p_len a).

(* types the model covers *)
Fixpoint equal_modelled (t : dty) : bool :=
  match t with
  | TNull | TBool | TFixed _ | TFixedBin _ | TBin _ _ | TView _ => true
  | TList _ _ c | TFixedList _ _ c | TDict _ _ c | TRee _ c => equal_modelled c
  | TStruct fs => (fix go (l : list (bool * dty)) : bool := match l with [] => true | (_, t) :: r => equal_modelled t && go r end) fs
  | TListView _ _ _ | TUnion _ _ => false
  end.
