(* C07 — split-block bloom filter, transcribed from parquet/src/bloom_filter/mod.rs:
   SALT, Block::mask / insert / check, Sbbf::hash_to_block_index / insert_hash / check_hash,
   fold_n, optimal_num_of_bytes / new_with_num_of_bytes, new (from the LE bitset), write_bitset.
   A block is a list of 8 u32 words (N); a filter is a list of blocks.  Hashes are u64 (N).
   The XXH64 hash itself (crate twox-hash) is outside the model: operations take hashes. *)
From Coq Require Import List NArith Arith Bool.
Import ListNotations.
Local Open Scope N_scope.

Notation block := (list N).
Notation sbbf := (list (list N)).

Definition SALT : list N :=
  [ 1203114875; 1150766481; 2284105051; 2729912477; 1884591559; 770785867; 2667333959; 1550580529 ].
  (* 0x47b6137b 0x44974d91 0x8824ad5b 0xa2b7289d 0x705495c7 0x2df1424b 0x9efc4947 0x5c6bfb31 *)

(* Block::mask: word i = 1 << ((x wrapping_mul SALT[i]) >> 27) *)
Definition mask_word (x s : N) : N := 2 ^ (((x * s) mod 2^32) / 2^27).
Definition mask (x : N) : block := map (mask_word x) SALT.

Fixpoint map2 {A B C} (f : A -> B -> C) (a : list A) (b : list B) : list C :=
  match a, b with
  | x :: a', y :: b' => f x y :: map2 f a' b'
  | _, _ => []
  end.

Definition block_or (a b : block) : block := map2 N.lor a b.
Definition block_zero : block := repeat 0 8.

(* Block::insert: self[i] |= mask[i] *)
Definition block_insert (b : block) (h32 : N) : block := block_or b (mask h32).
(* Block::check: every word shares a bit with the mask *)
Definition block_check (b : block) (h32 : N) : bool :=
  forallb (fun x => negb (x =? 0)) (map2 N.land b (mask h32)).

(* hash_to_block_index: ((hash >> 32).saturating_mul(len) >> 32) *)
Definition sat_mul64 (a b : N) : N := N.min (a * b) (2^64 - 1).
Definition block_index (nblocks : nat) (h : N) : nat :=
  N.to_nat (sat_mul64 (h / 2^32) (N.of_nat nblocks) / 2^32).

Fixpoint upd {A} (l : list A) (i : nat) (f : A -> A) : list A :=
  match l, i with
  | [], _ => []
  | x :: r, O => f x :: r
  | x :: r, S j => x :: upd r j f
  end.

(* insert_hash / check_hash: `hash as u32` is the low half *)
Definition insert_hash (f : sbbf) (h : N) : sbbf :=
  upd f (block_index (length f) h) (fun b => block_insert b (h mod 2^32)).
Definition check_hash (f : sbbf) (h : N) : bool :=
  block_check (nth (block_index (length f) h) f []) (h mod 2^32).

Definition sbbf_new (nblocks : nat) : sbbf := repeat block_zero nblocks.

(* optimal_num_of_bytes + new_with_num_of_bytes: clamp to [32, 128 MiB], next power of two, /32 *)
Fixpoint next_pow2_from (fuel : nat) (p n : N) : N :=
  match fuel with O => p | S f => if n <=? p then p else next_pow2_from f (2 * p) n end.
Definition next_power_of_two (n : N) : N := next_pow2_from 64 1 n.
Definition optimal_num_of_bytes (nb : N) : N :=
  next_power_of_two (N.max (N.min nb (128 * 1024 * 1024)) 32).
Definition num_blocks_for_bytes (nb : N) : nat := N.to_nat (optimal_num_of_bytes nb / 32).

(* fold_n (mod.rs:687): new[i] = OR of the group of 2^k adjacent blocks starting at i*2^k
   (the Rust loop writes new[i] in place into self.0[i]; i*group >= i so sources are never
   overwritten before they are read, except source 0 of group 0 which is its own destination). *)
Fixpoint or_all (acc : block) (l : list block) : block :=
  match l with [] => acc | b :: r => or_all (block_or acc b) r end.
Definition or_group (g : list block) : block :=
  match g with [] => [] | b :: r => or_all b r end.
Fixpoint fold_groups (n : nat) (g : nat) (f : sbbf) : sbbf :=
  match n with
  | O => []
  | S n' => or_group (firstn g f) :: fold_groups n' g (skipn g f)
  end.
Definition fold_n (k : nat) (f : sbbf) : sbbf :=
  let g := Nat.pow 2 k in fold_groups (length f / g) g f.

(* Sbbf::new(bitset) / write_bitset: words are little-endian u32 *)
Fixpoint le32 (bs : list N) : N :=
  match bs with [] => 0 | b :: r => b + 256 * le32 r end.
Fixpoint words_of_bytes (fuel : nat) (bs : list N) : list N :=
  match fuel with
  | O => []
  | S f => match bs with
           | b0 :: b1 :: b2 :: b3 :: r => le32 [b0; b1; b2; b3] :: words_of_bytes f r
           | _ => []
           end
  end.
Fixpoint blocks_of_words (fuel : nat) (ws : list N) : sbbf :=
  match fuel with
  | O => []
  | S f => match ws with
           | w0 :: w1 :: w2 :: w3 :: w4 :: w5 :: w6 :: w7 :: r => [w0; w1; w2; w3; w4; w5; w6; w7] :: blocks_of_words f r
           | _ => []
           end
  end.
Definition sbbf_of_bytes (bs : list N) : sbbf :=
  blocks_of_words (length bs) (words_of_bytes (length bs) bs).
Definition bytes_of_word (w : N) : list N :=
  [w mod 256; (w / 256) mod 256; (w / 65536) mod 256; (w / 16777216) mod 256].
Definition bytes_of_sbbf (f : sbbf) : list N := flat_map (flat_map bytes_of_word) f.
