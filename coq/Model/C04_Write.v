(* C04 — the body of a record / dictionary batch, byte for byte: arrow-ipc/src/writer.rs
   [write_array_data] on a physical array (the ArrayData a typed array hands to the writer), with every
   per-type path: validity bitmap (re-packed when the bit offset is not byte aligned, all-ones when
   absent), [get_or_truncate_buffer], boolean re-packing, [get_byte_array_buffers] /
   [get_list_array_buffers] (offset re-basing), [get_list_view_array_buffers], FixedSizeList child slicing,
   the "else" branch (Struct / Union: buffers as they are), [unslice_run_array] /
   [into_zero_offset_run_array], and [ArrayData::slice] for the child slices it takes.
   An array under construction is a VIEW (a, s, l) = ArrayData::slice(a, s, l); [proper] marks a slice taken
   at the Array level (RunArray values), which also slices union type ids / offsets / sparse children.
   Output: field nodes (length, null_count) and buffers (bytes, before padding / compression).
   Definitions only. *)
From Coq Require Import List Arith NArith ZArith Bool.
From AV Require Import Base.Bytes Model.C19_Bits Model.C09_Layout Model.C04_Walk Model.C04_Rebase.
Import ListNotations.

Definition ceil8 (n : nat) : nat := (n + 7) / 8.

(* Buffer::bit_slice(offset, len): byte-aligned offsets share the bytes (whatever follows the last bit
   included); otherwise the bits are re-packed from bit 0 and the tail of the last byte is zero *)
Definition bit_slice (b : list N) (off len : nat) : list N :=
  if Nat.eqb (off mod 8) 0 then firstn (ceil8 len) (skipn (off / 8) b)
  else bytes_of_bits (ceil8 len) (bits_range b off len).

Definition slice_bytes_len (b : list N) (start len : nat) : list N := firstn len (skipn start b).

(* offsets of a variable-size layout as integers, and back to little-endian bytes *)
Definition offs_of (b : list N) (w : nat) : list Z := map (fun i => sle_at b w i) (seq 0 (length b / w)).
Definition enc_offs (w : nat) (l : list Z) : list N := flat_map (fun z => le_bytes w (Z.to_N z)) l.

(* reencode_offsets on bytes: a zero first offset shares the original bytes, otherwise the re-based
   offsets are re-encoded; returns (offset bytes, start, length of the addressed value range) *)
Definition reencode_bytes (b : list N) (w off len : nat) : list N * nat * nat :=
  let '(o', start, n) := reencode_offsets (offs_of b w) off len in
  ((if Nat.eqb start 0 then slice_bytes_len b (off * w) ((len + 1) * w) else enc_offs w o'), start, n).

Definition null_count_view (a : parr) (s l : nat) : nat :=
  match p_ty a with
  | TNull => l
  | _ => match p_nulls a with None => 0 | Some nb => count_false (bits_range (nb_bytes nb) (nb_off nb + s) l) end
  end.
(* An ArrayData::slice keeps the (sliced) null buffer; an Array-level slice followed by into_data() drops a null
   buffer without nulls (ArrayDataBuilder filters null_count = 0), and the writer then emits all-ones bytes *)
Definition validity_view (a : parr) (s l : nat) (proper : bool) : list N :=
  match p_nulls a with
  | None => repeat 255%N (ceil8 l)
  | Some nb =>
      if proper && Nat.eqb (count_false (bits_range (nb_bytes nb) (nb_off nb + s) l)) 0 then repeat 255%N (ceil8 l)
      else bit_slice (nb_bytes nb) (nb_off nb + s) l
  end.

(* RunEndBuffer::get_physical_index(x) with logical offset folded in: number of run ends <= x *)
Definition phys_index (ends : list Z) (x : nat) : nat := length (filter (fun e => (e <=? Z.of_nat x)%Z) ends).

Notation wout := (list (nat * nat) * list (list N))%type.
Definition wcat (x y : wout) : wout := (fst x ++ fst y, snd x ++ snd y).
Definition wconcat (l : list wout) : wout := fold_right wcat ([], []) l.

Fixpoint w_arr (fuel : nat) (v5 : bool) (a : parr) (s l : nat) (proper : bool) {struct fuel} : wout :=
  match fuel with O => ([], []) | S f =>
  let ty := p_ty a in
  let off := p_off a + s in
  let node := (l, null_count_view a s l) in
  let pre : wout := ([node], if has_validity ty v5 then [validity_view a s l proper] else []) in
  let kid (i : nat) := nth i (p_kids a) (PArr TNull 0 0 None [] []) in
  match ty with
  | TNull => pre
  | TBool => wcat pre ([], [bit_slice (buf a 0) off l])
  | TFixed w => wcat pre ([], [truncate_fixed (buf a 0) w off l])
  | TFixedBin n => wcat pre ([], [truncate_fixed (buf a 0) (Z.to_nat n) off l])
  | TDict kw _ _ => wcat pre ([], [truncate_fixed (buf a 0) kw off l])
  | TBin large _ =>
      let w := offw large in
      if Nat.eqb l 0 then wcat pre ([], [le_bytes w 0; []])
      else let '(ob, start, n) := reencode_bytes (buf a 0) w off l in
           wcat pre ([], [ob; slice_bytes_len (buf a 1) start n])
  | TView _ => wcat pre ([], truncate_fixed (buf a 0) 16 off l :: tl (p_bufs a))
  | TList large _ _ =>
      let w := offw large in
      if Nat.eqb l 0 then wcat (wcat pre ([], [le_bytes w 0])) (w_arr f v5 (kid 0) 0 0 false)
      else let '(ob, start, n) := reencode_bytes (buf a 0) w off l in
           wcat (wcat pre ([], [ob])) (w_arr f v5 (kid 0) start n false)
  | TListView large _ _ =>
      let w := offw large in
      if Nat.eqb l 0 then wcat (wcat pre ([], [[]; []])) (w_arr f v5 (kid 0) 0 0 false)
      else wcat (wcat pre ([], [slice_bytes_len (buf a 0) (off * w) (l * w); slice_bytes_len (buf a 1) (off * w) (l * w)]))
                (w_arr f v5 (kid 0) 0 (p_len (kid 0)) false)
  | TFixedList n _ _ =>
      let k := Z.to_nat n in
      (* the writer cuts the child with ArrayData::slice(offset*k, len*k); when this array is itself an Array-level
         slice (RunArray values), FixedSizeListArray::slice has already cut the child at the Array level and
         into_data() dropped a child null buffer without nulls in the range: the kind of slice is inherited *)
      wcat pre (w_arr f v5 (kid 0) (off * k) (l * k) proper)
  | TStruct _ =>
      (* ArrayData::slice of a struct slices its children; the struct's own offset is not used *)
      wcat pre (wconcat (map (fun c => w_arr f v5 c s l proper) (p_kids a)))
  | TUnion dense _ =>
      if proper then
        (* UnionArray::slice: type ids / offsets sliced, sparse children sliced, dense children whole *)
        wcat pre (wcat ([], slice_bytes_len (buf a 0) off l :: (if dense then [slice_bytes_len (buf a 1) (off * 4) (l * 4)] else []))
                       (wconcat (map (fun c => if dense then w_arr f v5 c 0 (p_len c) false else w_arr f v5 c off l true) (p_kids a))))
      else
        (* "else" branch on an ArrayData::slice: every buffer and every child as they are *)
        wcat pre (wcat ([], p_bufs a) (wconcat (map (fun c => w_arr f v5 c 0 (p_len c) false) (p_kids a))))
  | TRee rw _ =>
      let re := kid 0 in let vals := kid 1 in
      let ends := map (fun i => sle_at (buf re 0) rw (p_off re + i)) (seq 0 (p_len re)) in
      let maxv := Z.to_nat (last ends 0%Z) in
      if Nat.eqb off 0 && Nat.eqb maxv l then
        wcat pre (wcat (w_arr f v5 re 0 (p_len re) false) (w_arr f v5 vals 0 (p_len vals) false))
      else
        let startp := if Nat.eqb off 0 || Nat.eqb l 0 then 0 else phys_index ends off in
        let endp := if Nat.eqb l 0 then 0 else if Nat.eqb maxv (off + l) then length ends - 1 else phys_index ends (off + l - 1) in
        let plen := endp - startp + 1 in
        let new_ends := map (fun e => (e - Z.of_nat off)%Z) (firstn (endp - startp) (skipn startp ends)) ++ [Z.of_nat l] in
        (* the new run-ends array: no nulls, written as a primitive *)
        let re_out : wout := ([(plen, 0)], [repeat 255%N (ceil8 plen); flat_map (fun z => le_bytes rw (Z.to_N (z mod 2 ^ Z.of_nat (8 * rw)))) new_ends]) in
        wcat pre (wcat re_out (w_arr f v5 vals startp plen true))
  end end.

Fixpoint depth (a : parr) : nat :=
  match a with PArr _ _ _ _ _ kids => S (fold_right (fun k acc => Nat.max (depth k) acc) 0 kids) end.
(* a column as the writer receives it: array.to_data(), not a slice *)
Definition w_column (v5 : bool) (a : parr) : wout := w_arr (S (depth a)) v5 a 0 (p_len a) false.

(* variadic counts of a column (append_variadic_buffer_counts on the physical array) *)
Fixpoint var_counts (a : parr) : list nat :=
  match a with PArr ty _ _ _ bufs kids =>
    match ty with
    | TView _ => [length bufs - 1]
    | TDict _ _ _ => []
    | _ => flat_map var_counts kids
    end
  end.

(* dictionaries of a column in encode_dictionaries order: nested ones first *)
Fixpoint dict_values (a : parr) : list parr :=
  match a with PArr ty _ _ _ _ kids =>
    match ty, kids with
    | TDict _ _ _, (PArr _ _ _ _ _ vk as v) :: _ => flat_map dict_values vk ++ [v]
    | _, _ => flat_map dict_values kids
    end
  end.

(* the array tree has the shape of its type: one child per nested field, of that field's type *)
Fixpoint shaped (t : dty) (a : parr) {struct t} : Prop :=
  p_ty a = t /\
  match t with
  | TList _ _ c | TListView _ _ c | TFixedList _ _ c => exists k, p_kids a = [k] /\ shaped c k
  | TStruct fs =>
      (fix go (fs : list (bool * dty)) (ks : list parr) : Prop :=
         match fs, ks with
         | [], [] => True
         | f :: fs', k :: ks' => shaped (snd f) k /\ go fs' ks'
         | _, _ => False
         end) fs (p_kids a)
  | TUnion dense fs =>
      length (p_bufs a) = (if dense then 2 else 1) /\
      (fix go (fs : list (Z * dty)) (ks : list parr) : Prop :=
         match fs, ks with
         | [], [] => True
         | f :: fs', k :: ks' => shaped (snd f) k /\ go fs' ks'
         | _, _ => False
         end) fs (p_kids a)
  | TRee rw v => exists r k, p_kids a = [r; k] /\ p_ty r = TFixed rw /\ p_kids r = [] /\ shaped v k
  | TView _ => p_bufs a <> []
  | TDict _ _ _ => True
  | _ => p_kids a = []
  end.

