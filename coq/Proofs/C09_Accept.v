(* C09: acceptance by the transcribed validator implies acceptance by the specification
   validator (node level), for the covered data types. *)
From Coq Require Import List Arith NArith ZArith Lia Bool ZifyN ZifyNat ZifyBool.
From AV Require Import Base.ListX Base.Bytes Model.C19_Bits Model.C09_Layout Model.C09_Validate Proofs.C09_Tree.
Import ListNotations.
Ltac Zify.zify_post_hook ::= Z.div_mod_to_equations.

(* physical realisability: every buffer is shorter than the address space *)
Definition phys (a : parr) : bool :=
  forallb (fun b => (blen b <? usize_max)%N) (p_bufs a) &&
  match p_nulls a with Some nb => (blen (nb_bytes nb) <? usize_max)%N | None => true end.

Ltac split_andb :=
  repeat match goal with
  | H : (_ && _)%bool = true |- _ =>
      let H1 := fresh "Hc" in let H2 := fresh "Hc" in
      apply andb_true_iff in H; destruct H as [H1 H2]
  end.

Lemma checked_add_some a b c : checked_add a b = Some c -> c = (a + b)%N /\ (a + b <= usize_max)%N.
Proof. unfold checked_add. destruct (N.leb_spec (a + b) usize_max) as [Hl|Hl]; intros H; inversion H; lia. Qed.
Lemma checked_mul_some a b c : checked_mul a b = Some c -> c = (a * b)%N /\ (a * b <= usize_max)%N.
Proof. unfold checked_mul. destruct (N.leb_spec (a * b) usize_max) as [Hl|Hl]; intros H; inversion H; lia. Qed.

Lemma sat_mul_le lpo w b : (b < usize_max)%N -> (saturating_mul lpo w <=? b)%N = true -> (lpo * w <= b)%N.
Proof. unfold saturating_mul. intros Hb H. apply N.leb_le in H. lia. Qed.

(* ---- validity bitmap *)
Lemma spec_nulls_of_impl a lpo :
  checked_add (N.of_nat (p_len a)) (N.of_nat (p_off a)) = Some lpo ->
  match p_nulls a with
  | None => true
  | Some nb =>
      (nb_count nb <=? p_len a)%nat && (nceil8 lpo <=? blen (nb_bytes nb))%N && Nat.eqb (nb_len nb) (p_len a) &&
      (nb_off nb + nb_len nb <=? 8 * length (nb_bytes nb))%nat
  end = true ->
  match p_nulls a with None => true | Some nb => Nat.eqb (count_false (nb_bits nb)) (nb_count nb) end = true ->
  spec_nulls a = true.
Proof.
  intros _ H1 H2. unfold spec_nulls. destruct (p_nulls a) as [nb|]; [|reflexivity].
  split_andb.
  repeat (apply andb_true_iff; split).
  - assumption.
  - apply Nat.leb_le. match goal with H : (_ <=? 8 * _)%nat = true |- _ => apply Nat.leb_le in H end. lia.
  - apply Nat.eqb_eq. apply Nat.eqb_eq in H2. lia.
Qed.

(* ---- offsets *)
Lemma last_default_irrel {A} (l : list A) d d' : l <> [] -> last l d = last l d'.
Proof. induction l as [|x [|y r] IH]; intros H; [congruence|reflexivity|]. cbn [last] in *. apply IH. discriminate. Qed.

Lemma each_offset_spec limit check : forall offs start first,
  each_offset limit check start first offs = true ->
  monotone_from start offs = true /\ (last offs start <= limit \/ offs = [])%Z /\ Forall (fun x => (x <= limit)%Z) offs.
Proof.
  induction offs as [|x r IH]; intros start first H; cbn [each_offset monotone_from] in *.
  - repeat split; auto.
  - destruct ((0 <=? x)%Z && (x <=? limit)%Z && (start <=? x)%Z)%bool eqn:Eg; [|discriminate].
    split_andb.
    match goal with H : each_offset _ _ _ _ _ = true |- _ => destruct (IH _ _ H) as (M & L & F) end.
    repeat split.
    + apply andb_true_iff; split; assumption.
    + left. destruct r as [|y r']; [cbn [last]; lia|]. destruct L as [L|L]; [|discriminate].
      change (last (x :: y :: r') start) with (last (y :: r') start).
      rewrite (last_default_irrel (y :: r') start x) by discriminate. exact L.
    + constructor; [lia|exact F].
Qed.

Lemma offsets_of_nonempty a w : offsets_of a w <> [].
Proof. unfold offsets_of. cbn [seq map]. discriminate. Qed.

Lemma typed_offsets_size a w offs : typed_offsets a w = Some offs -> offs <> [] ->
  offs = offsets_of a w /\ ((p_off a + p_len a + 1) * w <= length (buf a 0))%nat.
Proof.
  unfold typed_offsets. destruct (Nat.eqb (p_len a) 0 && Nat.eqb (length (buf a 0)) 0)%bool; [intros H; inversion H; congruence|].
  destruct (checked_add (N.of_nat (p_len a)) 1) as [l|] eqn:E1; [|discriminate].
  unfold typed_buffer_ok.
  destruct (checked_add l (N.of_nat (p_off a))) as [req|] eqn:E2; [|discriminate].
  destruct (checked_mul req (N.of_nat w)) as [bytes|] eqn:E3; [|discriminate].
  destruct (N.leb_spec bytes (blen (buf a 0))) as [Hle|]; [|discriminate].
  intros H _. inversion H; subst. split; [reflexivity|].
  apply checked_add_some in E1, E2. apply checked_mul_some in E3. unfold blen in Hle. lia.
Qed.

Lemma spec_offsets_of_impl a w limit check :
  validate_each_offset a w limit check = true -> spec_offsets a w limit = true.
Proof.
  unfold validate_each_offset, spec_offsets.
  destruct (typed_offsets a w) as [offs|] eqn:Et; [|discriminate].
  intros H. destruct (Nat.eqb (p_len a) 0 && Nat.eqb (length (buf a 0)) 0)%bool eqn:Ee; [reflexivity|].
  assert (Hne : offs <> []).
  { unfold typed_offsets in Et. rewrite Ee in Et.
    destruct (checked_add _ 1); [|discriminate]. destruct (typed_buffer_ok _ _ _ _); inversion Et. apply offsets_of_nonempty. }
  destruct (typed_offsets_size a w offs Et Hne) as [-> Hsz].
  destruct (each_offset_spec _ _ _ _ _ H) as (M & L & _).
  apply andb_true_iff; split; [apply andb_true_iff; split|].
  - apply Nat.leb_le. exact Hsz.
  - exact M.
  - apply Z.leb_le. destruct L as [L|L]; [|contradiction]. exact L.
Qed.

(* ---- run ends *)
Lemma run_ends_ok_spec : forall l prev first z,
  run_ends_ok prev first l = (true, z) -> (first = true -> prev = 0%Z) ->
  strictly_increasing_pos prev l = true /\ z = last l prev.
Proof.
  induction l as [|x r IH]; intros prev first z H Hf; cbn [run_ends_ok strictly_increasing_pos last] in *.
  - inversion H. auto.
  - destruct ((0 <? x)%Z && (first || (prev <? x)%Z))%bool eqn:E; [|discriminate].
    apply andb_true_iff in E. destruct E as [E1 E2].
    destruct (IH x false z H ltac:(discriminate)) as [S L].
    assert (Hp : (prev <? x)%Z = true).
    { destruct first; [rewrite (Hf eq_refl); exact E1 | exact E2]. }
    split; [apply andb_true_iff; split; assumption|].
    destruct r as [|y r']; [cbn in L; exact L|].
    rewrite L. apply last_default_irrel. discriminate.
Qed.

(* ---- non-nullable children *)
Lemma count_false_0_all l : count_false l = 0%nat -> forall m,
  forallb (fun p : bool * bool => negb (fst p) || snd p) (List.combine m l) = true.
Proof.
  unfold count_false. induction l as [|b l IH]; intros H m; [destruct m; reflexivity|].
  destruct m as [|x m]; [reflexivity|]. cbn [List.combine forallb fst snd].
  destruct b; cbn [filter negb] in H; [|discriminate].
  rewrite orb_true_r. cbn [andb]. apply IH. exact H.
Qed.

Definition kid_counts_ok (k : parr) : bool :=
  match p_nulls k with None => true | Some nb => Nat.eqb (count_false (nb_bits nb)) (nb_count nb) end.

Lemma node_ok_counts k : node_ok k = true -> kid_counts_ok k = true.
Proof.
  unfold node_ok, node_nulls, kid_counts_ok. intros H. split_andb. assumption.
Qed.

Lemma non_nullable_spec mask k : kid_counts_ok k = true ->
  validate_non_nullable mask k = true -> child_nulls_within 0 mask k = true.
Proof.
  unfold kid_counts_ok, validate_non_nullable, child_nulls_within. intros Hc H.
  destruct (p_nulls k) as [nb|]; [|reflexivity].
  apply Nat.eqb_eq in Hc.
  destruct mask as [m|].
  - cbn [skipn]. apply orb_true_iff in H. destruct H as [H|H].
    + apply Nat.eqb_eq in H. apply count_false_0_all. lia.
    + exact H.
  - apply Nat.eqb_eq in H. apply Nat.eqb_eq. lia.
Qed.

(* data types for which acceptance => specification validity is proved at node level *)
Definition covered (a : parr) : bool :=
  match p_ty a with
  | TNull | TBool | TFixed _ | TFixedBin _ => true
  | TBin _ utf8 => negb utf8
  | TList _ _ _ | TListView _ _ _ | TDict _ _ _ | TRee _ _ => true
  | TFixedList _ nullable _ => nullable || Nat.eqb (p_off a) 0
  | TStruct _ => Nat.eqb (p_off a) 0
  | _ => false
  end.

Lemma length1 {A} (l : list A) : length l = 1%nat -> exists x, l = [x].
Proof. destruct l as [|x [|y r]]; cbn; intros H; try lia. eauto. Qed.
Lemma length2 {A} (l : list A) : length l = 2%nat -> exists x y, l = [x; y].
Proof. destruct l as [|x [|y [|z r]]]; cbn; intros H; try lia. eauto. Qed.
Lemma length0 {A} (l : list A) : length l = 0%nat -> l = [].
Proof. destruct l; cbn; intros; [reflexivity|lia]. Qed.
