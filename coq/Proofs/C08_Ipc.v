(* C08 — proofs about the node / buffer cursor walk of Model/C08_Ipc.v *)
From Coq Require Import List NArith ZArith Bool Lia.
From AV Require Import Model.C08_Ipc.
Import ListNotations.
Local Open Scope Z_scope.

(* ------------------------------------------------------------------ the bounds guard of read_buffer *)
Lemma as_usize_range x : 0 <= as_usize x < 2^64.
Proof. unfold as_usize. apply Z.mod_pos_bound. reflexivity. Qed.

(* the i64 range is what the flatbuffers Buffer struct provides *)
Definition i64 (x : Z) : Prop := - 2^63 <= x < 2^63.

Lemma as_usize_nonneg x : i64 x -> 0 <= x -> as_usize x = x.
Proof. intros [H1 H2] H. unfold as_usize. apply Z.mod_small. lia. Qed.

Lemma as_usize_neg x : i64 x -> x < 0 -> as_usize x = x + 2^64.
Proof. intros [H1 H2] H. unfold as_usize. symmetry. apply (Z.mod_unique x (2^64) (-1) (x + 2^64)); lia. Qed.

Theorem buffer_guard_sound body off len : 0 <= body < 2^63 -> i64 off -> i64 len ->
  buffer_in_bounds body (off, len) = true -> 0 <= off /\ 0 <= len /\ off + len <= body.
Proof.
  intros Hb Ho Hl H. unfold buffer_in_bounds, sat_add in H. cbn [fst snd] in H. apply Z.leb_le in H.
  destruct (Z.lt_ge_cases off 0) as [Hn|Hp].
  - rewrite (as_usize_neg off Ho Hn) in H. pose proof (as_usize_range len). unfold i64 in *. lia.
  - rewrite (as_usize_nonneg off Ho Hp) in H.
    destruct (Z.lt_ge_cases len 0) as [Hn|Hp2].
    + rewrite (as_usize_neg len Hl Hn) in H. unfold i64 in *. lia.
    + rewrite (as_usize_nonneg len Hl Hp2) in H. lia.
Qed.

Theorem buffer_guard_complete body off len : 0 <= off -> 0 <= len -> off + len <= body -> body < 2^63 ->
  buffer_in_bounds body (off, len) = true.
Proof.
  intros. unfold buffer_in_bounds, sat_add. cbn [fst snd]. apply Z.leb_le.
  rewrite !as_usize_nonneg by (unfold i64; lia). lia.
Qed.

(* ------------------------------------------------------------------ cursors *)
Definition in_bounds_all body (l : list (Z * Z)) : Prop := Forall (fun b => buffer_in_bounds body b = true) l.

Lemma next_buffers_pass k : forall body s s', next_buffers k body s = (Pass, s') ->
  nodes s' = nodes s /\ exists used, bufs s = used ++ bufs s' /\ length used = k /\ in_bounds_all body used.
Proof.
  induction k as [|k IH]; intros body s s'; cbn [next_buffers].
  - intros H; inversion H; subst. split; [reflexivity|]. exists []. repeat split. constructor.
  - destruct (bufs s) as [|b r] eqn:Eb; [discriminate|].
    destruct (buffer_in_bounds body b) eqn:Ei; [|discriminate].
    intros H. apply IH in H. cbn [nodes bufs] in H. destruct H as [Hn [used [Hu [Hl Hf]]]].
    split; [exact Hn|]. exists (b :: used). repeat split.
    + cbn. now rewrite Hu.
    + cbn. now rewrite Hl.
    + constructor; assumption.
Qed.

Lemma next_buffers_never_passes_short k body s : (length (bufs s) < k)%nat -> fst (next_buffers k body s) <> Pass.
Proof.
  revert s. induction k as [|k IH]; intros s Hl; [lia|]. cbn [next_buffers].
  destruct (bufs s) as [|b r] eqn:Eb; [cbn; discriminate|].
  destruct (buffer_in_bounds body b); [|cbn; discriminate].
  apply IH. cbn [bufs]. cbn in Hl. lia.
Qed.

Lemma finish_gen_pass ok r s' : finish_gen ok r = (Pass, s') -> r = (Pass, s') /\ ok = true.
Proof.
  unfold finish_gen. destruct r as [e s]. destruct e; try discriminate.
  destruct ok; [|discriminate]. intros H; inversion H; subst. split; reflexivity.
Qed.
Lemma finish_pass n vb r s' : finish n vb r = (Pass, s') -> r = (Pass, s') /\ validity_ok n vb = true.
Proof. apply finish_gen_pass. Qed.

(* a successful walk of one field consumed exactly the nodes and buffers its type prescribes, every buffer in bounds *)
Definition walk_ok (t : fty) : Prop := forall body s s', walk t body s = (Pass, s') ->
  exists un ub, nodes s = un ++ nodes s' /\ bufs s = ub ++ bufs s' /\
                length un = n_nodes t /\ length ub = n_bufs t /\ in_bounds_all body ub.

Lemma in_bounds_app body a b : in_bounds_all body a -> in_bounds_all body b -> in_bounds_all body (a ++ b).
Proof. intros. apply Forall_app. split; assumption. Qed.

Lemma walk_prim k t : (t = FPrim /\ k = 2%nat) \/ (t = FBin /\ k = 3%nat) -> walk_ok t.
Proof.
  intros Hk body s s'.
  assert (G : match next_node s with None => (CursorErr, s) | Some (n, s1) => finish n (first_buf s1) (next_buffers k body s1) end = (Pass, s') ->
    exists un ub, nodes s = un ++ nodes s' /\ bufs s = ub ++ bufs s' /\ length un = 1%nat /\ length ub = k /\ in_bounds_all body ub).
  { unfold next_node. destruct (nodes s) as [|n r] eqn:En; [discriminate|].
    intros H. apply finish_pass in H. destruct H as [H _].
    apply next_buffers_pass in H. cbn [nodes bufs] in H. destruct H as [Hn [used [Hu [Hl Hf]]]].
    exists [n], used. rewrite Hn. repeat split; auto. }
  destruct Hk as [[-> ->]|[-> ->]]; cbn [walk n_nodes n_bufs]; exact G.
Qed.

Lemma walk_null : walk_ok FNull.
Proof.
  intros body s s'. cbn [walk]. unfold next_node. destruct (nodes s) as [|[l c] r] eqn:En; [discriminate|].
  destruct (l =? c); [|discriminate]. intros H; inversion H; subst. cbn [nodes bufs].
  exists [(l, c)], []. repeat split; auto. constructor.
Qed.

Lemma walk_wrap k c : walk_ok c -> forall body s s',
  match next_node s with None => (CursorErr, s) | Some (n, s1) =>
    match next_buffers k body s1 with (Pass, s2) => finish n (first_buf s1) (walk c body s2) | r => r end end = (Pass, s') ->
  exists un ub, nodes s = un ++ nodes s' /\ bufs s = ub ++ bufs s' /\
                length un = S (n_nodes c) /\ length ub = (k + n_bufs c)%nat /\ in_bounds_all body ub.
Proof.
  intros Hc body s s'. unfold next_node. destruct (nodes s) as [|n r] eqn:En; [discriminate|].
  destruct (next_buffers k body _) as [e s2] eqn:Eb. destruct e; try discriminate.
  apply next_buffers_pass in Eb. cbn [nodes bufs] in Eb. destruct Eb as [Hn [used [Hu [Hl Hf]]]].
  intros H. apply finish_pass in H. destruct H as [H _]. apply Hc in H. destruct H as [un [ub [H1 [H2 [H3 [H4 H5]]]]]].
  exists (n :: un), (used ++ ub). repeat split.
  - cbn. rewrite <- H1, Hn. reflexivity.
  - rewrite Hu, H2, app_assoc. reflexivity.
  - cbn. now rewrite H3.
  - rewrite app_length. lia.
  - apply in_bounds_app; assumption.
Qed.

Lemma walk_sound : forall t, walk_ok t.
Proof.
  fix IH 1. intros t. destruct t as [| |c|sz c|cs|].
  - apply (walk_prim 2). left. split; reflexivity.
  - apply (walk_prim 3). right. split; reflexivity.
  - intros body s s' H. cbn [walk] in H. apply (walk_wrap 2 c (IH c)) in H. exact H.
  - intros body s s' H. cbn [walk] in H.
    assert (H' : match next_node s with None => (CursorErr, s) | Some (n, s1) =>
                   match next_buffers 1 body s1 with (Pass, s2) => finish n (first_buf s1) (walk c body s2) | r => r end end = (Pass, s')).
    { destruct (next_node s) as [[n s1]|]; [|exact H]. destruct (next_buffers 1 body s1) as [e s2]. destruct e; try exact H.
      destruct (finish n (first_buf s1) (walk c body s2)) as [e3 s3]. destruct e3; try discriminate.
      destruct (_ <? _); [exact H|discriminate]. }
    apply (walk_wrap 1 c (IH c)) in H'. exact H'.
  - intros body s s'. cbn [walk]. unfold next_node. destruct (nodes s) as [|n r] eqn:En; [discriminate|].
    destruct (next_buffers 1 body _) as [e s2] eqn:Eb. destruct e; try discriminate.
    apply next_buffers_pass in Eb. cbn [nodes bufs] in Eb. destruct Eb as [Hn [used [Hu [Hl Hf]]]].
    (* children *)
    assert (G : forall cs s2 s', (fix go (cs : list fty) (s : st) : ev * st :=
                  match cs with [] => (Pass, s) | c :: r => match walk c body s with (Pass, s') => go r s' | e => e end end) cs s2 = (Pass, s') ->
              exists un ub, nodes s2 = un ++ nodes s' /\ bufs s2 = ub ++ bufs s' /\
                length un = fold_right (fun c a => n_nodes c + a)%nat O cs /\
                length ub = fold_right (fun c a => n_bufs c + a)%nat O cs /\ in_bounds_all body ub).
    { clear - IH. induction cs as [|c cs IHcs]; intros s2 s'.
      - intros H; inversion H; subst. exists [], []. repeat split. constructor.
      - destruct (walk c body s2) as [e s3] eqn:Ew. destruct e; try discriminate.
        apply (IH c) in Ew. destruct Ew as [un [ub [H1 [H2 [H3 [H4 H5]]]]]].
        intros H. apply IHcs in H. destruct H as [un' [ub' [G1 [G2 [G3 [G4 G5]]]]]].
        exists (un ++ un'), (ub ++ ub'). repeat split.
        + rewrite H1, G1, app_assoc. reflexivity.
        + rewrite H2, G2, app_assoc. reflexivity.
        + rewrite app_length. cbn. lia.
        + rewrite app_length. cbn. lia.
        + apply in_bounds_app; assumption. }
    intros H. apply finish_gen_pass in H. destruct H as [H _]. apply G in H. destruct H as [un [ub [H1 [H2 [H3 [H4 H5]]]]]].
    exists (n :: un), (used ++ ub). repeat split.
    + cbn. rewrite <- H1, Hn. reflexivity.
    + rewrite Hu, H2, app_assoc. reflexivity.
    + cbn [length n_nodes]. now rewrite H3.
    + rewrite app_length. cbn [n_bufs]. lia.
    + apply in_bounds_app; assumption.
  - apply walk_null.
Qed.

(* exhausted cursors are errors, never panics; out-of-bounds buffers are panics: the only source of BoundsPanic *)
Lemma ipc_bounds_panic_reachable :
  exists body s, fst (walk FPrim body s) = BoundsPanic.
Proof. exists 64, {| nodes := [(1, 0)]; bufs := [(0, 0); (61, 4)] |}. reflexivity. Qed.

(* a declared null count with a validity buffer too short for the node length is a panic as well *)
Lemma ipc_validity_panic_reachable :
  exists body s, fst (walk FPrim body s) = ValidityPanic.
Proof. exists 64, {| nodes := [(9, 1)]; bufs := [(0, 1); (0, 36)] |}. reflexivity. Qed.

(* when the walk passes, the validity buffer of a node with nulls covers the node length *)
Lemma walk_prim_validity body n vb b2 s' :
  walk FPrim body {| nodes := [n]; bufs := [vb; b2] |} = (Pass, s') -> 0 < snd n ->
  as_usize (fst n) <= 8 * as_usize (snd vb).
Proof.
  cbn [walk next_node nodes bufs]. intros H Hn. apply finish_pass in H. destruct H as [_ H].
  unfold validity_ok, validity_ok_gen, first_buf in H. cbn [bufs] in H. apply Z.ltb_lt in Hn. rewrite Hn in H.
  apply Z.leb_le in H. lia.
Qed.

Lemma ipc_missing_buffer_is_error body n : fst (walk FPrim body {| nodes := [n]; bufs := [] |}) = CursorErr.
Proof. reflexivity. Qed.

Theorem buffer_guard_iff body off len : 0 <= body < 2^63 -> - 2^63 <= off < 2^63 -> - 2^63 <= len < 2^63 ->
  (buffer_in_bounds body (off, len) = true <-> (0 <= off /\ 0 <= len /\ off + len <= body)).
Proof.
  intros Hb Ho Hl. split.
  - apply buffer_guard_sound; assumption.
  - intros [H1 [H2 H3]]. apply buffer_guard_complete; try assumption. apply Hb.
Qed.
