(* C14 — Avro: the streaming varint decoder is independent of how its input is split and agrees
   with the one-shot ULEB128 value; the BlockDecoder's chunk-level loop is the byte-at-a-time
   block automaton, which is split independent. *)
From Coq Require Import List Arith NArith ZArith Bool Lia ZifyN ZifyNat ZifyBool.
From AV Require Import Base.ListX Base.Bits Base.Bytes Model.C14_Avro.
Import ListNotations.
Local Open Scope N_scope.
Ltac Zify.zify_post_hook ::= Z.div_mod_to_equations.

(* ------------------------------------------------------------------ VLQDecoder::long *)
Lemma vlq_long_none_rest : forall buf st st' rest, vlq_long st buf = (st', rest, VNone) -> rest = [].
Proof.
  induction buf as [|b r IH]; intros st st' rest H; cbn [vlq_long] in H.
  - now inversion H.
  - destruct ((v_shift st =? 63) && (2 <=? b)); [discriminate|].
    destruct (N.land b 128 =? 0); [discriminate|]. eapply IH; exact H.
Qed.

(* chunk independence: feeding a ++ b at once = feeding a, then (if still pending) b *)
Theorem vlq_long_app : forall a st b,
  vlq_long st (a ++ b) =
  match vlq_long st a with
  | (st', _, VNone) => vlq_long st' b
  | (st', rest, r) => (st', rest ++ b, r)
  end.
Proof.
  induction a as [|x a IH]; intros st b; cbn [app vlq_long]; [reflexivity|].
  destruct ((v_shift st =? 63) && (2 <=? x)); [reflexivity|].
  destruct (N.land x 128 =? 0); [reflexivity|]. apply IH.
Qed.

(* zig-zag: the xor/shift form is the arithmetic form *)
Lemma zigzag_spec val : zigzag val = zz_dec (Z.of_N val).
Proof.
  unfold zigzag, zz_dec.
  rewrite N.shiftr_div_pow2. change (2 ^ 1) with 2.
  assert (Hl : N.land val 1 = val mod 2) by (change 1 with (N.ones 1); now rewrite N.land_ones).
  rewrite Hl.
  destruct (Z.even (Z.of_N val)) eqn:Ev.
  - apply Z.even_spec in Ev. destruct Ev as [k Hk].
    assert (Hm : val mod 2 = 0) by lia. rewrite Hm. cbn [Z.of_N Z.opp]. rewrite Z.lxor_0_r. lia.
  - assert (Ho : Z.odd (Z.of_N val) = true) by (rewrite <- Z.negb_even, Ev; reflexivity).
    apply Z.odd_spec in Ho. destruct Ho as [k Hk].
    assert (Hm : val mod 2 = 1) by lia. rewrite Hm. change (- Z.of_N 1)%Z with (-1)%Z.
    rewrite Z.lxor_m1_r. unfold Z.lnot. lia.
Qed.

(* or-ing a shifted group into the low accumulator is addition *)
Lemma lor_shift_add acc x s : acc < 2 ^ s -> N.lor acc (N.shiftl x s) = acc + x * 2 ^ s.
Proof.
  intros H. apply N.bits_inj. intros i. rewrite N.lor_spec.
  replace (acc + x * 2 ^ s) with (acc + 2 ^ s * x) by lia.
  rewrite testbit_add_shift by exact H.
  destruct (N.ltb_spec i s) as [Hi|Hi].
  - rewrite N.shiftl_spec_low by exact Hi. now rewrite orb_false_r.
  - rewrite N.shiftl_spec_high' by exact Hi. rewrite (testbit_high acc s i H Hi). reflexivity.
Qed.

Lemma land_127 b : N.land b 127 = b mod 128.
Proof. change 127 with (N.ones 7). now rewrite N.land_ones. Qed.
Lemma land_128_zero b : b < 256 -> (N.land b 128 =? 0) = (b <? 128).
Proof.
  intros Hb. assert (E : N.land b 128 = if b <? 128 then 0 else 128).
  { apply N.bits_inj. intros i. rewrite N.land_spec. change 128 with (2 ^ 7) at 1. rewrite N.pow2_bits_eqb.
    destruct (N.eqb_spec 7 i) as [<-|Hi].
    - rewrite andb_true_r. destruct (N.ltb_spec b 128) as [Hl|Hl].
      + rewrite N.bits_0. apply testbit_high with (k := 7); [exact Hl|lia].
      + change 128 with (2 ^ 7). rewrite N.pow2_bits_true.
        replace b with ((b - 128) + 2 ^ 7 * 1) by (change (2 ^ 7) with 128; lia).
        rewrite testbit_add_shift by (change (2 ^ 7) with 128; lia).
        rewrite N.ltb_irrefl. now rewrite N.sub_diag.
    - rewrite andb_false_r. destruct (b <? 128); [now rewrite N.bits_0|].
      change 128 with (2 ^ 7). rewrite N.pow2_bits_false; [reflexivity|exact Hi]. }
  rewrite E. destruct (b <? 128); reflexivity.
Qed.

Definition vres_of (r : vlq * list N * vres) : option (Z * list N) :=
  match r with (_, rest, VSome z) => Some (z, rest) | _ => None end.

(* the streaming decoder started on a group boundary computes the one-shot ULEB128 value *)
Lemma vlq_long_uleb : forall buf n k acc, wf_bytes buf -> (k <= 9)%nat -> (n + k = 10)%nat ->
  acc < 2 ^ (7 * N.of_nat k) ->
  vres_of (vlq_long (MkVlq acc (7 * N.of_nat k)) buf) =
  match uleb n buf (7 * N.of_nat k) acc with Some (v, rest) => Some (zigzag v, rest) | None => None end.
Proof.
  induction buf as [|b r IH]; intros n k acc Hwf Hk Hn Hacc.
  - cbn [vlq_long vres_of]. destruct n; reflexivity.
  - destruct n as [|n']; [lia|]. cbn [vlq_long uleb v_shift v_acc].
    inversion Hwf as [|? ? Hb Hr]; subst. change (2 ^ 8) with 256 in Hb.
    destruct ((7 * N.of_nat k =? 63) && (2 <=? b)) eqn:Eerr; [reflexivity|].
    rewrite land_127, lor_shift_add by exact Hacc.
    rewrite land_128_zero by exact Hb.
    destruct (N.ltb_spec b 128) as [Hlt|Hge]; [reflexivity|].
    (* continuation byte: not the 10th group, since a 10th group >= 2 is an error *)
    assert (Hk9 : (k < 9)%nat).
    { destruct (Nat.eq_dec k 9) as [->|]; [|lia]. cbn in Eerr. destruct (N.leb_spec 2 b); [discriminate|lia]. }
    replace (7 * N.of_nat k + 7) with (7 * N.of_nat (S k)) by lia.
    apply IH; [exact Hr|lia|lia|].
    replace (7 * N.of_nat (S k)) with (7 * N.of_nat k + 7) by lia. rewrite N.pow_add_r.
    assert (b mod 128 < 128) by (apply N.mod_lt; lia). change (2 ^ 7) with 128. nia.
Qed.

Theorem vlq_stream_equals_oneshot : forall buf, wf_bytes buf ->
  vres_of (vlq_long vlq0 buf) =
  match uleb10 buf with Some (v, rest) => Some (zigzag v, rest) | None => None end.
Proof.
  intros buf Hwf. unfold vlq0, uleb10.
  apply (vlq_long_uleb buf 10 0 0 Hwf); [lia|lia|reflexivity].
Qed.

(* ------------------------------------------------------------------ BlockDecoder = byte automaton *)
Definition bres_eq (r1 r2 : bdec * list N * bool) : Prop :=
  snd r1 = snd r2 /\ (snd r1 = true -> r1 = r2).
Lemma bres_eq_refl r : bres_eq r r.
Proof. split; auto. Qed.

Lemma take_n_le rem buf : (take_n rem buf <= length buf)%nat.
Proof. unfold take_n. destruct (N.ltb_spec rem (N.of_nat (length buf))); lia. Qed.
Lemma take_n_pos rem buf : 0 < rem -> buf <> [] -> (0 < take_n rem buf)%nat.
Proof. intros Hr Hb. unfold take_n. destruct buf; [congruence|]. cbn [length]. destruct (N.ltb_spec rem (N.of_nat (S (length buf)))); lia. Qed.
Lemma take_n_spec rem buf : N.of_nat (take_n rem buf) = N.min rem (N.of_nat (length buf)).
Proof. unfold take_n. destruct (N.ltb_spec rem (N.of_nat (length buf))); lia. Qed.

(* one varint-reading state (Count or Size): the whole-buffer call is the per-byte iteration *)
Lemma vlq_long_cons st b r :
  vlq_long st (b :: r) =
  match vlq_long st [b] with
  | (st', _, VNone) => vlq_long st' r
  | (st', [], VSome z) => (st', r, VSome z)
  | (st', _, res) => (st', b :: r, res)
  end.
Proof.
  cbn [vlq_long]. destruct ((v_shift st =? 63) && (2 <=? b)); [reflexivity|].
  destruct (N.land b 128 =? 0); reflexivity.
Qed.

Lemma brun1_count : forall buf d, bd_state d = BCount ->
  bres_eq
    (match vlq_long (bd_vlq d) buf with
     | (v, rest, VSome c) =>
         if (c <? 0)%Z then (MkBdec BCount (bd_count d) (bd_data d) (bd_sync d) v (bd_rem d), rest, false)
         else brun1 (MkBdec BSize (Z.to_N c) (bd_data d) (bd_sync d) v (bd_rem d)) rest
     | (v, rest, VNone) => (MkBdec BCount (bd_count d) (bd_data d) (bd_sync d) v (bd_rem d), [], true)
     | (v, rest, VErr) => (MkBdec BCount (bd_count d) (bd_data d) (bd_sync d) v (bd_rem d), rest, false)
     end)
    (brun1 d buf).
Proof.
  induction buf as [|b r IH]; intros d Hs.
  - cbn [vlq_long brun1]. destruct d; cbn in *; subst. apply bres_eq_refl.
  - rewrite vlq_long_cons. cbn [brun1]. unfold beps. rewrite Hs. unfold bconsume. rewrite Hs.
    destruct (vlq_long (bd_vlq d) [b]) as [[st' rest'] res] eqn:E1.
    assert (Hshape : (res = VNone /\ rest' = []) \/ (exists z, res = VSome z /\ rest' = []) \/ (res = VErr /\ rest' = [b])).
    { cbn [vlq_long] in E1. destruct ((v_shift (bd_vlq d) =? 63) && (2 <=? b)).
      - inversion E1; subst. right; right; auto.
      - destruct (N.land b 128 =? 0); inversion E1; subst; [right; left; eauto|left; auto]. }
    destruct Hshape as [[-> ->]|[[z [-> ->]]|[-> ->]]].
    + specialize (IH (MkBdec BCount (bd_count d) (bd_data d) (bd_sync d) st' (bd_rem d)) eq_refl).
      cbn [bd_vlq bd_count bd_data bd_sync bd_rem] in IH. exact IH.
    + destruct (z <? 0)%Z; [split; [reflexivity|discriminate]|apply bres_eq_refl].
    + split; [reflexivity|discriminate].
Qed.

Lemma brun1_size : forall buf d, bd_state d = BSize ->
  bres_eq
    (match vlq_long (bd_vlq d) buf with
     | (v, rest, VSome c) =>
         if (c <? 0)%Z then (MkBdec BSize (bd_count d) (bd_data d) (bd_sync d) v (bd_rem d), rest, false)
         else brun1 (MkBdec BData (bd_count d) (bd_data d) (bd_sync d) v (Z.to_N c)) rest
     | (v, rest, VNone) => (MkBdec BSize (bd_count d) (bd_data d) (bd_sync d) v (bd_rem d), [], true)
     | (v, rest, VErr) => (MkBdec BSize (bd_count d) (bd_data d) (bd_sync d) v (bd_rem d), rest, false)
     end)
    (brun1 d buf).
Proof.
  induction buf as [|b r IH]; intros d Hs.
  - cbn [vlq_long brun1]. destruct d; cbn in *; subst. apply bres_eq_refl.
  - rewrite vlq_long_cons. cbn [brun1]. unfold beps. rewrite Hs. unfold bconsume. rewrite Hs.
    destruct (vlq_long (bd_vlq d) [b]) as [[st' rest'] res] eqn:E1.
    assert (Hshape : (res = VNone /\ rest' = []) \/ (exists z, res = VSome z /\ rest' = []) \/ (res = VErr /\ rest' = [b])).
    { cbn [vlq_long] in E1. destruct ((v_shift (bd_vlq d) =? 63) && (2 <=? b)).
      - inversion E1; subst. right; right; auto.
      - destruct (N.land b 128 =? 0); inversion E1; subst; [right; left; eauto|left; auto]. }
    destruct Hshape as [[-> ->]|[[z [-> ->]]|[-> ->]]].
    + specialize (IH (MkBdec BSize (bd_count d) (bd_data d) (bd_sync d) st' (bd_rem d)) eq_refl).
      cbn [bd_vlq bd_count bd_data bd_sync bd_rem] in IH. exact IH.
    + destruct (z <? 0)%Z; [split; [reflexivity|discriminate]|apply bres_eq_refl].
    + split; [reflexivity|discriminate].
Qed.

(* ---- Data / Sync: copying a run of bytes ---- *)
Lemma brun1_data_partial : forall p count data sync v rem r0, N.of_nat (length p) < rem ->
  brun1 (MkBdec BData count data sync v rem) (p ++ r0)
  = brun1 (MkBdec BData count (data ++ p) sync v (rem - N.of_nat (length p))) r0.
Proof.
  induction p as [|b p IH]; intros count data sync v rem r0 Hlt.
  - cbn [app length]. rewrite app_nil_r. replace (rem - N.of_nat 0) with rem by lia. reflexivity.
  - cbn [app brun1]. unfold beps. cbn [bd_state bd_rem]. cbn [length] in Hlt.
    destruct (N.eqb_spec rem 0) as [E|_]; [lia|]. cbn [bd_state]. unfold bconsume. cbn [bd_state bd_rem bd_count bd_data bd_sync bd_vlq].
    destruct (N.eqb_spec (rem - 1) 0) as [E|_]; [lia|].
    rewrite IH by lia. rewrite <- app_assoc. cbn [app].
    replace (rem - 1 - N.of_nat (length p)) with (rem - N.of_nat (length (b :: p))) by (cbn [length]; lia). reflexivity.
Qed.

Lemma brun1_data_complete : forall p count data sync v rem r0, p <> [] -> N.of_nat (length p) = rem ->
  brun1 (MkBdec BData count data sync v rem) (p ++ r0)
  = brun1 (MkBdec BSync count (data ++ p) sync v 16) r0.
Proof.
  induction p as [|b p IH]; intros count data sync v rem r0 Hne Hlen; [congruence|].
  cbn [app brun1]. unfold beps. cbn [bd_state bd_rem]. cbn [length] in Hlen.
  destruct (N.eqb_spec rem 0) as [E|_]; [lia|]. cbn [bd_state]. unfold bconsume. cbn [bd_state bd_rem bd_count bd_data bd_sync bd_vlq].
  destruct p as [|b2 p].
  - cbn [length] in Hlen. destruct (N.eqb_spec (rem - 1) 0) as [_|NE]; [|lia]. reflexivity.
  - destruct (N.eqb_spec (rem - 1) 0) as [E|_]; [cbn [length] in Hlen; lia|].
    rewrite IH; [now rewrite <- app_assoc|discriminate|cbn [length] in *; lia].
Qed.

Lemma brun1_sync_partial : forall p count data sync v rem r0, N.of_nat (length p) < rem ->
  brun1 (MkBdec BSync count data sync v rem) (p ++ r0)
  = brun1 (MkBdec BSync count data (sync ++ p) v (rem - N.of_nat (length p))) r0.
Proof.
  induction p as [|b p IH]; intros count data sync v rem r0 Hlt.
  - cbn [app length]. rewrite app_nil_r. replace (rem - N.of_nat 0) with rem by lia. reflexivity.
  - cbn [app brun1]. unfold beps. cbn [bd_state]. unfold bconsume. cbn [bd_state bd_rem bd_count bd_data bd_sync bd_vlq].
    cbn [length] in Hlt.
    destruct (N.eqb_spec (rem - 1) 0) as [E|_]; [lia|].
    rewrite IH by lia. rewrite <- app_assoc. cbn [app].
    replace (rem - 1 - N.of_nat (length p)) with (rem - N.of_nat (length (b :: p))) by (cbn [length]; lia). reflexivity.
Qed.

Lemma brun1_sync_complete : forall p count data sync v rem r0, p <> [] -> N.of_nat (length p) = rem ->
  brun1 (MkBdec BSync count data sync v rem) (p ++ r0)
  = brun1 (MkBdec BFinished count data (sync ++ p) v 0) r0.
Proof.
  induction p as [|b p IH]; intros count data sync v rem r0 Hne Hlen; [congruence|].
  cbn [app brun1]. unfold beps. cbn [bd_state]. unfold bconsume. cbn [bd_state bd_rem bd_count bd_data bd_sync bd_vlq].
  cbn [length] in Hlen.
  destruct p as [|b2 p].
  - cbn [length] in Hlen. destruct (N.eqb_spec (rem - 1) 0) as [_|NE]; [|lia]. reflexivity.
  - destruct (N.eqb_spec (rem - 1) 0) as [E|_]; [cbn [length] in Hlen; lia|].
    rewrite IH; [now rewrite <- app_assoc|discriminate|cbn [length] in *; lia].
Qed.

Lemma bres_eq_trans a b c : bres_eq a b -> bres_eq b c -> bres_eq a c.
Proof.
  intros [H1 H2] [H3 H4]. split; [congruence|]. intros H. rewrite H2 by exact H. apply H4. congruence.
Qed.

Lemma vlq_long_some_shorter : forall buf st st' rest z,
  vlq_long st buf = (st', rest, VSome z) -> (length rest < length buf)%nat.
Proof.
  induction buf as [|b r IH]; intros st st' rest z H; cbn [vlq_long] in H; [discriminate|].
  destruct ((v_shift st =? 63) && (2 <=? b)); [discriminate|].
  destruct (N.land b 128 =? 0).
  - inversion H; subst. cbn [length]. lia.
  - apply IH in H. cbn [length]. lia.
Qed.

Lemma block_decode_nil fuel d : block_decode fuel d [] = (d, [], true).
Proof. destruct fuel; reflexivity. Qed.

Definition bwf (d : bdec) : Prop :=
  match bd_state d with BSync => 0 < bd_rem d | _ => True end.
Definition bslack (d : bdec) : nat :=
  match bd_state d with BData => if bd_rem d =? 0 then 2%nat else 1%nat | _ => 1%nat end.
Lemma bslack_bounds d : (1 <= bslack d <= 2)%nat.
Proof. unfold bslack. destruct (bd_state d); try lia. destruct (bd_rem d =? 0); lia. Qed.

(* M = S for one BlockDecoder::decode call *)
Theorem block_decode_is_brun1 : forall fuel d buf, bwf d -> (2 * length buf + bslack d <= fuel)%nat ->
  bres_eq (block_decode fuel d buf) (brun1 d buf).
Proof.
  induction fuel as [|fuel IH]; intros d buf Hwf Hf; [pose proof (bslack_bounds d); lia|].
  destruct buf as [|b0 buf0]; [apply bres_eq_refl|].
  cbn [block_decode]. remember (b0 :: buf0) as buf eqn:Eb.
  assert (Hne : buf <> []) by (rewrite Eb; discriminate).
  assert (Hlen : (0 < length buf)%nat) by (rewrite Eb; cbn [length]; lia).
  destruct d as [st count data sync v rem]. unfold bwf in Hwf. cbn [bd_state bd_rem bd_count bd_data bd_sync bd_vlq] in *.
  destruct st.
  - (* Count *)
    eapply bres_eq_trans; [|apply (brun1_count buf (MkBdec BCount count data sync v rem) eq_refl)].
    cbn [bd_state bd_rem bd_count bd_data bd_sync bd_vlq].
    destruct (vlq_long v buf) as [[v' rest] res] eqn:Ev. destruct res as [|c|].
    + apply vlq_long_none_rest in Ev. subst rest. rewrite block_decode_nil. apply bres_eq_refl.
    + destruct (c <? 0)%Z; [apply bres_eq_refl|].
      apply vlq_long_some_shorter in Ev. apply IH; [exact I|].
      pose proof (bslack_bounds (MkBdec BSize (Z.to_N c) data sync v' rem)). unfold bslack in Hf; cbn [bd_state] in Hf. lia.
    + apply bres_eq_refl.
  - (* Size *)
    eapply bres_eq_trans; [|apply (brun1_size buf (MkBdec BSize count data sync v rem) eq_refl)].
    cbn [bd_state bd_rem bd_count bd_data bd_sync bd_vlq].
    destruct (vlq_long v buf) as [[v' rest] res] eqn:Ev. destruct res as [|c|].
    + apply vlq_long_none_rest in Ev. subst rest. rewrite block_decode_nil. apply bres_eq_refl.
    + destruct (c <? 0)%Z; [apply bres_eq_refl|].
      apply vlq_long_some_shorter in Ev. apply IH; [exact I|].
      pose proof (bslack_bounds (MkBdec BData count data sync v' (Z.to_N c))). unfold bslack in Hf; cbn [bd_state] in Hf. lia.
    + apply bres_eq_refl.
  - (* Data *)
    destruct (N.eq_dec rem 0) as [Z|NZ].
    + subst rem. assert (Hk : take_n 0 buf = 0%nat).
      { unfold take_n. destruct (N.ltb_spec 0 (N.of_nat (length buf))); [reflexivity|lia]. }
      rewrite Hk. cbn [firstn skipn]. rewrite app_nil_r. cbn [N.of_nat]. replace (0 - 0) with 0 by lia.
      cbn [N.eqb].
      assert (Hb : brun1 (MkBdec BData count data sync v 0) buf = brun1 (MkBdec BSync count data sync v 16) buf).
      { rewrite Eb. cbn [brun1]. unfold beps. cbn [bd_state bd_rem N.eqb]. reflexivity. }
      rewrite Hb. apply IH; [unfold bwf; cbn; lia|].
      unfold bslack in *; cbn [bd_state bd_rem N.eqb] in *. lia.
    + set (k := take_n rem buf).
      assert (Hk1 : (0 < k)%nat) by (apply take_n_pos; [lia|exact Hne]).
      assert (Hk2 : (k <= length buf)%nat) by apply take_n_le.
      assert (Hk3 : N.of_nat k = N.min rem (N.of_nat (length buf))) by apply take_n_spec.
      assert (Lf : length (firstn k buf) = k) by (rewrite firstn_length; lia).
      assert (Ls : length (skipn k buf) = (length buf - k)%nat) by apply skipn_length.
      assert (Hsplit : buf = firstn k buf ++ skipn k buf) by (now rewrite firstn_skipn).
      destruct (N.eqb_spec (rem - N.of_nat k) 0) as [E|NE].
      * assert (Hb : brun1 (MkBdec BData count data sync v rem) buf = brun1 (MkBdec BSync count (data ++ firstn k buf) sync v 16) (skipn k buf)).
        { rewrite Hsplit at 1. apply brun1_data_complete; [intros C; rewrite C in Lf; cbn in Lf; lia|rewrite Lf; lia]. }
        rewrite Hb. apply IH; [unfold bwf; cbn; lia|]. unfold bslack at 1; cbn [bd_state]. lia.
      * assert (Hb : brun1 (MkBdec BData count data sync v rem) buf = brun1 (MkBdec BData count (data ++ firstn k buf) sync v (rem - N.of_nat k)) (skipn k buf)).
        { rewrite Hsplit at 1. rewrite brun1_data_partial by (rewrite Lf; lia). now rewrite Lf. }
        rewrite Hb. apply IH; [exact I|].
        assert (S1 : bslack (MkBdec BData count (data ++ firstn k buf) sync v (rem - N.of_nat k)) = 1%nat).
        { unfold bslack; cbn [bd_state bd_rem]. destruct (N.eqb_spec (rem - N.of_nat k) 0); [contradiction|reflexivity]. }
        rewrite S1. lia.
  - (* Sync *)
    set (k := take_n rem buf).
    assert (Hk1 : (0 < k)%nat) by (apply take_n_pos; [lia|exact Hne]).
    assert (Hk2 : (k <= length buf)%nat) by apply take_n_le.
    assert (Hk3 : N.of_nat k = N.min rem (N.of_nat (length buf))) by apply take_n_spec.
    assert (Lf : length (firstn k buf) = k) by (rewrite firstn_length; lia).
    assert (Ls : length (skipn k buf) = (length buf - k)%nat) by apply skipn_length.
    assert (Hsplit : buf = firstn k buf ++ skipn k buf) by (now rewrite firstn_skipn).
    destruct (N.eqb_spec (rem - N.of_nat k) 0) as [E|NE].
    + assert (Hb : brun1 (MkBdec BSync count data sync v rem) buf = brun1 (MkBdec BFinished count data (sync ++ firstn k buf) v 0) (skipn k buf)).
      { rewrite Hsplit at 1. apply brun1_sync_complete; [intros C; rewrite C in Lf; cbn in Lf; lia|rewrite Lf; lia]. }
      rewrite Hb. apply IH; [exact I|]. unfold bslack at 1; cbn [bd_state]. lia.
    + assert (Hb : brun1 (MkBdec BSync count data sync v rem) buf = brun1 (MkBdec BSync count data (sync ++ firstn k buf) v (rem - N.of_nat k)) (skipn k buf)).
      { rewrite Hsplit at 1. rewrite brun1_sync_partial by (rewrite Lf; lia). now rewrite Lf. }
      rewrite Hb. apply IH; [unfold bwf; cbn; lia|]. unfold bslack at 1; cbn [bd_state]. lia.
  - (* Finished *)
    rewrite Eb. cbn [brun1]. unfold beps. cbn [bd_state]. apply bres_eq_refl.
Qed.

(* ---- the byte automaton does not care where its input is split ---- *)
Lemma beps_idem d : beps (beps d) = beps d.
Proof.
  unfold beps. destruct d as [st count data sync v rem]. destruct st; cbn [bd_state bd_rem]; try reflexivity.
  destruct (N.eqb_spec rem 0); cbn [bd_state bd_rem]; [reflexivity|]. destruct (N.eqb_spec rem 0); [contradiction|reflexivity].
Qed.

Theorem brun1_app : forall a d b,
  brun1 d (a ++ b) =
  match brun1 d a with
  | (d1, [], true) => brun1 d1 b
  | (d1, rest, ok) => (d1, rest ++ b, ok)
  end.
Proof.
  induction a as [|x a IH]; intros d b; cbn [app brun1]; [reflexivity|].
  destruct (bd_state (beps d)) eqn:Es; try (destruct (bconsume (beps d) x) as [d2|]; [apply IH|reflexivity]).
  reflexivity.
Qed.

Lemma bwf_beps d : bwf d -> bwf (beps d).
Proof.
  unfold bwf, beps. destruct d as [st count data sync v rem]. destruct st; cbn [bd_state bd_rem]; auto.
  destruct (N.eqb_spec rem 0); cbn [bd_state bd_rem]; [lia|auto].
Qed.
Lemma bwf_bconsume d b d' : bwf d -> bconsume d b = Some d' -> bwf d'.
Proof.
  unfold bwf, bconsume. destruct d as [st count data sync v rem]. destruct st; cbn [bd_state bd_rem bd_vlq bd_count bd_data bd_sync]; intros Hw H.
  - destruct (vlq_long v [b]) as [[v' rest] res]. destruct rest; [|discriminate]. destruct res; try discriminate.
    + inversion H; subst; exact I.
    + destruct (z <? 0)%Z; [discriminate|]. inversion H; subst; exact I.
  - destruct (vlq_long v [b]) as [[v' rest] res]. destruct rest; [|discriminate]. destruct res; try discriminate.
    + inversion H; subst; exact I.
    + destruct (z <? 0)%Z; [discriminate|]. inversion H; subst; exact I.
  - destruct (N.eqb_spec (rem - 1) 0); inversion H; subst; cbn; [lia|exact I].
  - destruct (N.eqb_spec (rem - 1) 0); inversion H; subst; cbn; [exact I|lia].
  - discriminate.
Qed.
Lemma brun1_wf : forall bs d d' rest, bwf d -> brun1 d bs = (d', rest, true) -> bwf d'.
Proof.
  induction bs as [|b r IH]; intros d d' rest Hw H; cbn [brun1] in H.
  - inversion H; subst; exact Hw.
  - pose proof (bwf_beps d Hw) as Hw1.
    destruct (bd_state (beps d)) eqn:Es;
      try (destruct (bconsume (beps d) b) as [d2|] eqn:Ec; [|discriminate];
           eapply IH; [eapply bwf_bconsume; eassumption|exact H]).
    inversion H; subst; exact Hw1.
Qed.

(* the property for the block decoder: decoding a ++ b in one call = decoding a, and (unless the
   block was completed inside a, in which case the caller re-offers the tail) then b *)
Theorem block_chunk_independent : forall d a b, bwf d ->
  bres_eq (block_decode (block_fuel (a ++ b)) d (a ++ b))
          (match block_decode (block_fuel a) d a with
           | (d1, [], true) => block_decode (block_fuel b) d1 b
           | (d1, rest, ok) => (d1, rest ++ b, ok)
           end).
Proof.
  intros d a b Hw.
  assert (F : forall x, (2 * length x + bslack d <= block_fuel x)%nat)
    by (intros x; unfold block_fuel; pose proof (bslack_bounds d); lia).
  eapply bres_eq_trans; [apply block_decode_is_brun1; [exact Hw|apply F]|].
  rewrite brun1_app.
  pose proof (block_decode_is_brun1 (block_fuel a) d a Hw (F a)) as [Ha1 Ha2].
  destruct (block_decode (block_fuel a) d a) as [[d1 r1] ok1] eqn:Ed. destruct (brun1 d a) as [[d2 r2] ok2] eqn:Er.
  cbn [snd] in *. subst ok2. destruct ok1.
  - specialize (Ha2 eq_refl). inversion Ha2; subst d2 r2. destruct r1 as [|y r1]; [|apply bres_eq_refl].
    assert (Hw2 : bwf d1) by (eapply brun1_wf; [exact Hw|exact Er]).
    assert (bres_eq (block_decode (block_fuel b) d1 b) (brun1 d1 b)) as [Hb1 Hb2].
    { apply block_decode_is_brun1; [exact Hw2|]. unfold block_fuel. pose proof (bslack_bounds d1). lia. }
    split; [now rewrite Hb1|]. intros Hok. rewrite <- Hb2; [reflexivity|congruence].
  - destruct r1, r2; split; try reflexivity; discriminate.
Qed.

(* ------------------------------------------------------------------ vlq::read_varint = ULEB128 *)
(* the spec again, returning the number of bytes read instead of the rest *)
Fixpoint ulebc (n : nat) (bs : list N) (shift acc : N) (k : nat) : option (N * nat) :=
  match n, bs with
  | O, _ => None
  | _, [] => None
  | S n', b :: r =>
      if (shift =? 63) && (2 <=? b) then None
      else let acc' := acc + (b mod 128) * 2 ^ shift in
           if b <? 128 then Some (acc', S k) else ulebc n' r (shift + 7) acc' (S k)
  end.

Lemma uleb_suffix : forall n bs s a v rest, uleb n bs s a = Some (v, rest) ->
  exists p, bs = p ++ rest /\ p <> [].
Proof.
  induction n as [|n IH]; intros bs s a v rest H; [discriminate|]. destruct bs as [|b r]; [discriminate|].
  cbn [uleb] in H. destruct ((s =? 63) && (2 <=? b)); [discriminate|].
  destruct (b <? 128).
  - inversion H; subst. exists [b]. split; [reflexivity|discriminate].
  - apply IH in H. destruct H as [p [-> _]]. exists (b :: p). split; [reflexivity|discriminate].
Qed.

Lemma uleb_ulebc : forall n bs s a k,
  ulebc n bs s a k =
  match uleb n bs s a with Some (v, rest) => Some (v, (k + (length bs - length rest))%nat) | None => None end.
Proof.
  induction n as [|n IH]; intros bs s a k; [reflexivity|]. destruct bs as [|b r]; [reflexivity|].
  cbn [uleb ulebc]. destruct ((s =? 63) && (2 <=? b)); [reflexivity|].
  destruct (b <? 128).
  - f_equal. f_equal. cbn [length]. lia.
  - rewrite IH. destruct (uleb n r (s + 7) (a + b mod 128 * 2 ^ s)) as [[v rest]|] eqn:E; [|reflexivity].
    apply uleb_suffix in E. destruct E as [p [-> _]]. f_equal. f_equal. cbn [length]. rewrite app_length. lia.
Qed.

Lemma ulebc_firstn : forall n bs s a k, ulebc n (firstn n bs) s a k = ulebc n bs s a k.
Proof.
  induction n as [|n IH]; intros bs s a k; [reflexivity|]. destruct bs as [|b r]; [reflexivity|].
  cbn [firstn ulebc]. destruct ((s =? 63) && (2 <=? b)); [reflexivity|]. destruct (b <? 128); [reflexivity|apply IH].
Qed.

Lemma shiftl_mul x s : N.shiftl x s = x * 2 ^ s.
Proof. apply N.shiftl_mul_pow2. Qed.

Lemma rv_slow_spec : forall buf n count value, wf_bytes buf -> (n + count = 10)%nat ->
  value < 2 ^ (7 * N.of_nat count) ->
  rv_slow_loop count n buf value = ulebc n buf (7 * N.of_nat count) value count.
Proof.
  induction buf as [|b r IH]; intros n count value Hwf Hn Hv; [destruct n; reflexivity|].
  destruct n as [|n']; [reflexivity|]. cbn [rv_slow_loop ulebc].
  inversion Hwf as [|? ? Hb Hr]; subst. change (2 ^ 8) with 256 in Hb.
  replace (N.of_nat count * 7) with (7 * N.of_nat count) by lia.
  assert (Hm : b mod 128 < 128) by (apply N.mod_lt; lia).
  destruct (Nat.eq_dec count 9) as [->|Hc].
  - (* the 10th group *)
    change (7 * N.of_nat 9) with 63 in *. cbn [N.eqb Pos.eqb andb Nat.eqb negb orb].
    assert (n' = 0)%nat by lia. subst n'.
    destruct (N.leb_spec 2 b) as [H2|H2].
    + destruct (N.leb_spec b 127); [|reflexivity]. destruct (N.ltb_spec b 2); [lia|reflexivity].
    + destruct (N.leb_spec b 127); [|lia]. destruct (N.ltb_spec b 2); [|lia]. destruct (N.ltb_spec b 128); [|lia].
      f_equal. f_equal. rewrite land_127. rewrite (N.mod_small b 128) by lia. rewrite shiftl_mul.
      rewrite N.mod_small by (unfold U64; change (2 ^ 64) with (2 * 2 ^ 63); nia).
      rewrite <- shiftl_mul. rewrite lor_shift_add by exact Hv. rewrite ?shiftl_mul. reflexivity.
  - assert (Hc8 : (count <= 8)%nat) by lia.
    destruct (N.eqb_spec (7 * N.of_nat count) 63) as [E|_]; [lia|]. cbn [andb].
    assert (Hp : 2 ^ (7 * N.of_nat count + 7) <= 2 ^ 63) by (apply N.pow_le_mono_r; lia).
    rewrite land_127, shiftl_mul.
    rewrite N.mod_small.
    2:{ unfold U64. rewrite N.pow_add_r in Hp. change (2 ^ 7) with 128 in Hp. change (2 ^ 64) with (2 * 2 ^ 63). nia. }
    rewrite <- shiftl_mul, lor_shift_add by exact Hv. rewrite ?shiftl_mul.
    assert (Eq : (b <=? 127) = (b <? 128)) by (destruct (N.leb_spec b 127), (N.ltb_spec b 128); lia || reflexivity).
    rewrite Eq. destruct (b <? 128).
    + destruct (Nat.eqb_spec count 9); [contradiction|]. cbn [negb orb]. reflexivity.
    + replace (7 * N.of_nat count + 7) with (7 * N.of_nat (S count)) by lia.
      apply IH; [exact Hr|lia|].
      replace (7 * N.of_nat (S count)) with (7 * N.of_nat count + 7) by lia. rewrite N.pow_add_r. change (2 ^ 7) with 128. nia.
Qed.

Lemma rv_array_spec : forall n buf idx acc, wf_bytes buf -> (n + idx = 9)%nat ->
  acc < 2 ^ (7 * N.of_nat idx) -> length buf = S n ->
  (match rv_array_loop idx n buf acc with
   | inl r => r
   | inr acc' => let b := nth n buf 0 in
                 if b <? 2 then Some (acc' + (N.shiftl b 63) mod U64, 10%nat) else None
   end) = ulebc (S n) buf (7 * N.of_nat idx) acc idx.
Proof.
  induction n as [|n IH]; intros buf idx acc Hwf Hn Hacc Hlen.
  - assert (idx = 9)%nat by lia. subst idx. destruct buf as [|b [|b2 r]]; try discriminate.
    cbn [rv_array_loop nth ulebc]. change (7 * N.of_nat 9) with 63. cbn [N.eqb Pos.eqb andb].
    inversion Hwf as [|? ? Hb _]; subst. change (2 ^ 8) with 256 in Hb.
    destruct (N.leb_spec 2 b) as [H2|H2]; destruct (N.ltb_spec b 2); try lia; [reflexivity|].
    destruct (N.ltb_spec b 128); [|lia]. rewrite (N.mod_small b 128) by lia. rewrite shiftl_mul.
    rewrite N.mod_small by (unfold U64; change (2 ^ 64) with (2 * 2 ^ 63); nia). reflexivity.
  - destruct buf as [|b r]; [discriminate|]. cbn [length] in Hlen.
    inversion Hwf as [|? ? Hb Hr]; subst. change (2 ^ 8) with 256 in Hb.
    cbn [rv_array_loop ulebc]. destruct (N.eqb_spec (7 * N.of_nat idx) 63) as [E|_]; [lia|]. cbn [andb].
    rewrite shiftl_mul. destruct (N.ltb_spec b 128) as [Hlt|Hge].
    + rewrite N.mod_small by exact Hlt. reflexivity.
    + cbn [nth]. rewrite shiftl_mul.
      assert (Em : b mod 128 = b - 128) by lia.
      replace (acc + b * 2 ^ (7 * N.of_nat idx) - 128 * 2 ^ (7 * N.of_nat idx)) with (acc + b mod 128 * 2 ^ (7 * N.of_nat idx)) by (rewrite Em; nia).
      replace (7 * N.of_nat idx + 7) with (7 * N.of_nat (S idx)) by lia.
      apply IH; [exact Hr|lia| |lia].
      replace (7 * N.of_nat (S idx)) with (7 * N.of_nat idx + 7) by lia. rewrite N.pow_add_r. change (2 ^ 7) with 128.
      assert (b mod 128 < 128) by (apply N.mod_lt; lia). nia.
Qed.

(* the 1-byte fast path, the 10-byte array path and the slow path all compute the ULEB128 value *)
Theorem read_varint_is_uleb : forall buf, wf_bytes buf ->
  read_varint buf =
  match uleb10 buf with Some (v, rest) => Some (v, (length buf - length rest)%nat) | None => None end.
Proof.
  intros buf Hwf. unfold uleb10.
  transitivity (ulebc 10 buf 0 0 0); [|rewrite uleb_ulebc; destruct (uleb 10 buf 0 0) as [[v rest]|]; reflexivity].
  unfold read_varint.
  destruct buf as [|first r]; [reflexivity|].
  inversion Hwf as [|? ? Hb Hr]; subst. change (2 ^ 8) with 256 in Hb.
  destruct (N.ltb_spec first 128) as [Hlt|Hge].
  - cbn [ulebc N.eqb andb]. destruct (N.ltb_spec first 128); [|lia]. rewrite N.mod_small by lia. f_equal. f_equal. cbn. lia.
  - destruct (Nat.leb_spec 10 (length (first :: r))) as [H10|H10].
    + unfold read_varint_array. rewrite <- (ulebc_firstn 10 (first :: r)).
      apply (rv_array_spec 9 (firstn 10 (first :: r)) 0 0); [apply Forall_firstn'; exact Hwf|lia|reflexivity|].
      rewrite firstn_length. lia.
    + unfold read_varint_slow. apply (rv_slow_spec (first :: r) 10 0 0 Hwf); [lia|reflexivity].
Qed.

(* headline: the streaming decoder fed in any number of pieces = AvroCursor::get_long on the whole *)
Theorem vlq_stream_equals_get_long : forall buf, wf_bytes buf ->
  vres_of (vlq_long vlq0 buf) = get_long buf.
Proof.
  intros buf Hwf. rewrite vlq_stream_equals_oneshot by exact Hwf. unfold get_long.
  rewrite read_varint_is_uleb by exact Hwf.
  destruct (uleb10 buf) as [[v rest]|] eqn:E; [|reflexivity].
  unfold uleb10 in E. apply uleb_suffix in E. destruct E as [p [-> _]].
  rewrite app_length. replace (length p + length rest - length rest)%nat with (length p) by lia.
  rewrite skipn_app, skipn_all, Nat.sub_diag. reflexivity.
Qed.

Lemma block_decode_is_brun1' : forall d buf, bwf d ->
  bres_eq (block_decode (block_fuel buf) d buf) (brun1 d buf).
Proof.
  intros d buf Hw. apply block_decode_is_brun1; [exact Hw|]. unfold block_fuel. pose proof (bslack_bounds d). lia.
Qed.

(* ------------------------------------------------------------------ the block phase of the OCF reader *)
Lemma bstate_eq_dec (a b : bstate) : {a = b} + {a <> b}.
Proof. decide equality. Qed.
Lemma list_nil_dec {A} (l : list A) : {l = []} + {l <> []}.
Proof. destruct l; [left; reflexivity|right; discriminate]. Qed.
Lemma brun1_nil d : brun1 d [] = (d, [], true).
Proof. reflexivity. Qed.

Lemma beps_not_finished d : bd_state d <> BFinished -> bd_state (beps d) <> BFinished.
Proof.
  unfold beps. destruct d as [st count data sync v rem]. destruct st; cbn [bd_state bd_rem]; intros H; try exact H.
  destruct (rem =? 0); cbn [bd_state]; discriminate.
Qed.

Lemma brun1_finished d bs : bd_state d = BFinished -> brun1 d bs = (d, bs, true).
Proof.
  intros H. destruct bs as [|b r]; [reflexivity|]. cbn [brun1].
  assert (E : beps d = d) by (unfold beps; rewrite H; reflexivity). rewrite E, H. reflexivity.
Qed.

Lemma brun1_ok_shape : forall bs d d1 l1, brun1 d bs = (d1, l1, true) ->
  (exists p, bs = p ++ l1) /\ (l1 <> [] -> bd_state d1 = BFinished).
Proof.
  induction bs as [|b r IH]; intros d d1 l1 H; cbn [brun1] in H.
  - inversion H; subst. split; [exists []; reflexivity|congruence].
  - destruct (bd_state (beps d)) eqn:Es;
      try (destruct (bconsume (beps d) b) as [d2|]; [|discriminate];
           apply IH in H; destruct H as [[p Hp] Hf]; split; [exists (b :: p); now rewrite Hp|exact Hf]).
    inversion H; subst. split; [exists []; reflexivity|intros _; exact Es].
Qed.

Lemma brun1_progress : forall bs d d1 l1, bd_state d <> BFinished -> bs <> [] ->
  brun1 d bs = (d1, l1, true) -> (length l1 < length bs)%nat.
Proof.
  intros bs d d1 l1 Hs Hne H. destruct bs as [|b r]; [congruence|]. cbn [brun1] in H.
  pose proof (beps_not_finished d Hs) as Hs1.
  destruct (bd_state (beps d)) eqn:Es; try congruence;
    (destruct (bconsume (beps d) b) as [d2|]; [|discriminate];
     apply brun1_ok_shape in H; destruct H as [[p Hp] _]; cbn [length]; rewrite Hp, app_length; lia).
Qed.

Lemma fill_buf_spec : forall chunks buf rest, fill_buf chunks = (buf, rest) ->
  concat chunks = buf ++ concat rest /\ (buf = [] -> rest = []).
Proof.
  induction chunks as [|c cs IH]; intros buf rest H; cbn [fill_buf] in H.
  - inversion H; subst. split; [reflexivity|reflexivity].
  - destruct c as [|x c].
    + apply IH in H. cbn [concat app]. exact H.
    + inversion H; subst. split; [reflexivity|discriminate].
Qed.

Lemma block_flush_finished d : bd_state d = BFinished ->
  block_flush d = (Some (bd_count d, bd_data d, bd_sync d), MkBdec BCount 0 [] [] (bd_vlq d) (bd_rem d)).
Proof. intros H. unfold block_flush. rewrite H. reflexivity. Qed.
Lemma block_flush_other d : bd_state d <> BFinished -> block_flush d = (None, d).
Proof. intros H. unfold block_flush. destruct (bd_state d); try reflexivity. congruence. Qed.

Definition blocks1_body (f : nat) (sync : list N) (vals : list Z) (r : bdec * list N * bool) : list Z * Z :=
  let '(d', lft, ok) := r in
  if negb ok then ([], 2%Z)
  else match block_flush d' with
       | (Some (count, data, bsync), d'') =>
           if negb (list_eqb bsync sync) then ([], 2%Z)
           else match data with
                | [] => blocks1 f sync d'' lft vals
                | _ :: _ => match get_longs (N.to_nat count) data with
                            | None => ([], 2%Z)
                            | Some (zs, []) => blocks1 f sync d'' lft (vals ++ zs)
                            | Some (_, _ :: _) => ([], 3%Z)
                            end
                end
       | (None, _) => (vals, 0%Z)
       end.
Lemma blocks1_unfold f sync d bytes vals : bytes <> [] ->
  blocks1 (S f) sync d bytes vals = blocks1_body f sync vals (brun1 d bytes).
Proof. intros H. destruct bytes; [congruence|reflexivity]. Qed.
Lemma app_not_nil {A} (a b : list A) : a <> [] -> a ++ b <> [].
Proof. destruct a; [congruence|discriminate]. Qed.

(* skipping ahead inside one block does not change what the flat loop computes *)
Lemma blocks1_skip f sync d c R d1 vals : R <> [] -> c <> [] ->
  brun1 d c = (d1, [], true) -> bd_state d1 <> BFinished ->
  blocks1 f sync d (c ++ R) vals = blocks1 f sync d1 R vals.
Proof.
  intros HR Hc Hb Hs. destruct f as [|f]; [reflexivity|].
  rewrite blocks1_unfold by (apply app_not_nil, Hc). rewrite (blocks1_unfold f sync d1 R vals HR).
  rewrite brun1_app, Hb. reflexivity.
Qed.

(* M = S for the block phase: reading the blocks from any chunked BufRead gives the values and
   status of the flat byte-automaton loop on the concatenated bytes *)
Theorem read_blocks_flat : forall n chunks f1 f2 sync d trace vals,
  bwf d -> bd_state d <> BFinished ->
  (length (concat chunks) <= n)%nat -> (n < f1)%nat -> (n < f2)%nat ->
  (let '(_, v, st) := read_blocks f1 sync d chunks trace vals in (v, st))
  = blocks1 f2 sync d (concat chunks) vals.
Proof.
  induction n as [|n IH]; intros chunks f1 f2 sync d trace vals Hw Hs Hn H1 H2.
  - destruct f1 as [|f1]; [lia|]. destruct f2 as [|f2]; [lia|]. cbn [read_blocks].
    destruct (fill_buf chunks) as [buf rest] eqn:Ef. apply fill_buf_spec in Ef. destruct Ef as [Ec _].
    destruct buf as [|b buf]; [|rewrite Ec in Hn; cbn [app length] in Hn; lia].
    assert (E0 : concat chunks = []) by (destruct (concat chunks); [reflexivity|cbn [length] in Hn; lia]).
    rewrite E0. reflexivity.
  - destruct f1 as [|f1]; [lia|]. cbn [read_blocks].
    destruct (fill_buf chunks) as [buf rest] eqn:Ef. apply fill_buf_spec in Ef. destruct Ef as [Ec Er].
    destruct buf as [|b0 buf0].
    { rewrite (Er eq_refl) in Ec. cbn [concat app] in Ec. rewrite Ec. destruct f2; [lia|reflexivity]. }
    remember (b0 :: buf0) as buf eqn:Eb. assert (Hbne : buf <> []) by (rewrite Eb; discriminate).
    set (R := concat rest) in *.
    pose proof (block_decode_is_brun1' d buf Hw) as [Hok Heq].
    destruct (block_decode (block_fuel buf) d buf) as [[d' lft] ok] eqn:Ed.
    destruct (brun1 d buf) as [[d1 l1] ok1] eqn:Eb1. cbn [snd] in Hok, Heq. subst ok1.
    destruct ok.
    2:{ (* error inside the chunk *)
      cbn [negb]. rewrite Ec. destruct f2 as [|f2]; [lia|].
      rewrite blocks1_unfold by (apply app_not_nil, Hbne). rewrite brun1_app, Eb1.
      destruct l1; reflexivity. }
    specialize (Heq eq_refl). inversion Heq; subst d' lft. clear Heq. cbn [negb].
    pose proof (brun1_ok_shape buf d d1 l1 Eb1) as [[p Hp] Hfin].
    pose proof (brun1_progress buf d d1 l1 Hs Hbne Eb1) as Hprog.
    pose proof (brun1_wf buf d d1 l1 Hw Eb1) as Hw1.
    assert (Hcat : concat (l1 :: rest) = l1 ++ R) by reflexivity.
    assert (Hlen : (length (l1 ++ R) <= n)%nat).
    { rewrite Ec in Hn. rewrite app_length in *. lia. }
    destruct (bstate_eq_dec (bd_state d1) BFinished) as [Hf|Hnf].
    + (* a complete block *)
      rewrite (block_flush_finished d1 Hf).
      assert (Hflat : brun1 d (buf ++ R) = (d1, l1 ++ R, true)).
      { rewrite brun1_app, Eb1. destruct l1 as [|y l1]; [|reflexivity]. cbn [app]. apply brun1_finished, Hf. }
      rewrite Ec. destruct f2 as [|f2]; [lia|].
      rewrite blocks1_unfold by (apply app_not_nil, Hbne). rewrite Hflat. unfold blocks1_body.
      cbn [negb]. rewrite (block_flush_finished d1 Hf).
      destruct (list_eqb (bd_sync d1) sync); cbn [negb]; [|reflexivity].
      assert (Hw0 : bwf (MkBdec BCount 0 [] [] (bd_vlq d1) (bd_rem d1))) by exact I.
      assert (Hs0 : bd_state (MkBdec BCount 0 [] [] (bd_vlq d1) (bd_rem d1)) <> BFinished) by (cbn; discriminate).
      destruct (bd_data d1) as [|x xs].
      * rewrite <- Hcat. apply IH; try assumption; try lia; (rewrite Hcat; exact Hlen).
      * destruct (get_longs (N.to_nat (bd_count d1)) (x :: xs)) as [[zs [|z zr]]|]; try reflexivity.
        rewrite <- Hcat. apply IH; try assumption; try lia; (rewrite Hcat; exact Hlen).
    + (* the chunk ended inside a block *)
      assert (Hl1 : l1 = []) by (destruct l1; [reflexivity|exfalso; apply Hnf, Hfin; discriminate]).
      subst l1. rewrite (block_flush_other d1 Hnf). rewrite Ec.
      destruct (list_nil_dec R) as [HR|HR].
      * (* nothing follows: finished = true *)
        assert (Hrest : forall tr, read_blocks f1 sync d1 ([] :: rest) tr vals = (tr, vals, 0%Z)).
        { intros tr. destruct f1 as [|f1]; [lia|]. cbn [read_blocks fill_buf].
          destruct (fill_buf rest) as [b2 r2] eqn:Ef2. apply fill_buf_spec in Ef2. destruct Ef2 as [Ec2 _].
          fold R in Ec2. rewrite HR in Ec2. destruct b2; [reflexivity|discriminate]. }
        rewrite Hrest. rewrite HR, app_nil_r. destruct f2 as [|f2]; [lia|].
        rewrite blocks1_unfold by exact Hbne. rewrite Eb1. unfold blocks1_body. cbn [negb]. rewrite (block_flush_other d1 Hnf). reflexivity.
      * rewrite (blocks1_skip f2 sync d buf R d1 vals HR Hbne Eb1 Hnf).
        change R with (concat ([] :: rest)). apply IH; try assumption; try lia;
          (cbn [concat app]; fold R; cbn [app] in Hlen; exact Hlen).
Qed.

Lemma read_blocks_flat' : forall chunks f1 f2 sync d trace vals,
  bwf d -> bd_state d <> BFinished ->
  (length (concat chunks) < f1)%nat -> (length (concat chunks) < f2)%nat ->
  (let '(_, v, st) := read_blocks f1 sync d chunks trace vals in (v, st))
  = blocks1 f2 sync d (concat chunks) vals.
Proof.
  intros chunks f1 f2 sync d trace vals Hw Hs H1 H2.
  apply (read_blocks_flat (length (concat chunks))); try assumption. apply Nat.le_refl.
Qed.

Lemma read_blocks_chunk_independent : forall c1 c2 f1 f2 sync d t1 t2 vals,
  bwf d -> bd_state d <> BFinished -> concat c1 = concat c2 ->
  (length (concat c1) < f1)%nat -> (length (concat c2) < f2)%nat ->
  (let '(_, v, st) := read_blocks f1 sync d c1 t1 vals in (v, st))
  = (let '(_, v, st) := read_blocks f2 sync d c2 t2 vals in (v, st)).
Proof.
  intros c1 c2 f1 f2 sync d t1 t2 vals Hw Hs E H1 H2.
  rewrite (read_blocks_flat' c1 f1 f1 sync d t1 vals Hw Hs H1 H1).
  rewrite (read_blocks_flat' c2 f2 f1 sync d t2 vals Hw Hs H2 ltac:(rewrite <- E; exact H1)).
  now rewrite E.
Qed.

(* non-vacuity *)
Example vlq_nonvacuous :
  vlq_long vlq0 [216; 4; 9] = (vlq0, [9], VSome 300%Z) /\
  vlq_long vlq0 [216] = (MkVlq 88 7, [], VNone) /\
  vlq_long (MkVlq 88 7) [4; 9] = (vlq0, [9], VSome 300%Z) /\
  read_varint [216; 4; 9] = Some (600, 2%nat) /\
  wf_bytes [216; 4; 9].
Proof. vm_compute. repeat split; try reflexivity; repeat constructor. Qed.

Example block_nonvacuous :
  let sync := [1;2;3;4;5;6;7;8;9;10;11;12;13;14;15;16] in
  block_decode (block_fuel ([2; 2; 170] ++ sync ++ [77])) bdec0 ([2; 2; 170] ++ sync ++ [77])
  = (MkBdec BFinished 1 [170] sync vlq0 0, [77], true) /\ bwf bdec0 /\ bd_state bdec0 <> BFinished.
Proof. vm_compute. repeat split; try reflexivity; try discriminate. Qed.
