(* C02 — arrow-data's boolean_equal (byte-aligned fast path: whole bytes then the suffix bits; the
   unaligned BitChunks comparison; the set-bit index loop when the range holds nulls) decides exactly
   the equality of the logical boolean columns. *)
From Coq Require Import List Arith NArith ZArith Bool Lia.
From Coq Require Import ZifyN ZifyNat ZifyBool.
From AV Require Import Base.ListX Base.Bits Base.Bytes Model.C19_Bits Model.C09_Layout Model.C02_Logical Model.C02_Equal.
From AV Require Import Proofs.C02_EqualNulls Proofs.C02_EqualPrim.
Import ListNotations.
Ltac Zify.zify_post_hook ::= Z.div_mod_to_equations.

(* ------------------------------------------------------------------ bytes vs bits *)
Lemma byte_eq_bits u v : (u < 2^8)%N -> (v < 2^8)%N ->
  (u = v <-> forall j, j < 8 -> N.testbit u (N.of_nat j) = N.testbit v (N.of_nat j)).
Proof.
  intros Hu Hv. split; [now intros ->|]. intros H. apply N.bits_inj. intros k.
  destruct (N.lt_ge_cases k 8) as [Hk|Hk].
  - specialize (H (N.to_nat k) ltac:(lia)). now rewrite N2Nat.id in H.
  - now rewrite (testbit_high u 8 k Hu Hk), (testbit_high v 8 k Hv Hk).
Qed.

Lemma bit_at_cons_lo x r i : i < 8 -> bit_at (x :: r) i = N.testbit x (N.of_nat i).
Proof. intros H. unfold bit_at. now rewrite Nat.div_small, Nat.mod_small by exact H. Qed.
Lemma bit_at_cons_hi x r i : bit_at (x :: r) (8 + i) = bit_at r i.
Proof.
  unfold bit_at. replace (8 + i) with (i + 1 * 8) by lia.
  rewrite Nat.div_add, Nat.mod_add by lia. replace (i / 8 + 1) with (S (i / 8)) by lia. reflexivity.
Qed.

Lemma bytes_eq_bits x : forall y, wf_bytes x -> wf_bytes y -> length x = length y ->
  (x = y <-> forall i, i < 8 * length x -> bit_at x i = bit_at y i).
Proof.
  induction x as [|u x IH]; intros [|v y] Hx Hy Hl; cbn [length] in Hl; try discriminate.
  - split; [reflexivity | intros _; reflexivity].
  - inversion Hx as [|? ? Hu Hx']; inversion Hy as [|? ? Hv Hy']; subst. split; [now intros ->|].
    intros H. f_equal.
    + apply (byte_eq_bits u v Hu Hv). intros j Hj. specialize (H j ltac:(cbn [length]; lia)).
      now rewrite !bit_at_cons_lo in H by exact Hj.
    + apply IH; auto. intros i Hi. specialize (H (8 + i) ltac:(cbn [length]; lia)). now rewrite !bit_at_cons_hi in H.
Qed.

Lemma bit_at_skipn' bs k i : bit_at (skipn k bs) i = bit_at bs (8 * k + i).
Proof.
  unfold bit_at. rewrite nth_skipn'. replace (8 * k + i) with (i + k * 8) by lia.
  rewrite Nat.div_add, Nat.mod_add by lia. f_equal. f_equal. lia.
Qed.
Lemma bit_at_firstn bs q i : i < 8 * q -> bit_at (firstn q bs) i = bit_at bs i.
Proof. intros H. unfold bit_at. rewrite nth_firstn'; [reflexivity|]. apply Nat.div_lt_upper_bound; lia. Qed.

Lemma equal_len_bits l r ka kb q : wf_bytes l -> wf_bytes r -> ka + q <= length l -> kb + q <= length r ->
  (equal_len l r ka kb q = true <-> forall i, i < 8 * q -> bit_at l (8 * ka + i) = bit_at r (8 * kb + i)).
Proof.
  intros Hl Hr Hla Hlb. unfold equal_len. rewrite bytes_eqb_eq.
  rewrite bytes_eq_bits; [| now apply wf_firstn_skipn | now apply wf_firstn_skipn | rewrite !firstn_skipn_length; lia].
  rewrite firstn_skipn_length by lia.
  split; intros H i Hi; specialize (H i Hi).
  - now rewrite !bit_at_firstn, !bit_at_skipn' in H by exact Hi.
  - now rewrite !bit_at_firstn, !bit_at_skipn' by exact Hi.
Qed.

(* ------------------------------------------------------------------ boolean_equal on a range *)
Theorem boolean_equal_iff a b ls rs n :
  wf_bytes (buf a 0) -> wf_bytes (buf b 0) ->
  (p_off a + ls + n + 7) / 8 <= length (buf a 0) -> (p_off b + rs + n + 7) / 8 <= length (buf b 0) ->
  (forall i, i < n -> slot_valid a (ls + i) = slot_valid b (rs + i)) ->
  (boolean_equal a b ls rs n = true
   <-> forall i, i < n -> slot_valid a (ls + i) = true ->
         bit_at (buf a 0) (p_off a + ls + i) = bit_at (buf b 0) (p_off b + rs + i)).
Proof.
  intros Hwa Hwb Hla Hlb Hv. unfold boolean_equal.
  destruct (contains_nulls (p_nulls a) ls n) eqn:Ec; cbn [negb].
  - (* nulls in the range: loop over the set validity bits *)
    assert (Hex : ~ (forall i, i < n -> valid_in (p_nulls a) (ls + i) = true))
      by (intros H; apply contains_nulls_false_iff in H; congruence).
    destruct (p_nulls a) as [ln|] eqn:Ea; [|exfalso; apply Hex; intros; reflexivity].
    assert (Hva : forall i, slot_valid a i = nb_valid ln i) by (intros; unfold slot_valid; now rewrite Ea).
    rewrite forallb_forall. split.
    + intros H i Hi Hval. rewrite Hva in Hval.
      assert (Hin : In i (positions (nulls_bits ln ls n))) by (apply In_positions; rewrite nulls_bits_length, nulls_bits_nth by exact Hi; tauto).
      specialize (H i Hin). apply eqb_prop in H.
      now replace (ls + p_off a + i) with (p_off a + ls + i) in H by lia; replace (rs + p_off b + i) with (p_off b + rs + i) in H by lia.
    + intros H i Hin. apply In_positions in Hin as [Hi Hval]. rewrite nulls_bits_length in Hi. rewrite nulls_bits_nth in Hval by exact Hi.
      replace (ls + p_off a + i) with (p_off a + ls + i) by lia; replace (rs + p_off b + i) with (p_off b + rs + i) by lia.
      rewrite (H i Hi) by (now rewrite Hva). apply eqb_reflx.
  - pose proof (proj1 (contains_nulls_false_iff _ _ _) Ec) as Hall.
    assert (Hgoal : (forall i, i < n -> slot_valid a (ls + i) = true -> bit_at (buf a 0) (p_off a + ls + i) = bit_at (buf b 0) (p_off b + rs + i))
                    <-> (forall i, i < n -> bit_at (buf a 0) (p_off a + ls + i) = bit_at (buf b 0) (p_off b + rs + i))).
    { split; intros H i Hi; [apply H; [exact Hi | exact (Hall i Hi)] | intros _; now apply H]. }
    rewrite Hgoal. clear Hgoal.
    destruct (Nat.eqb (ls mod 8) 0 && Nat.eqb (rs mod 8) 0 && Nat.eqb (p_off a mod 8) 0 && Nat.eqb (p_off b mod 8) 0) eqn:Eal.
    + (* byte-aligned fast path *)
      apply andb_true_iff in Eal as [Eal E4]. apply andb_true_iff in Eal as [Eal E3]. apply andb_true_iff in Eal as [E1 E2].
      apply Nat.eqb_eq in E1, E2, E3, E4.
      set (ka := ls / 8 + p_off a / 8). set (kb := rs / 8 + p_off b / 8). set (q := n / 8).
      assert (HA : p_off a + ls = 8 * ka) by (unfold ka; lia).
      assert (HB : p_off b + rs = 8 * kb) by (unfold kb; lia).
      assert (Hn : n = 8 * q + n mod 8) by (unfold q; lia).
      assert (Hbytes : equal_len (buf a 0) (buf b 0) ka kb q = true
                       <-> forall i, i < 8 * q -> bit_at (buf a 0) (8 * ka + i) = bit_at (buf b 0) (8 * kb + i))
        by (apply equal_len_bits; try assumption; lia).
      destruct (Nat.ltb_spec 0 q) as [Hq|Hq]; cbn [andb].
      * destruct (equal_len (buf a 0) (buf b 0) ka kb q) eqn:El; cbn [negb].
        -- pose proof (proj1 Hbytes eq_refl) as Hb8.
           destruct (Nat.eqb_spec (n mod 8) 0) as [Hr|Hr].
           ++ split; [|reflexivity]. intros _ i Hi. rewrite HA, HB. apply Hb8. lia.
           ++ rewrite equal_bits_iff. split.
              ** intros H i Hi. rewrite HA, HB. destruct (Nat.lt_ge_cases i (8 * q)) as [Hlt|Hge]; [now apply Hb8|].
                 specialize (H (i - 8 * q) ltac:(lia)).
                 replace (ls + (n - n mod 8) + p_off a + (i - 8 * q)) with (8 * ka + i) in H by lia.
                 now replace (rs + (n - n mod 8) + p_off b + (i - 8 * q)) with (8 * kb + i) in H by lia.
              ** intros H i Hi. specialize (H (8 * q + i) ltac:(lia)).
                 replace (ls + (n - n mod 8) + p_off a + i) with (p_off a + ls + (8 * q + i)) by lia.
                 now replace (rs + (n - n mod 8) + p_off b + i) with (p_off b + rs + (8 * q + i)) by lia.
        -- split; [discriminate|]. intros H.
           assert (Hf : false = true); [|discriminate Hf].
           apply Hbytes. intros i Hi. rewrite <- HA, <- HB. apply H. lia.
      * assert (Hq0 : q = 0) by lia.
        destruct (Nat.eqb_spec (n mod 8) 0) as [Hr|Hr].
        -- split; [|reflexivity]. intros _ i Hi. lia.
        -- rewrite equal_bits_iff. split.
           ** intros H i Hi. specialize (H i ltac:(lia)).
              replace (ls + (n - n mod 8) + p_off a + i) with (p_off a + ls + i) in H by lia.
              now replace (rs + (n - n mod 8) + p_off b + i) with (p_off b + rs + i) in H by lia.
           ** intros H i Hi. specialize (H i ltac:(lia)).
              replace (ls + (n - n mod 8) + p_off a + i) with (p_off a + ls + i) by lia.
              now replace (rs + (n - n mod 8) + p_off b + i) with (p_off b + rs + i) by lia.
    + (* unaligned: BitChunks comparison *)
      rewrite equal_bits_iff. split; intros H i Hi; specialize (H i Hi).
      * now replace (ls + p_off a + i) with (p_off a + ls + i) in H by lia; replace (rs + p_off b + i) with (p_off b + rs + i) in H by lia.
      * now replace (ls + p_off a + i) with (p_off a + ls + i) by lia; replace (rs + p_off b + i) with (p_off b + rs + i) by lia.
Qed.

Lemma spec_node_bool a : p_ty a = TBool -> spec_node a = true ->
  spec_nulls a = true /\ (p_off a + p_len a + 7) / 8 <= length (buf a 0).
Proof.
  intros Ht H. unfold spec_node in H. rewrite Ht in H. cbn zeta in H.
  apply andb_true_iff in H as [_ H]. apply andb_true_iff in H as [H _]. apply andb_true_iff in H as [H Hb].
  apply andb_true_iff in H as [Hn _]. apply Nat.leb_le in Hb. tauto.
Qed.
Lemma dty_eqb_bool t : dty_eqb TBool t = true <-> t = TBool.
Proof. destruct t; cbn [dty_eqb]; split; intros H; try discriminate; reflexivity. Qed.
Lemma logical_at_bool a i : p_ty a = TBool ->
  logical_at a i = if slot_valid a i then LBool (bit_at (buf a 0) (p_off a + i)) else LNull.
Proof. destruct a as [ty len off nulls bufs kids]. cbn [p_ty]. intros ->. reflexivity. Qed.

Theorem equal_iff_logical_bool a b :
  p_ty a = TBool -> spec_node a = true -> spec_node b = true ->
  wf_bytes (buf a 0) -> wf_bytes (buf b 0) ->
  (equal a b = true <-> p_ty a = p_ty b /\ logical a = logical b).
Proof.
  intros Ht Hsa Hsb Hwa Hwb.
  destruct (spec_node_bool a Ht Hsa) as [Hna Hba].
  assert (Hev : equal_values a b 0 0 (p_len a) = boolean_equal a b 0 0 (p_len a))
    by (destruct a; cbn [p_ty] in Ht; subst; reflexivity).
  unfold equal, base_equal. rewrite Hev, Ht, !andb_true_iff, dty_eqb_bool, Nat.eqb_eq, Nat.eqb_eq, equal_nulls_iff.
  split.
  - intros [[[[Htb Hl] Hnc] Hv] He]. split; [congruence|].
    destruct (spec_node_bool b Htb Hsb) as [Hnb Hbb].
    apply logical_eq_iff. split; [exact Hl|]. intros i Hi.
    pose proof (proj1 (boolean_equal_iff a b 0 0 (p_len a) Hwa Hwb ltac:(rewrite Nat.add_0_r; exact Hba) ltac:(rewrite Nat.add_0_r, Hl; exact Hbb) Hv) He) as He'.
    rewrite (logical_at_bool a i Ht), (logical_at_bool b i Htb).
    specialize (Hv i Hi). cbn [Nat.add] in Hv. rewrite <- Hv.
    destruct (slot_valid a i) eqn:Hval; [|reflexivity].
    specialize (He' i Hi Hval). rewrite !Nat.add_0_r in He'. now rewrite He'.
  - intros [Htb Hlog]. symmetry in Htb.
    destruct (spec_node_bool b Htb Hsb) as [Hnb Hbb].
    apply logical_eq_iff in Hlog as [Hl Hlog].
    assert (Hv : forall i, i < p_len a -> slot_valid a (0 + i) = slot_valid b (0 + i)).
    { intros i Hi. specialize (Hlog i Hi). rewrite (logical_at_bool a i Ht), (logical_at_bool b i Htb) in Hlog.
      cbn [Nat.add]. destruct (slot_valid a i), (slot_valid b i); try discriminate; reflexivity. }
    repeat split; try assumption.
    + apply null_count_eq; assumption.
    + apply (boolean_equal_iff a b 0 0 (p_len a) Hwa Hwb); [rewrite Nat.add_0_r; exact Hba | rewrite Nat.add_0_r, Hl; exact Hbb | exact Hv|].
      intros i Hi Hval. rewrite !Nat.add_0_r. cbn [Nat.add] in Hval.
      specialize (Hlog i Hi). rewrite (logical_at_bool a i Ht), (logical_at_bool b i Htb) in Hlog.
      specialize (Hv i Hi). cbn [Nat.add] in Hv. rewrite <- Hv, Hval in Hlog. now injection Hlog.
Qed.

Example equal_bool_nonvacuous :
  let a := PArr TBool 10 8 None [[255; 165; 1]%N] [] in
  let b := PArr TBool 10 0 None [[165; 253]%N] [] in
  spec_node a = true /\ spec_node b = true /\ equal a b = true /\ equal a (PArr TBool 10 0 None [[165; 252]%N] []) = false.
Proof. vm_compute. repeat split. Qed.
