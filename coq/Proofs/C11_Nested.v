(* C11 — nested fields (struct, list, fixed-size list, run-end encoded) and whole rows. *)
From Coq Require Import List Arith NArith ZArith Lia Bool.
From AV Require Import Base.ListX Model.C11_Row Proofs.C11_Lex Proofs.C11_Fixed Proofs.C11_Var Proofs.C11_Unfold Proofs.C11_Field.
Import ListNotations.
Local Open Scope N_scope.

Definition lof (v : value) : list value := match v with VList vs => vs | _ => [] end.

(* ------------------------------------------------------------------ comparison combinators *)
Lemma struct_cmp_ext cf cg fs xs ys : (forall f x y, cf f x y = cg f x y) ->
  struct_cmp cf fs xs ys = struct_cmp cg fs xs ys.
Proof.
  intros H. revert xs ys. induction fs as [|f fs IH]; intros xs ys; cbn [struct_cmp]; [reflexivity|].
  rewrite H. destruct (cg f (hd VNull xs) (hd VNull ys)); auto.
Qed.

Lemma struct_cmp_opp cf fs xs ys :
  CompOpp (struct_cmp cf fs xs ys) = struct_cmp (fun f x y => CompOpp (cf f x y)) fs xs ys.
Proof.
  revert xs ys. induction fs as [|f fs IH]; intros xs ys; cbn [struct_cmp]; [reflexivity|].
  destruct (cf f (hd VNull xs) (hd VNull ys)); cbn [CompOpp]; auto.
Qed.

Lemma list_cmp_ext c c' xs ys : (forall x y, c x y = c' x y) -> list_cmp c xs ys = list_cmp c' xs ys.
Proof.
  intros H. revert ys. induction xs as [|x xs IH]; intros [|y ys]; cbn [list_cmp]; try reflexivity.
  rewrite H. destruct (c' x y); auto.
Qed.

Lemma list_cmp_opp_same_len c xs ys : length xs = length ys ->
  CompOpp (list_cmp c xs ys) = list_cmp (fun x y => CompOpp (c x y)) xs ys.
Proof.
  revert ys. induction xs as [|x xs IH]; intros [|y ys] Hl; cbn [length] in Hl; try discriminate; cbn [list_cmp]; [reflexivity|].
  destruct (c x y); cbn [CompOpp]; auto.
Qed.

(* ------------------------------------------------------------------ struct *)
Lemma fields_strong fs o :
  Forall (fun f => forall o, strong (wt f) (enc f o) (cmp_field f o)) fs ->
  strong (wt_fields fs) (enc_fields fs o) (struct_cmp (fun f => cmp_field f o) fs).
Proof.
  induction 1 as [|f fs Hf Hfs IH]; intros a b x y Wa Wb.
  - reflexivity.
  - destruct a as [|xa ra], b as [|xb rb]; cbn [wt_fields] in Wa, Wb; try contradiction.
    cbn [enc_fields struct_cmp hd tl]. rewrite <- !app_assoc.
    rewrite (Hf o xa xb _ _ (proj1 Wa) (proj1 Wb)).
    destruct (cmp_field f o xa xb); try reflexivity. apply IH; tauto.
Qed.

Lemma cmp_field_struct fs o xs ys :
  cmp_field (TStruct fs) o (VStruct xs) (VStruct ys) = struct_cmp (fun f => cmp_field f o) fs xs ys.
Proof.
  rewrite cmp_field_dir, !cmp_asc_struct. unfold cmp_field.
  destruct (descending o); [|reflexivity]. apply struct_cmp_opp.
Qed.

Theorem struct_strong fs o :
  Forall (fun f => forall o, strong (wt f) (enc f o) (cmp_field f o)) fs ->
  strong (wt (TStruct fs)) (enc (TStruct fs) o) (cmp_field (TStruct fs) o).
Proof.
  intros IH.
  apply (field_strong_from_valid (TStruct fs) o
           (fun v => exists vs, v = VStruct vs /\ wt_fields fs vs)
           (fun v => 1 :: enc_fields fs o (sof v))
           (fun a b => struct_cmp (fun f => cmp_field f o) fs (sof a) (sof b)) (null_fields fs o) I).
  - apply (strong_prefix _ _ _ [1]).
    apply (strong_sub (fun v => wt_fields fs (sof v))); [intros v (vs & -> & H); exact H|].
    apply (strong_map sof _ _ _ (fields_strong fs o IH)).
  - intros a _. apply one_head.
  - intros v Wv Nv. destruct v; try congruence; try (cbn [wt] in Wv; contradiction).
    rewrite wt_struct in Wv. split; [eexists; split; [reflexivity|exact Wv]|]. apply enc_struct_valid.
  - apply enc_struct_null.
  - intros a b Wa Wb Na Nb. destruct a, b; try congruence; try (cbn [wt] in Wa, Wb; contradiction).
    apply cmp_field_struct.
Qed.

(* ------------------------------------------------------------------ a strong encoder wrapped as a variable-length value *)
Lemma strong_var_of {A} (P : A -> Prop) (g : A -> list N) c :
  strong P g c -> strong P (fun a => var_body (g a)) c.
Proof.
  intros H a b x y Pa Pb. rewrite (var_body_strong (g a) (g b) x y I I).
  rewrite (strong_nil P g c H a b Pa Pb). reflexivity.
Qed.

Lemma var_body_nonempty_head v : v <> [] -> exists tl, var_body v = NON_EMPTY_SENTINEL :: tl.
Proof.
  intros Nv. destruct v as [|p v]; [congruence|]. unfold var_body.
  rewrite encode_nonempty_sblocks by discriminate. eexists. reflexivity.
Qed.

(* ------------------------------------------------------------------ list *)
Definition lbody (g : value -> list N) (vs : list value) : list N :=
  flat_map (fun e => var_body (g e)) vs ++ [EMPTY_SENTINEL].

Lemma lbody_strong (P : value -> Prop) g c :
  strong P g c -> (forall a, g a <> []) ->
  strong (Forall P) (lbody g) (list_cmp c).
Proof.
  intros H Hne a. induction a as [|xa ra IH]; intros b x y Wa Wb.
  - destruct b as [|xb rb]; unfold lbody; cbn [flat_map app list_cmp].
    + now rewrite lex_cons_same.
    + destruct (var_body_nonempty_head (g xb) (Hne xb)) as (tl & ->). cbn [app].
      apply lex_cons_lt. unfold EMPTY_SENTINEL, NON_EMPTY_SENTINEL. lia.
  - destruct b as [|xb rb]; unfold lbody; cbn [flat_map app list_cmp].
    + destruct (var_body_nonempty_head (g xa) (Hne xa)) as (tl & ->). cbn [app].
      apply lex_cons_gt. unfold EMPTY_SENTINEL, NON_EMPTY_SENTINEL. lia.
    + inversion Wa as [|? ? Pa Wra]; inversion Wb as [|? ? Pb Wrb]; subst.
      rewrite <- !app_assoc.
      rewrite (strong_var_of P g c H xa xb _ _ Pa Pb).
      destruct (c xa xb); try reflexivity.
      rewrite !app_assoc. apply (IH rb x y Wra Wrb).
Qed.

Lemma flat_map_invert {A} (f : A -> list N) vs :
  flat_map (fun e => invert (f e)) vs = invert (flat_map f vs).
Proof. induction vs as [|a vs IH]; cbn [flat_map]; [reflexivity|]. now rewrite invert_app, IH. Qed.

Lemma enc_list_valid c o vs :
  enc (TList c) o (VList vs) = inv_if (descending o) (lbody (enc c (child_opts o)) vs).
Proof.
  assert (E : flat_map (fun e => encode_one o (Some (enc c (child_opts o) e))) vs ++ encode_empty o
              = inv_if (descending o) (lbody (enc c (child_opts o)) vs)).
  { unfold lbody, encode_empty. 
    rewrite (flat_map_ext _ (fun e => inv_if (descending o) (var_body (enc c (child_opts o) e))))
      by (intros; apply encode_one_some).
    destruct (descending o); cbn [inv_if]; [|reflexivity].
    rewrite invert_app, flat_map_invert. reflexivity. }
  cbn [enc]. destruct vs as [|x vs]; [|exact E].
  unfold lbody, encode_empty. cbn [flat_map app]. destruct (descending o); reflexivity.
Qed.

Lemma lbody_wf g vs : (forall a, In a vs -> wf_bytes (g a)) -> wf_bytes (lbody g vs).
Proof.
  intros H. unfold lbody. apply Forall_app; split.
  - apply wf_flat_map. intros a Ha. apply var_body_wf. now apply H.
  - constructor; [unfold wf_byte, EMPTY_SENTINEL; lia|constructor].
Qed.

Lemma lbody_head g vs : (forall a, g a <> []) -> exists h tl, lbody g vs = h :: tl /\ 0 < h < 255.
Proof.
  intros Hne. destruct vs as [|x vs]; unfold lbody; cbn [flat_map app].
  - eexists _, _. split; [reflexivity|unfold EMPTY_SENTINEL; lia].
  - destruct (var_body_nonempty_head (g x) (Hne x)) as (tl & ->). cbn [app].
    eexists _, _. split; [reflexivity|unfold NON_EMPTY_SENTINEL; lia].
Qed.

Lemma cmp_field_child c o a b :
  cmp_field c (child_opts o) a b = cmp_asc c (xorb (nulls_first o) (descending o)) a b.
Proof. reflexivity. Qed.

Theorem list_strong c o : wf_type c ->
  (forall o, strong (wt c) (enc c o) (cmp_field c o)) ->
  strong (wt (TList c)) (enc (TList c) o) (cmp_field (TList c) o).
Proof.
  intros Wc IH.
  apply (field_strong_from_valid (TList c) o
           (fun v => exists vs, v = VList vs /\ Forall (wt c) vs)
           (fun v => inv_if (descending o) (lbody (enc c (child_opts o)) (lof v)))
           (fun a b => dir (descending o) (list_cmp (cmp_field c (child_opts o)) (lof a) (lof b))) [] I).
  - apply (strong_sub (fun v => Forall (wt c) (lof v))); [intros v (vs & -> & H); exact H|].
    apply (strong_inv_if _ (fun v => lbody (enc c (child_opts o)) (lof v))
             (fun a b => list_cmp (cmp_field c (child_opts o)) (lof a) (lof b))).
    + intros a Ha. apply lbody_wf. intros e He. apply enc_wf; [exact Wc|].
      rewrite Forall_forall in Ha. now apply Ha.
    + apply (strong_map lof _ _ _ (lbody_strong (wt c) _ _ (IH (child_opts o)) (enc_nonempty c (child_opts o)))).
  - intros a (vs & -> & Wvs). cbn [lof]. apply inv_if_head.
    + apply lbody_wf. intros e He. apply enc_wf; [exact Wc|]. rewrite Forall_forall in Wvs. now apply Wvs.
    + apply lbody_head. apply enc_nonempty.
  - intros v Wv Nv. destruct v; try congruence; try (cbn [wt] in Wv; contradiction).
    rewrite wt_list, wt_all_Forall in Wv. split; [eexists; split; [reflexivity|exact Wv]|]. apply enc_list_valid.
  - reflexivity.
  - intros a b Wa Wb Na Nb. destruct a, b; try congruence; try (cbn [wt] in Wa, Wb; contradiction).
    rewrite cmp_field_dir, !cmp_asc_list. cbn [lof]. unfold dir.
    destruct o as [[|] [|]]; cbn [descending nulls_first]; try apply (f_equal CompOpp);
      apply list_cmp_ext; intros x y; reflexivity.
Qed.

(* ------------------------------------------------------------------ fixed-size list *)
Lemma fbody_strong (P : value -> Prop) g c n :
  strong P g c -> strong (fun vs => length vs = n /\ Forall P vs) (flat_map g) (list_cmp c).
Proof.
  intros H. induction n as [|n IH]; intros a b x y [La Wa] [Lb Wb].
  - destruct a, b; try discriminate. reflexivity.
  - destruct a as [|xa ra], b as [|xb rb]; try discriminate.
    inversion Wa as [|? ? Pa Wra]; inversion Wb as [|? ? Pb Wrb]; subst.
    cbn [flat_map list_cmp]. rewrite <- !app_assoc. rewrite (H xa xb _ _ Pa Pb).
    destruct (c xa xb); try reflexivity. apply IH; split; cbn [length] in *; auto; lia.
Qed.

Theorem fsl_strong c n o :
  (forall o, strong (wt c) (enc c o) (cmp_field c o)) ->
  strong (wt (TFsl c n)) (enc (TFsl c n) o) (cmp_field (TFsl c n) o).
Proof.
  intros IH.
  apply (field_strong_from_valid (TFsl c n) o
           (fun v => exists vs, v = VList vs /\ length vs = n /\ Forall (wt c) vs)
           (fun v => 1 :: flat_map (enc c o) (lof v))
           (fun a b => list_cmp (cmp_field c o) (lof a) (lof b)) [] I).
  - apply (strong_prefix _ _ _ [1]).
    apply (strong_sub (fun v => length (lof v) = n /\ Forall (wt c) (lof v))); [intros v (vs & -> & H); exact H|].
    apply (strong_map lof _ _ _ (fbody_strong (wt c) _ _ n (IH o))).
  - intros a _. apply one_head.
  - intros v Wv Nv. destruct v; try congruence; try (cbn [wt] in Wv; contradiction).
    rewrite wt_fsl, wt_all_Forall in Wv. split; [eexists; split; [reflexivity|exact Wv]|]. reflexivity.
  - reflexivity.
  - intros a b Wa Wb Na Nb. destruct a as [| | | |xs], b as [| | | |ys]; try congruence; try (cbn [wt] in Wa, Wb; contradiction).
    rewrite wt_fsl in Wa, Wb. rewrite cmp_field_dir, !cmp_asc_fsl. cbn [lof]. unfold cmp_field.
    destruct (descending o); [|reflexivity]. apply list_cmp_opp_same_len. destruct Wa, Wb; congruence.
Qed.

(* ------------------------------------------------------------------ run-end encoded *)
Theorem ree_strong c o : wf_type c ->
  (forall o, strong (wt c) (enc c o) (cmp_field c o)) ->
  strong (wt (TRee c)) (enc (TRee c) o) (cmp_field (TRee c) o).
Proof.
  intros Wc IH.
  apply (strong_ext (wt c) (fun v => inv_if (descending o) (var_body (enc c (child_opts o) v))) _
           (fun a b => dir (descending o) (cmp_field c (child_opts o) a b))).
  - intros a _. cbn [enc]. symmetry. apply encode_one_some.
  - intros a b _ _. unfold cmp_field, dir. destruct o as [[|] [|]]; reflexivity.
  - apply (strong_inv_if (wt c) (fun v => var_body (enc c (child_opts o) v)) (cmp_field c (child_opts o))).
    + intros a Wa. apply var_body_wf, enc_wf; assumption.
    + apply strong_var_of, IH.
Qed.

(* ------------------------------------------------------------------ every field type *)
Theorem enc_strong : forall t, wf_type t -> forall o, strong (wt t) (enc t o) (cmp_field t o).
Proof.
  induction t as [w|w| |w|n| |fs IH|c IH|c n IH|c IH|ws] using ftype_ind'; intros Wt o.
  - now apply int_strong.
  - apply uint_strong.
  - apply bool_strong.
  - now apply float_strong.
  - apply fsb_strong.
  - apply var_strong.
  - apply struct_strong. rewrite wf_type_struct in Wt.
    induction IH as [|f fs Hf Hfs IHfs]; constructor; cbn [wf_types] in Wt; [intros o'; apply Hf; tauto | apply IHfs; tauto].
  - apply list_strong; [exact Wt | intros o'; now apply IH].
  - apply fsl_strong. intros o'. now apply IH.
  - apply ree_strong; [exact Wt | intros o'; now apply IH].
  - apply iv_strong. now rewrite <- wf_type_iv.
Qed.
