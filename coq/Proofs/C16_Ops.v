(* C16 — every operation of the machine is a [Raw] transition; hence the invariants hold in every
   reachable state. *)
From Coq Require Import List Arith ZArith Bool Lia.
From AV Require Import Model.C16_Own Proofs.C16_Inv.
Import ListNotations.

(* ------------------------------------------------------------------ lists *)
Lemma in_flat_map_upd {A} (f : A -> list nat) l i y id :
  In id (flat_map f (upd_nth i y l)) -> In id (f y) \/ In id (flat_map f l).
Proof.
  revert i; induction l as [|h t IH]; intros [|i] H; cbn in *; auto.
  - apply in_app_or in H as [H|H]; [left; auto|right; apply in_or_app; auto].
  - apply in_app_or in H as [H|H]; [right; apply in_or_app; auto|].
    destruct (IH i H) as [H1|H1]; [left; auto|right; apply in_or_app; auto].
Qed.

Lemma flat_map_upd_same {A} (f : A -> list nat) l i x y :
  nth_error l i = Some x -> f y = f x -> flat_map f (upd_nth i y l) = flat_map f l.
Proof.
  revert i; induction l as [|h t IH]; intros [|i] H E; cbn in *; try discriminate.
  - injection H as ->. rewrite E. reflexivity.
  - f_equal. apply IH; auto.
Qed.

Lemma in_firstn' {A} k (l : list A) x : In x (firstn k l) -> In x l.
Proof. intros H. rewrite <- (firstn_skipn k l). apply in_or_app. auto. Qed.
Lemma in_skipn' {A} k (l : list A) x : In x (skipn k l) -> In x l.
Proof. intros H. rewrite <- (firstn_skipn k l). apply in_or_app. auto. Qed.

Lemma nth_error_app_last {A} (l : list A) x : nth_error (l ++ [x]) (length l) = Some x.
Proof. rewrite nth_error_app2 by lia. rewrite Nat.sub_diag. reflexivity. Qed.

(* ------------------------------------------------------------------ references held by slots *)
Lemma get_slot_refs s i o id : get_slot s i = Some o -> In id (obj_refs o) -> In id (all_refs s).
Proof.
  unfold get_slot. destruct (nth_error (slots s) i) as [[o'|]|] eqn:E; try discriminate.
  intros H Hi. injection H as ->. unfold all_refs. apply in_or_app. left.
  eapply in_flat_map_nth; eauto.
Qed.

Lemma slot_k_some s i k hs : slot_k s i k = Some hs ->
  exists o, get_slot s i = Some o /\ okind o = k /\ ohs o = hs.
Proof.
  unfold slot_k. destruct (get_slot s i) as [o|]; [|discriminate].
  destruct (Nat.eqb_spec (okind o) k); [|discriminate]. intros H. injection H as <-. eauto.
Qed.
Lemma slot_1_some s i k h : slot_1 s i k = Some h ->
  exists o, get_slot s i = Some o /\ okind o = k /\ ohs o = [h].
Proof.
  unfold slot_1. destruct (slot_k s i k) as [hs|] eqn:E; [|discriminate].
  destruct hs as [|h0 [|]]; try discriminate. intros H. injection H as <-. apply slot_k_some; auto.
Qed.
Lemma slot_k_ref s i k hs h : slot_k s i k = Some hs -> In h hs -> In (hreg h) (all_refs s).
Proof.
  intros H Hi. apply slot_k_some in H as (o & Ho & _ & <-).
  eapply get_slot_refs; eauto. unfold obj_refs. apply in_map. auto.
Qed.
Lemma slot_1_ref s i k h : slot_1 s i k = Some h -> In (hreg h) (all_refs s).
Proof.
  intros H. apply slot_1_some in H as (o & Ho & _ & E).
  eapply get_slot_refs; eauto. unfold obj_refs. rewrite E. left. reflexivity.
Qed.

(* ------------------------------------------------------------------ Raw combinators *)
Lemma OkRef_mono s s1 s2 id : length (nodes s1) <= length (nodes s2) -> OkRef s s1 id -> OkRef s s2 id.
Proof. intros L [H|[H1 H2]]; [left; auto|right; unfold Fresh; lia]. Qed.

Lemma raw_refl s : Raw s s.
Proof.
  constructor; auto.
  - intros id n H. exists n. auto.
  - intros id n H1 H2. unfold node_at in H2. assert (id < length (nodes s)) by (apply nth_error_Some; congruence). lia.
  - intros id H. left. auto.
Qed.

Lemma raw_set_slot s s1 i o : Raw s s1 -> (forall id, In id (slot_refs o) -> OkRef s s1 id) -> Raw s (set_slot i o s1).
Proof.
  intros R H. destruct R as [raw_len0 raw_old0 raw_new0 raw_refs0 raw_pool0]. constructor; auto.
  intros id Hin. unfold all_refs, set_slot in Hin. cbn [slots nodes] in Hin.
  apply in_app_or in Hin as [Hin|Hin].
  - apply in_flat_map_upd in Hin as [Hin|Hin]; [apply H; auto|].
    apply raw_refs0. unfold all_refs. apply in_or_app. auto.
  - apply raw_refs0. unfold all_refs. apply in_or_app. auto.
Qed.

Lemma raw_push_slot s s1 o : Raw s s1 -> (forall id, In id (slot_refs o) -> OkRef s s1 id) -> Raw s (push_slot o s1).
Proof.
  intros R H. destruct R as [raw_len0 raw_old0 raw_new0 raw_refs0 raw_pool0]. constructor; auto.
  intros id Hin. unfold all_refs, push_slot in Hin. cbn [slots nodes] in Hin.
  rewrite flat_map_app in Hin. cbn [flat_map] in Hin. rewrite app_nil_r in Hin.
  apply in_app_or in Hin as [Hin|Hin]; [apply in_app_or in Hin as [Hin|Hin]|].
  - apply raw_refs0. unfold all_refs. apply in_or_app. auto.
  - apply H; auto.
  - apply raw_refs0. unfold all_refs. apply in_or_app. auto.
Qed.

Lemma raw_add_node s s1 n : Raw s s1 -> node_rel n = 0 -> node_resv_live n = 0%Z ->
  (forall r, In r (node_refs n) -> OkRef s s1 r /\ r < length (nodes s1)) -> Raw s (add_node n s1).
Proof.
  intros R Hrel Hres H. destruct R as [raw_len0 raw_old0 raw_new0 raw_refs0 raw_pool0]. constructor.
  - unfold add_node. cbn [nodes]. rewrite app_length. lia.
  - intros id n0 Hn0. destruct (raw_old0 id n0 Hn0) as (n1 & Hn1 & Hr & Hf).
    exists n1. split; [|auto]. unfold node_at, add_node in *. cbn [nodes].
    rewrite nth_error_app1; [auto|apply nth_error_Some; congruence].
  - intros id m Hge Hm. unfold node_at, add_node in Hm. cbn [nodes] in Hm.
    destruct (Nat.lt_ge_cases id (length (nodes s1))) as [Hlt|Hge1].
    + rewrite nth_error_app1 in Hm by exact Hlt. apply raw_new0; auto.
    + rewrite nth_error_app2 in Hm by exact Hge1.
      destruct (id - length (nodes s1)) as [|d] eqn:D; cbn in Hm; [|destruct d; discriminate].
      injection Hm as <-. split; [auto|]. intros r Hr. destruct (H r Hr). lia.
  - intros id Hin. unfold all_refs, add_node in Hin. cbn [slots nodes] in Hin.
    rewrite flat_map_app in Hin. cbn [flat_map] in Hin. rewrite app_nil_r in Hin.
    assert (L : length (nodes s1) <= length (nodes (add_node n s1))) by (unfold add_node; cbn [nodes]; rewrite app_length; lia).
    apply in_app_or in Hin as [Hin|Hin]; [|apply in_app_or in Hin as [Hin|Hin]].
    + eapply OkRef_mono; [exact L|]. apply raw_refs0. unfold all_refs. apply in_or_app. auto.
    + eapply OkRef_mono; [exact L|]. apply raw_refs0. unfold all_refs. apply in_or_app. auto.
    + eapply OkRef_mono; [exact L|]. apply H; auto.
  - unfold add_node. cbn [pool]. rewrite !live_resv_sum in *. cbn [nodes]. rewrite sum_resv_app.
    unfold sum_resv at 2. cbn [fold_right]. lia.
Qed.

Lemma raw_upd_node s s1 id n n' p' : Raw s s1 -> node_at s1 id n ->
  node_refs n' = node_refs n -> node_rel n' = node_rel n ->
  (p' - node_resv_live n' = pool s1 - node_resv_live n)%Z ->
  Raw s (mkS (upd_nth id n' (nodes s1)) (slots s1) p').
Proof.
  intros R Hn Hf Hr Hp. destruct R as [raw_len0 raw_old0 raw_new0 raw_refs0 raw_pool0]. constructor; cbn [nodes slots pool].
  - rewrite upd_nth_length. auto.
  - intros j n0 Hn0. destruct (raw_old0 j n0 Hn0) as (n1 & Hn1 & Hr1 & Hf1).
    destruct (Nat.eq_dec id j) as [->|Hne].
    + exists n'. unfold node_at in *. cbn [nodes]. rewrite nth_error_upd_nth_eq by (apply nth_error_Some; congruence).
      rewrite Hn in Hn1. injection Hn1 as <-. split; [auto|]. split; congruence.
    + exists n1. unfold node_at in *. cbn [nodes]. rewrite nth_error_upd_nth_ne by auto. auto.
  - intros j m Hge Hm. unfold node_at in *. cbn [nodes] in Hm.
    destruct (Nat.eq_dec id j) as [->|Hne].
    + rewrite nth_error_upd_nth_eq in Hm by (apply nth_error_Some; congruence). injection Hm as <-.
      rewrite Hr, Hf. apply raw_new0; auto.
    + rewrite nth_error_upd_nth_ne in Hm by auto. apply raw_new0; auto.
  - intros j Hin. unfold all_refs in Hin. cbn [slots nodes] in Hin.
    rewrite (flat_map_upd_same node_refs (nodes s1) id n n' Hn Hf) in Hin.
    destruct (raw_refs0 j Hin) as [H|[H1 H2]]; [left; auto|right].
    unfold Fresh. cbn [nodes]. rewrite upd_nth_length. lia.
  - rewrite !live_resv_sum in *. cbn [nodes].
    pose proof (sum_resv_upd (nodes s1) id n n' Hn). lia.
Qed.

Lemma raw_set_reg_bytes s s1 id b : Raw s s1 -> Raw s (write_reg id b s1).
Proof.
  intros R. unfold write_reg, get_reg. destruct (nth_error (nodes s1) id) as [[r|e]|] eqn:E; auto.
  unfold set_reg. apply raw_upd_node with (n := NReg r); auto.
Qed.

Lemma raw_truncate s s1 id len : Raw s s1 -> Raw s (truncate_reg s1 id len).
Proof. intros R. unfold truncate_reg. apply raw_set_reg_bytes. auto. Qed.

Lemma raw_set_resv s s1 id v : Raw s s1 ->
  (forall r, get_reg s1 id = Some r -> r_rel r = 0) -> Raw s (set_resv id v s1).
Proof.
  intros R H. unfold set_resv. destruct (get_reg s1 id) as [r|] eqn:E; auto.
  unfold get_reg in E. destruct (nth_error (nodes s1) id) as [[r'|e]|] eqn:E2; try discriminate.
  injection E as ->. specialize (H r eq_refl).
  apply raw_upd_node with (n := NReg r); auto.
  cbn [node_resv_live with_resv r_rel r_resv]. rewrite H. lia.
Qed.

Lemma raw_nodes_len s s1 : Raw s s1 -> length (nodes s) <= length (nodes s1).
Proof. intros R. apply (raw_len _ _ R). Qed.

(* a reference that was live before the operation designates an unreleased region in every
   intermediate state of the operation *)
Lemma live_ref_rel0 s s1 id r : Inv s -> Raw s s1 -> In id (all_refs s) -> get_reg s1 id = Some r -> r_rel r = 0.
Proof.
  intros I R Hin Hg. destruct (inv1 _ I id Hin) as (n & Hn & Hr).
  destruct (raw_old _ _ R id n Hn) as (n1 & Hn1 & Hr1 & _).
  unfold get_reg in Hg. unfold node_at in Hn1. rewrite Hn1 in Hg. destruct n1 as [r1|e]; [|discriminate].
  injection Hg as <-. cbn in Hr1. lia.
Qed.

(* ------------------------------------------------------------------ helpers of the operations *)
Lemma fresh_region_props b o c k :
  node_rel (NReg (fresh_region b o c k)) = 0 /\ node_resv_live (NReg (fresh_region b o c k)) = 0%Z.
Proof. split; reflexivity. Qed.

Lemma fresh_std_refs b a c k : node_refs (NReg (fresh_region b (OStd a) c k)) = [].
Proof. reflexivity. Qed.
Lemma fresh_cust_refs b a c k : node_refs (NReg (fresh_region b (OCust a) c k)) = [].
Proof. reflexivity. Qed.

Ltac fresh_node :=
  match goal with
  | |- Raw _ (add_node (NReg (fresh_region _ (OStd _) _ _)) _) =>
      apply raw_add_node; [|reflexivity|reflexivity|intros ? []]
  | |- Raw _ (add_node (NReg (fresh_region _ (OCust _) _ _)) _) =>
      apply raw_add_node; [|reflexivity|reflexivity|intros ? []]
  end.

Lemma OkRef_fresh_last s s1 n : Raw s s1 -> OkRef s (add_node n s1) (next_id s1).
Proof.
  intros R. right. unfold Fresh, add_node, next_id. cbn [nodes]. rewrite app_length. cbn.
  pose proof (raw_len _ _ R). lia.
Qed.

(* references held by the object in slot i *)
Definition acts (s : state) (i : nat) : list nat := slot_refs (nth i (slots s) None).

Lemma get_slot_acts s i o : get_slot s i = Some o -> acts s i = obj_refs o.
Proof.
  unfold get_slot, acts. destruct (nth_error (slots s) i) as [[o'|]|] eqn:E; try discriminate.
  intros H. injection H as ->. rewrite (nth_error_nth _ _ _ E). reflexivity.
Qed.

Lemma count_flat_map_upd_le {A} (f : A -> list nat) l j y id :
  count_occ Nat.eq_dec (flat_map f (upd_nth j y l)) id <= count_occ Nat.eq_dec (flat_map f l) id + count_occ Nat.eq_dec (f y) id.
Proof.
  revert j; induction l as [|h t IH]; intros [|j]; cbn; try lia.
  - rewrite !count_occ_app. lia.
  - rewrite !count_occ_app. specialize (IH j). lia.
Qed.

Section Ops.
  Variable s : state.
  Hypothesis I : Inv s.
  (* A: the references the operation may duplicate (those of the objects it acts on);
     T: the slots it may overwrite *)
  Variable A : list nat.
  Hypothesis HA : incl A (all_refs s).
  Variable T : list nat.

  Definition OkA (s1 : state) (id : nat) : Prop := In id A \/ Fresh s s1 id.
  Lemma OkA_OkRef s1 id : OkA s1 id -> OkRef s s1 id.
  Proof. intros [H|H]; [left; apply HA; auto|right; auto]. Qed.
  Lemma OkA_mono s1 s2 id : length (nodes s1) <= length (nodes s2) -> OkA s1 id -> OkA s2 id.
  Proof. intros L [H|[H1 H2]]; [left; auto|right; unfold Fresh; lia]. Qed.

  Record RawA (s1 : state) : Prop := mkRawA {
    ra_raw : Raw s s1;
    ra_cnt : forall id, id < length (nodes s) -> ~ In id A -> cnt s1 id <= cnt s id;
    ra_slots : forall j, ~ In j T -> j < length (slots s) -> nth_error (slots s1) j = nth_error (slots s) j;
    ra_slen : length (slots s) <= length (slots s1) }.

  Lemma notA_count s1 (l : list nat) id : (forall x, In x l -> OkA s1 x) -> id < length (nodes s) -> ~ In id A ->
    count_occ Nat.eq_dec l id = 0.
  Proof.
    intros H Hlt HnA. apply count_occ_not_In. intros Hin. destruct (H id Hin) as [Hx|[Hx _]]; [auto|lia].
  Qed.

  Lemma rawA_refl : RawA s.
  Proof. constructor; auto. apply raw_refl. Qed.

  Lemma rawA_set_slot s1 j o : RawA s1 -> (forall id, In id (slot_refs o) -> OkA s1 id) -> In j T -> RawA (set_slot j o s1).
  Proof.
    intros [R C S L] H Hj. constructor.
    - apply raw_set_slot; auto. intros id Hid. apply OkA_OkRef. auto.
    - intros id Hlt HnA. specialize (C id Hlt HnA).
      unfold cnt, all_refs, set_slot in *. cbn [slots nodes]. rewrite count_occ_app in *.
      pose proof (count_flat_map_upd_le slot_refs (slots s1) j o id).
      rewrite (notA_count s1 (slot_refs o) id H Hlt HnA) in *. lia.
    - intros j' Hn Hlt. unfold set_slot. cbn [slots]. rewrite nth_error_upd_nth_ne; [auto|]. intros ->. auto.
    - unfold set_slot. cbn [slots]. rewrite upd_nth_length. auto.
  Qed.

  Lemma rawA_push_slot s1 o : RawA s1 -> (forall id, In id (slot_refs o) -> OkA s1 id) -> RawA (push_slot o s1).
  Proof.
    intros [R C S L] H. constructor.
    - apply raw_push_slot; auto. intros id Hid. apply OkA_OkRef. auto.
    - intros id Hlt HnA. specialize (C id Hlt HnA).
      unfold cnt, all_refs, push_slot in *. cbn [slots nodes]. rewrite flat_map_app, !count_occ_app in *. cbn [flat_map].
      rewrite app_nil_r, (notA_count s1 (slot_refs o) id H Hlt HnA). lia.
    - intros j' Hn Hlt. unfold push_slot. cbn [slots]. rewrite nth_error_app1 by lia. auto.
    - unfold push_slot. cbn [slots]. rewrite app_length. lia.
  Qed.

  Lemma OkA_lt s1 r : RawA s1 -> OkA s1 r -> r < length (nodes s1).
  Proof.
    intros R [H|[_ H]]; [|exact H]. destruct (inv1 _ I r (HA r H)) as (n & Hn & _).
    unfold node_at in Hn. assert (r < length (nodes s)) by (apply nth_error_Some; congruence).
    pose proof (raw_len _ _ (ra_raw _ R)). lia.
  Qed.

  Lemma rawA_add_node s1 n : RawA s1 -> node_rel n = 0 -> node_resv_live n = 0%Z ->
    (forall r, In r (node_refs n) -> OkA s1 r) -> RawA (add_node n s1).
  Proof.
    intros R0 Hrel Hres H. pose proof R0 as [R C S L]. constructor; auto.
    - apply raw_add_node; auto. intros r Hr. split; [apply OkA_OkRef; auto|apply OkA_lt; auto].
    - intros id Hlt HnA. specialize (C id Hlt HnA).
      unfold cnt, all_refs, add_node in *. cbn [slots nodes]. rewrite flat_map_app, !count_occ_app in *. cbn [flat_map].
      rewrite app_nil_r, (notA_count s1 (node_refs n) id H Hlt HnA). lia.
  Qed.

  Lemma rawA_upd_node s1 id n n' p' : RawA s1 -> node_at s1 id n ->
    node_refs n' = node_refs n -> node_rel n' = node_rel n ->
    (p' - node_resv_live n' = pool s1 - node_resv_live n)%Z ->
    RawA (mkS (upd_nth id n' (nodes s1)) (slots s1) p').
  Proof.
    intros [R C S L] Hn Hf Hr Hp. constructor; auto.
    - apply raw_upd_node with (n := n); auto.
    - intros j Hlt HnA. specialize (C j Hlt HnA). unfold cnt, all_refs in *. cbn [slots nodes].
      rewrite (flat_map_upd_same node_refs (nodes s1) id n n' Hn Hf). auto.
  Qed.

  Lemma rawA_set_reg_bytes s1 id b : RawA s1 -> RawA (write_reg id b s1).
  Proof.
    intros R. unfold write_reg, get_reg. destruct (nth_error (nodes s1) id) as [[r|e]|] eqn:E; auto.
    unfold set_reg. apply rawA_upd_node with (n := NReg r); auto.
  Qed.
  Lemma rawA_truncate s1 id len : RawA s1 -> RawA (truncate_reg s1 id len).
  Proof. intros R. unfold truncate_reg. apply rawA_set_reg_bytes. auto. Qed.
  Lemma rawA_set_resv s1 id v : RawA s1 ->
    (forall r, get_reg s1 id = Some r -> r_rel r = 0) -> RawA (set_resv id v s1).
  Proof.
    intros R H. unfold set_resv. destruct (get_reg s1 id) as [r|] eqn:E; auto.
    unfold get_reg in E. destruct (nth_error (nodes s1) id) as [[r'|e]|] eqn:E2; try discriminate.
    injection E as ->. specialize (H r eq_refl).
    apply rawA_upd_node with (n := NReg r); auto.
    cbn [node_resv_live with_resv r_rel r_resv]. rewrite H. lia.
  Qed.

  Ltac app_set := apply rawA_set_slot; [ | | solve [auto with datatypes] ].
  Ltac fresh_nodeA :=
    match goal with
    | |- RawA (add_node (NReg (fresh_region _ (OStd _) _ _)) _) =>
        apply rawA_add_node; [|reflexivity|reflexivity|intros ? []]
    | |- RawA (add_node (NReg (fresh_region _ (OCust _) _ _)) _) =>
        apply rawA_add_node; [|reflexivity|reflexivity|intros ? []]
    end.

  Lemma OkA_fresh_last s1 n : RawA s1 -> OkA (add_node n s1) (next_id s1).
  Proof.
    intros R. right. unfold Fresh, add_node, next_id. cbn [nodes]. rewrite app_length. cbn.
    pose proof (raw_len _ _ (ra_raw _ R)). lia.
  Qed.

  Definition AllOk (s1 : state) (hs : list handle) : Prop := forall h, In h hs -> OkA s1 (hreg h).

  Lemma AllOk_mono s1 s2 hs : length (nodes s1) <= length (nodes s2) -> AllOk s1 hs -> AllOk s2 hs.
  Proof. intros L H h Hh. eapply OkA_mono; eauto. Qed.

  Lemma AllOk_refs s1 k hs aux : AllOk s1 hs -> forall id, In id (slot_refs (Some (mkO k hs aux))) -> OkA s1 id.
  Proof. intros H id Hin. cbn in Hin. unfold obj_refs in Hin. cbn in Hin. apply in_map_iff in Hin as (h & <- & Hh). auto. Qed.

  Lemma add_node_len n s1 : length (nodes s1) <= length (nodes (add_node n s1)).
  Proof. unfold add_node. cbn [nodes]. rewrite app_length. lia. Qed.

  Lemma raw_sliced s1 n : RawA s1 -> OkA s1 (hreg n) ->
    RawA (fst (sliced s1 n)) /\ OkA (fst (sliced s1 n)) (hreg (snd (sliced s1 n)))
    /\ length (nodes s1) <= length (nodes (fst (sliced s1 n))).
  Proof.
    intros R H. unfold sliced. destruct (hbo n mod 8 =? 0); cbn [fst snd hreg].
    - auto.
    - split; [fresh_nodeA; auto|]. split; [apply OkA_fresh_last; auto|apply add_node_len].
  Qed.

  Lemma filter_nulls_incl s1 hs h : In h (filter_nulls s1 hs) -> In h hs.
  Proof.
    unfold filter_nulls. destruct hs as [|v [|n [|]]]; auto.
    destruct (has_nulls s1 n); auto. intros [<-|[]]. left. auto.
  Qed.

  Lemma raw_export s1 kind c hs : RawA s1 -> AllOk s1 hs ->
    RawA (fst (export_arr s1 kind c hs))
    /\ OkA (fst (export_arr s1 kind c hs)) (snd (export_arr s1 kind c hs))
    /\ length (nodes s1) <= length (nodes (fst (export_arr s1 kind c hs))).
  Proof.
    intros R H. unfold export_arr.
    assert (Hf : AllOk s1 (filter_nulls s1 hs)) by (intros h Hh; apply H; eapply filter_nulls_incl; eauto).
    destruct (filter_nulls s1 hs) as [|v [|n [|]]]; cbn [fst snd].
    - split; [apply rawA_add_node; auto; intros r []|]. split; [apply OkA_fresh_last; auto|apply add_node_len].
    - assert (Hv : OkA s1 (hreg v)) by (apply Hf; left; auto).
      split; [|split; [apply OkA_fresh_last; auto|apply add_node_len]].
      apply rawA_add_node; auto. intros r Hr. cbn in Hr. destruct Hr as [<-|[]].
      auto.
    - assert (Hv : OkA s1 (hreg v)) by (apply Hf; left; auto).
      assert (Hn : OkA s1 (hreg n)) by (apply Hf; right; left; auto).
      set (off := if kind =? 6 then hbo v else 0).
      (* the exported validity buffer *)
      match goal with |- context [let '(_, _) := ?X in _] => remember X as P eqn:EP end.
      assert (HP : RawA (fst P) /\ OkA (fst P) (hreg (snd P)) /\ length (nodes s1) <= length (nodes (fst P))).
      { rewrite EP. destruct (off =? hbo n); [cbn; auto|]. destruct (off =? 0); [apply raw_sliced; auto|].
        cbn [fst snd hreg]. split; [fresh_nodeA; auto|]. split; [apply OkA_fresh_last; auto|apply add_node_len]. }
      destruct HP as (R1 & Hok & L1). clear EP. destruct P as [s1' nb].
      cbn [fst snd] in *.
      split; [|split; [apply OkA_fresh_last; auto|pose proof (add_node_len (NExp (mkE kind (if kind =? 6 then hbl v else hlen v / 4) off [mkH (hreg v) (hoff v) (hlen v) 0 0; nb] c 0)) s1'); lia]].
      apply rawA_add_node; auto. intros r Hr. cbn in Hr. destruct Hr as [<-|[<-|[]]].
      + eapply OkA_mono; eauto.
      + auto.
    - split; [apply rawA_add_node; auto; intros r []|]. split; [apply OkA_fresh_last; auto|apply add_node_len].
  Qed.

  Lemma raw_import_buf s1 e src nb : RawA s1 -> OkA s1 e ->
    RawA (fst (import_buf s1 e src nb)) /\ OkA (fst (import_buf s1 e src nb)) (hreg (snd (import_buf s1 e src nb)))
    /\ length (nodes s1) <= length (nodes (fst (import_buf s1 e src nb))).
  Proof.
    intros R He. unfold import_buf. cbn [fst snd hreg].
    split; [|split; [apply OkA_fresh_last; auto|apply add_node_len]].
    apply rawA_add_node; auto. intros r Hr. cbn in Hr. destruct Hr as [<-|[]]. auto.
  Qed.

  Lemma raw_import s1 e : RawA s1 -> OkA s1 e ->
    RawA (fst (import_arr s1 e))
    /\ (forall id, In id (slot_refs (snd (import_arr s1 e))) -> OkA (fst (import_arr s1 e)) id)
    /\ length (nodes s1) <= length (nodes (fst (import_arr s1 e))).
  Proof.
    intros R He. unfold import_arr. destruct (get_exp s1 e) as [ex|]; [|cbn; split; [auto|split; [intros ? []|lia]]].
    destruct (e_bufs ex) as [|v rest]; [cbn; split; [auto|split; [intros ? []|lia]]|].
    set (vbytes := if e_kind ex =? 6 then ceil8 (e_len ex + e_off ex) else 4 * e_len ex).
    match goal with |- context [let '(_, _) := ?X in _] => remember X as P eqn:EP end.
    assert (HP : RawA (fst P) /\ OkA (fst P) (hreg (snd P)) /\ length (nodes s1) <= length (nodes (fst P))).
    { rewrite EP. destruct (vbytes =? 0); [|apply raw_import_buf; auto].
      cbn [fst snd hreg]. split; [fresh_nodeA; auto|]. split; [apply OkA_fresh_last; auto|apply add_node_len]. }
    destruct HP as (R1 & Hok & L1). clear EP. destruct P as [s1' hv].
    cbn [fst snd] in *.
    assert (Hhv' : hreg (if e_kind ex =? 6 then mkH (hreg hv) 0 (hlen hv) (e_off ex) (e_len ex) else hv) = hreg hv)
      by (destruct (e_kind ex =? 6); reflexivity).
    destruct rest as [|n rest'].
    - cbn [fst snd]. split; [auto|]. split; [|lia].
      intros id Hin. cbn in Hin. destruct Hin as [<-|[]]. rewrite Hhv'. auto.
    - assert (He1 : OkA s1' e) by (eapply OkA_mono; eauto).
      destruct (raw_import_buf s1' e n (ceil8 (e_len ex + e_off ex)) R1 He1) as (R2 & Hok2 & L2).
      destruct (import_buf s1' e n (ceil8 (e_len ex + e_off ex))) as [s2 hn]. cbn [fst snd] in *.
      split; [auto|]. split; [|lia].
      intros id Hin. cbn in Hin. destruct Hin as [<-|[<-|[]]]; [rewrite Hhv'; eapply OkA_mono; eauto|auto].
  Qed.

  (* ---------------------------------------------------------------- into_builder *)
  Definition ib_state (r : ib_result) : state := match r with IbOk s1 _ | IbErr s1 _ => s1 end.
  Definition ib_handles (r : ib_result) : list handle := match r with IbOk _ hs | IbErr _ hs => hs end.

  Lemma raw_into_builder hs : AllOk s hs ->
    RawA (ib_state (into_builder s hs)) /\ AllOk (ib_state (into_builder s hs)) (ib_handles (into_builder s hs)).
  Proof.
    intros H. unfold into_builder.
    assert (Hf : AllOk s (filter_nulls s hs)) by (intros h Hh; apply H; eapply filter_nulls_incl; eauto).
    destruct (filter_nulls s hs) as [|v rest] eqn:Ef; [cbn; split; [apply rawA_refl|auto]|].
    destruct rest as [|n rest'].
    - destruct (into_mutable_ok s v _); cbn; (split; [apply rawA_refl|auto]).
    - assert (Hv : OkA s (hreg v)) by (apply Hf; left; auto).
      assert (Hn : OkA s (hreg n)) by (apply Hf; right; left; auto).
      destruct (raw_sliced s n rawA_refl Hn) as (R1 & Hok1 & L1).
      destruct (sliced s n) as [s1 nb]. cbn [fst snd] in *.
      assert (A1 : AllOk s1 [v; nb]).
      { intros h [<-|[<-|[]]]; [eapply OkA_mono; eauto|auto]. }
      destruct (negb (if negb (hbo n mod 8 =? 0) then true else into_mutable_ok s nb (cnt s (hreg n)))).
      + cbn. auto.
      + set (s2 := truncate_reg s1 (hreg nb) (hlen nb)).
        assert (R2 : RawA s2) by (apply rawA_truncate; auto).
        assert (A2 : AllOk s2 [v; nb]).
        { eapply AllOk_mono; [|exact A1]. unfold s2, truncate_reg, write_reg. destruct (get_reg s1 (hreg nb)); [|lia].
          unfold set_reg. cbn [nodes]. rewrite upd_nth_length. lia. }
        destruct (into_mutable_ok s v _); cbn; auto.
  Qed.

  Lemma raw_builder_values s1 v : RawA s1 -> OkA s1 (hreg v) ->
    RawA (fst (builder_values s1 v)) /\ OkA (fst (builder_values s1 v)) (hreg (snd (builder_values s1 v)))
    /\ length (nodes s1) <= length (nodes (fst (builder_values s1 v))).
  Proof.
    intros R H. unfold builder_values.
    assert (R1 : RawA (truncate_reg s1 (hreg v) (hlen v))) by (apply rawA_truncate; auto).
    assert (L1 : length (nodes (truncate_reg s1 (hreg v) (hlen v))) = length (nodes s1)).
    { unfold truncate_reg, write_reg. destruct (get_reg s1 (hreg v)); [|reflexivity]. unfold set_reg. cbn [nodes]. apply upd_nth_length. }
    destruct (_ && _); cbn [fst snd hreg].
    - split; [auto|]. split; [eapply OkA_mono; [|exact H]; lia|lia].
    - split; [fresh_nodeA; auto|]. split; [apply OkA_fresh_last; auto|].
      pose proof (add_node_len (NReg (fresh_region (hbytes s1 v) (OStd 4) (hlen v) true)) (truncate_reg s1 (hreg v) (hlen v))). lia.
  Qed.

  Lemma write_reg_len id b s1 : length (nodes (write_reg id b s1)) = length (nodes s1).
  Proof. unfold write_reg. destruct (get_reg s1 id); [|reflexivity]. unfold set_reg. cbn [nodes]. apply upd_nth_length. Qed.
  Lemma truncate_reg_len id n s1 : length (nodes (truncate_reg s1 id n)) = length (nodes s1).
  Proof. apply write_reg_len. Qed.
  Lemma set_resv_len id v s1 : length (nodes (set_resv id v s1)) = length (nodes s1).
  Proof. unfold set_resv. destruct (get_reg s1 id); [|reflexivity]. cbn [nodes]. apply upd_nth_length. Qed.

  Lemma finish_handles_incl s1 hs h : In h (finish_handles s1 hs) -> exists h0, In h0 hs /\ hreg h0 = hreg h.
  Proof.
    unfold finish_handles. destruct hs as [|v [|n [|]]]; try solve [intros Hh; exists h; split; auto].
    intros Hh. apply filter_nulls_incl in Hh. destruct Hh as [<-|[<-|[]]]; [exists v|exists n]; cbn; auto.
  Qed.
  Lemma rebuilt_incl hs h : In h (rebuilt hs) -> exists h0, In h0 hs /\ hreg h0 = hreg h.
  Proof.
    unfold rebuilt. destruct hs as [|v [|n [|]]]; try solve [intros Hh; exists h; split; auto].
    intros [<-|[<-|[]]]; [exists v|exists n]; cbn; auto.
  Qed.
  Lemma AllOk_same_regs s1 hs hs' : AllOk s1 hs -> (forall h, In h hs' -> exists h0, In h0 hs /\ hreg h0 = hreg h) -> AllOk s1 hs'.
  Proof. intros H Hi h Hh. destruct (Hi h Hh) as (h0 & Hh0 & <-). auto. Qed.

  (* ---------------------------------------------------------------- every operation *)
  Lemma get_slot_AllOk i o : incl (acts s i) A -> get_slot s i = Some o -> AllOk s (ohs o).
  Proof. intros Hi H h Hh. left. apply Hi. rewrite (get_slot_acts _ _ _ H). unfold obj_refs. apply in_map. auto. Qed.
  Lemma slot_k_AllOk i k hs : incl (acts s i) A -> slot_k s i k = Some hs -> AllOk s hs.
  Proof. intros Hi H. apply slot_k_some in H as (o & Ho & _ & <-). eapply get_slot_AllOk; eauto. Qed.
  Lemma slot_1_Ok i k h : incl (acts s i) A -> slot_1 s i k = Some h -> OkA s (hreg h).
  Proof.
    intros Hi H. apply slot_1_some in H as (o & Ho & _ & E). apply (get_slot_AllOk i o Hi Ho). rewrite E. left. auto.
  Qed.
  Lemma slot_1_inA i k h : incl (acts s i) A -> slot_1 s i k = Some h -> In (hreg h) (all_refs s).
  Proof. intros _ H. eapply slot_1_ref; eauto. Qed.

  Ltac one_ref := let id := fresh "id" in let H := fresh "H" in
    intros id H; cbn in H; unfold obj_refs in H; cbn in H;
    repeat (destruct H as [<-|H]; [try assumption|]); try contradiction.

  Lemma raw_na0 : RawA (fst (na0 s)). Proof. apply rawA_refl. Qed.
  Lemma raw_na1 : RawA (fst (na1 s)). Proof. cbn. apply rawA_push_slot; [apply rawA_refl|intros ? []]. Qed.
  Hint Resolve raw_na0 raw_na1 rawA_refl : c16.

  Lemma raw_new_std esz data : RawA (fst (ex_new_std s esz data)).
  Proof.
    unfold ex_new_std. destruct (_ && _); [|auto with c16]. cbn [fst].
    apply rawA_push_slot; [fresh_nodeA; apply rawA_refl|]. one_ref. apply OkA_fresh_last. apply rawA_refl.
  Qed.
  Lemma raw_new_cust c data : RawA (fst (ex_new_cust s c data)).
  Proof.
    unfold ex_new_cust. cbn [fst].
    apply rawA_push_slot; [fresh_nodeA; apply rawA_refl|]. one_ref. apply OkA_fresh_last. apply rawA_refl.
  Qed.
  Lemma raw_new_mut c data : RawA (fst (ex_new_mut s c data)).
  Proof.
    unfold ex_new_mut. destruct (_ <=? _); [|auto with c16]. cbn [fst].
    apply rawA_push_slot; [fresh_nodeA; apply rawA_refl|]. one_ref. apply OkA_fresh_last. apply rawA_refl.
  Qed.

  Section Unary1.
  Variable i : nat.
  Hypothesis Hi : incl (acts s i) A.
  Hypothesis Ht : In i T.

  Lemma raw_clone : RawA (fst (ex_clone s i)).
  Proof.
    unfold ex_clone. destruct (get_slot s i) as [o|] eqn:E; [|auto with c16].
    destruct (is_shared_kind (okind o)); [|auto with c16]. cbn [fst].
    apply rawA_push_slot; [apply rawA_refl|]. intros id Hin. left. apply Hi. rewrite (get_slot_acts _ _ _ E). exact Hin.
  Qed.
  Lemma raw_slice a b : RawA (fst (ex_slice s i a b)).
  Proof.
    unfold ex_slice. destruct (get_slot s i) as [o|] eqn:E; [|auto with c16].
    pose proof (get_slot_AllOk i o Hi E) as A0.
    destruct (okind o) as [|[|[|[|[|[|[|k]]]]]]]; auto with c16; destruct (ohs o) as [|v rest] eqn:Eh; auto with c16; try rewrite Eh in A0.
    - destruct rest; auto with c16. destruct (_ <=? _); auto with c16. cbn [fst].
      apply rawA_push_slot; [apply rawA_refl|]. one_ref. apply (A0 v). left. auto.
    - destruct (_ <=? _); auto with c16. cbn [fst].
      apply rawA_push_slot; [apply rawA_refl|]. apply AllOk_refs.
      intros h [<-|Hh]; [cbn [hreg]; apply (A0 v); left; auto|]. apply in_map_iff in Hh as (h0 & <- & Hh0). cbn [slice_bits hreg]. apply (A0 h0). right. auto.
    - destruct rest; auto with c16. destruct (_ <=? _); auto with c16. cbn [fst].
      apply rawA_push_slot; [apply rawA_refl|]. one_ref. apply (A0 v). left. auto.
    - destruct (_ <=? _); auto with c16. cbn [fst].
      apply rawA_push_slot; [apply rawA_refl|]. apply AllOk_refs.
      intros h Hh. apply in_map_iff in Hh as (h0 & <- & Hh0). cbn [slice_bits hreg]. apply (A0 h0). auto.
  Qed.
  Lemma raw_drop : RawA (fst (ex_drop s i)).
  Proof.
    unfold ex_drop. destruct (get_slot s i); [|auto with c16]. cbn [fst].
    app_set; [apply rawA_refl|intros ? []].
  Qed.
  Lemma raw_into_mutable : RawA (fst (ex_into_mutable s i)).
  Proof.
    unfold ex_into_mutable. destruct (slot_1 s i 1) as [h|] eqn:E; [|auto with c16].
    destruct (into_mutable_ok s h _); [|cbn; auto with c16]. cbn [fst].
    app_set; [apply rawA_truncate; apply rawA_refl|]. one_ref.
    eapply OkA_mono; [|eapply slot_1_Ok; eauto]. rewrite truncate_reg_len. lia.
  Qed.
  Lemma raw_freeze k : RawA (fst (ex_freeze s i k)).
  Proof.
    unfold ex_freeze. destruct (slot_1 s i k) as [h|] eqn:E; [|auto with c16]. cbn [fst].
    app_set; [apply rawA_refl|]. one_ref. eapply slot_1_Ok; eauto.
  Qed.
  Lemma raw_write k pos v : RawA (fst (ex_write s i k pos v)).
  Proof.
    unfold ex_write. destruct (slot_k s i k) as [[|h t]|]; auto with c16.
    destruct (_ <? _); auto with c16. cbn [fst]. apply rawA_set_reg_bytes. apply rawA_refl.
  Qed.
  Lemma raw_into_vec esz : RawA (fst (ex_into_vec s i esz)).
  Proof.
    unfold ex_into_vec. destruct (slot_1 s i 1) as [h|] eqn:E; [|auto with c16].
    destruct (_ || _); [|auto with c16]. destruct (into_vec_ok s h esz _); [|cbn; auto with c16]. cbn [fst].
    assert (R1 : RawA (truncate_reg s (hreg h) (hlen h / esz * esz))) by (apply rawA_truncate; apply rawA_refl).
    app_set.
    - apply rawA_set_resv; [exact R1|]. intros r Hr.
      eapply live_ref_rel0; [exact I|apply (ra_raw _ R1)|eapply slot_1_ref; eauto|exact Hr].
    - one_ref. eapply OkA_mono; [|eapply slot_1_Ok; eauto]. rewrite set_resv_len, truncate_reg_len. lia.
  Qed.
  Lemma raw_wrap_bits a b : RawA (fst (ex_wrap_bits s i a b)).
  Proof.
    unfold ex_wrap_bits. destruct (slot_1 s i 1) as [h|] eqn:E; [|auto with c16].
    destruct (_ <=? _); [|auto with c16]. cbn [fst].
    app_set; [apply rawA_refl|]. one_ref. eapply slot_1_Ok; eauto.
  Qed.
  Lemma raw_finish : RawA (fst (ex_finish s i)).
  Proof.
    unfold ex_finish. destruct (slot_k s i 7) as [hs|] eqn:E; [|auto with c16]. cbn [fst].
    app_set; [apply rawA_refl|]. apply AllOk_refs.
    eapply AllOk_same_regs; [eapply slot_k_AllOk; eauto|]. apply finish_handles_incl.
  Qed.
  Lemma raw_unary code a b : RawA (fst (ex_unary s code i a b)).
  Proof.
    unfold ex_unary. destruct (slot_k s i 4) as [hs|] eqn:E; [|auto with c16].
    destruct (raw_into_builder hs (slot_k_AllOk _ _ _ Hi E)) as (R1 & A1).
    destruct (into_builder s hs) as [s1 hs1|s1 hs1]; cbn [ib_state ib_handles] in *.
    2:{ cbn [fst]. app_set; [auto|]. apply AllOk_refs. eapply AllOk_same_regs; [exact A1|apply rebuilt_incl]. }
    destruct hs1 as [|v rest]; [auto with c16|].
    assert (Hv : OkA s1 (hreg v)) by (apply A1; left; auto).
    destruct (raw_builder_values s1 v R1 Hv) as (R2 & Hok2 & L2).
    destruct (builder_values s1 v) as [s2 v']. cbn [fst snd] in *.
    assert (A2 : AllOk s2 (v' :: rest)).
    { intros h [<-|Hh]; [auto|]. eapply OkA_mono; [exact L2|]. apply A1. right. auto. }
    destruct (code =? 16); [cbn [fst]; app_set; [auto|apply AllOk_refs; auto]|].
    destruct (code =? 14).
    - cbn [fst]. app_set; [apply rawA_set_reg_bytes; auto|]. apply AllOk_refs.
      eapply AllOk_same_regs; [|apply finish_handles_incl].
      eapply AllOk_mono; [|exact A2]. rewrite write_reg_len. lia.
    - destruct (try_lanes _ _ _ _) as [vals'|]; cbn [fst].
      + app_set; [apply rawA_set_reg_bytes; auto|]. apply AllOk_refs.
        eapply AllOk_same_regs; [|apply finish_handles_incl].
        eapply AllOk_mono; [|exact A2]. rewrite write_reg_len. lia.
      + app_set; [auto|intros ? []].
  Qed.
  Lemma raw_bit_assign a w : RawA (fst (ex_bit_assign s i a w)).
  Proof.
    unfold ex_bit_assign. destruct (slot_1 s i 5) as [h|] eqn:E; [|auto with c16].
    destruct (slot_1 s a 5) as [r|] eqn:Er; [|auto with c16].
    destruct (_ && _); [|auto with c16]. destruct (into_mutable_ok s h _); cbn [fst].
    - apply rawA_set_reg_bytes. apply rawA_truncate. apply rawA_refl.
    - app_set; [fresh_nodeA; apply rawA_refl|]. one_ref. apply OkA_fresh_last. apply rawA_refl.
  Qed.
  Lemma raw_ex_export : RawA (fst (ex_export s i)).
  Proof.
    unfold ex_export. destruct (get_slot s i) as [o|] eqn:E; [|auto with c16].
    destruct (_ || _); [|auto with c16].
    destruct (raw_export s (okind o) true (ohs o) rawA_refl (get_slot_AllOk _ _ Hi E)) as (R1 & Hok & L1).
    destruct (export_arr s (okind o) true (ohs o)) as [s1 e]. cbn [fst snd] in *.
    apply rawA_push_slot; [auto|]. one_ref.
  Qed.
  Lemma raw_ex_import : RawA (fst (ex_import s i)).
  Proof.
    unfold ex_import. destruct (slot_1 s i 8) as [h|] eqn:E; [|auto with c16].
    destruct (raw_import s (hreg h) rawA_refl (slot_1_Ok _ _ _ Hi E)) as (R1 & Hok & L1).
    destruct (import_arr s (hreg h)) as [s1 o]. cbn [fst snd] in *.
    app_set; auto.
  Qed.
  Lemma raw_claim_regs ids s1 : RawA s1 -> (forall id, In id ids -> In id (all_refs s)) -> RawA (claim_regs ids s1).
  Proof.
    unfold claim_regs. revert s1; induction ids as [|id t IH]; intros s1 R H; [exact R|]. cbn [fold_left].
    apply IH; [|intros; apply H; right; auto].
    apply rawA_set_resv; [auto|]. intros r Hr.
    eapply live_ref_rel0; [exact I|apply (ra_raw _ R)|apply H; left; auto|exact Hr].
  Qed.
  Lemma raw_claim : RawA (fst (ex_claim s i)).
  Proof.
    unfold ex_claim. destruct (get_slot s i) as [o|] eqn:E; [|auto with c16].
    destruct (_ || _); [|auto with c16]. destruct (all_capk s _); [|auto with c16]. cbn [fst].
    apply raw_claim_regs; [apply rawA_refl|]. intros id Hin. apply in_map_iff in Hin as (h & <- & Hh).
    eapply get_slot_refs; eauto. unfold obj_refs. apply in_map.
    destruct (_ || _); [eapply filter_nulls_incl; eauto|auto].
  Qed.
  Lemma raw_stream_next : RawA (fst (ex_stream_next s i)).
  Proof.
    unfold ex_stream_next. destruct (get_slot s i) as [o|] eqn:E; [|auto with c16].
    destruct (okind o =? 9); [|auto with c16]. destruct (oaux o) as [|k ks]; [cbn; apply rawA_push_slot; [apply rawA_refl|intros ? []]|].
    pose proof (get_slot_AllOk _ _ Hi E) as A0.
    assert (A1 : AllOk s (firstn k (ohs o))) by (intros h Hh; apply A0; eapply in_firstn'; eauto).
    destruct (raw_export s 4 false (firstn k (ohs o)) rawA_refl A1) as (R1 & Hok & L1).
    destruct (export_arr s 4 false (firstn k (ohs o))) as [s1 e]. cbn [fst snd] in *.
    destruct (raw_import s1 e R1 Hok) as (R2 & Hok2 & L2).
    destruct (import_arr s1 e) as [s2 o2]. cbn [fst snd] in *.
    apply rawA_push_slot; [|auto]. app_set; [auto|]. apply AllOk_refs.
    intros h Hh. eapply OkA_mono; [|apply A0; eapply in_skipn'; eauto]. lia.
  Qed.
  Lemma raw_ex_truncate a : RawA (fst (ex_truncate s i a)).
  Proof.
    unfold ex_truncate. destruct (slot_1 s i 2) as [h|] eqn:E; [|auto with c16].
    destruct (_ <=? _); [|cbn; auto with c16]. cbn [fst].
    set (s1 := truncate_reg s (hreg h) a).
    assert (R1 : RawA s1) by (apply rawA_truncate; apply rawA_refl).
    assert (R2 : RawA (match get_reg s1 (hreg h) with
                        | Some r => match r_resv r with Some _ => set_resv (hreg h) (Some a) s1 | None => s1 end
                        | None => s1 end)).
    { destruct (get_reg s1 (hreg h)) as [r|] eqn:Er; [|auto]. destruct (r_resv r); [|auto].
      apply rawA_set_resv; [auto|]. intros r0 Hr0.
      eapply live_ref_rel0; [exact I|apply (ra_raw _ R1)|eapply slot_1_ref; eauto|exact Hr0]. }
    app_set; [exact R2|]. one_ref.
    eapply OkA_mono; [|eapply slot_1_Ok; eauto].
    destruct (get_reg s1 (hreg h)) as [r|]; [destruct (r_resv r)|]; rewrite ?set_resv_len; unfold s1; rewrite truncate_reg_len; lia.
  Qed.

  Lemma raw_stream_new a b : (b = 1 -> incl (acts s a) A) -> RawA (fst (ex_stream_new s i a b)).
  Proof.
    intros Ha. unfold ex_stream_new. destruct (slot_k s i 4) as [hs|] eqn:E; [|auto with c16]. destruct (Nat.eqb_spec b 1) as [Eb|Eb].
    - destruct (slot_k s a 4) as [hs2|] eqn:E2; [|auto with c16]. cbn [fst].
      apply rawA_push_slot; [apply rawA_refl|]. apply AllOk_refs.
      intros h Hh. apply in_app_or in Hh as [Hh|Hh]; [apply (slot_k_AllOk _ _ _ Hi E h Hh)|apply (slot_k_AllOk _ _ _ (Ha Eb) E2 h Hh)].
    - cbn [fst]. apply rawA_push_slot; [apply rawA_refl|]. apply AllOk_refs. exact (slot_k_AllOk _ _ _ Hi E).
  Qed.

  Lemma raw_take nl : RawA (fst (ex_take s i nl)).
  Proof.
    unfold ex_take. destruct (get_slot s i) as [o|] eqn:E; [|auto with c16].
    destruct (_ || _); [|auto with c16].
    pose proof (get_slot_AllOk i o Hi E) as A0.
    destruct (ohs o) as [|v [|n [|]]] eqn:Eh; auto with c16; destruct nl; auto with c16; cbn [fst];
      (app_set; [apply rawA_refl|]); destruct (okind o =? 4); one_ref;
      first [apply (A0 v); left; reflexivity | apply (A0 n); right; left; reflexivity].
  Qed.

  (* operations with a second operand slot *)
  Section Binary.
  Variable a : nat.
  Hypothesis Ha : incl (acts s a) A.

  Lemma raw_stream_new_c b : RawA (fst (ex_stream_new s i a b)).
  Proof. Abort.

  Hypothesis Hta : In a T.
  Lemma raw_wrap_arr b : RawA (fst (ex_wrap_arr s i a b)).
  Proof.
    unfold ex_wrap_arr. destruct (slot_1 s i 1) as [h|] eqn:E; [|auto with c16].
    destruct (_ && _); [|auto with c16]. destruct (b =? 1).
    - destruct (slot_1 s a 5) as [n|] eqn:En; [|auto with c16]. destruct (_ && _); [|auto with c16]. cbn [fst].
      app_set; [|intros ? []]. app_set; [apply rawA_refl|].
      one_ref; [eapply (slot_1_Ok i); eauto|eapply (slot_1_Ok a); eauto].
    - cbn [fst]. app_set; [apply rawA_refl|]. one_ref. eapply (slot_1_Ok i); eauto.
  Qed.
  Lemma raw_wrap_barr b : RawA (fst (ex_wrap_barr s i a b)).
  Proof.
    unfold ex_wrap_barr. destruct (slot_1 s i 5) as [h|] eqn:E; [|auto with c16]. destruct (b =? 1).
    - destruct (slot_1 s a 5) as [n|] eqn:En; [|auto with c16]. destruct (_ && _); [|auto with c16]. cbn [fst].
      app_set; [|intros ? []]. app_set; [apply rawA_refl|].
      one_ref; [eapply (slot_1_Ok i); eauto|eapply (slot_1_Ok a); eauto].
    - cbn [fst]. app_set; [apply rawA_refl|]. one_ref. eapply (slot_1_Ok i); eauto.
  Qed.
  End Binary.
  End Unary1.
End Ops.

(* the references an operation may duplicate / the slots it may overwrite *)
Definition opA (s : state) (p : op) : list nat :=
  match o_code p with
  | 0 | 1 | 2 => []
  | 11 | 13 => acts s (o_a p) ++ acts s (o_b p)
  | 23 => acts s (o_a p) ++ (if o_c p =? 1 then acts s (o_b p) else [])
  | _ => acts s (o_a p)
  end.
Definition opT (p : op) : list nat :=
  match o_code p with
  | 0 | 1 | 2 => []
  | 11 | 13 => [o_a p; o_b p]
  | _ => [o_a p]
  end.

Lemma acts_incl s i : incl (acts s i) (all_refs s).
Proof.
  intros id H. unfold acts in H. unfold all_refs. apply in_or_app. left.
  destruct (nth_error (slots s) i) as [so|] eqn:E.
  - rewrite (nth_error_nth _ _ _ E) in H. eapply in_flat_map_nth; eauto.
  - rewrite nth_overflow in H by (apply nth_error_None; exact E). destruct H.
Qed.
Lemma opA_incl s p : incl (opA s p) (all_refs s).
Proof.
  unfold opA. destruct (o_code p) as [|[|[|[|[|[|[|[|[|[|[|[|[|[|[|[|[|[|[|[|[|[|[|[|c]]]]]]]]]]]]]]]]]]]]]]]];
    try (intros ? []); try apply acts_incl; apply incl_app; try apply acts_incl; destruct (o_c p =? 1); [apply acts_incl|intros ? []].
Qed.

Theorem exec_rawA s p : Inv s -> RawA s (opA s p) (opT p) (fst (exec s p)).
Proof.
  intros I. pose proof (opA_incl s p) as HA. revert HA.
  unfold exec, opA, opT. destruct p as [cd a b c tid data zb zc]. cbn [o_code o_a o_b o_c o_data o_zb o_zc].
  do 28 (destruct cd as [|cd];
    [intros HA;
     first [apply raw_new_std | apply raw_new_cust | apply raw_new_mut | apply raw_clone | apply raw_slice | apply raw_drop
           | apply raw_into_mutable | apply raw_freeze | apply raw_into_vec | apply raw_wrap_arr | apply raw_wrap_bits
           | apply raw_wrap_barr | apply raw_unary | apply raw_finish | apply raw_write | apply raw_bit_assign
           | apply raw_ex_export | apply raw_ex_import | apply raw_claim | (apply raw_stream_new; [| |intros ->]) | apply raw_stream_next
           | apply raw_ex_truncate | apply raw_take | (destruct (slot_k s a 2); apply raw_write)];
     auto with datatypes|]).
  intros HA. apply rawA_refl; auto.
Qed.

Theorem exec_raw s p : Inv s -> Raw s (fst (exec s p)).
Proof. intros I. apply (ra_raw _ _ _ _ (exec_rawA s p I)). Qed.

Theorem step_inv s p : Inv s -> Inv (step s p).
Proof. intros I. unfold step. apply settle_inv; [exact I|apply exec_raw; exact I]. Qed.

Lemma init_inv : Inv init.
Proof.
  constructor.
  - intros id [].
  - intros id n H. destruct id; discriminate.
  - intros id n H. destruct id; discriminate.
  - intros id n r H. destruct id; discriminate.
  - reflexivity.
Qed.

Theorem run_inv ops : forall s, Inv s -> Inv (run ops s).
Proof. induction ops as [|p t IH]; intros s I; [exact I|]. cbn. apply IH. apply step_inv. exact I. Qed.
