(* C02 — row-wise kernels commute with row selection whenever the kernel succeeds on the whole input. *)
From Coq Require Import List Arith NArith ZArith Bool Lia.
From AV Require Import Base.ListX Model.C09_Layout Model.C02_Logical Model.C02_Rows.
Import ListNotations.

Lemma try_map_rows_nth f xs ys : try_map_rows f xs = Some ys ->
  length ys = length xs /\ forall i, i < length xs -> f (nth i xs LNull) = Some (nth i ys LNull).
Proof.
  revert ys. induction xs as [|x r IH]; intros ys H; cbn [try_map_rows] in H.
  - injection H as <-. split; [reflexivity | intros i Hi; cbn [length] in Hi; lia].
  - destruct (f x) as [y|] eqn:Ex; [|discriminate]. destruct (try_map_rows f r) as [ys'|] eqn:Er; [|discriminate].
    injection H as <-. destruct (IH ys' eq_refl) as [Hl Hn]. split; [cbn [length]; lia|].
    intros i Hi. destruct i as [|i]; cbn [nth]; [exact Ex|]. apply Hn. cbn [length] in Hi. lia.
Qed.

Lemma try_map_rows_build f xs ys : length ys = length xs ->
  (forall i, i < length xs -> f (nth i xs LNull) = Some (nth i ys LNull)) -> try_map_rows f xs = Some ys.
Proof.
  revert ys. induction xs as [|x r IH]; intros [|y ys] Hl H; cbn [length] in Hl; try discriminate; [reflexivity|].
  cbn [try_map_rows]. pose proof (H 0 ltac:(cbn [length]; lia)) as H0. cbn [nth] in H0. rewrite H0.
  rewrite (IH ys ltac:(lia)); [reflexivity|]. intros i Hi. apply (H (S i)). cbn [length]. lia.
Qed.

Lemma nth_map_default {A B} (f : A -> B) l d d' i : i < length l -> nth i (map f l) d' = f (nth i l d).
Proof. intros Hi. rewrite (nth_indep _ d' (f d)) by (now rewrite map_length). apply map_nth. Qed.

Theorem rowwise_commutes_take f xs ys idx :
  f LNull = Some LNull -> try_map_rows f xs = Some ys ->
  try_map_rows f (take_l xs idx) = Some (take_l ys idx).
Proof.
  intros Hnull H. destruct (try_map_rows_nth f xs ys H) as [Hl Hn].
  apply try_map_rows_build; [unfold take_l; now rewrite !map_length|].
  unfold take_l. rewrite map_length. intros i Hi.
  rewrite !(nth_map_default _ idx None LNull i Hi). destruct (nth i idx None) as [j|]; [|exact Hnull].
  destruct (Nat.lt_ge_cases j (length xs)) as [Hj|Hj]; [now apply Hn|].
  rewrite !nth_overflow by lia. exact Hnull.
Qed.

Theorem rowwise_commutes_slice f xs ys o n :
  try_map_rows f xs = Some ys -> try_map_rows f (slice_l xs o n) = Some (slice_l ys o n).
Proof.
  intros H. destruct (try_map_rows_nth f xs ys H) as [Hl Hn]. unfold slice_l.
  apply try_map_rows_build; [rewrite !firstn_length, !skipn_length; lia|].
  rewrite firstn_length, skipn_length. intros i Hi.
  rewrite !nth_firstn' by lia. rewrite !nth_skipn'. apply Hn. lia.
Qed.

Theorem rowwise_commutes_concat f xs1 xs2 ys1 ys2 :
  try_map_rows f xs1 = Some ys1 -> try_map_rows f xs2 = Some ys2 ->
  try_map_rows f (xs1 ++ xs2) = Some (ys1 ++ ys2).
Proof.
  revert ys1. induction xs1 as [|x r IH]; intros ys1 H1 H2; cbn [try_map_rows app] in *.
  - injection H1 as <-. exact H2.
  - destruct (f x) as [y|]; [|discriminate]. destruct (try_map_rows f r) as [ys'|] eqn:Er; [|discriminate].
    injection H1 as <-. now rewrite (IH ys' eq_refl H2).
Qed.

(* the converse for concat: if the kernel succeeds on the concatenation it succeeds on the parts *)
Theorem rowwise_concat_inv f xs1 xs2 ys :
  try_map_rows f (xs1 ++ xs2) = Some ys ->
  exists ys1 ys2, try_map_rows f xs1 = Some ys1 /\ try_map_rows f xs2 = Some ys2 /\ ys = ys1 ++ ys2.
Proof.
  revert ys. induction xs1 as [|x r IH]; intros ys H; cbn [try_map_rows app] in *.
  - exists [], ys. tauto.
  - destruct (f x) as [y|]; [|discriminate]. destruct (try_map_rows f (r ++ xs2)) as [ys'|] eqn:Er; [|discriminate].
    injection H as <-. destruct (IH ys' eq_refl) as (y1 & y2 & E1 & E2 & ->).
    exists (y :: y1), y2. rewrite E1. tauto.
Qed.
